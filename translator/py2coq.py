#!/usr/bin/env python3
"""py2coq -- fail-closed translator from a straight-line subset of Python to Gallina.

Numeric back end: Python int -> Z, float -> Q (exact), tuples -> Coq tuples,
exceptions -> the `res` monad of DV.lib.PyNum, for-loops over a list -> folds,
for-loops over fixed-length tuples / zip of them -> static unrolling.

Everything outside the supported subset raises TransError; the function is then
*absent* from the generated file, and every proof that mentions it breaks
(fail closed).  The spec of what to translate (types of parameters) lives in
spec.py.  The translator never looks at /verif's proofs.
"""
import ast
import copy
import fractions
import hashlib
import json
import os
import sys

# ----------------------------------------------------------------------------
# types
Q, Z, B, S, TAIL, NONE, ARR = 'Q', 'Z', 'bool', 'str', 'tail', 'none', 'arr'


def T(*ts):
    return ('tuple', tuple(ts))


def L(t):
    return ('list', t)


def OPT(t):
    return ('opt', t)


BOX = T(Q, Q, Q, Q, Q, Q)
KP = T(Q, Q, Q, Q, Q)
C6 = T(Z, Z, Z, Z, Z, Z)
NAMED_TYPES = {'box': BOX, 'kp': KP, 'c6': C6, 'Q': Q, 'Z': Z, 'bool': B, 'str': S,
               'boxes': L(BOX), 'kps': L(KP), 'q3': T(Q, Q, Q), 'q6': BOX,
               'optc6': OPT(C6), 'tail': TAIL, 'arr': ARR, 'holes': L(C6),
               'padw': T(T(Z, Z), T(Z, Z), T(Z, Z))}


def parse_type(t):
    if t == 'hdr':
        return 'hdr'
    if t == 'bmask':
        return 'bmask'
    if isinstance(t, str):
        if t in NAMED_TYPES:
            return NAMED_TYPES[t]
        if t.startswith('list:'):
            return L(parse_type(t[5:]))
        if t.startswith('opt:'):
            return OPT(parse_type(t[4:]))
        if t.startswith('tuple:'):
            return T(*[parse_type(x) for x in t[6:].split(',') if x])
        raise ValueError('unknown type name ' + t)
    return t


def coq_type(t):
    if t == Q:
        return 'Q'
    if t == Z:
        return 'Z'
    if t == B:
        return 'bool'
    if t == S:
        return 'string'
    if t == TAIL:
        return 'unit'
    if t == ARR:
        return 'view'
    if t == 'hdr':
        return 'header'
    if t == 'bmask':
        return 'bmask'
    if t == NONE:
        return 'unit'
    if t[0] == 'tuple':
        if len(t[1]) == 0:
            return 'unit'
        if len(t[1]) == 1:
            return coq_type(t[1][0])
        return '(' + ' * '.join(coq_type(x) for x in t[1]) + ')%type'
    if t[0] == 'list':
        return '(list ' + coq_type(t[1]) + ')'
    if t[0] == 'opt':
        return '(option ' + coq_type(t[1]) + ')'
    raise ValueError(t)


class TransError(Exception):
    pass


# DICOM header dict: key -> (projection, type, setter); every other key lives in the opaque h_rest token
HDR_FIELDS = {'PixelSpacing': ('h_spacing', T(Q, Q), 'hdr_set_spacing'),
              'RescaleSlope': ('h_slope', Q, 'hdr_set_slope'),
              'RescaleIntercept': ('h_intercept', Q, 'hdr_set_intercept')}


# types of transform-method parameters / parameter-dict entries / instance attributes, by name
NAME_TYPES = {
    'img': 'arr', 'image': 'arr', 'mask': 'arr', 'bbox': 'box', 'keypoint': 'kp', 'dicom': 'hdr',
    'rows': 'Z', 'cols': 'Z', 'slices': 'Z', 'factor': 'Z', 'axes': 'str', 'd': 'Z',
    'h_start': 'Q', 'w_start': 'Q', 'd_start': 'Q', 'crop_height': 'Z', 'crop_width': 'Z', 'crop_depth': 'Z',
    'x_min': 'Z', 'y_min': 'Z', 'z_min': 'Z', 'x_max': 'Z', 'y_max': 'Z', 'z_max': 'Z',
    'pad_top': 'Z', 'pad_bottom': 'Z', 'pad_left': 'Z', 'pad_right': 'Z', 'pad_front': 'Z', 'pad_back': 'Z',
    'interpolation': 'Z', 'scale': 'Q', 'scale_x': 'Q', 'scale_y': 'Q', 'scale_z': 'Q', 'max_size': 'Z',
    'angle': 'Q', 'dx': 'Q', 'dy': 'Q', 'dz': 'Q', 'holes': 'holes', 'fill_value': 'Q', 'mask_fill_value': 'opt:Q',
    'crop_params': 'optc6', 'pad_params': 'optc6', 'pad_value': 'Q', 'pad_value_mask': 'Q',
    'result_rows': 'Z', 'result_cols': 'Z', 'result_slices': 'Z',
    'height': 'Z', 'width': 'Z', 'depth': 'Z', 'border_mode': 'str', 'value': 'Q', 'mask_value': 'Q',
    'min_height': 'opt:Z', 'min_width': 'opt:Z', 'min_depth': 'opt:Z',
    'pad_height_divisor': 'opt:Z', 'pad_width_divisor': 'opt:Z', 'pad_depth_divisor': 'opt:Z',
    'keep_size': 'bool', 'crop_to_border': 'bool', 'rotate_method': 'str', 'pad_mode': 'str',
    'slope': 'Q', 'intercept': 'Q', 'space_x': 'Q', 'space_y': 'Q',
    'drop_mask': 'bmask', 'drop_value': 'Q',
}
NAME_TYPES_P = {}


COQ_RESERVED = {'at', 'in', 'end', 'fix', 'return', 'as', 'fun', 'let', 'match', 'with',
                'if', 'then', 'else', 'forall', 'exists', 'Type', 'Set', 'Prop', 'where',
                'using', 'for', 'cofix', 'struct', 'do'}


def vname(n):
    """Python local -> Coq identifier (prefixed so that it can never capture a global)."""
    if n.startswith('@self_'):
        return n[1:]
    return 'v_' + n


# ----------------------------------------------------------------------------
# must/may assignment analysis

def targets_of(t):
    if isinstance(t, ast.Name):
        return {t.id}
    if isinstance(t, (ast.Tuple, ast.List)):
        s = set()
        for e in t.elts:
            s |= targets_of(e)
        return s
    if isinstance(t, ast.Starred):
        return targets_of(t.value)
    if isinstance(t, ast.Subscript) and isinstance(t.value, ast.Name):
        return {t.value.id}       # img[...] = v  updates img
    return set()


def is_append(st):
    return (isinstance(st, ast.Expr) and isinstance(st.value, ast.Call)
            and isinstance(st.value.func, ast.Attribute) and st.value.func.attr == 'append'
            and isinstance(st.value.func.value, ast.Name))


def may_assign(stmts):
    s = set()
    for st in stmts:
        if isinstance(st, ast.Assign):
            for t in st.targets:
                s |= targets_of(t)
        elif isinstance(st, ast.AnnAssign):
            if st.value is not None:
                s |= targets_of(st.target)
        elif isinstance(st, ast.AugAssign):
            s |= targets_of(st.target)
        elif isinstance(st, ast.If):
            s |= may_assign(st.body) | may_assign(st.orelse)
        elif isinstance(st, ast.For):
            s |= may_assign(st.body) | targets_of(st.target)
        elif is_append(st):
            s.add(st.value.func.value.id)
    return s


def terminates(stmts):
    if not stmts:
        return False
    last = stmts[-1]
    if isinstance(last, (ast.Return, ast.Raise, ast.Continue)):
        return True
    if isinstance(last, ast.If):
        return terminates(last.body) and terminates(last.orelse)
    return False


def must_assign(stmts):
    s = set()
    for st in stmts:
        if isinstance(st, ast.Assign):
            for t in st.targets:
                s |= targets_of(t)
        elif isinstance(st, ast.AnnAssign) and st.value is not None:
            s |= targets_of(st.target)
        elif isinstance(st, ast.If):
            a = must_assign(st.body)
            b = must_assign(st.orelse)
            if terminates(st.body):
                s |= b
            elif terminates(st.orelse):
                s |= a
            else:
                s |= (a & b)
    return s


# ----------------------------------------------------------------------------

class FnSpec:
    def __init__(self, name, params, ret=None, kind='func', cls=None, self_attrs=None,
                 coq_name=None, wrapper_of=None):
        self.name = name
        self.params = [(p, parse_type(t)) for p, t in params]
        self.ret = parse_type(ret) if ret is not None else None
        self.kind = kind
        self.cls = cls
        self.self_attrs = {k: parse_type(v) for k, v in (self_attrs or {}).items()}
        self.coq_name = coq_name or name
        self.raises = False
        self.node = None
        self.defaults = {}
        self.wrapper_of = wrapper_of
        self.kwrest = None          # names carried by the method's **params (class methods)
        self.has_kwargs = False     # the Python function accepts **kwargs
        self.local_defaults = {}    # formals that are never supplied by the parameter dict: name -> default AST
        self.never_supplied = []    # formals without default that the parameter dict never supplies


class Expr:
    """A translated expression: Coq text, type, and the monadic bindings that must
    be executed before it (list of (pattern, monadic Coq term))."""

    def __init__(self, code, ty, binds=None, const=None, nz=False):
        self.code = code
        self.ty = ty
        self.binds = binds or []
        self.const = const  # python constant value when statically known
        # syntactically a non-zero constant (non-zero literal, pi, products / quotients of such)
        self.nz = nz or (const is not None and not isinstance(const, (bool, str)) and const != 0)


class FnTranslator:
    def __init__(self, mod, spec, registry):
        self.mod = mod
        self.spec = spec
        self.registry = registry  # name -> FnSpec for callable translated functions
        self.tmp = 0
        self.draws = []            # [(coq name, type)] oracle parameters in source order
        self.loop_draws = None     # inside a `for _ in range(n)` loop: draws of one iteration
        self.ensure = None
        self.effect_used = False
        self.nzvars = set()
        self.ret_ty = spec.ret
        self.monadic = spec.raises

    def fresh(self, base='t'):
        self.tmp += 1
        return 'tmp_%s%d' % (base, self.tmp)

    # -------- coercions
    def coerce(self, e, ty):
        if e.ty == ty:
            return e
        if e.ty == Z and ty == Q:
            if isinstance(e.const, int) and not isinstance(e.const, bool):
                return Expr('(%d)' % e.const, Q, e.binds, e.const)
            if getattr(e, 'qcode', None):
                return Expr(e.qcode, Q, e.binds, e.const, nz=e.nz)
            return Expr(self.inj(e.code, getattr(e, 'zparts', None)), Q, e.binds, e.const, nz=e.nz)
        if e.ty == B and ty == Z:
            return Expr('(if %s then 1 else 0)%%Z' % e.code, Z, e.binds)
        if e.ty == NONE and isinstance(ty, tuple) and ty[0] == 'opt':
            return Expr('None', ty, e.binds)
        if isinstance(ty, tuple) and ty[0] == 'opt' and e.ty == ty[1]:
            return Expr('(Some %s)' % e.code, ty, e.binds)
        if isinstance(ty, tuple) and ty[0] == 'opt' and isinstance(e.ty, tuple) and e.ty[0] == 'tuple':
            inner = self.coerce(e, ty[1])
            return Expr('(Some %s)' % inner.code, ty, inner.binds)
        if (isinstance(e.ty, tuple) and isinstance(ty, tuple) and e.ty[0] == 'tuple'
                and ty[0] == 'tuple' and len(e.ty[1]) < len(ty[1])
                and all(x in (Z, Q) for x in e.ty[1] + ty[1])):
            names = [self.fresh('c') for _ in e.ty[1]]
            comps = [self.coerce(Expr(n, t0), t1).code for n, t0, t1 in zip(names, e.ty[1], ty[1])]
            comps += ['0'] * (len(ty[1]) - len(e.ty[1]))
            return Expr("(let '(%s) := %s in (%s))" % (', '.join(names), e.code, ', '.join(comps)),
                        ty, e.binds)
        if (isinstance(e.ty, tuple) and isinstance(ty, tuple) and e.ty[0] == 'tuple'
                and ty[0] == 'tuple' and len(e.ty[1]) == len(ty[1])):
            names = [self.fresh('c') for _ in ty[1]]
            comps = [self.coerce(Expr(n, t0), t1).code for n, t0, t1 in zip(names, e.ty[1], ty[1])]
            return Expr("(let '(%s) := %s in (%s))" % (', '.join(names), e.code, ', '.join(comps)),
                        ty, e.binds)
        if (isinstance(e.ty, tuple) and isinstance(ty, tuple) and e.ty[0] == 'list'
                and ty[0] == 'list' and e.ty[1] is None):
            return Expr(e.code, ty, e.binds)
        if (isinstance(e.ty, tuple) and isinstance(ty, tuple) and e.ty[0] == 'list'
                and ty[0] == 'list'):
            n = self.fresh('c')
            inner = self.coerce(Expr(n, e.ty[1]), ty[1])
            return Expr('(map (fun %s => %s) %s)' % (n, inner.code, e.code), ty, e.binds)
        raise TransError('cannot coerce %s to %s in %s' % (e.ty, ty, e.code))

    def inj(self, code, zparts=None):
        return '(inject_Z %s)' % code

    def unify(self, a, b):
        """common type of two expression types"""
        if a == b:
            return a
        if {a, b} == {Z, Q}:
            return Q
        if a == NONE and isinstance(b, tuple) and b[0] == 'opt':
            return b
        if b == NONE and isinstance(a, tuple) and a[0] == 'opt':
            return a
        if a == NONE:
            return OPT(b)
        if b == NONE:
            return OPT(a)
        if isinstance(a, tuple) and isinstance(b, tuple) and a[0] == b[0] == 'tuple' and len(a[1]) == len(b[1]):
            return T(*[self.unify(x, y) for x, y in zip(a[1], b[1])])
        if isinstance(a, tuple) and isinstance(b, tuple) and a[0] == b[0] == 'tuple' \
                and all(x in (Z, Q) for x in a[1] + b[1]):
            # Python tuples of different lengths in different branches: modelled by the
            # longest one, shorter ones padded with 0 (modelling convention, see DESIGN 3)
            n = max(len(a[1]), len(b[1]))
            pa = list(a[1]) + [Q] * (n - len(a[1]))
            pb = list(b[1]) + [Q] * (n - len(b[1]))
            return T(*[self.unify(x, y) for x, y in zip(pa, pb)])
        if isinstance(a, tuple) and isinstance(b, tuple) and a[0] == b[0] == 'list':
            if a[1] is None:
                return b
            if b[1] is None:
                return a
            return L(self.unify(a[1], b[1]))
        raise TransError('cannot unify %s and %s' % (a, b))

    # -------- expressions
    def num_lit(self, v):
        if isinstance(v, bool):
            return Expr('true' if v else 'false', B, const=v)
        if isinstance(v, int):
            return Expr('(%d)%%Z' % v, Z, const=v)
        if isinstance(v, float):
            fr = fractions.Fraction(repr(v))
            code = '(%d # %d)' % (fr.numerator, fr.denominator) if fr.denominator != 1 else '(%d)' % fr.numerator
            return Expr(code, Q, const=v)
        raise TransError('literal %r' % (v,))

    def expr(self, node, env):
        m = getattr(self, 'e_' + type(node).__name__, None)
        if m is None:
            raise TransError('unsupported expression %s at line %d' % (type(node).__name__, node.lineno))
        return m(node, env)

    def e_Constant(self, node, env):
        v = node.value
        if v is None:
            return Expr('tt', NONE, const=None)
        if isinstance(v, str):
            return Expr('"%s"%%string' % v.replace('"', '""'), S, const=v)
        return self.num_lit(v)

    def e_Name(self, node, env):
        if node.id in env:
            ty = env[node.id]
            if isinstance(ty, Expr):   # statically bound constant (unrolled loops)
                return ty
            if ty == L(None):
                return Expr('[]', ty)
            return Expr(vname(node.id), ty, nz=node.id in self.nzvars)
        if node.id in self.consts() and not isinstance(self.consts()[node.id], ast.Dict):
            return self.expr(self.consts()[node.id], {})
        if node.id in ('True', 'False'):
            return self.num_lit(node.id == 'True')
        if node.id in IMPORTED_CONSTS:
            return self.expr(IMPORTED_CONSTS[node.id], {})
        raise TransError('unbound name %s at line %d' % (node.id, node.lineno))

    def self_path(self, node, env):
        """dotted path of an attribute chain rooted at self (through aliases), or None"""
        if isinstance(node, ast.Name):
            if node.id == 'self':
                return ''
            b = env.get(node.id)
            if isinstance(b, tuple) and len(b) == 2 and b[0] == 'selfpath':
                return b[1]
            return None
        if isinstance(node, ast.Attribute):
            base = self.self_path(node.value, env)
            if base is None:
                return None
            return (base + '_' if base else '') + node.attr
        return None

    def e_Attribute(self, node, env):
        sp = self.self_path(node, env)
        if sp is not None:
            if sp in self.spec.self_attrs:
                return Expr('self_' + sp, env.get('@self_' + sp, self.spec.self_attrs[sp]))
            raise TransError('attribute self.%s is not declared in the spec (line %d)' % (sp, node.lineno))
        # Enum member of a nested Enum class: Cls.EnumName.MEMBER -> its string value
        if isinstance(node.value, ast.Attribute) and getattr(self.spec, 'cls_nodes', None):
            for c in self.spec.cls_nodes:
                for b in c.body:
                    if isinstance(b, ast.ClassDef) and b.name == node.value.attr:
                        for asg in b.body:
                            if isinstance(asg, ast.Assign) and isinstance(asg.targets[0], ast.Name) \
                                    and asg.targets[0].id == node.attr and isinstance(asg.value, ast.Constant):
                                return self.e_Constant(asg.value, env)
        if node.attr == 'shape':
            v = self.expr(node.value, env)
            if v.ty == ARR:
                return Expr('(vshape %s)' % v.code, T(Z, Z, Z), v.binds)
        if node.attr == 'ndim':
            v = self.expr(node.value, env)
            if v.ty in (ARR, 'bmask'):
                return self.num_lit(3)     # the channel axis is not modelled
        if isinstance(node.value, ast.Name):
            base = node.value.id
            if base in ('math', 'np', 'numpy') and node.attr == 'pi':
                return Expr('pi', Q, nz=True)
        raise TransError('unsupported attribute %s at line %d' % (ast.unparse(node), node.lineno))

    def e_Tuple(self, node, env):
        es = [self.expr(e, env) for e in node.elts]
        binds = sum([e.binds for e in es], [])
        return Expr('(' + ', '.join(e.code for e in es) + ')', T(*[e.ty for e in es]), binds)

    def e_List(self, node, env):
        es = [self.expr(e, env) for e in node.elts]
        binds = sum([e.binds for e in es], [])
        # a literal list is treated as a fixed-length tuple
        return Expr('(' + ', '.join(e.code for e in es) + ')', T(*[e.ty for e in es]), binds)

    def e_UnaryOp(self, node, env):
        e = self.expr(node.operand, env)
        if isinstance(node.op, ast.USub):
            if e.const is not None and not isinstance(e.const, bool):
                r = self.num_lit(-e.const)
                return r
            if e.ty == Z:
                return Expr('(- %s)%%Z' % e.code, Z, e.binds)
            if e.ty == Q:
                return Expr('(- %s)' % e.code, Q, e.binds)
        if isinstance(node.op, ast.UAdd) and e.ty in (Z, Q):
            return e
        if isinstance(node.op, ast.Not):
            e = self.truthy(e)
            return Expr('(negb %s)' % e.code, B, e.binds)
        raise TransError('unary op at line %d' % node.lineno)

    def truthy(self, e):
        if e.ty == B:
            return e
        if e.ty == Z:
            return Expr('(negb (Z.eqb %s 0))' % e.code, B, e.binds)
        if e.ty == Q:
            return Expr('(negb (Qeq_bool %s 0))' % e.code, B, e.binds)
        if isinstance(e.ty, tuple) and e.ty[0] == 'opt':
            return Expr('(match %s with Some _ => true | None => false end)' % e.code, B, e.binds)
        raise TransError('truthiness of type %s' % (e.ty,))

    def unopt(self, e):
        """arithmetic / comparison on an Optional value: None raises TypeError in Python"""
        if isinstance(e.ty, tuple) and e.ty[0] == 'opt' and e.ty[1] in (Z, Q):
            t = self.fresh('o')
            self.effect_used = True
            return Expr(t, e.ty[1], e.binds + [(t, '(match %s with Some o_ => Ok o_ | None => Raise TypeError end)' % e.code)])
        return e

    def e_BinOp(self, node, env):
        a = self.unopt(self.expr(node.left, env))
        b = self.unopt(self.expr(node.right, env))
        op = node.op
        binds = a.binds + b.binds
        # tuple + tail  /  tuple + tuple(tail)
        if isinstance(op, ast.Add) and (b.ty == TAIL):
            return Expr(a.code, a.ty, binds)
        if isinstance(op, ast.Add) and isinstance(a.ty, tuple) and a.ty[0] == 'tuple' \
                and isinstance(b.ty, tuple) and b.ty[0] == 'tuple':
            raise TransError('tuple concatenation at line %d' % node.lineno)
        if isinstance(op, (ast.BitOr, ast.BitAnd)) and isinstance(a.ty, tuple) and a.ty == b.ty \
                and a.ty[0] == 'tuple' and all(t == B for t in a.ty[1]):
            na, nb = self.tuple_components(a), self.tuple_components(b)
            sym = '||' if isinstance(op, ast.BitOr) else '&&'
            parts = ['(%s %s %s)' % (x, sym, y) for x, y in zip(na, nb)]
            return Expr("(let '(%s) := %s in let '(%s) := %s in (%s))"
                        % (', '.join(na), a.code, ', '.join(nb), b.code, ', '.join(parts)), a.ty, binds)
        if a.ty not in (Z, Q) or b.ty not in (Z, Q):
            raise TransError('arithmetic on %s, %s at line %d' % (a.ty, b.ty, node.lineno))
        if isinstance(op, (ast.Add, ast.Sub, ast.Mult)):
            sym = {ast.Add: '+', ast.Sub: '-', ast.Mult: '*'}[type(op)]
            if a.ty == Z and b.ty == Z:
                r = Expr('(%s %s %s)%%Z' % (a.code, sym, b.code), Z, binds,
                         nz=isinstance(op, ast.Mult) and a.nz and b.nz)
                # the same value as a rational expression (inject_Z is a ring morphism)
                r.qcode = '(%s %s %s)' % (self.coerce(a, Q).code, sym, self.coerce(b, Q).code)
                return r
            a2, b2 = self.coerce(a, Q), self.coerce(b, Q)
            return Expr('(%s %s %s)' % (a2.code, sym, b2.code), Q, binds,
                        nz=isinstance(op, ast.Mult) and a.nz and b.nz)
        if isinstance(op, ast.Div):
            a2, b2 = self.coerce(a, Q), self.coerce(b, Q)
            if b.nz:
                return Expr('(%s / %s)' % (a2.code, b2.code), Q, binds, nz=a.nz)
            t = self.fresh('q')
            return Expr(t, Q, binds + [(t, 'divq %s %s' % (a2.code, b2.code))])
        if isinstance(op, (ast.FloorDiv, ast.Mod)):
            if a.ty == Z and b.ty == Z:
                fn = 'Z.div' if isinstance(op, ast.FloorDiv) else 'Z.modulo'
                if b.nz:
                    return Expr('(%s %s %s)' % (fn, a.code, b.code), Z, binds)
                t = self.fresh('z')
                chk = 'divz' if isinstance(op, ast.FloorDiv) else 'modz'
                return Expr(t, Z, binds + [(t, '%s %s %s' % (chk, a.code, b.code))])
            if isinstance(op, ast.Mod):
                a2, b2 = self.coerce(a, Q), self.coerce(b, Q)
                if b.nz:
                    return Expr('(Qmodpos %s %s)' % (a2.code, b2.code), Q, binds)
                t = self.fresh('q')
                return Expr(t, Q, binds + [(t, 'modq %s %s' % (a2.code, b2.code))])
        if isinstance(op, ast.Pow) and b.const == 2:
            if a.ty == Z:
                return Expr('(%s * %s)%%Z' % (a.code, a.code), Z, binds)
            return Expr('(%s * %s)' % (a.code, a.code), Q, binds)
        raise TransError('binary op %s at line %d' % (type(op).__name__, node.lineno))

    def cmp1(self, op, a, b, lineno):
        if isinstance(op, (ast.Is, ast.IsNot)):
            if b.ty != NONE:
                raise TransError('`is` with non-None at line %d' % lineno)
            if a.ty == NONE:
                r = 'true'
            elif isinstance(a.ty, tuple) and a.ty[0] == 'opt':
                r = '(match %s with None => true | Some _ => false end)' % a.code
            else:
                r = 'false'
            if isinstance(op, ast.IsNot):
                r = '(negb %s)' % r
            return Expr(r, B)
        if isinstance(op, (ast.In, ast.NotIn)):
            if not (isinstance(b.ty, tuple) and b.ty[0] == 'tuple'):
                raise TransError('`in` needs a literal collection at line %d' % lineno)
            raise TransError('internal: in handled elsewhere')
        if a.ty == S and b.ty == S:
            if isinstance(op, ast.Eq):
                return Expr('(streq %s %s)' % (a.code, b.code), B)
            if isinstance(op, ast.NotEq):
                return Expr('(negb (streq %s %s))' % (a.code, b.code), B)
        if a.ty == B and b.ty == B and isinstance(op, (ast.Eq, ast.NotEq)):
            r = '(Bool.eqb %s %s)' % (a.code, b.code)
            return Expr(r if isinstance(op, ast.Eq) else '(negb %s)' % r, B)
        if isinstance(a.ty, tuple) and a.ty[0] == 'tuple' and isinstance(b.ty, tuple) and b.ty[0] == 'tuple' \
                and len(a.ty[1]) == len(b.ty[1]) and isinstance(op, (ast.Eq, ast.NotEq)):
            na, nb = self.tuple_components(a), self.tuple_components(b)
            parts = [self.cmp1(ast.Eq(), Expr(x, tx), Expr(y, ty_), lineno).code
                     for x, tx, y, ty_ in zip(na, a.ty[1], nb, b.ty[1])]
            r = "(let '(%s) := %s in let '(%s) := %s in (%s))" % (', '.join(na), a.code, ', '.join(nb), b.code,
                                                               ' && '.join(parts))
            return Expr(r if isinstance(op, ast.Eq) else '(negb %s)' % r, B)
        if not isinstance(op, (ast.Eq, ast.NotEq)):
            a, b = self.unopt(a), self.unopt(b)
        if a.ty in (Z, Q) and b.ty in (Z, Q):
            if a.ty == Z and b.ty == Z:
                f = {ast.Eq: 'Z.eqb %s %s', ast.NotEq: 'negb (Z.eqb %s %s)', ast.Lt: 'Z.ltb %s %s',
                     ast.LtE: 'Z.leb %s %s', ast.Gt: 'Z.gtb %s %s', ast.GtE: 'Z.geb %s %s'}[type(op)]
                return Expr('(' + f % (a.code, b.code) + ')', B)
            a2, b2 = self.coerce(a, Q), self.coerce(b, Q)
            f = {ast.Eq: 'Qeq_bool', ast.NotEq: 'Qne_bool', ast.Lt: 'Qlt_bool', ast.LtE: 'Qle_bool',
                 ast.Gt: 'Qgt_bool', ast.GtE: 'Qge_bool'}[type(op)]
            return Expr('(%s %s %s)' % (f, a2.code, b2.code), B)
        raise TransError('comparison of %s and %s at line %d' % (a.ty, b.ty, lineno))

    def vec_compare(self, node, env):
        left = self.expr(node.left, env)
        right = self.expr(node.comparators[0], env)
        names = self.tuple_components(left)
        parts = [self.cmp1(node.ops[0], Expr(n, t), right, node.lineno).code for n, t in zip(names, left.ty[1])]
        return Expr("(let '(%s) := %s in (%s))" % (', '.join(names), left.code, ', '.join(parts)),
                    T(*[B] * len(names)), left.binds + right.binds)

    def e_Compare(self, node, env):
        if len(node.ops) == 1 and not isinstance(node.ops[0], (ast.In, ast.NotIn, ast.Is, ast.IsNot)):
            l0 = self.expr(node.left, env)
            if isinstance(l0.ty, tuple) and l0.ty[0] == 'tuple' and all(t in (Z, Q) for t in l0.ty[1]):
                r0 = self.expr(node.comparators[0], env)
                if r0.ty in (Z, Q):
                    return self.vec_compare(node, env)
        operands = [node.left] + list(node.comparators)
        parts = []
        binds = []
        prev = self.expr(operands[0], env)
        binds += prev.binds
        for op, rhs in zip(node.ops, operands[1:]):
            if isinstance(op, (ast.In, ast.NotIn)):
                if isinstance(rhs, ast.Name) and rhs.id not in env and rhs.id in self.mod.get('_consts', {}):
                    rhs = self.mod['_consts'][rhs.id]
                if not isinstance(rhs, (ast.Set, ast.List, ast.Tuple)):
                    raise TransError('`in` with non-literal at line %d' % node.lineno)
                alts = []
                for el in rhs.elts:
                    ee = self.expr(el, env)
                    alts.append(self.cmp1(ast.Eq(), prev, ee, node.lineno).code)
                r = '(' + ' || '.join(alts) + ')' if alts else 'false'
                if isinstance(op, ast.NotIn):
                    r = '(negb %s)' % r
                parts.append(r)
                continue
            cur = self.expr(rhs, env)
            binds += cur.binds
            parts.append(self.cmp1(op, prev, cur, node.lineno).code)
            prev = cur
        code = parts[0] if len(parts) == 1 else '(' + ' && '.join(parts) + ')'
        return Expr(code, B, binds)

    def e_Dict(self, node, env):
        if not all(isinstance(k, ast.Constant) and isinstance(k.value, str) for k in node.keys):
            raise TransError('dict with non-literal keys at line %d' % node.lineno)
        keys = [k.value for k in node.keys]
        es = [self.expr(v, env) for v in node.values]
        # a declared key type (NAME_TYPES) fixes the representation, e.g. Z vs Q
        out = []
        for kname, e in zip(keys, es):
            want = NAME_TYPES_P.get(kname)
            if want is not None and want != e.ty:
                try:
                    e = self.coerce(e, want)
                except TransError:
                    pass
            out.append(e)
        if getattr(self.spec, 'ret_keys', None) not in (None, keys):
            raise TransError('the method returns dicts with different key sets at line %d' % node.lineno)
        self.spec.ret_keys = keys
        binds = sum([e.binds for e in out], [])
        if len(out) == 1:
            return Expr(out[0].code, T(out[0].ty), binds)
        return Expr('(' + ', '.join(e.code for e in out) + ')', T(*[e.ty for e in out]), binds)

    def e_ListComp(self, node, env):
        if len(node.generators) != 1 or not isinstance(node.generators[0].target, ast.Name):
            raise TransError('unsupported comprehension at line %d' % node.lineno)
        g = node.generators[0]
        it = self.expr(g.iter, env)
        if not (isinstance(it.ty, tuple) and it.ty[0] == 'list'):
            raise TransError('comprehension over %s at line %d' % (it.ty, node.lineno))
        env2 = dict(env)
        env2[g.target.id] = it.ty[1]
        if g.ifs:
            # [x for x in l if c(x)] with a pure condition: List.filter (order preserved)
            if not (isinstance(node.elt, ast.Name) and node.elt.id == g.target.id):
                raise TransError('filtering comprehension with a mapped element at line %d' % node.lineno)
            conds = [self.truthy(self.expr(c, env2)) for c in g.ifs]
            if any(c.binds for c in conds):
                raise TransError('effects in a comprehension filter at line %d' % node.lineno)
            v = vname(g.target.id)
            return Expr('(List.filter (fun %s : %s => %s) %s)' % (v, coq_type(it.ty[1]), ' && '.join(c.code for c in conds),
                                                                 it.code), it.ty, it.binds)
        body = self.expr(node.elt, env2)
        v = vname(g.target.id)
        if body.binds:
            self.effect_used = True
            t = self.fresh('l')
            fn = '(fun %s : %s => %s)' % (v, coq_type(it.ty[1]), self.wrap_binds(body))
            return Expr(t, L(body.ty), it.binds + [(t, 'map_res %s %s' % (fn, it.code))])
        return Expr('(map (fun %s : %s => %s) %s)' % (v, coq_type(it.ty[1]), body.code, it.code), L(body.ty), it.binds)

    def e_Set(self, node, env):
        raise TransError('set literal outside `in` at line %d' % node.lineno)

    def e_BoolOp(self, node, env):
        es = [self.truthy(self.expr(v, env)) for v in node.values]
        sym = ' && ' if isinstance(node.op, ast.And) else ' || '
        if all(not e.binds for e in es[1:]):
            return Expr('(' + sym.join(e.code for e in es) + ')', B, es[0].binds)
        # later operands have effects (checked division ...): respect short-circuit
        cur = es[-1]
        for e in reversed(es[:-1]):
            cur = self.lazy_if(e, cur, Expr('false', B), B) if isinstance(node.op, ast.And) \
                else self.lazy_if(e, Expr('true', B), cur, B)
        return cur

    def wrap_binds(self, e):
        """monadic term computing e (binds followed by Ok e)"""
        binds = list(e.binds)
        if binds:
            self.effect_used = True
        if binds and binds[-1][0] == e.code:
            code = '(%s)' % binds[-1][1]      # do t <- m; Ok t   ==   m
            binds = binds[:-1]
        else:
            code = 'Ok %s' % e.code
        for pat, m in reversed(binds):
            code = "(do %s <- %s; %s)" % (pat, m, code)
        return code

    def lazy_if(self, c, a, b, ty):
        a, b = self.coerce(a, ty), self.coerce(b, ty)
        if not a.binds and not b.binds:
            return Expr('(if %s then %s else %s)' % (c.code, a.code, b.code), ty, c.binds)
        t = self.fresh('i')
        m = '(if %s then %s else %s)' % (c.code, self.wrap_binds(a), self.wrap_binds(b))
        return Expr(t, ty, c.binds + [(t, m)])

    def e_IfExp(self, node, env):
        # a test decided by the declared types alone (isinstance of a typed attribute) selects its branch
        sb = self.static_bool(node.test, env)
        if sb is not None:
            return self.expr(node.body if sb else node.orelse, env)
        c = self.truthy(self.expr(node.test, env))
        a = self.expr(node.body, env)
        b = self.expr(node.orelse, env)
        ty = self.unify(a.ty, b.ty)
        return self.lazy_if(c, a, b, ty)

    def tuple_components(self, e):
        """names for the components of a tuple-typed expression"""
        assert e.ty[0] == 'tuple'
        names = [self.fresh('p') for _ in e.ty[1]]
        return names

    def slice_opt(self, b, env):
        if b is None:
            return Expr('None', OPT(Z))
        e = self.expr(b, env)
        if e.ty != Z:
            raise TransError('non-integer slice bound at line %d' % b.lineno)
        return Expr('(Some %s)' % e.code, OPT(Z), e.binds)

    def arr_slices(self, sl, env, lineno):
        """-> (list of 3 (lo, hi) option exprs, list of reversed axes, binds)"""
        elts = list(sl.elts) if isinstance(sl, ast.Tuple) else [sl]
        elts = [e for e in elts if not (isinstance(e, ast.Constant) and e.value is Ellipsis)]
        if len(elts) > 3:
            raise TransError('more than three array subscripts at line %d' % lineno)
        bounds, rev, binds = [], [], []
        for a in range(3):
            if a >= len(elts):
                bounds.append(('None', 'None'))
                continue
            e = elts[a]
            if not isinstance(e, ast.Slice):
                raise TransError('integer array indexing at line %d' % lineno)
            if e.step is not None:
                if self.const_int(e.step) != -1 or e.lower is not None or e.upper is not None:
                    raise TransError('unsupported slice step at line %d' % lineno)
                rev.append(a)
                bounds.append(('None', 'None'))
                continue
            lo, hi = self.slice_opt(e.lower, env), self.slice_opt(e.upper, env)
            binds += lo.binds + hi.binds
            bounds.append((lo.code, hi.code))
        return bounds, rev, binds

    def e_Subscript(self, node, env):
        if isinstance(node.value, ast.Name) and node.value.id not in env \
                and isinstance(self.consts().get(node.value.id), ast.Dict):
            return self.dict_lookup(self.consts()[node.value.id], node.slice, env, node.lineno)
        if isinstance(node.value, ast.Attribute) and isinstance(node.value.value, ast.Name) \
                and node.value.value.id == 'self' and getattr(self.spec, 'cls_nodes', None):
            nm = node.value.attr
            for c in self.spec.cls_nodes:
                for b in c.body:
                    if isinstance(b, ast.FunctionDef) and b.name in (nm, '_%s%s' % (c.name, nm)) \
                            and len(b.body) >= 1 and isinstance(b.body[-1], ast.Return) \
                            and isinstance(b.body[-1].value, ast.Dict):
                        return self.dict_lookup(b.body[-1].value, node.slice, env, node.lineno)
        if isinstance(node.value, ast.Name) and node.value.id == 'params' and getattr(self.spec, 'sampler', False) \
                and isinstance(node.slice, ast.Attribute) and self.self_path(node.slice, env) is not None:
            key = 'tgt_' + self.self_path(node.slice, env)       # params[self.<key attribute>]
            if key in env:
                return Expr(vname(key), env[key])
            raise TransError('sampler reads params[self.%s], which the spec does not declare' % key[4:])
        if isinstance(node.value, ast.Name) and node.value.id == 'params' and getattr(self.spec, 'sampler', False) \
                and isinstance(node.slice, ast.Constant) and isinstance(node.slice.value, str):
            key = 'tgt_' + node.slice.value
            if key in env:
                return Expr(vname(key), env[key])
            raise TransError('sampler reads params[%r], which the spec does not declare' % node.slice.value)
        if isinstance(node.value, ast.Name) and node.value.id in ('params', 'kwargs') \
                and self.spec.kwrest is not None and isinstance(node.slice, ast.Constant) \
                and isinstance(node.slice.value, str):
            key = node.slice.value
            if key in self.spec.kwrest and key in env:
                return self.expr(ast.Name(id=key, ctx=ast.Load(), lineno=node.lineno), env)
            self.effect_used = True
            t_ = self.fresh('x')
            return Expr(t_, Z, [(t_, 'Raise KeyError')])
        v = self.expr(node.value, env)
        sl = node.slice
        if v.ty == 'hdr':
            if not (isinstance(sl, ast.Constant) and sl.value in HDR_FIELDS):
                raise TransError('header key at line %d' % node.lineno)
            fld, fty, _ = HDR_FIELDS[sl.value]
            return Expr('(%s %s)' % (fld, v.code), fty, v.binds)
        if v.ty == ARR:
            bounds, rev, binds = self.arr_slices(sl, env, node.lineno)
            code = v.code
            if any(b != ('None', 'None') for b in bounds):
                code = '(v_slice3 %s %s)' % (' '.join('(%s, %s)' % b for b in bounds), code)
            for a in rev:
                code = '(v_rev %d %s)' % (a, code)
            return Expr(code, ARR, v.binds + binds)
        if isinstance(v.ty, tuple) and v.ty[0] == 'tuple':
            n = len(v.ty[1])
            if isinstance(sl, ast.Slice):
                lo = 0 if sl.lower is None else self.const_int(sl.lower)
                hi = n if sl.upper is None else min(n, self.const_int(sl.upper))
                if sl.step is not None:
                    raise TransError('slice step')
                if lo == 0 and hi == n:
                    return v
                if sl.upper is None and lo >= 1:
                    # open-ended suffix of an annotation tuple: the opaque tail of extra fields
                    return Expr('tt', TAIL, v.binds)
                names = self.tuple_components(v)
                sel = names[lo:hi]
                return Expr("(let '(%s) := %s in (%s))" % (', '.join(names), v.code, ', '.join(sel)),
                            T(*v.ty[1][lo:hi]), v.binds)
            idx = self.const_int(sl)
            if idx < 0:
                idx += n
            if not 0 <= idx < n:
                raise TransError('tuple index out of range at line %d' % node.lineno)
            names = self.tuple_components(v)
            return Expr("(let '(%s) := %s in %s)" % (', '.join(names), v.code, names[idx]),
                        v.ty[1][idx], v.binds)
        raise TransError('subscript of %s at line %d' % (v.ty, node.lineno))

    def consts(self):
        d = dict(self.mod.get('_global_consts', {}))
        d.update(self.mod.get('_consts', {}))
        return d

    def dict_lookup(self, dnode, key, env, lineno):
        k = self.expr(key, env)
        if k.ty != S:
            raise TransError('dict lookup with non-string key at line %d' % lineno)
        vals = [self.expr(v, env) for v in dnode.values]
        keys = [self.expr(kk, env) for kk in dnode.keys]
        if not vals or any(v.ty != vals[0].ty for v in vals):
            raise TransError('heterogeneous dict at line %d' % lineno)
        code = 'Raise KeyError'
        for kk, vv in reversed(list(zip(keys, vals))):
            code = '(if streq %s %s then Ok %s else %s)' % (k.code, kk.code, vv.code, code)
        t = self.fresh('d')
        return Expr(t, vals[0].ty, k.binds + [(t, code)])

    def const_int(self, node):
        if isinstance(node, ast.Constant) and isinstance(node.value, int):
            return node.value
        if isinstance(node, ast.UnaryOp) and isinstance(node.op, ast.USub):
            return -self.const_int(node.operand)
        raise TransError('expected integer constant')

    # -------- calls
    def e_Call(self, node, env):
        f = node.func
        fname = None
        if isinstance(f, ast.Name):
            fname = f.id
        elif isinstance(f, ast.Attribute) and isinstance(f.value, ast.Name):
            fname = f.value.id + '.' + f.attr
        elif isinstance(f, ast.Attribute):
            fname = '<expr>.' + f.attr
        else:
            raise TransError('unsupported call %s at line %d' % (ast.unparse(f), node.lineno))
        args = node.args
        # --- random draws become oracle parameters (source order)
        if fname in ('random.random', 'random.randint', 'random.uniform', 'random.choice'):
            return self.draw_call(fname, node, env)
        # --- casts / identities
        if fname in ('cast', 'typing.cast'):
            return self.expr(args[1], env)
        if fname in ('tuple', 'list') and len(args) == 1:
            return self.expr(args[0], env)
        if fname == 'float' and len(args) == 1:
            return self.coerce(self.expr(args[0], env), Q)
        if fname == 'int' and len(args) == 1:
            e = self.expr(args[0], env)
            if e.ty == Z:
                return e
            if e.ty == Q:
                return Expr('(py_int %s)' % e.code, Z, e.binds)
        if fname == 'round' and len(args) == 1:
            e = self.expr(args[0], env)
            if e.ty == Z:
                return e
            return Expr('(py_round %s)' % e.code, Z, e.binds)
        if fname == 'abs' and len(args) == 1:
            e = self.expr(args[0], env)
            if e.ty == Z:
                return Expr('(Z.abs %s)' % e.code, Z, e.binds)
            return Expr('(Qabs %s)' % e.code, Q, e.binds)
        if fname in ('min', 'max', 'np.min', 'np.max'):
            es = [self.expr(a, env) for a in args]
            if len(es) == 1 and isinstance(es[0].ty, tuple) and es[0].ty[0] == 'tuple':
                arg = args[0]
                if isinstance(arg, (ast.List, ast.Tuple)):
                    es = [self.expr(a, env) for a in arg.elts]
                else:
                    names = self.tuple_components(es[0])
                    inner = [Expr(n, t) for n, t in zip(names, es[0].ty[1])]
                    r = self.minmax(fname, inner)
                    return Expr("(let '(%s) := %s in %s)" % (', '.join(names), es[0].code, r.code),
                                r.ty, es[0].binds)
            return self.minmax(fname, es)
        if fname == 'np.clip' and len(args) == 3:
            x, lo, hi = [self.expr(a, env) for a in args]
            lo, hi = self.coerce(lo, Q), self.coerce(hi, Q)
            binds = x.binds + lo.binds + hi.binds
            if x.ty in (Z, Q):
                x = self.coerce(x, Q)
                return Expr('(clip %s %s %s)' % (x.code, lo.code, hi.code), Q, binds)
            if x.ty == BOX:
                return Expr('(box_map (fun c => clip c %s %s) %s)' % (lo.code, hi.code, x.code), BOX, binds)
        if fname == 'np.array' and len(args) == 1:
            return self.expr(args[0], env)
        if fname in ('np.ascontiguousarray',) and len(args) == 1:
            return self.expr(args[0], env)
        if fname == 'np.rot90':
            a = self.expr(args[0], env)
            k = self.expr(args[1], env) if len(args) > 1 else self.num_lit(1)
            ax = self.expr(args[2], env) if len(args) > 2 else None
            for kw in node.keywords:
                if kw.arg == 'k':
                    k = self.expr(kw.value, env)
                if kw.arg == 'axes':
                    ax = self.expr(kw.value, env)
            if a.ty != ARR or k.ty != Z or ax is None or ax.ty != T(Z, Z):
                raise TransError('np.rot90 arguments at line %d' % node.lineno)
            n1, n2 = self.fresh('a'), self.fresh('a')
            return Expr("(let '(%s, %s) := %s in v_rot90 %s (Z.to_nat %s) (Z.to_nat %s) %s)"
                        % (n1, n2, ax.code, k.code, n1, n2, a.code), ARR, a.binds + k.binds + ax.binds)
        if fname == 'isinstance':
            sb = self.static_bool(node, env)
            if sb is None:
                raise TransError('isinstance not decided by the declared types at line %d' % node.lineno)
            return Expr('true' if sb else 'false', B)
        if fname in ('np.zeros_like', 'np.full_like') and args:
            a = self.expr(args[0], env)
            if a.ty != ARR:
                raise TransError('%s of %s at line %d' % (fname, a.ty, node.lineno))
            val = Expr('0', Q) if fname == 'np.zeros_like' else self.coerce(self.expr(args[1], env), Q)
            return Expr('(v_full (vshape %s) %s)' % (a.code, val.code), ARR, a.binds + val.binds)
        if fname == 'np.where' and len(args) == 3:
            m_, a, b = [self.expr(x, env) for x in args]
            if m_.ty != 'bmask' or a.ty != ARR or b.ty != ARR:
                raise TransError('np.where argument types at line %d' % node.lineno)
            return Expr('(v_where %s %s %s)' % (m_.code, a.code, b.code), ARR, m_.binds + a.binds + b.binds)
        if fname == 'np.squeeze' and args:
            a = self.expr(args[0], env)
            if a.ty == 'bmask':
                return a                   # drops the (unmodelled) channel axis
        if fname == 'ndimage.zoom':
            kws = {kw.arg: kw.value for kw in node.keywords}
            a = self.expr(args[0], env)
            zn = kws.get('zoom', args[1] if len(args) > 1 else None)
            if a.ty != ARR or zn is None:
                raise TransError('ndimage.zoom arguments at line %d' % node.lineno)
            z = self.expr(zn, env)
            order = self.coerce(self.expr(kws['order'], env), Z) if 'order' in kws else Expr('(3)%Z', Z)
            if isinstance(z.ty, tuple) and z.ty[0] == 'tuple' and len(z.ty[1]) == 3:
                names = self.tuple_components(z)
                comps = [self.coerce(Expr(n, t), Q) for n, t in zip(names, z.ty[1])]
                code = "(let '(%s) := %s in v_zoom %s %s %s %s %s)" % (', '.join(names), z.code,
                                                                      comps[0].code, comps[1].code, comps[2].code, order.code, a.code)
                return Expr(code, ARR, a.binds + z.binds + order.binds)
            zq = self.coerce(z, Q)
            t = self.fresh('zf')
            return Expr('(let %s := %s in v_zoom %s %s %s %s %s)' % (t, zq.code, t, t, t, order.code, a.code), ARR,
                        a.binds + zq.binds + order.binds)
        if fname == 'np.pad':
            a = self.expr(args[0], env)
            kws = {kw.arg: kw.value for kw in node.keywords}
            pw = self.expr(kws['pad_width'] if 'pad_width' in kws else args[1], env)
            mode = self.expr(kws['mode'], env) if 'mode' in kws else Expr('"constant"%string', S)
            val = self.coerce(self.expr(kws['constant_values'], env), Q) if 'constant_values' in kws else Expr('0', Q)
            if a.ty != ARR or pw.ty != T(T(Z, Z), T(Z, Z), T(Z, Z)) or mode.ty != S:
                raise TransError('np.pad arguments at line %d' % node.lineno)
            t = self.fresh('v')
            return Expr(t, ARR, a.binds + pw.binds + mode.binds + val.binds +
                        [(t, 'np_pad %s %s %s %s' % (a.code, pw.code, mode.code, val.code))])
        if isinstance(f, ast.Attribute) and f.attr == 'astype' and len(args) == 1:
            try:
                b0 = self.expr(f.value, env)
            except TransError:
                b0 = None
            if b0 is not None and b0.ty in (Q, Z):
                dt = ast.unparse(args[0])
                if dt in ('np.float64', 'float', 'np.float32'):
                    return self.coerce(b0, Q)
                if dt == 'np.int16' and b0.ty == Z:
                    return Expr('(wrap_int16 %s)' % b0.code, Z, b0.binds)
                raise TransError('astype(%s) of a scalar %s at line %d' % (dt, b0.ty, node.lineno))
        if fname == 'np.rint' and len(args) == 1:
            e = self.coerce(self.expr(args[0], env), Q)
            return Expr('(py_round %s)' % e.code, Z, e.binds)     # integral-valued
        base = None
        if isinstance(f, ast.Attribute) and f.attr in ('copy', 'transpose'):
            try:
                base = self.expr(f.value, env)
            except TransError:
                base = None
        if base is not None:
            if base.ty == ARR and f.attr == 'copy':
                return base
            if base.ty == ARR and f.attr == 'transpose':
                perm = [self.const_int(x) for x in args]
                if len(perm) == 4:
                    if perm[3] != 3:
                        raise TransError('transpose moves the channel axis at line %d' % node.lineno)
                    perm = perm[:3]
                if sorted(perm) != [0, 1, 2]:
                    raise TransError('transpose permutation at line %d' % node.lineno)
                return Expr('(v_transpose %d %d %d %s)' % (perm[0], perm[1], perm[2], base.code), ARR, base.binds)
        if fname == '_maybe_process_by_channel' or fname == '_maybe_process_in_chunks':
            raise TransError('closure constructor used outside an assignment at line %d' % node.lineno)
        if isinstance(f, ast.Name) and isinstance(env.get(f.id), tuple) and env[f.id][0] == 'closure':
            _, fn_node, kwnodes = env[f.id]
            new = ast.Call(func=fn_node, args=list(args), keywords=list(kwnodes), lineno=node.lineno, col_offset=0)
            return self.e_Call(new, env)
        if fname in ('np.any', 'np.all') and len(args) == 1:
            v = self.expr(args[0], env)
            if isinstance(v.ty, tuple) and v.ty[0] == 'tuple' and all(t == B for t in v.ty[1]):
                names = self.tuple_components(v)
                sym = ' || ' if fname == 'np.any' else ' && '
                return Expr("(let '(%s) := %s in (%s))" % (', '.join(names), v.code, sym.join(names)), B, v.binds)
        if fname == 'np.isclose' and len(args) == 2:
            a, b = [self.coerce(self.expr(x, env), Q) for x in args]
            return Expr('(isclose %s %s)' % (a.code, b.code), B, a.binds + b.binds)
        if fname in ('math.radians', 'np.deg2rad', 'np.radians'):
            a = self.coerce(self.expr(args[0], env), Q)
            return Expr('(radians %s)' % a.code, Q, a.binds)
        if fname in ('math.degrees', 'np.rad2deg', 'np.degrees'):
            a = self.coerce(self.expr(args[0], env), Q)
            return Expr('(degrees %s)' % a.code, Q, a.binds)
        if fname == 'len' and len(args) == 1 and isinstance(args[0], ast.Attribute) and args[0].attr == 'shape':
            a0 = self.expr(args[0].value, env)
            if a0.ty == ARR:
                return self.num_lit(3)   # the channel axis is not modelled
        if fname == 'len' and len(args) == 1:
            a = self.expr(args[0], env)
            if isinstance(a.ty, tuple) and a.ty[0] == 'tuple':
                return self.num_lit(len(a.ty[1]))
            if isinstance(a.ty, tuple) and a.ty[0] == 'list':
                return Expr('(Z.of_nat (List.length %s))' % a.code, Z, a.binds)
        if fname in ('all', 'any') and len(args) == 1 and isinstance(args[0], ast.GeneratorExp):
            return self.quantifier(fname, args[0], env)
        # --- decorator pass-through: func(keypoint, *args, **kwargs)
        if fname == 'func' and self.spec.wrapper_of is not None:
            target = self.registry[self.spec.wrapper_of]
            argcodes = [vname(p) for p, _ in target.params]
            return self.emit_call(target, argcodes)
        # --- static methods of the same class called through the class name: Cls.m(...) is self.m(...)
        if self.spec.cls and getattr(self.spec, 'py_cls', None) and fname.startswith(self.spec.py_cls + '.'):
            fname = 'self.' + fname[len(self.spec.py_cls) + 1:]
        # --- methods of the same class: self.m(...)
        if fname.startswith('self.__') and self.spec.cls and (self.spec.cls + '_priv_' + fname[5:].lstrip('_')) in self.registry:
            target = self.registry[self.spec.cls + '_priv_' + fname[5:].lstrip('_')]
            return self.call_translated(target, node, env)
        if fname.startswith('self.__') and self.spec.cls and (self.spec.cls + '_' + fname[5:].lstrip('_')) in self.registry:
            target = self.registry[self.spec.cls + '_' + fname[5:].lstrip('_')]
            return self.call_translated(target, node, env)
        if fname.startswith('self._') and self.spec.cls and (self.spec.cls + '_' + fname[5:].lstrip('_')) in self.registry:
            target = self.registry[self.spec.cls + '_' + fname[5:].lstrip('_')]
            return self.call_translated(target, node, env)
        if fname.startswith('self.') and self.spec.cls and (self.spec.cls + '_' + fname[5:]) in self.registry:
            target = self.registry[self.spec.cls + '_' + fname[5:]]
            return self.call_translated(target, node, env)
        # --- other translated functions
        short = fname.split('.')[-1]
        if short not in self.registry and args and isinstance(args[-1], ast.Name) and args[-1].id in ('max', 'min') \
                and (short + '_' + args[-1].id) in self.registry and not node.keywords:
            # a function-valued argument bound to a builtin: call the specialisation translated for it
            target = self.registry[short + '_' + args[-1].id]
            new = ast.Call(func=node.func, args=list(args[:-1]), keywords=[], lineno=node.lineno, col_offset=0)
            return self.call_translated(target, new, env)
        if short in self.registry:
            target = self.registry[short]
            return self.call_translated(target, node, env)
        raise TransError('call to untranslated function %s at line %d' % (fname, node.lineno))

    def new_draw(self, ty):
        self.tmp += 0
        n = len(self.draws) + (len(self.loop_draws) if self.loop_draws is not None else 0) + 1
        if self.loop_draws is not None:
            name = 'it_d%d' % (len(self.loop_draws) + 1)
            self.loop_draws.append((name, ty))
        else:
            name = 'd_%d' % (len(self.draws) + 1)
            self.draws.append((name, ty))
        return name

    def draw_call(self, fname, node, env):
        if not self.monadic:
            raise TransError('random draw in a pure context')
        self.effect_used = True
        t = self.fresh('dr')
        if fname == 'random.random':
            d = self.new_draw(Q)
            return Expr(t, Q, [(t, 'draw_unit %s' % d)])
        if fname == 'random.randint':
            a, b = [self.expr(x, env) for x in node.args]
            if a.ty != Z or b.ty != Z:
                raise TransError('random.randint on non-integers at line %d' % node.lineno)
            d = self.new_draw(Z)
            return Expr(t, Z, a.binds + b.binds + [(t, 'draw_int %s %s %s' % (a.code, b.code, d))])
        if fname == 'random.uniform':
            args = node.args
            if len(args) == 1 and isinstance(args[0], ast.Starred):
                pair = self.expr(args[0].value, env)
                if pair.ty != T(Q, Q) and pair.ty != T(Z, Z):
                    raise TransError('random.uniform(*x) with x of type %s' % (pair.ty,))
                na, nb = self.fresh('p'), self.fresh('p')
                d = self.new_draw(Q)
                a2 = self.coerce(Expr(na, pair.ty[1][0]), Q).code
                b2 = self.coerce(Expr(nb, pair.ty[1][1]), Q).code
                return Expr(t, Q, pair.binds + [(t, "(let '(%s, %s) := %s in draw_uniform %s %s %s)"
                                               % (na, nb, pair.code, a2, b2, d))])
            a, b = [self.coerce(self.expr(x, env), Q) for x in args]
            d = self.new_draw(Q)
            return Expr(t, Q, a.binds + b.binds + [(t, 'draw_uniform %s %s %s' % (a.code, b.code, d))])
        if fname == 'random.choice':
            seq = self.expr(node.args[0], env)
            d = self.new_draw(Z)
            i = self.fresh('ix')
            if isinstance(seq.ty, tuple) and seq.ty[0] == 'list':
                return Expr(t, seq.ty[1], seq.binds + [(i, 'draw_index (Z.of_nat (List.length %s)) %s' % (seq.code, d)),
                                                        (t, 'nth_res %s %s' % (seq.code, i))])
            if isinstance(seq.ty, tuple) and seq.ty[0] == 'tuple' and len(set(seq.ty[1])) == 1:
                names = self.tuple_components(seq)
                lst = '[' + '; '.join(names) + ']'
                return Expr(t, seq.ty[1][0], seq.binds + [(i, 'draw_index %d %s' % (len(names), d)),
                                                           (t, "(let '(%s) := %s in nth_res %s %s)"
                                                            % (', '.join(names), seq.code, lst, i))])
            raise TransError('random.choice over %s at line %d' % (seq.ty, node.lineno))
        raise TransError('draw %s' % fname)

    def minmax(self, fname, es):
        if len(es) < 2:
            raise TransError('min/max of one value')
        isq = any(e.ty == Q for e in es)
        if any(e.ty not in (Z, Q) for e in es):
            raise TransError('min/max of non-numbers')
        binds = sum([e.binds for e in es], [])
        mn = fname.endswith('min')
        if isq:
            es = [self.coerce(e, Q) for e in es]
            f = 'Qmin' if mn else 'Qmax'
            ty = Q
        else:
            f = 'Z.min' if mn else 'Z.max'
            ty = Z
        code = es[0].code
        for e in es[1:]:
            code = '(%s %s %s)' % (f, code, e.code)
        return Expr(code, ty, binds)

    def quantifier(self, fname, gen, env):
        if len(gen.generators) != 1 or gen.generators[0].ifs:
            raise TransError('complex generator')
        g = gen.generators[0]
        it = self.expr(g.iter, env)
        if isinstance(it.ty, tuple) and it.ty[0] == 'list' and isinstance(g.target, ast.Name):
            env2 = dict(env)
            env2[g.target.id] = it.ty[1]
            e = self.truthy(self.expr(gen.elt, env2))
            if e.binds:
                raise TransError('effects in generator')
            op = 'forallb' if fname == 'all' else 'existsb'
            return Expr('(%s (fun %s : %s => %s) %s)' % (op, vname(g.target.id), coq_type(it.ty[1]), e.code, it.code),
                        B, it.binds)
        if not (isinstance(it.ty, tuple) and it.ty[0] == 'tuple'):
            raise TransError('all/any over non-tuple')
        names = self.tuple_components(it)
        parts = []
        for n, t in zip(names, it.ty[1]):
            env2 = dict(env)
            if not isinstance(g.target, ast.Name):
                raise TransError('generator target')
            env2[g.target.id] = Expr(n, t)
            e = self.truthy(self.expr(gen.elt, env2))
            if e.binds:
                raise TransError('effects in generator')
            parts.append(e.code)
        sym = ' && ' if fname == 'all' else ' || '
        return Expr("(let '(%s) := %s in (%s))" % (', '.join(names), it.code, sym.join(parts)), B, it.binds)

    def call_translated(self, target, node, env):
        params = target.params
        bound = {}
        # f(x, *t) with t a fixed-length tuple (or a constant slice of one): the components become positional arguments
        pos = []
        for a in node.args:
            if isinstance(a, ast.Starred):
                tv = self.expr(a.value, env)
                if not (isinstance(tv.ty, tuple) and tv.ty[0] == 'tuple'):
                    raise TransError('star-args of a non-tuple in call at line %d' % node.lineno)
                names = self.tuple_components(tv)
                first = True
                for nm_, ty_ in zip(names, tv.ty[1]):
                    code = "(let '(%s) := %s in %s)" % (', '.join(names), tv.code, nm_)
                    pos.append(Expr(code, ty_, tv.binds if first else []))
                    first = False
            else:
                pos.append(a)
        for i, a in enumerate(pos):
            if i >= len(params):
                raise TransError('too many positional args to %s at line %d' % (target.name, node.lineno))
            bound[params[i][0]] = a if isinstance(a, Expr) else self.expr(a, env)
        for kw in node.keywords:
            if kw.arg is None:
                # **params: forwards rows/cols/slices (and whatever the callee names) from env
                if isinstance(kw.value, ast.Name) and kw.value.id in ('params', 'kwargs'):
                    rest = self.spec.kwrest
                    for p, t in params:
                        if p not in bound and p in env and (rest is None or p in rest):
                            bound[p] = self.expr(ast.Name(id=p, ctx=ast.Load(), lineno=node.lineno), env)
                    if rest is not None and not target.has_kwargs:
                        extra = sorted(set(rest) - set(dict(params)))
                        if extra:
                            # Python: TypeError (unexpected keyword argument)
                            self.effect_used = True
                            t_ = self.fresh('x')
                            return Expr(t_, target.ret if target.ret is not None else NONE,
                                        [(t_, 'Raise TypeError')])
                    continue
                raise TransError('**%s in call' % ast.unparse(kw.value))
            if kw.arg not in dict(params):
                raise TransError('unexpected keyword %s to %s' % (kw.arg, target.name))
            if kw.arg in bound:
                raise TransError('duplicate argument %s' % kw.arg)
            bound[kw.arg] = self.expr(kw.value, env)
        argcodes = []
        binds = []
        for p, t in params:
            if p in bound:
                e = self.coerce(bound[p], t)
            elif p in target.defaults:
                e = self.coerce(self.expr(target.defaults[p], {}), t)
            else:
                raise TransError('missing argument %s in call to %s at line %d' % (p, target.name, node.lineno))
            binds += e.binds
            argcodes.append(e.code)
        r = self.emit_call(target, argcodes)
        r.binds = binds + r.binds
        return r

    def emit_call(self, target, argcodes):
        if target.self_attrs:
            missing = [a for a in target.self_attrs if a not in self.spec.self_attrs]
            if missing:
                raise TransError('call of method %s needs self attributes %s' % (target.name, missing))
            argcodes = ['self_' + a for a in sorted(target.self_attrs)] + list(argcodes)
        if self.ensure is not None:
            self.ensure(target)
        call = '(%s %s)' % (target.coq_name, ' '.join(argcodes)) if argcodes else target.coq_name
        if target.ret is None:
            raise TransError('call to %s before its return type is known' % target.name)
        if getattr(target, 'draws', None):
            if self.loop_draws is not None:
                raise TransError('call of a drawing function inside a range loop')
            for dn, dt in target.draws:
                argcodes = list(argcodes) + [self.new_draw(dt)]
            call = '(%s %s)' % (target.coq_name, ' '.join(argcodes))
        if target.raises:
            t = self.fresh('r')
            return Expr(t, target.ret, [(t, call)])
        return Expr(call, target.ret)

    # -------- statements
    def ret(self, e):
        """final value of the function"""
        if self.ret_ty is None:
            self.ret_ty = e.ty
        e = self.coerce(e, self.ret_ty)
        if self.monadic:
            return self.wrap_binds(e)
        if e.binds:
            raise TransError('effects in a function declared pure')
        return e.code

    def with_binds(self, binds, body):
        if binds and not self.monadic:
            raise TransError('effects in a pure context')
        if binds:
            self.effect_used = True
        for pat, m in reversed(binds):
            body = "(do %s <- %s; %s)" % (pat, m, body)
        return body

    def assign_pattern(self, target, e, env):
        """returns (coq let-pattern, new env) for `target = e`"""
        if isinstance(target, ast.Name) and target.id == '_':
            return '_', env
        if isinstance(target, ast.Name):
            env = dict(env)
            env[target.id] = e.ty
            if e.nz:
                self.nzvars.add(target.id)
            else:
                self.nzvars.discard(target.id)
            return vname(target.id), env
        if isinstance(target, (ast.Tuple, ast.List)):
            if not (isinstance(e.ty, tuple) and e.ty[0] == 'tuple'):
                raise TransError('destructuring a non-tuple (%s) at line %d' % (e.ty, target.lineno))
            if len(target.elts) != len(e.ty[1]):
                raise TransError('destructuring arity %d vs %d at line %d'
                                 % (len(target.elts), len(e.ty[1]), target.lineno))
            pats = []
            for el, t in zip(target.elts, e.ty[1]):
                p, env = self.assign_pattern(el, Expr('?', t), env)
                pats.append(p[1:] if p.startswith("'") else p)
            return "'(" + ', '.join(pats) + ')', env
        raise TransError('assignment target %s' % type(target).__name__)

    def check_tails(self, st):
        """the extra fields of an annotation are modelled as one opaque tail: a statement that splits X into X[:k]
        and X[j:] is accepted only when the tail starts where the geometry ends (j = k) -- otherwise a field would be
        dropped or duplicated, which the opaque tail cannot show"""
        if not isinstance(st, (ast.Assign, ast.Return, ast.AnnAssign, ast.Expr)) or getattr(st, 'value', None) is None:
            return
        pre, suf = {}, {}
        for n in ast.walk(st.value):
            if isinstance(n, ast.Subscript) and isinstance(n.value, ast.Name) and isinstance(n.slice, ast.Slice) and n.slice.step is None:
                lo, hi = n.slice.lower, n.slice.upper
                if lo is None and isinstance(hi, ast.Constant) and isinstance(hi.value, int):
                    pre.setdefault(n.value.id, set()).add(hi.value)
                if hi is None and isinstance(lo, ast.Constant) and isinstance(lo.value, int):
                    suf.setdefault(n.value.id, set()).add(lo.value)
        for name in pre:
            if name in suf and pre[name] != suf[name]:
                raise TransError('the tail of %s starts at %s but its geometry ends at %s (line %d)'
                                 % (name, sorted(suf[name]), sorted(pre[name]), st.lineno))

    def block(self, stmts, env, k):
        """Coq term for executing stmts then k(env).  k is None when the block must terminate."""
        if not stmts:
            if k is None:
                raise TransError('control falls off the end of %s' % self.spec.name)
            return k(env)
        st, rest = stmts[0], stmts[1:]
        cont = lambda env2: self.block(rest, env2, k)
        self.check_tails(st)

        if isinstance(st, ast.Expr) and isinstance(st.value, ast.Constant):
            return cont(env)  # docstring
        # fresh-dict idiom of the header helpers:  res = {}; for k, v in D.items(): res[k] = v
        if isinstance(st, ast.Assign) and len(st.targets) == 1 and isinstance(st.targets[0], ast.Name) \
                and isinstance(st.value, ast.Dict) and not st.value.keys and rest and isinstance(rest[0], ast.For):
            f = rest[0]
            res = st.targets[0].id
            ok = (isinstance(f.target, ast.Tuple) and len(f.target.elts) == 2
                  and all(isinstance(e, ast.Name) for e in f.target.elts)
                  and isinstance(f.iter, ast.Call) and isinstance(f.iter.func, ast.Attribute)
                  and f.iter.func.attr == 'items' and isinstance(f.iter.func.value, ast.Name)
                  and not f.iter.args and not f.orelse and len(f.body) == 1
                  and isinstance(f.body[0], ast.Assign) and len(f.body[0].targets) == 1
                  and isinstance(f.body[0].targets[0], ast.Subscript)
                  and isinstance(f.body[0].targets[0].value, ast.Name) and f.body[0].targets[0].value.id == res
                  and isinstance(f.body[0].targets[0].slice, ast.Name)
                  and f.body[0].targets[0].slice.id == f.target.elts[0].id
                  and isinstance(f.body[0].value, ast.Name) and f.body[0].value.id == f.target.elts[1].id)
            if ok and env.get(f.iter.func.value.id) == 'hdr':
                src = f.iter.func.value.id
                if not hasattr(self, 'owned'):
                    self.owned = set()
                self.owned.add(res)
                env2 = dict(env)
                env2[res] = 'hdr'
                return "(let %s := %s in\n %s)" % (vname(res), vname(src), self.block(rest[1:], env2, k))
        if isinstance(st, ast.Pass):
            return cont(env)
        if isinstance(st, ast.AnnAssign) and st.value is None:
            return cont(env)
        if isinstance(st, ast.Return) and getattr(self.spec, 'sampler', False) and isinstance(st.value, ast.Name) \
                and st.value.id == 'params' and '@updated' in env:
            return self.ret(Expr('v_updated_', env['@updated']))
        if isinstance(st, ast.Return):
            if st.value is None:
                raise TransError('bare return')
            return self.ret(self.expr(st.value, env))
        if isinstance(st, ast.Raise):
            if not self.monadic:
                raise TransError('raise in a function declared pure')
            self.effect_used = True
            return 'Raise %s' % self.exn_name(st)
        if isinstance(st, ast.Continue):
            if getattr(self, 'loop_k', None) is None:
                raise TransError('continue outside loop')
            return self.loop_k(env)
        if isinstance(st, ast.Assert):
            c = self.truthy(self.expr(st.test, env))
            if not self.monadic:
                raise TransError('assert in pure function')
            self.effect_used = True
            return self.with_binds(c.binds, '(if %s then %s else Raise AssertionError)' % (c.code, cont(env)))
        if isinstance(st, (ast.Assign, ast.AnnAssign)):
            targets = st.targets if isinstance(st, ast.Assign) else [st.target]
            if len(targets) > 1 and all(isinstance(t, ast.Name) for t in targets):
                # a = b = e  ==  a = e; b = a
                first = ast.copy_location(ast.Assign(targets=[targets[0]], value=st.value), st)
                others = [ast.copy_location(ast.Assign(targets=[t], value=ast.Name(id=targets[0].id, ctx=ast.Load())), st)
                          for t in targets[1:]]
                for x in [first] + others:
                    ast.fix_missing_locations(x)
                return self.block([first] + others + list(rest), env, k)
            if len(targets) != 1:
                raise TransError('chained assignment')
            if getattr(self.spec, 'sampler', False) and isinstance(st.value, ast.Call) \
                    and isinstance(st.value.func, ast.Attribute) and st.value.func.attr == 'update_params':
                return cont(env)
            if isinstance(targets[0], ast.Name) and isinstance(st.value, ast.Call) \
                    and isinstance(st.value.func, ast.Name) \
                    and st.value.func.id in ('_maybe_process_by_channel', '_maybe_process_in_chunks'):
                # process_fn applied per channel: on the 3-D model, the function itself with the given keywords
                env2 = dict(env)
                env2[targets[0].id] = ('closure', st.value.args[0], st.value.keywords)
                return cont(env2)
            if isinstance(targets[0], ast.Subscript) and isinstance(targets[0].value, ast.Name) \
                    and env.get(targets[0].value.id) == 'hdr':
                nm = targets[0].value.id
                sl = targets[0].slice
                if not (isinstance(sl, ast.Constant) and sl.value in HDR_FIELDS):
                    raise TransError('store under an unknown header key at line %d' % st.lineno)
                if nm not in getattr(self, 'owned', set()):
                    raise TransError('store into the caller-owned header dict %s (no fresh copy) at line %d' % (nm, st.lineno))
                fld, fty, setter = HDR_FIELDS[sl.value]
                val = self.coerce(self.expr(st.value, env), fty)
                return self.with_binds(val.binds, "(let %s := %s %s %s in\n %s)" % (
                    vname(nm), setter, vname(nm), val.code, cont(env)))
            if isinstance(targets[0], ast.Subscript):
                base = self.expr(targets[0].value, env)
                if base.ty != ARR or not isinstance(targets[0].value, ast.Name):
                    raise TransError('subscript store on %s at line %d' % (base.ty, st.lineno))
                bounds, rev, binds = self.arr_slices(targets[0].slice, env, st.lineno)
                if rev:
                    raise TransError('reversed slice store at line %d' % st.lineno)
                val = self.coerce(self.expr(st.value, env), Q)
                nm = targets[0].value.id
                # ownership (C11): a write through a subscript is only accepted on an array that this
                # function made itself (x = y.copy() / np.pad(...) / a fresh result), never on a caller's array
                if nm not in getattr(self, 'owned', set()):
                    raise TransError('in-place store into caller-owned array %s (no copy before the write) at line %d'
                                     % (nm, st.lineno))
                return self.with_binds(binds + val.binds, "(let %s := v_store3 %s %s %s in\n %s)" % (
                    vname(nm), ' '.join('(%s, %s)' % b for b in bounds), val.code, vname(nm), cont(env)))
            if isinstance(targets[0], ast.Name) and self.self_path(st.value, env) is not None \
                    and self.self_path(st.value, env) not in self.spec.self_attrs:
                env2 = dict(env)
                env2[targets[0].id] = ('selfpath', self.self_path(st.value, env))
                return cont(env2)
            e = self.expr(st.value, env)
            if isinstance(targets[0], ast.Name):
                if not hasattr(self, 'owned'):
                    self.owned = set()
                v = st.value
                fresh_call = isinstance(v, ast.Call) and (
                    (isinstance(v.func, ast.Attribute) and v.func.attr in ('copy', 'astype'))
                    or (isinstance(v.func, ast.Attribute) and isinstance(v.func.value, ast.Name)
                        and v.func.value.id == 'np' and v.func.attr in ('pad', 'zeros_like', 'ones_like', 'full_like', 'copy', 'array')))
                if fresh_call:
                    self.owned.add(targets[0].id)
                elif e.ty == ARR:
                    self.owned.discard(targets[0].id)
            pat, env2 = self.assign_pattern(targets[0], e, env)
            if e.binds and e.binds[-1][0] == e.code:
                # x = f(...) with f monadic: bind the result directly to the target pattern
                binds = e.binds[:-1] + [(pat.lstrip("'"), e.binds[-1][1])]
                return self.with_binds(binds, cont(env2))
            return self.with_binds(e.binds, "(let %s := %s in\n %s)" % (pat, e.code, cont(env2)))
        if isinstance(st, ast.AugAssign):
            new = ast.Assign(targets=[st.target],
                             value=ast.BinOp(left=copy.deepcopy(st.target), op=st.op, right=st.value,
                                             lineno=st.lineno, col_offset=0),
                             lineno=st.lineno, col_offset=0)
            ast.fix_missing_locations(new)
            for n in ast.walk(new.value.left):
                if hasattr(n, 'ctx'):
                    n.ctx = ast.Load()
            return self.block([new] + rest, env, k)
        if is_append(st):
            lst = st.value.func.value.id
            if lst not in env or not (isinstance(env[lst], tuple) and env[lst][0] == 'list'):
                raise TransError('append to non-list %s' % lst)
            e = self.expr(st.value.args[0], env)
            if env[lst][1] is None:
                env = dict(env)
                env[lst] = L(e.ty)
            e = self.coerce(e, env[lst][1])
            return self.with_binds(e.binds, "(let %s := (%s ++ [%s]) in\n %s)"
                                   % (vname(lst), vname(lst), e.code, cont(env)))
        if getattr(self.spec, 'sampler', False) and isinstance(st, ast.Expr) and isinstance(st.value, ast.Call) \
                and isinstance(st.value.func, ast.Attribute) and st.value.func.attr == 'update' \
                and isinstance(st.value.func.value, ast.Name) and st.value.func.value.id == 'params' \
                and st.value.args and isinstance(st.value.args[0], ast.Dict):
            # params.update({...}); return params   ==>  the method's contribution is that dict
            e = self.expr(st.value.args[0], env)
            env2 = dict(env)
            env2['@updated'] = e.ty
            return self.with_binds(e.binds, "(let v_updated_ := %s in\n %s)" % (e.code, cont(env2)))
        if isinstance(st, ast.Expr) and isinstance(st.value, ast.Call):
            e = self.expr(st.value, env)
            return self.with_binds(e.binds, cont(env))
        if isinstance(st, ast.If):
            return self.if_stmt(st, rest, env, k)
        if isinstance(st, ast.For):
            return self.for_stmt(st, rest, env, k)
        raise TransError('unsupported statement %s at line %d' % (type(st).__name__, st.lineno))

    def exn_name(self, st):
        e = st.exc
        if isinstance(e, ast.Call):
            e = e.func
        if isinstance(e, ast.Name) and e.id in ('ValueError', 'TypeError', 'KeyError', 'IndexError',
                                                'AssertionError', 'RuntimeError', 'NotImplementedError',
                                                'ZeroDivisionError'):
            return e.id
        raise TransError('unknown exception at line %d' % st.lineno)

    def narrowing(self, test, env):
        """`x is None` / `x is not None` on an option-typed variable -> (var, none_branch_is_then)"""
        if isinstance(test, ast.Compare) and len(test.ops) == 1 and isinstance(test.left, ast.Name) \
                and isinstance(test.comparators[0], ast.Constant) and test.comparators[0].value is None \
                and isinstance(test.ops[0], (ast.Is, ast.IsNot)):
            v = test.left.id
            if v in env and isinstance(env[v], tuple) and env[v][0] == 'opt':
                return v, isinstance(test.ops[0], ast.Is)
        if isinstance(test, ast.Compare) and len(test.ops) == 1 and isinstance(test.left, ast.Attribute) \
                and isinstance(test.comparators[0], ast.Constant) and test.comparators[0].value is None \
                and isinstance(test.ops[0], (ast.Is, ast.IsNot)):
            sp = self.self_path(test.left, env)
            if sp is not None and sp in self.spec.self_attrs:
                t = env.get('@self_' + sp, self.spec.self_attrs[sp])
                if isinstance(t, tuple) and t[0] == 'opt':
                    return '@self_' + sp, isinstance(test.ops[0], ast.Is)
        return None

    def opt_truthy_operands(self, test, env):
        """operands of `a` / `a and b and ...` when every operand is an Optional[int] variable or attribute"""
        ops = test.values if isinstance(test, ast.BoolOp) and isinstance(test.op, ast.And) else [test]
        out = []
        for o in ops:
            t = None
            if isinstance(o, ast.Name) and o.id in env:
                t = env[o.id]
            elif isinstance(o, ast.Attribute):
                sp = self.self_path(o, env)
                if sp is not None and sp in self.spec.self_attrs:
                    t = env.get('@self_' + sp, self.spec.self_attrs[sp])
            if not (isinstance(t, tuple) and t[0] == 'opt' and t[1] == Z):
                return None
            out.append(o)
        return out

    def static_bool(self, node, env):
        """True / False when the test is decided by the declared TYPES alone (isinstance of an instance
        attribute or variable against int / float, and all([...]) / any([...]) / and / or / not of such), else None"""
        if isinstance(node, ast.Call) and isinstance(node.func, ast.Name) and node.func.id == 'isinstance' \
                and len(node.args) == 2 and (
                    (isinstance(node.args[1], ast.Name) and node.args[1].id in ('int', 'float', 'str', 'list', 'tuple'))
                    or (isinstance(node.args[1], ast.Tuple) and node.args[1].elts
                        and all(isinstance(x, ast.Name) and x.id in ('int', 'float', 'str', 'list', 'tuple') for x in node.args[1].elts))):
            try:
                e = self.expr(node.args[0], env)
            except TransError:
                return None
            kinds = [node.args[1].id] if isinstance(node.args[1], ast.Name) else [x.id for x in node.args[1].elts]
            if e.ty == Z:
                return 'int' in kinds
            if e.ty == Q:
                return 'float' in kinds
            if e.ty == S:
                return 'str' in kinds
            if isinstance(e.ty, tuple) and e.ty and e.ty[0] in ('tuple', 'list'):
                return e.ty[0] in kinds  # a tuple / list value is neither an int, a float nor a string
            return None
        # `x is None` / `x is not None` on a value whose declared type is not optional
        if isinstance(node, ast.Compare) and len(node.ops) == 1 and isinstance(node.ops[0], (ast.Is, ast.IsNot)) \
                and isinstance(node.comparators[0], ast.Constant) and node.comparators[0].value is None \
                and isinstance(node.left, ast.Attribute) and isinstance(node.left.value, ast.Name) and node.left.value.id == 'self':
            try:
                e = self.expr(node.left, env)
            except TransError:
                return None
            if e.ty in (Z, Q, B, S) or (isinstance(e.ty, tuple) and e.ty and e.ty[0] in ('tuple', 'list')):
                return isinstance(node.ops[0], ast.IsNot)
            return None
        # len(x) == k on a tuple of declared arity
        if isinstance(node, ast.Compare) and len(node.ops) == 1 and isinstance(node.ops[0], (ast.Eq, ast.NotEq)) \
                and isinstance(node.left, ast.Call) and isinstance(node.left.func, ast.Name) and node.left.func.id == 'len' \
                and len(node.left.args) == 1 and isinstance(node.comparators[0], ast.Constant) \
                and isinstance(node.comparators[0].value, int):
            try:
                e = self.expr(node.left.args[0], env)
            except TransError:
                return None
            if isinstance(e.ty, tuple) and e.ty and e.ty[0] == 'tuple':
                eq = len(e.ty[1]) == node.comparators[0].value
                return eq if isinstance(node.ops[0], ast.Eq) else (not eq)
            return None
        if isinstance(node, ast.Call) and isinstance(node.func, ast.Name) and node.func.id in ('all', 'any') \
                and len(node.args) == 1 and isinstance(node.args[0], (ast.List, ast.Tuple)):
            vals = [self.static_bool(x, env) for x in node.args[0].elts]
            if any(v is None for v in vals):
                return None
            return all(vals) if node.func.id == 'all' else any(vals)
        if isinstance(node, ast.BoolOp):
            vals = [self.static_bool(x, env) for x in node.values]
            if any(v is None for v in vals):
                return None
            return all(vals) if isinstance(node.op, ast.And) else any(vals)
        if isinstance(node, ast.UnaryOp) and isinstance(node.op, ast.Not):
            v = self.static_bool(node.operand, env)
            return None if v is None else (not v)
        return None

    def if_stmt(self, st, rest, env, k):
        sb = self.static_bool(st.test, env)
        if sb is not None:
            # decided by the declared types of this specialisation: only the taken branch exists
            taken = st.body if sb else st.orelse
            return self.block(list(taken) + list(rest), env, k)
        # truthiness of Optional[int] operands (`if self.a and self.b:`): None and 0 are false.
        # Rewritten into the nested is-not-None / non-zero tests the narrowing below understands.
        opt_ops = self.opt_truthy_operands(st.test, env)
        if opt_ops:
            import copy as _copy
            inner = st.body
            for op in reversed(opt_ops):
                nz = ast.If(test=ast.Compare(left=_copy.deepcopy(op), ops=[ast.NotEq()], comparators=[ast.Constant(value=0)]),
                            body=inner, orelse=_copy.deepcopy(st.orelse))
                nn = ast.If(test=ast.Compare(left=_copy.deepcopy(op), ops=[ast.IsNot()], comparators=[ast.Constant(value=None)]),
                            body=[nz], orelse=_copy.deepcopy(st.orelse))
                ast.copy_location(nz, st)
                ast.copy_location(nn, st)
                ast.fix_missing_locations(nn)
                inner = [nn]
            return self.if_stmt(inner[0], rest, env, k)
        if isinstance(st.test, ast.BoolOp) and isinstance(st.test.op, ast.And) and not st.orelse \
                and self.narrowing(st.test.values[0], env) is not None and not self.narrowing(st.test.values[0], env)[1]:
            rest_test = st.test.values[1] if len(st.test.values) == 2 else ast.BoolOp(op=ast.And(), values=st.test.values[1:])
            inner = ast.copy_location(ast.If(test=rest_test, body=st.body, orelse=[]), st)
            outer = ast.copy_location(ast.If(test=st.test.values[0], body=[inner], orelse=[]), st)
            ast.fix_missing_locations(outer)
            return self.if_stmt(outer, rest, env, k)
        nar = self.narrowing(st.test, env)
        if nar is None:
            c = self.truthy(self.expr(st.test, env))
            env_t, env_e = env, env
            mk = lambda a, b: '(if %s then %s\n else %s)' % (c.code, a, b)
            cbinds = c.binds
        else:
            nv, none_then = nar
            env_s = dict(env)
            if nv.startswith('@self_'):
                env_s[nv] = self.spec.self_attrs[nv[6:]][1]
            else:
                env_s[nv] = env[nv][1]
            env_t, env_e = (env, env_s) if none_then else (env_s, env)
            if none_then:
                mk = lambda a, b: '(match %s with None => %s\n | Some %s => %s end)' % (vname(nv), a, vname(nv), b)
            else:
                mk = lambda a, b: '(match %s with Some %s => %s\n | None => %s end)' % (vname(nv), vname(nv), a, b)
            cbinds = []
        tb, eb = terminates(st.body), terminates(st.orelse)
        cont_t = lambda env2: self.block(rest, env2, k)
        if tb and eb:
            return self.with_binds(cbinds, mk(self.block(st.body, env_t, None), self.block(st.orelse, env_e, None)))
        if tb:
            return self.with_binds(cbinds, mk(self.block(st.body, env_t, None), self.block(st.orelse, env_e, cont_t)))
        if eb:
            return self.with_binds(cbinds, mk(self.block(st.body, env_t, cont_t), self.block(st.orelse, env_e, None)))
        # both branches fall through: merge assigned variables
        cont = lambda env2: self.block(rest, env2, k)
        may = may_assign(st.body) | may_assign(st.orelse)
        must = must_assign(st.body) & must_assign(st.orelse)
        merged = sorted(v for v in may if (v in env and not isinstance(env[v], Expr)) or v in must)
        if not merged:
            # branches have no visible effect except possible raises
            if not self.monadic:
                return cont(env)
            unit_k = lambda env2: 'Ok tt'
            code = '(do _ <- %s; %s)' % (mk(self.block(st.body, env_t, unit_k),
                                            self.block(st.orelse, env_e, unit_k)), cont(env))
            return self.with_binds(cbinds, code)
        # first pass to learn the types after each branch
        types = {}

        def probe(env2):
            for v in merged:
                t = env2[v]
                types[v] = t if v not in types else self.unify(types[v], t)
            return 'PROBE'
        saved = self.tmp, self.ret_ty, self.effect_used
        nd, nld = len(self.draws), (len(self.loop_draws) if self.loop_draws is not None else None)
        self.block(st.body, env_t, probe)
        self.block(st.orelse, env_e, probe)
        self.tmp, self.effect_used = saved[0], saved[2]
        del self.draws[nd:]
        if nld is not None:
            del self.loop_draws[nld:]

        def fin(env2):
            comps = [self.coerce(Expr(vname(v), env2[v]), types[v]).code for v in merged]
            tup = comps[0] if len(comps) == 1 else '(' + ', '.join(comps) + ')'
            return ('Ok ' + tup) if self.monadic else tup
        pure_ok = False
        if self.monadic:
            saved2 = (self.tmp, self.effect_used, set(self.nzvars))
            nd2, nld2 = len(self.draws), (len(self.loop_draws) if self.loop_draws is not None else None)
            try:
                self.monadic = False
                a = self.block(st.body, env_t, fin)
                b = self.block(st.orelse, env_e, fin)
                pure_ok = True
            except TransError:
                self.tmp, self.effect_used, self.nzvars = saved2
                del self.draws[nd2:]
                if nld2 is not None:
                    del self.loop_draws[nld2:]
            finally:
                self.monadic = True
        if not pure_ok:
            a = self.block(st.body, env_t, fin)
            b = self.block(st.orelse, env_e, fin)
        env3 = dict(env)
        for v in merged:
            env3[v] = types[v]
        pat = vname(merged[0]) if len(merged) == 1 else "'(" + ', '.join(vname(v) for v in merged) + ')'
        if self.monadic and not pure_ok:
            code = '(do %s <- %s;\n %s)' % (pat.lstrip("'"), mk(a, b), cont(env3))
        else:
            code = '(let %s := %s in\n %s)' % (pat, mk(a, b), cont(env3))
        return self.with_binds(cbinds, code)

    def for_stmt(self, st, rest, env, k):
        if st.orelse:
            raise TransError('for-else')
        it = st.iter
        if isinstance(it, ast.Call) and isinstance(it.func, ast.Name) and it.func.id == 'range' and len(it.args) == 1:
            return self.range_loop(st, rest, env, k)
        # zip(...) of fixed-length sequences, or a fixed-length tuple: unroll
        seqs = None
        if isinstance(it, ast.Call) and isinstance(it.func, ast.Name) and it.func.id == 'zip':
            seqs = [self.expr(a, env) for a in it.args]
        else:
            e = self.expr(it, env)
            if isinstance(e.ty, tuple) and e.ty[0] == 'tuple':
                seqs = [e]
            elif isinstance(e.ty, tuple) and e.ty[0] == 'list':
                return self.fold_stmt(st, e, rest, env, k)
            else:
                raise TransError('for over %s at line %d' % (e.ty, st.lineno))
        if any(not (isinstance(s.ty, tuple) and s.ty[0] == 'tuple') for s in seqs):
            raise TransError('zip over non fixed-length sequence at line %d' % st.lineno)
        n = min(len(s.ty[1]) for s in seqs)
        binds = sum([s.binds for s in seqs], [])
        compnames = [self.tuple_components(s) for s in seqs]
        if isinstance(it, ast.Call):
            tgts = st.target.elts if isinstance(st.target, (ast.Tuple, ast.List)) else None
            if tgts is None or len(tgts) != len(seqs):
                raise TransError('zip target arity at line %d' % st.lineno)
        else:
            tgts = [st.target]
        if any(not isinstance(t, ast.Name) for t in tgts):
            raise TransError('nested loop target at line %d' % st.lineno)
        if any(isinstance(x, (ast.Continue, ast.Break)) for b in st.body for x in ast.walk(b)):
            raise TransError('continue/break in unrolled loop at line %d' % st.lineno)

        def iteration(i, env2):
            if i == n:
                return self.block(rest, env2, k)
            env3 = dict(env2)
            for t, s, names in zip(tgts, seqs, compnames):
                env3[t.id] = Expr(names[i], s.ty[1][i])
            return self.block(st.body, env3, lambda env4: iteration(i + 1, {
                kk: vv for kk, vv in env4.items() if kk not in [t.id for t in tgts] or kk in env2}))
        body = iteration(0, env)
        for s, names in zip(reversed(seqs), reversed(compnames)):
            body = "(let '(%s) := %s in\n %s)" % (', '.join(names), s.code, body)
        return self.with_binds(binds, body)

    def range_loop(self, st, rest, env, k):
        """for _ in range(n): BODY  where BODY may draw: the draws of each iteration are one element of an
        oracle list parameter; the loop folds over that list and checks that it has n elements"""
        if not self.monadic:
            raise TransError('range loop in pure mode')
        n = self.expr(st.iter.args[0], env)
        if n.ty != Z:
            raise TransError('range over non-integer at line %d' % st.lineno)
        state = sorted(v for v in may_assign(st.body) if v in env and not isinstance(env[v], Expr))
        if not state:
            raise TransError('range loop without carried state at line %d' % st.lineno)
        saved_loop, saved_k = self.loop_draws, getattr(self, 'loop_k', None)
        types = {v: env[v] for v in state}
        env_in = dict(env)
        if isinstance(st.target, ast.Name) and st.target.id != '_' and not st.target.id.startswith('_'):
            raise TransError('range loop variable is used at line %d' % st.lineno)

        def probe(env2):
            for v in state:
                if env2[v] != types[v]:
                    if isinstance(types[v], tuple) and types[v][0] == 'list' and types[v][1] is None:
                        types[v] = env2[v]
                    else:
                        types[v] = self.unify(types[v], env2[v])
            return 'PROBE'
        saved_tmp = self.tmp
        self.loop_draws = []
        self.loop_k = probe
        self.block(st.body, env_in, probe)
        self.tmp = saved_tmp
        for v in state:
            env_in[v] = types[v]

        def fin(env2):
            comps = [self.coerce(Expr(vname(v), env2[v]), types[v]).code for v in state]
            return 'Ok ' + (comps[0] if len(comps) == 1 else '(' + ', '.join(comps) + ')')
        self.loop_draws = []
        self.loop_k = fin
        body = self.block(st.body, env_in, fin)
        iter_draws = self.loop_draws
        self.loop_draws, self.loop_k = saved_loop, saved_k
        if not iter_draws:
            raise TransError('range loop without draws at line %d (unsupported)' % st.lineno)
        lname = 'it_%d' % (len(self.draws) + 1)
        ity = T(*[t for _, t in iter_draws]) if len(iter_draws) > 1 else iter_draws[0][1]
        self.draws.append((lname, L(ity)))
        ipat = iter_draws[0][0] if len(iter_draws) == 1 else "'(" + ', '.join(nm for nm, _ in iter_draws) + ')'
        pat = vname(state[0]) if len(state) == 1 else "'(" + ', '.join(vname(v) for v in state) + ')'
        sty = coq_type(types[state[0]]) if len(state) == 1 else coq_type(T(*[types[v] for v in state]))
        init = []
        for v in state:
            if isinstance(env[v], tuple) and env[v][0] == 'list' and env[v][1] is None:
                init.append('(@nil %s)' % coq_type(types[v][1]))
            else:
                init.append(self.coerce(Expr(vname(v), env[v]), types[v]).code)
        init = init[0] if len(init) == 1 else '(' + ', '.join(init) + ')'
        env3 = dict(env)
        for v in state:
            env3[v] = types[v]
        fn = "(fun (st_ : %s) (it_ : %s) => let %s := st_ in let %s := it_ in\n %s)" % (
            sty, coq_type(ity), pat, ipat, body)
        self.effect_used = True
        code = ("(if negb (Z.eqb (Z.of_nat (List.length %s)) (Z.max 0 %s)) then Raise BadDraw else\n"
                " (do %s <- fold_res %s %s %s;\n %s))" % (lname, n.code, pat.lstrip("'"), fn, lname, init,
                                                         self.block(rest, env3, k)))
        return self.with_binds(n.binds, code)

    def fold_stmt(self, st, lst, rest, env, k):
        if isinstance(st.target, (ast.Tuple, ast.List)):
            # for a, b, c in xs:  ==  for elem in xs: a, b, c = elem
            st = copy.copy(st)
            tgt = st.target
            nm = ast.Name(id='loop_elem_', ctx=ast.Store(), lineno=st.lineno, col_offset=0)
            unpack = ast.Assign(targets=[tgt], value=ast.Name(id='loop_elem_', ctx=ast.Load(), lineno=st.lineno,
                                                              col_offset=0), lineno=st.lineno, col_offset=0)
            st.target = nm
            st.body = [unpack] + list(st.body)
        if not isinstance(st.target, ast.Name):
            raise TransError('fold target at line %d' % st.lineno)
        state = sorted(v for v in may_assign(st.body) if v in env and not isinstance(env[v], Expr))
        elem = st.target.id
        if not state:
            # a loop executed for its exceptions only: fold over unit
            if not self.monadic:
                return self.block(rest, env, k)
            env_in = dict(env)
            env_in[elem] = lst.ty[1]
            saved_k = getattr(self, 'loop_k', None)
            self.loop_k = lambda env2: 'Ok tt'
            body = self.block(st.body, env_in, lambda env2: 'Ok tt')
            self.loop_k = saved_k
            fn = "(fun (st_ : unit) (%s : %s) => %s)" % (vname(elem), coq_type(lst.ty[1]), body)
            code = "(do _ <- fold_res %s %s tt;\n %s)" % (fn, lst.code, self.block(rest, env, k))
            self.effect_used = True
            return self.with_binds(lst.binds, code)
        env_in = dict(env)
        env_in[elem] = lst.ty[1]
        # learn the list element type of accumulators typed list:None from the body
        types = {v: env[v] for v in state}

        def probe(env2):
            for v in state:
                if env2[v] != types[v]:
                    if isinstance(types[v], tuple) and types[v][0] == 'list' and types[v][1] is None:
                        types[v] = env2[v]
                    else:
                        types[v] = self.unify(types[v], env2[v])
            return 'PROBE'
        saved_k, saved_tmp = getattr(self, 'loop_k', None), self.tmp
        nd3 = len(self.draws)
        self.loop_k = probe
        self.block(st.body, env_in, probe)
        self.tmp = saved_tmp
        del self.draws[nd3:]
        for v in state:
            env_in[v] = types[v]

        def fin(env2):
            comps = [self.coerce(Expr(vname(v), env2[v]), types[v]).code for v in state]
            tup = comps[0] if len(comps) == 1 else '(' + ', '.join(comps) + ')'
            return ('Ok ' + tup) if self.monadic else tup
        self.loop_k = fin
        body = self.block(st.body, env_in, fin)
        self.loop_k = saved_k
        pat = vname(state[0]) if len(state) == 1 else "'(" + ', '.join(vname(v) for v in state) + ')'
        sty = coq_type(types[state[0]]) if len(state) == 1 else coq_type(T(*[types[v] for v in state]))
        init = []
        for v in state:
            if isinstance(env[v], tuple) and env[v][0] == 'list' and env[v][1] is None:
                init.append('(@nil %s)' % coq_type(types[v][1]))
            else:
                init.append(self.coerce(Expr(vname(v), env[v]), types[v]).code)
        init = init[0] if len(init) == 1 else '(' + ', '.join(init) + ')'
        env3 = dict(env)
        for v in state:
            env3[v] = types[v]
        fn = "(fun (st_ : %s) (%s : %s) => let %s := st_ in\n %s)" % (
            sty, vname(elem), coq_type(lst.ty[1]), pat, body)
        if self.monadic:
            code = "(do %s <- fold_res %s %s %s;\n %s)" % (pat.lstrip("'"), fn, lst.code, init, self.block(rest, env3, k))
        else:
            code = "(let %s := fold_left %s %s %s in\n %s)" % (pat, fn, lst.code, init, self.block(rest, env3, k))
        return self.with_binds(lst.binds, code)

    # -------- whole function
    def translate_synthetic_mask(self):
        if not self.mod.get('_dual_mask_ok'):
            raise TransError('DualTransform.apply_to_mask / INTER_NEAREST no longer have the expected form')
        target = self.registry.get(self.spec.cls + '_apply')
        if target is None:
            raise TransError('image path of %s is not translated' % self.spec.cls)
        if self.ensure is not None:
            self.ensure(target)
        args = []
        for p, t in target.params:
            args.append('(0)%Z' if p == 'interpolation' else vname(p))
        selfargs = ['self_' + a for a in sorted(target.self_attrs)]
        self.spec.ret = target.ret
        self.ret_ty = target.ret
        self.monadic = target.raises
        self.effect_used = target.raises
        params = ' '.join('(%s : %s)' % (vname(p), coq_type(t)) for p, t in self.spec.params)
        selfp = ' '.join('(self_%s : %s)' % (a, coq_type(t)) for a, t in sorted(self.spec.self_attrs.items()))
        rty = coq_type(target.ret)
        if target.raises:
            rty = '(res %s)' % rty
        return 'Definition %s %s %s : %s :=\n (%s %s).\n' % (
            self.spec.coq_name, selfp, params, rty, target.coq_name, ' '.join(selfargs + args))

    def translate(self):
        if getattr(self.spec, 'synthetic_mask', False):
            return self.translate_synthetic_mask()
        node = self.spec.node
        env = {p: t for p, t in self.spec.params}
        # local list accumulators declared as `name: List[...] = []` or `name = []`
        body = []
        for st in node.body:
            tgt = None
            if isinstance(st, ast.AnnAssign) and isinstance(st.value, ast.List) and not st.value.elts:
                tgt = st.target
            if isinstance(st, ast.Assign) and isinstance(st.value, ast.List) and not st.value.elts \
                    and len(st.targets) == 1:
                tgt = st.targets[0]
            if tgt is not None and isinstance(tgt, ast.Name):
                env[tgt.id] = L(None)
                continue
            body.append(st)
        self.empty_lists = [v for v, t in env.items() if t == L(None)]
        if self.spec.never_supplied:
            # a required formal that the parameter dict never carries: the call raises TypeError
            if not self.monadic:
                raise TransError('never-supplied formal in pure mode')
            self.effect_used = True
            body = [ast.Raise(exc=ast.Name(id='TypeError', ctx=ast.Load()), cause=None, lineno=node.lineno, col_offset=0)]
        prelude = ''
        for nm, dnode in self.spec.local_defaults.items():
            e = self.expr(dnode, {})
            ty = NAME_TYPES_P.get(nm)
            if ty is not None:
                e = self.coerce(e, ty)
            env[nm] = e.ty
            prelude += "(let %s := %s in\n " % (vname(nm), e.code)
        endk = None
        if self.spec.ret == T():
            endk = lambda env2: ('Ok tt' if self.monadic else 'tt')
        code = self.block(body, env, endk)
        code = prelude + code + ')' * prelude.count('(let ')
        params = ' '.join('(%s : %s)' % (vname(p), coq_type(t)) for p, t in self.spec.params)
        if self.draws:
            params += ' ' + ' '.join('(%s : %s)' % (n_, coq_type(t_)) for n_, t_ in self.draws)
        self.spec.draws = list(self.draws)
        selfp = ' '.join('(self_%s : %s)' % (a, coq_type(t)) for a, t in sorted(self.spec.self_attrs.items()))
        if self.ret_ty is None:
            raise TransError('no return type inferred')
        rty = coq_type(self.ret_ty)
        if self.monadic:
            rty = '(res %s)' % rty
        self.spec.ret = self.ret_ty
        hdr = 'Definition %s %s %s : %s :=' % (self.spec.coq_name, selfp, params, rty)
        return hdr + '\n ' + code + '.\n'


# ----------------------------------------------------------------------------
# module driver


# ----------------------------------------------------------------------------
# class-level translation: apply / apply_to_* methods with the keyword binding of
# BasicTransform.apply_with_params made explicit

APPLY_METHODS = ['apply', 'apply_to_mask', 'apply_to_bbox', 'apply_to_keypoint', 'apply_to_dicom']


def class_defs(tree):
    return {n.name: n for n in tree.body if isinstance(n, ast.ClassDef)}


def dict_keys_returned(fn):
    """keys of the dict literal(s) returned / passed to params.update(...) by a method"""
    keys = []
    for n in ast.walk(fn):
        d = None
        if isinstance(n, ast.Return) and isinstance(n.value, ast.Dict):
            d = n.value
        if isinstance(n, ast.Call) and isinstance(n.func, ast.Attribute) and n.func.attr == 'update' \
                and n.args and isinstance(n.args[0], ast.Dict):
            d = n.args[0]
        if d is not None:
            for k in d.keys:
                if isinstance(k, ast.Constant) and isinstance(k.value, str) and k.value not in keys:
                    keys.append(k.value)
    return keys


def attrs_assigned(cls_nodes):
    """names X with `self.X = ...` in any __init__ of the given classes"""
    out = set()
    for c in cls_nodes:
        for m in c.body:
            if isinstance(m, ast.FunctionDef) and m.name == '__init__':
                for n in ast.walk(m):
                    if isinstance(n, ast.Assign):
                        for t in n.targets:
                            if isinstance(t, ast.Attribute) and isinstance(t.value, ast.Name) and t.value.id == 'self':
                                out.add(t.attr)
    return out


def class_method_specs(m, tree, cspec, errors):
    """FnSpecs for the apply-like methods of one class (own or inherited from cspec['bases'])"""
    cds = class_defs(tree)
    name = cspec['name']
    mro = [name] + list(cspec.get('bases', []))
    # base classes defined in the same file are followed automatically (depth first, like Python's
    # MRO for the single-inheritance chains of this package)
    k = 0
    while k < len(mro):
        cd = cds.get(mro[k])
        if cd is not None:
            for b in cd.bases:
                if isinstance(b, ast.Name) and b.id in cds and b.id not in mro:
                    mro.append(b.id)
        k += 1
    missing = [c for c in mro if c not in cds]
    if missing:
        errors.append({'function': name, 'file': m['file'], 'error': 'class(es) %s not found' % missing})
        return []
    nodes = [cds[c] for c in mro]

    def find(method):
        for c in nodes:
            for b in c.body:
                if isinstance(b, ast.FunctionDef) and b.name == method:
                    return b
        return None
    keys = []
    for meth in ('get_params', 'get_params_dependent_on_targets', 'update_params'):
        fn = find(meth)
        if fn is not None:
            for k in dict_keys_returned(fn):
                if k not in keys:
                    keys.append(k)
    assigned = attrs_assigned(nodes)
    for a in ('interpolation', 'fill_value', 'mask_fill_value'):     # BasicTransform.update_params (hasattr)
        if a in assigned and a not in keys:
            keys.append(a)
    for a in ('cols', 'rows', 'slices'):
        if a not in keys:
            keys.append(a)
    keys = [k for k in keys if k in NAME_TYPES or k in cspec.get('key_types', {})]
    ktypes = dict(NAME_TYPES)
    ktypes.update(cspec.get('key_types', {}))
    self_attrs = dict(cspec.get('self_attrs', {}))
    specs = []
    for meth in cspec.get('methods', APPLY_METHODS):
        fn = find(meth)
        if fn is None:
            continue
        formals = [a.arg for a in fn.args.args if a.arg != 'self']
        data_arg, formals = formals[0], formals[1:]
        dflt = dict(zip([a.arg for a in fn.args.args][len(fn.args.args) - len(fn.args.defaults):], fn.args.defaults))
        unknown = [f for f in [data_arg] + formals if f not in ktypes]
        if unknown:
            errors.append({'function': name + '.' + meth, 'file': m['file'],
                           'error': 'no type for parameter(s) %s' % unknown})
            continue
        sp = FnSpec(meth, [(data_arg, ktypes[data_arg])] + [(k, ktypes[k]) for k in keys],
                    cls=name, self_attrs=self_attrs, coq_name=name + '_' + meth)
        sp.node = fn
        sp.decos = []
        sp.has_kwargs = fn.args.kwarg is not None
        sp.kwrest = [k for k in keys if k not in formals] if fn.args.kwarg is not None else []
        sp.local_defaults = {f: dflt[f] for f in formals if f not in keys and f in dflt}
        sp.never_supplied = [f for f in formals if f not in keys and f not in dflt]
        sp.param_keys = keys
        sp.cls_nodes = nodes
        specs.append(sp)
    # samplers: get_params / get_params_dependent_on_targets / update_params / private helpers
    for meth, mparams in cspec.get('samplers', {}).items():
        fn = find(meth) or find('_%s%s' % (name, meth))
        if fn is None:
            errors.append({'function': name + '.' + meth, 'file': m['file'], 'error': 'sampler not found'})
            continue
        cn = cspec.get('coq_prefix', name) + '_' + meth.lstrip('_')
        if meth.startswith('__') and meth[1:] in cspec.get('samplers', {}):
            cn = cspec.get('coq_prefix', name) + '_priv_' + meth.lstrip('_')     # __m next to _m in one class
        sp = FnSpec(meth, [(pn, pt) for pn, pt in mparams], cls=cspec.get('coq_prefix', name), self_attrs=self_attrs,
                    coq_name=cn)
        sp.node = fn
        sp.decos = []
        sp.sampler = True
        sp.py_cls = name
        sp.cls_nodes = nodes
        sp.has_kwargs = fn.args.kwarg is not None
        sp.kwrest = None
        sp.skip_sig_check = True
        specs.append(sp)
    # loop samplers:  <prefix>; for _ in range(<count>): <body>; acc.append(<elem>)   ;  return {key: acc}
    # are emitted as two functions, <name>_count (the loop count) and <name>_body (one iteration -> elem)
    for meth, mparams in cspec.get('loop_samplers', {}).items():
        fn = find(meth)
        try:
            count_fn, body_fn, loop_vars = split_loop_sampler(fn)
        except TransError as e:
            errors.append({'function': name + '.' + meth, 'file': m['file'], 'error': str(e)})
            continue
        for part, node in (('count', count_fn), ('body', body_fn)):
            cn = cspec.get('coq_prefix', name) + '_' + meth.lstrip('_') + '_' + part
            extra = [(v, 'Z') for v in loop_vars] if part == 'body' else []
            sp = FnSpec(meth + '_' + part, [(pn, pt) for pn, pt in mparams] + extra, cls=cspec.get('coq_prefix', name),
                        self_attrs=self_attrs, coq_name=cn)
            sp.node = node
            sp.decos = []
            sp.sampler = True
            sp.cls_nodes = nodes
            sp.has_kwargs = False
            sp.kwrest = None
            sp.skip_sig_check = True
            specs.append(sp)
    # inherited DualTransform.apply_to_mask: self.apply(img, **{k: INTER_NEAREST if k == "interpolation" else v ...})
    methods = cspec.get('methods', APPLY_METHODS)
    if 'apply_to_mask' in methods and find('apply_to_mask') is None and find('apply') is not None \
            and any(sp.name == 'apply' for sp in specs):
        sp = FnSpec('apply_to_mask', [('img', ktypes['img'])] + [(k, ktypes[k]) for k in keys],
                    cls=name, self_attrs=self_attrs, coq_name=name + '_apply_to_mask')
        sp.synthetic_mask = True
        sp.node = m['_dual_mask_node']
        sp.decos = []
        sp.param_keys = keys
        sp.cls_nodes = nodes
        specs.append(sp)
    return specs


def split_loop_sampler(fn):
    """fn:  <prefix>; acc = []; for a in range(E1): [for b in range(E2): ...] <body>; acc.append(X);  return {"k": acc}
    -> (FunctionDef returning (E1, E2, ...), FunctionDef returning X after <body>, loop variables read by the body);
    both functions start with the prefix.  The accumulator must be created empty, appended to exactly once per
    innermost iteration (last statement), read nowhere and returned as the only value of the dict."""
    if fn is None:
        raise TransError('loop sampler not found')
    body = [st for st in fn.body if not (isinstance(st, ast.Expr) and isinstance(st.value, ast.Constant))]
    loops = [i for i, st in enumerate(body) if isinstance(st, ast.For)]
    if len(loops) != 1:
        raise TransError('loop sampler: expected exactly one top-level for loop in %s' % fn.name)
    i = loops[0]
    prefix, after = body[:i], body[i + 1:]
    chain = [body[i]]
    while len(chain[-1].body) == 1 and isinstance(chain[-1].body[0], ast.For):
        chain.append(chain[-1].body[0])
    for loop in chain:
        if not (isinstance(loop.iter, ast.Call) and isinstance(loop.iter.func, ast.Name) and loop.iter.func.id == 'range'
                and len(loop.iter.args) == 1 and not loop.orelse and isinstance(loop.target, ast.Name)):
            raise TransError('loop sampler: loop is not `for v in range(E)`')
    inner = chain[-1]
    last = inner.body[-1]
    if not (isinstance(last, ast.Expr) and isinstance(last.value, ast.Call) and isinstance(last.value.func, ast.Attribute)
            and last.value.func.attr == 'append' and isinstance(last.value.func.value, ast.Name) and len(last.value.args) == 1):
        raise TransError('loop sampler: the loop body does not end with acc.append(X)')
    acc = last.value.func.value.id

    def tgt(st):
        return st.targets[0] if isinstance(st, ast.Assign) else st.target
    decl = [st for st in prefix if isinstance(st, (ast.Assign, ast.AnnAssign)) and isinstance(tgt(st), ast.Name)
            and tgt(st).id == acc]
    if len(decl) != 1 or not (isinstance(decl[0].value, ast.List) and not decl[0].value.elts):
        raise TransError('loop sampler: accumulator %s is not initialised to []' % acc)
    loop_vars = [l.target.id for l in chain]
    used = []
    for st in list(inner.body[:-1]) + [ast.Expr(value=last.value.args[0])]:
        for n in ast.walk(st):
            if isinstance(n, ast.Name) and n.id == acc:
                raise TransError('loop sampler: the loop body reads %s' % acc)
            if isinstance(n, ast.Name) and n.id in loop_vars and n.id not in used:
                used.append(n.id)
    # the counts may not depend on outer loop variables
    for l in chain:
        for n in ast.walk(l.iter):
            if isinstance(n, ast.Name) and n.id in loop_vars:
                raise TransError('loop sampler: a loop count depends on a loop variable')
    if not (len(after) == 1 and isinstance(after[0], ast.Return) and isinstance(after[0].value, ast.Dict)
            and len(after[0].value.values) == 1 and isinstance(after[0].value.values[0], ast.Name)
            and after[0].value.values[0].id == acc):
        raise TransError('loop sampler: the function does not end with return {key: %s}' % acc)
    prefix = [st for st in prefix if st is not decl[0]]
    import copy as _copy

    def mk(name, stmts):
        f = ast.FunctionDef(name=name, args=fn.args, body=stmts, decorator_list=[], returns=None, lineno=fn.lineno,
                            col_offset=0)
        return ast.fix_missing_locations(f)
    counts = [l.iter.args[0] for l in chain]
    cexpr = counts[0] if len(counts) == 1 else ast.Tuple(elts=counts, ctx=ast.Load())
    ret_e = ast.Return(value=cexpr, lineno=chain[0].lineno, col_offset=0)
    ret_x = ast.Return(value=last.value.args[0], lineno=last.lineno, col_offset=0)
    return (mk(fn.name + '_count', _copy.deepcopy(prefix) + [ret_e]),
            mk(fn.name + '_body', _copy.deepcopy(prefix) + _copy.deepcopy(inner.body[:-1]) + [ret_x]),
            [v for v in loop_vars if v in used])


def find_functions(tree):
    out = {}
    for n in tree.body:
        if isinstance(n, ast.FunctionDef):
            out[n.name] = n
        elif isinstance(n, ast.ClassDef):
            for m in n.body:
                if isinstance(m, ast.FunctionDef):
                    out[n.name + '.' + m.name] = m
    # nested: decorator wrappers
    for n in tree.body:
        if isinstance(n, ast.FunctionDef):
            for m in n.body:
                if isinstance(m, ast.FunctionDef):
                    out[n.name + '.' + m.name] = m
    return out


def contains_raise(node, registry, self_name):
    for n in ast.walk(node):
        if isinstance(n, (ast.Raise, ast.Assert)):
            return True
        if isinstance(n, ast.BinOp) and isinstance(n.op, (ast.Div, ast.FloorDiv, ast.Mod)):
            r = n.right
            if not (isinstance(r, ast.Constant) and isinstance(r.value, (int, float)) and r.value != 0):
                return True
        if isinstance(n, ast.Call):
            f = n.func
            nm = f.id if isinstance(f, ast.Name) else (f.attr if isinstance(f, ast.Attribute) else None)
            if nm in registry and nm != self_name and registry[nm].raises:
                return True
    return False


def decorator_names(node):
    out = []
    for d in node.decorator_list:
        if isinstance(d, ast.Name):
            out.append(d.id)
        elif isinstance(d, ast.Attribute):
            out.append(d.attr)
        elif isinstance(d, ast.Call) and isinstance(d.func, ast.Name):
            out.append(d.func.id)
    return out


IGNORED_DECORATORS = {'staticmethod', 'property', 'classmethod',
                      # act on the channel axis only, which the 3-D array model does not carry
                      'preserve_channel_dim', 'preserve_shape'}


# integer constants that the package modules import from dicaugment.core.transforms_interface (INTER_NEAREST, ...):
# read from that file's source on every run
IMPORTED_CONSTS = {}


def load_imported_consts(repo):
    IMPORTED_CONSTS.clear()
    tree = ast.parse(open(os.path.join(repo, 'dicaugment/core/transforms_interface.py')).read())
    for n in tree.body:
        if isinstance(n, ast.Assign) and len(n.targets) == 1 and isinstance(n.targets[0], ast.Name) \
                and n.targets[0].id.startswith('INTER_') and isinstance(n.value, ast.Constant) and isinstance(n.value.value, int):
            IMPORTED_CONSTS[n.targets[0].id] = n.value


def translate_all(repo, modules, out_dir):
    load_imported_consts(repo)
    """modules: list of dicts {file, coq_module, functions:[FnSpec kwargs], requires:[coq modules]}"""
    manifest = {'modules': [], 'errors': []}
    registry = {}
    trees = {}
    # wrapper (decorator) definitions available to every module
    deco_src = os.path.join(repo, 'dicaugment/augmentations/utils.py')
    deco_tree = ast.parse(open(deco_src).read())
    deco_funcs = find_functions(deco_tree)
    global_consts = {}
    for n in deco_tree.body:
        if isinstance(n, ast.Assign) and len(n.targets) == 1 and isinstance(n.targets[0], ast.Name) \
                and isinstance(n.value, ast.Dict) and all(isinstance(k, ast.Constant) and isinstance(v, ast.Constant)
                                                          for k, v in zip(n.value.keys, n.value.values)):
            global_consts[n.targets[0].id] = n.value
    for m in modules:
        m['_global_consts'] = global_consts
        src = open(os.path.join(repo, m['file'])).read()
        trees[m['file']] = (src, ast.parse(src))
    # pass 1: register specs, find nodes
    for m in modules:
        src, tree = trees[m['file']]
        funcs = find_functions(tree)
        m['_specs'] = []
        m['_consts'] = {}
        for n in tree.body:
            if isinstance(n, ast.Assign) and len(n.targets) == 1 and isinstance(n.targets[0], ast.Name) \
                    and isinstance(n.value, (ast.Constant, ast.Set, ast.Tuple, ast.List)):
                m['_consts'][n.targets[0].id] = n.value
        for fs in m.get('functions', []):
            fs = dict(fs)
            bind = fs.pop('bind', None)       # specialisation: a function-valued parameter bound to a builtin (max / min)
            spec = FnSpec(**fs)
            spec.bind = bind or {}
            key = (spec.cls + '.' + spec.name) if spec.cls else spec.name
            node = funcs.get(key)
            if node is None:
                manifest['errors'].append({'function': key, 'file': m['file'], 'error': 'not found in source'})
                continue
            if bind:
                node = copy.deepcopy(node)

                class _Bind(ast.NodeTransformer):
                    def visit_Name(self, n):
                        return ast.copy_location(ast.Name(id=bind[n.id], ctx=n.ctx), n) if n.id in bind else n
                node.body = [_Bind().visit(b) for b in node.body]
                node.args.args = [a_ for a_ in node.args.args if a_.arg not in bind]
            spec.node = node
            # defaults
            a = node.args
            pos = a.args
            for arg, d in zip(pos[len(pos) - len(a.defaults):], a.defaults):
                spec.defaults[arg.arg] = d
            # parameter list check: every non-self source parameter must be typed by the spec
            src_params = [x.arg for x in pos if x.arg != 'self']
            declared = [p for p, _ in spec.params]
            if src_params != declared:
                manifest['errors'].append({'function': key, 'file': m['file'],
                                           'error': 'signature changed: source %s vs spec %s' % (src_params, declared)})
                continue
            spec.decos = [d for d in decorator_names(node) if d not in IGNORED_DECORATORS]
            if spec.cls and spec.coq_name == spec.name:
                spec.coq_name = spec.cls + '_' + spec.name
            registry[spec.coq_name if (spec.cls or spec.bind) else spec.name] = spec
            m['_specs'].append(spec)
    # the inherited mask path: DualTransform.apply_to_mask must have the known shape
    ti_src = open(os.path.join(repo, 'dicaugment/core/transforms_interface.py')).read()
    ti_tree = ast.parse(ti_src)
    dual_mask = find_functions(ti_tree).get('DualTransform.apply_to_mask')
    dual_ok = False
    if dual_mask is not None:
        body = [b for b in dual_mask.body if not (isinstance(b, ast.Expr) and isinstance(b.value, ast.Constant))]
        want = "return self.apply(img, **{k: INTER_NEAREST if k == 'interpolation' else v for k, v in params.items()})"
        dual_ok = len(body) == 1 and ast.unparse(body[0]).replace('"', "'") == want
    nearest_ok = any(isinstance(n, ast.Assign) and len(n.targets) == 1 and isinstance(n.targets[0], ast.Name)
                     and n.targets[0].id == 'INTER_NEAREST' and isinstance(n.value, ast.Constant) and n.value.value == 0
                     for n in ti_tree.body)
    for m in modules:
        m['_dual_mask_node'] = dual_mask
        m['_dual_mask_ok'] = dual_ok and nearest_ok
    # class methods (apply-like), with the parameter-dict binding made explicit
    NAME_TYPES_P.clear()
    NAME_TYPES_P.update({k: parse_type(v) for k, v in NAME_TYPES.items()})
    for m in modules:
        src, tree = trees[m['file']]
        for cspec in m.get('classes', []):
            for sp in class_method_specs(m, tree, cspec, manifest['errors']):
                registry[sp.coq_name] = sp
                m['_specs'].append(sp)
    # decorators: the decorated function is translated as <name>_raw and the
    # wrapper body (from augmentations/utils.py) as <name>
    extra = []
    for m in modules:
        newspecs = []
        for spec in m['_specs']:
            if spec.decos:
                unknown = [d for d in spec.decos if d + '.wrapped_function' not in deco_funcs]
                if unknown or len(spec.decos) != 1:
                    manifest['errors'].append({'function': spec.name, 'file': m['file'],
                                               'error': 'unsupported decorators %s' % spec.decos})
                    registry.pop(spec.name, None)
                    continue
                raw = copy.copy(spec)
                raw.coq_name = spec.coq_name + '_raw'
                raw.name = spec.name + '_raw'
                raw.decos = []
                registry[raw.name] = raw
                wrap = FnSpec(spec.name, [], ret=None)
                wrap.params = list(spec.params)
                wrap.defaults = spec.defaults
                wrap.node = deco_funcs[spec.decos[0] + '.wrapped_function']
                wrap.wrapper_of = raw.name
                wrap.decos = []
                wrap.ret = spec.ret
                registry[spec.name] = wrap
                newspecs += [raw, wrap]
            else:
                newspecs.append(spec)
        m['_specs'] = newspecs
    # pass 2: translate on demand (callees first); a function is monadic iff its
    # translation actually contains an effect (raise, assert, checked division, call of a monadic function)
    state = {}
    outputs = {m['coq_module']: [] for m in modules}
    mod_of = {}
    for m in modules:
        for spec in m['_specs']:
            mod_of[id(spec)] = m

    def ensure(spec):
        if id(spec) in state:
            if state[id(spec)] == 'busy':
                raise TransError('recursion through %s' % spec.name)
            if state[id(spec)] == 'failed':
                raise TransError('depends on untranslatable %s' % spec.name)
            return
        state[id(spec)] = 'busy'
        m = mod_of[id(spec)]
        try:
            if spec.wrapper_of:
                ensure(registry[spec.wrapper_of])
            code = None
            for monadic in (True, False):
                spec.raises = monadic
                tr = FnTranslator(m, spec, registry)
                tr.monadic = monadic
                tr.ensure = ensure
                saved_ret = spec.ret
                code = tr.translate()
                if monadic and not tr.effect_used:
                    spec.ret = saved_ret
                    continue
                break
            outputs[m['coq_module']].append((spec, code))
            state[id(spec)] = 'done'
        except TransError as e:
            state[id(spec)] = 'failed'
            manifest['errors'].append({'function': spec.name, 'file': m['file'], 'error': str(e)})
            outputs[m['coq_module']].append((spec, '(* UNTRANSLATABLE %s: %s *)\n' % (spec.name, str(e).replace('*)', '* )'))))
            for kname in [kk for kk, vv in registry.items() if vv is spec]:
                registry.pop(kname)
            raise

    for m in modules:
        for spec in m['_specs']:
            try:
                ensure(spec)
            except TransError:
                pass
    for m in modules:
        src, tree = trees[m['file']]
        lines = ['(* GENERATED by /verif/translator/py2coq.py from %s -- do not edit *)' % m['file'],
                 'From DV.lib Require Import PyNum PyRt.', 'From DV.model Require Import Arrays NpRt.']
        for r in m.get('requires', []):
            lines.append('From DV.gen Require Import %s.' % r)
        lines += ['Open Scope Q_scope.', '']
        done = []
        for spec, code in outputs[m['coq_module']]:
            lines.append('(* %s:%d *)' % (m['file'], spec.node.lineno))
            lines.append(code)
            if not code.startswith('(* UNTRANSLATABLE'):
                done.append({'name': spec.coq_name, 'py_name': spec.name, 'line': spec.node.lineno,
                             'raises': spec.raises, 'ret': coq_type(spec.ret), 'ret_ty': spec.ret,
                             'params': [[pn, pt] for pn, pt in spec.params],
                             'draws': [[dn, dt] for dn, dt in getattr(spec, 'draws', [])],
                             'ret_keys': getattr(spec, 'ret_keys', None),
                             'self_attrs': [[a, t] for a, t in sorted(spec.self_attrs.items())],
                             'wrapper_of': spec.wrapper_of})
        text = '\n'.join(lines) + '\n'
        path = os.path.join(out_dir, m['coq_module'] + '.v')
        old = open(path).read() if os.path.exists(path) else None
        if old != text:
            with open(path, 'w') as f:
                f.write(text)
        manifest['modules'].append({'file': m['file'], 'coq_module': m['coq_module'],
                                    'sha256': hashlib.sha256(src.encode()).hexdigest(),
                                    'functions': done, 'rewritten': old != text})
    return manifest


if __name__ == '__main__':
    sys.path.insert(0, os.path.dirname(os.path.abspath(__file__)))
    import spec as specmod
    repo = os.environ.get('VERIF_REPO', '/repo')
    out = sys.argv[1] if len(sys.argv) > 1 else os.path.join(os.path.dirname(os.path.abspath(__file__)), '..', 'coq', 'gen')
    os.makedirs(out, exist_ok=True)
    man = translate_all(repo, specmod.modules(), out)
    with open(os.path.join(out, 'manifest.json'), 'w') as f:
        json.dump(man, f, indent=1)
    for e in man['errors']:
        print('TRANSLATION-ERROR', e['file'], e['function'], e['error'])
    print('translated %d functions, %d errors' % (sum(len(m['functions']) for m in man['modules']), len(man['errors'])))
