#!/usr/bin/env python3
"""Correspondence for the replay model (coq/model/Replay.v): random operator trees over recording
leaves under ReplayCompose; the record's applied flags and the leaves applied by
ReplayCompose.replay (under another seed, with every entropy read recorded) must be what the
model computes from the tree and the recorded firing trace."""
import os
import random
import re
import subprocess
import sys

sys.path.insert(0, os.path.dirname(os.path.abspath(__file__)))
import numpy as np
import corr_framework as CF

A = CF.A
Fr = CF.Fr
VERIF = CF.VERIF


def flags_of(rec):
    out = [bool(rec['applied'])]
    for t in rec.get('transforms', []):
        out += flags_of(t)
    return out


def run(seed, n):
    rng = random.Random(seed * 1299709 + 13)
    img = np.zeros((2, 3, 4), np.uint8)
    cases, kinds, replay_draws = [], {}, 0
    for i in range(n):
        counter = [0]
        top = {'k': 'Compose', 'p': rng.choice(CF.PS + [1, 1, 1]), 'kids': [CF.gen_tree(rng, 3, counter) for _ in range(rng.randint(1, 3))]}
        kids = [CF.build(k) for k in top['kids']]
        pipe = A.ReplayCompose(kids, p=float(top['p']))
        del CF.TRACE[:]
        random.seed(rng.randint(0, 1 << 30))
        try:
            res = pipe(image=img)
        except Exception as e:  # noqa
            kinds['record-raises:' + type(e).__name__] = kinds.get('record-raises:' + type(e).__name__, 0) + 1
            continue
        fired = list(CF.TRACE)
        del CF.TRACE[:]
        random.seed(rng.randint(0, 1 << 30))
        with CF.Recorder() as rec:
            try:
                A.ReplayCompose.replay(res['replay'], image=img)
                err = None
            except Exception as e:  # noqa
                err = type(e).__name__
        if err is not None:
            kinds['replay-raises:' + err] = kinds.get('replay-raises:' + err, 0) + 1
            cases.append({'tree': top, 'fired': fired, 'replayed': None, 'coq': 'false', 'err': err})
            continue
        replayed = list(CF.TRACE)
        replay_draws += len(rec.events)
        flags = flags_of(res['replay'])
        coq = '(check_replay %s %s %s [%s])%s' % (CF.coq_node(top), CF.nat_list(fired), CF.nat_list(replayed),
                                                '; '.join('true' if f else 'false' for f in flags),
                                                # a restored nested Compose (default p = 1) reads random.random() and always runs
                                                '' if all(k == 'U' and v < 1.0 for k, v in rec.events) else ' && false')
        cases.append({'tree': top, 'fired': fired, 'replayed': replayed, 'coq': coq, 'draws_in_replay': len(rec.events)})
        key = 'faithful' if fired == replayed else 'replay-differs'
        kinds[key] = kinds.get(key, 0) + 1
    cdir = os.path.join(VERIF, 'coq', 'cases')
    os.makedirs(cdir, exist_ok=True)
    path = os.path.join(cdir, 'rp_%d.v' % seed)
    with open(path, 'w') as f:
        f.write('From Coq Require Import List QArith Bool.\nImport ListNotations.\n'
                'From DV.model Require Import Framework FrameworkCheck Replay.\nOpen Scope Q_scope.\n')
        f.write('Definition cases : list bool := [\n' + ';\n'.join(' ' + c['coq'] for c in cases) + '].\n')
        f.write('Eval vm_compute in (bad_idx 0 cases).\n')
    p = subprocess.run(['timeout', '900', 'coqc', '-Q', 'lib', 'DV.lib', '-Q', 'model', 'DV.model', path],
                       cwd=os.path.join(VERIF, 'coq'), stdout=subprocess.PIPE, stderr=subprocess.STDOUT, text=True)
    m = re.search(r'=\s*\[(.*?)\]', p.stdout, re.S)
    errors, bad = [], []
    if p.returncode != 0 or m is None:
        errors.append(p.stdout[-1500:])
    else:
        bad = [int(x) for x in re.findall(r'\d+', m.group(1))]
    for ext in ('.vo', '.vok', '.vos', '.glob'):
        try:
            os.remove(path[:-2] + ext)
        except OSError:
            pass

    def conv(o):
        if isinstance(o, Fr):
            return float(o)
        if isinstance(o, dict):
            return {k: conv(v) for k, v in o.items()}
        if isinstance(o, (list, tuple)):
            return [conv(x) for x in o]
        return o

    def js(c):
        return {k: conv(v) for k, v in c.items() if k != 'coq'}
    return {'cases': len(cases), 'distinct_cases': len({c['coq'] for c in cases}), 'result_kinds': kinds,
            'n_disagreements': len(bad), 'disagreements': [js(cases[i]) for i in bad[:10]],
            'coq_errors': errors, 'missing_functions': [], 'samples': [js(c) for c in cases[:2]],
            'entropy_reads_during_replay': replay_draws}


if __name__ == '__main__':
    import json
    print(json.dumps(run(int(sys.argv[1]), int(sys.argv[2])), indent=1)[:3000])
