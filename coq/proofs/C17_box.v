(* C17 -- group laws of the lattice box maps (generated code). *)
From DV.lib Require Import PyNum PyRt.
From DV.gen Require Import Gen_bbox_utils Gen_geom_functional.
From DV.proofs Require Import Tac.
From Coq Require Import Lqa Lia.
Open Scope Q_scope.

Definition planes : list string := ["xy"%string; "yz"%string; "xz"%string].
Definition factors : list Z := [0; 1; 2; 3]%Z.
Definition flipcodes : list Z := [-1; 0; 1; 2]%Z.

Section Frame.
Variables r c s r' c' s' : Z.   (* frame sizes are ignored by the box maps: any values *)

Lemma bbox_vflip_invol b : box_eq (bbox_vflip (bbox_vflip b r c s) r' c' s') b.
Proof. destruct_box b. unfold bbox_vflip. box_solve. Qed.
Lemma bbox_hflip_invol b : box_eq (bbox_hflip (bbox_hflip b r c s) r' c' s') b.
Proof. destruct_box b. unfold bbox_hflip. box_solve. Qed.
Lemma bbox_zflip_invol b : box_eq (bbox_zflip (bbox_zflip b r c s) r' c' s') b.
Proof. destruct_box b. unfold bbox_zflip. box_solve. Qed.

Lemma bbox_flip_invol b d : In d flipcodes ->
  res_box_eq (do b1 <- bbox_flip b d r c s; bbox_flip b1 d r' c' s') (Ok b).
Proof.
  intros H. destruct_box b. unfold flipcodes in H. in_cases H;
  unfold bbox_flip, bbox_vflip, bbox_hflip, bbox_zflip; cbn; repeat split; lra.
Qed.

Lemma bbox_flips_commute b :
  box_eq (bbox_vflip (bbox_hflip b r c s) r c s) (bbox_hflip (bbox_vflip b r c s) r c s) /\
  box_eq (bbox_vflip (bbox_zflip b r c s) r c s) (bbox_zflip (bbox_vflip b r c s) r c s) /\
  box_eq (bbox_hflip (bbox_zflip b r c s) r c s) (bbox_zflip (bbox_hflip b r c s) r c s).
Proof. destruct_box b. unfold bbox_vflip, bbox_hflip, bbox_zflip. repeat split; cbn; lra. Qed.

Lemma bbox_flip_all b :
  res_box_eq (bbox_flip b (-1) r c s)
             (Ok (bbox_zflip (bbox_vflip (bbox_hflip b r c s) r c s) r c s)).
Proof. destruct_box b. unfold bbox_flip, bbox_vflip, bbox_hflip, bbox_zflip. cbn. repeat split; lra. Qed.

Lemma bbox_transpose_invol b :
  res_box_eq (do b1 <- bbox_transpose b 0 r c s; bbox_transpose b1 0 r' c' s') (Ok b).
Proof. destruct_box b. unfold bbox_transpose. cbn. repeat split; lra. Qed.

(* k quarter turns followed by 4-k quarter turns in the same plane *)
Lemma bbox_rot90_inverse b k ax : In k factors -> In ax planes ->
  res_box_eq (do b1 <- bbox_rot90 b k ax r c s; bbox_rot90 b1 ((4 - k) mod 4) ax r' c' s') (Ok b).
Proof.
  intros Hk Ha. destruct_box b. unfold factors in Hk. unfold planes in Ha.
  in_cases Hk; in_cases Ha; unfold bbox_rot90; cbn; repeat split; lra.
Qed.

(* four quarter turns *)
Lemma bbox_rot90_four b ax : In ax planes ->
  res_box_eq (do b1 <- bbox_rot90 b 1 ax r c s; do b2 <- bbox_rot90 b1 1 ax r c s;
              do b3 <- bbox_rot90 b2 1 ax r c s; bbox_rot90 b3 1 ax r c s) (Ok b).
Proof.
  intros Ha. destruct_box b. unfold planes in Ha.
  in_cases Ha; unfold bbox_rot90; cbn; repeat split; lra.
Qed.

(* factor k equals k single quarter turns *)
Lemma bbox_rot90_two b ax : In ax planes ->
  res_box_eq (do b1 <- bbox_rot90 b 1 ax r c s; bbox_rot90 b1 1 ax r c s) (bbox_rot90 b 2 ax r c s).
Proof.
  intros Ha. destruct_box b. unfold planes in Ha.
  in_cases Ha; unfold bbox_rot90; cbn; repeat split; lra.
Qed.
Lemma bbox_rot90_three b ax : In ax planes ->
  res_box_eq (do b1 <- bbox_rot90 b 2 ax r c s; bbox_rot90 b1 1 ax r c s) (bbox_rot90 b 3 ax r c s).
Proof.
  intros Ha. destruct_box b. unfold planes in Ha.
  in_cases Ha; unfold bbox_rot90; cbn; repeat split; lra.
Qed.

End Frame.
