(* C16 -- DICOM header stays consistent with the voxel grid.
   All functions below are regenerated from the source on every run (header helpers, the
   apply_to_dicom hook of every class that has one, the parameter samplers of SetPixelSpacing and
   RescaleSlopeIntercept, the default hook of DualTransform).  The header is a record: in-plane
   PixelSpacing (row, col), RescaleSlope, RescaleIntercept, and one opaque token for every other
   key, so "everything else passes through" is an equation. *)
From Coq Require Import ZArith QArith List Bool String.
From DV.lib Require Import PyNum PyRt.
From DV.gen Require Import Gen_dicom_functional Gen_cls_resize Gen_cls_geom_dicom Gen_cls_dicom Gen_cls_iface
  Gen_cls_rotate Gen_cls_crops_dicom Gen_classtab.
From DV.proofs Require Import ClassFacts Dicom.
Open Scope Q_scope.

Theorem C16_header_helpers :
  (forall d sx sy, h_spacing (dicom_scale d sx sy) = (fst (h_spacing d) * sy, snd (h_spacing d) * sx) /\
                   same_but_spacing (dicom_scale d sx sy) d) /\
  (forall d, h_spacing (transpose_dicom d) = (snd (h_spacing d), fst (h_spacing d)) /\
             same_but_spacing (transpose_dicom d) d) /\
  (forall d, transpose_dicom (transpose_dicom d) = d).
Proof. repeat split; first [apply dicom_scale_spec | apply transpose_dicom_spec | apply transpose_dicom_involutive]. Qed.
Print Assumptions C16_header_helpers.

(* the factor applied to the spacing is the factor the image path is resampled by:
   scale (RandomScale, ShiftScaleRotate), max_size/max(shape), max_size/min(shape), target/extent *)
Theorem C16_resampling_hooks_use_the_image_factor :
  (forall d scale ip c r s,
     h_spacing (RandomScale_apply_to_dicom d scale ip c r s) = (fst (h_spacing d) * scale, snd (h_spacing d) * scale) /\
     same_but_spacing (RandomScale_apply_to_dicom d scale ip c r s) d) /\
  (forall d a scale dx dy dz ax ip c r s,
     h_spacing (ShiftScaleRotate_apply_to_dicom d a scale dx dy dz ax ip c r s)
       = (fst (h_spacing d) * scale, snd (h_spacing d) * scale) /\
     same_but_spacing (ShiftScaleRotate_apply_to_dicom d a scale dx dy dz ax ip c r s) d) /\
  (forall d m ip c r s, (0 < r)%Z -> (0 < c)%Z -> (0 < s)%Z ->
     exists d', LongestMaxSize_apply_to_dicom d m ip c r s = Ok d' /\
       let f := inject_Z m / inject_Z (Z.max (Z.max r c) s) in
       h_spacing d' = (fst (h_spacing d) * f, snd (h_spacing d) * f) /\ same_but_spacing d' d) /\
  (forall d m ip c r s, (0 < r)%Z -> (0 < c)%Z -> (0 < s)%Z ->
     exists d', SmallestMaxSize_apply_to_dicom d m ip c r s = Ok d' /\
       let f := inject_Z m / inject_Z (Z.min (Z.min r c) s) in
       h_spacing d' = (fst (h_spacing d) * f, snd (h_spacing d) * f) /\ same_but_spacing d' d) /\
  (forall sd sh sw d ip c r s, (0 < r)%Z -> (0 < c)%Z ->
     exists d', Resize_apply_to_dicom sd sh sw d ip c r s = Ok d' /\
       h_spacing d' = (fst (h_spacing d) * (inject_Z sh / inject_Z r), snd (h_spacing d) * (inject_Z sw / inject_Z c)) /\
       same_but_spacing d' d).
Proof.
  repeat split; intros;
  first [apply RandomScale_dicom | apply ShiftScaleRotate_dicom | apply LongestMaxSize_dicom; assumption
        | apply SmallestMaxSize_dicom; assumption | apply Resize_dicom; assumption].
Qed.
Print Assumptions C16_resampling_hooks_use_the_image_factor.

Theorem C16_transpose_swaps_and_SetPixelSpacing_reaches_its_target :
  (forall d c r s, h_spacing (Transpose_apply_to_dicom d c r s) = (snd (h_spacing d), fst (h_spacing d)) /\
                   same_but_spacing (Transpose_apply_to_dicom d c r s) d) /\
  (forall sx sy d ip c r s, 0 < fst (h_spacing d) -> 0 < snd (h_spacing d) ->
     exists fx fy, SetPixelSpacingS_get_params_dependent_on_targets sx sy d = Ok (fx, fy) /\
       let d' := SetPixelSpacing_apply_to_dicom d fx fy ip c r s in
       fst (h_spacing d') == sy /\ snd (h_spacing d') == sx /\ same_but_spacing d' d).
Proof. split; intros; [apply Transpose_dicom | apply SetPixelSpacing_reaches_target; assumption]. Qed.
Print Assumptions C16_transpose_swaps_and_SetPixelSpacing_reaches_its_target.

Theorem C16_quarter_turns_and_sized_crops :
  (forall d n c r s, In n [0; 1; 2; 3]%Z ->
     RandomRotate90_apply_to_dicom d n "xy" c r s = (if Z.odd n then transpose_dicom d else d) /\
     (forall ax, In ax ["yz"; "xz"]%string -> RandomRotate90_apply_to_dicom d n ax c r s = d)) /\
  (forall sh sw d hs ws ch cw cd ip c r s, (0 < ch)%Z -> (0 < cw)%Z ->
     exists d', RandomSizedCrop_apply_to_dicom sh sw d hs ws ch cw cd ip c r s = Ok d' /\
       h_spacing d' = (fst (h_spacing d) * (inject_Z sh / inject_Z ch), snd (h_spacing d) * (inject_Z sw / inject_Z cw)) /\
       same_but_spacing d' d) /\
  (forall sh sw d hs ws ds ch cw cd ip c r s, (0 < ch)%Z -> (0 < cw)%Z ->
     exists d', RandomSizedBBoxSafeCrop_apply_to_dicom sh sw d hs ws ds ch cw cd ip c r s = Ok d' /\
       h_spacing d' = (fst (h_spacing d) * (inject_Z sh / inject_Z ch), snd (h_spacing d) * (inject_Z sw / inject_Z cw)) /\
       same_but_spacing d' d) /\
  (forall keep pm d cp pp pv pvm rr rc rs ip c r s, (0 < rr)%Z -> (0 < rc)%Z ->
     exists d', CropAndPad_apply_to_dicom keep pm d cp pp pv pvm rr rc rs ip c r s = Ok d' /\
       if keep then
         h_spacing d' = (fst (h_spacing d) * (inject_Z r / inject_Z rr), snd (h_spacing d) * (inject_Z c / inject_Z rc)) /\
         same_but_spacing d' d
       else d' = d).
Proof.
  repeat split; intros;
  first [apply RandomRotate90_dicom; assumption | apply RandomSizedCrop_dicom; assumption
        | apply RandomSizedBBoxSafeCrop_dicom; assumption | apply CropAndPad_dicom; assumption].
Qed.
Print Assumptions C16_quarter_turns_and_sized_crops.

(* every other class inherits the identity hook *)
Theorem C16_all_other_classes_pass_the_header_through :
  forallb dicom_hook_ok class_table = true /\ (forall d c r s, DualTransform_apply_to_dicom d c r s = d).
Proof. split; [exact dicom_hooks_table | exact default_dicom]. Qed.
Print Assumptions C16_all_other_classes_pass_the_header_through.

(* RescaleSlopeIntercept: exact for integer- and float-valued headers whenever raw*slope+intercept is an
   integer in the int16 range; (voxels, header) keeps its meaning; a second application is a no-op *)
Theorem C16_rescale_slope_intercept : forall raw d z cc rr ss,
  hounsfield raw d == inject_Z z -> (-32768 <= z <= 32767)%Z ->
  let '(sl, ic) := RescaleSlopeInterceptS_get_params_dependent_on_targets d in
  let v' := rescale_slope_intercept (inject_Z raw) sl ic in
  let d' := RescaleSlopeIntercept_apply_to_dicom d sl ic cc rr ss in
  v' = z /\ hounsfield v' d' == hounsfield raw d /\
  h_spacing d' = h_spacing d /\ h_rest d' = h_rest d /\
  let '(sl2, ic2) := RescaleSlopeInterceptS_get_params_dependent_on_targets d' in
  rescale_slope_intercept (inject_Z v') sl2 ic2 = v' /\ RescaleSlopeIntercept_apply_to_dicom d' sl2 ic2 cc rr ss = d'.
Proof. exact rescale_preserves_meaning. Qed.
Print Assumptions C16_rescale_slope_intercept.

(* non-vacuity: a float-valued header (slope 1/2, intercept -1024) on an even raw value *)
Example C16_float_header :
  rescale_slope_intercept (inject_Z 100) (1 # 2) (-1024) = (-974)%Z /\
  hounsfield 100 (mkHdr (7 # 10, 2 # 5) (1 # 2) (-1024) 7) == inject_Z (-974).
Proof. split; vm_compute; reflexivity. Qed.

(* Longest / SmallestMaxSize: image path and header hook are both generated; the spacing is multiplied by the very
   factor the image is zoomed by (max_size / longest side, max_size / shortest side) *)
From DV.model Require Import Arrays NpRt.
From DV.proofs Require Import Resample.
Theorem C16_max_size_image_and_header_share_the_factor : forall v d m ip H W D,
  vshape v = (H, W, D) -> (0 < H)%Z -> (0 < W)%Z -> (0 < D)%Z ->
  (let f := inject_Z m / inject_Z (Z.max (Z.max H W) D) in
   LongestMaxSize_apply v m ip W H D = Ok (zoomed f ip v) /\
   exists d', LongestMaxSize_apply_to_dicom d m ip W H D = Ok d' /\
     h_spacing d' = (fst (h_spacing d) * f, snd (h_spacing d) * f) /\ same_but_spacing d' d) /\
  (let f := inject_Z m / inject_Z (Z.min (Z.min H W) D) in
   SmallestMaxSize_apply v m ip W H D = Ok (zoomed f ip v) /\
   exists d', SmallestMaxSize_apply_to_dicom d m ip W H D = Ok d' /\
     h_spacing d' = (fst (h_spacing d) * f, snd (h_spacing d) * f) /\ same_but_spacing d' d).
Proof. exact max_size_image_and_header_share_the_factor. Qed.
Print Assumptions C16_max_size_image_and_header_share_the_factor.
