(* C04 -- Returned boxes are valid; filtering is exact (clip, then inclusive thresholds, visibility
   against the pre-clip box) and never raises.  filter_bboxes / check_bbox / the format
   conversions are the definitions regenerated from core/bbox_utils.py. *)
From Coq Require Import ZArith QArith List Bool.
From DV.lib Require Import PyNum PyRt.
From DV.gen Require Import Gen_bbox_utils Gen_bbox_proc.
From DV.proofs Require Import Conv C04_filter C04_sound C10_box.
Open Scope Q_scope.

(* exactness: the result IS the list of clipped remainders of the boxes that pass [keepb],
   in input order -- a box is removed iff its clipped remainder is empty or misses a threshold *)
Theorem C04_filter_is_clip_then_threshold : forall r c s t l,
  (0 < r)%Z -> (0 < c)%Z -> (0 < s)%Z -> Forall proper_box l ->
  filter_bboxes l r c s (t_area_vis t) (t_vol_vis t) (t_area t) (t_vol t) (t_w t) (t_h t) (t_d t)
  = Ok (flat_map (keep_list t r c s) l).
Proof. intros. apply filter_bboxes_spec; assumption. Qed.
Print Assumptions C04_filter_is_clip_then_threshold.

Theorem C04_kept_boxes_are_valid : forall r c s t l out,
  (0 < r)%Z -> (0 < c)%Z -> (0 < s)%Z -> Forall proper_box l ->
  filter_bboxes l r c s (t_area_vis t) (t_vol_vis t) (t_area t) (t_vol t) (t_w t) (t_h t) (t_d t) = Ok out ->
  forall b', In b' out ->
    exists b, In b l /\ b' = clip01 b /\ keepb t b r c s = true /\
              in_unit b' /\ proper_box b' /\ check_bbox b' = Ok tt.
Proof. intros r c s t l out Hr Hc Hs. apply filter_bboxes_sound; assumption. Qed.
Print Assumptions C04_kept_boxes_are_valid.

(* the processor forwards every configured threshold to the filter, in the right slot *)
Theorem C04_processor_wiring : forall av d h a v vv w data r c s,
  BboxProcessor_filter av d h a v vv w data r c s = filter_bboxes data r c s av vv a v w h d.
Proof. intros. reflexivity. Qed.
Print Assumptions C04_processor_wiring.

(* a valid box converts to each requested format without raising (and back to itself: C10) *)
Theorem C04_valid_box_passes_check : forall b, in_unit b -> proper_box b -> check_bbox b = Ok tt.
Proof. exact valid_passes_check. Qed.
Print Assumptions C04_valid_box_passes_check.

Example C04_threshold_is_inclusive :
  (* a box whose clipped remainder has exactly the minimum width is kept *)
  keepb (mkThr 0 0 0 0 5 0 0) (0, 0, 0, 1 # 2, 1, 1) 10 10 10 = true /\
  keepb (mkThr 0 0 0 0 (51 # 10) 0 0) (0, 0, 0, 1 # 2, 1, 1) 10 10 10 = false.
Proof. split; vm_compute; reflexivity. Qed.

(* "after every transform": in the model of the top-level pipeline object (model/Framework.v [run_top], tied to
   Compose.__call__ by the scheduling correspondence with the checks recorded in the trace) the per-transform check
   follows EACH item of the pipeline exactly once -- a container (Sequential, OneOf, SomeOf, a nested Compose) like a
   bare transform -- and switching it on changes nothing in what the items do (same data, same draws, same leaves);
   switched off, the pipeline is the plain Compose schedule of C15 *)
From DV.model Require Import Framework.
From DV.proofs Require Import TopCheck.
Theorem C04_one_check_after_every_item_of_the_pipeline :
  (forall data rk kids d ds d' tr ds',
     top_seq data true rk kids d ds = Some (d', tr, ds') ->
     exists trs : list (list nat),
       seq_with data rk kids d ds = Some (d', List.concat trs, ds') /\ List.length trs = List.length kids /\
       tr = List.concat (map (fun t => t ++ [O]) trs)) /\
  (forall data sem p kids force d ds,
     run_top data sem false p kids force d ds = run data sem (Comp p kids) force d ds).
Proof. split; [intros data; apply top_seq_same_items | apply run_top_off]. Qed.
Print Assumptions C04_one_check_after_every_item_of_the_pipeline.
