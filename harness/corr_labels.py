#!/usr/bin/env python3
"""Correspondence for coq/model/Labels.v: the real DataProcessor.add_label_fields_to_data /
remove_label_fields_from_data of the box and keypoint processors around a sequence of geometry maps
and filters (annotations identified by an id kept in an inline trailing field) vs the model's
attach / run_steps / strip / labels_of, evaluated on the same items inside Coq."""
import os
import random
import re
import subprocess
import sys

sys.path.insert(0, os.path.dirname(os.path.abspath(__file__)))
import implrun as R

A = R.A
VERIF = os.path.abspath(os.path.join(os.path.dirname(__file__), '..'))


def nl(l):
    return '[' + '; '.join('%d' % x for x in l) + ']%nat'


def run(seed, n):
    rng = random.Random(seed * 7368787 + 55)
    cases, kinds = [], {}
    for i in range(n):
        kind = rng.choice(['bboxes', 'keypoints'])
        k = rng.randint(0, 3)
        fields = ['f%d' % j for j in range(k)]
        m = rng.randint(0, 5)
        ninl = rng.randint(1, 2)                       # inline trailing fields; the first one is the id
        items = []
        for a in range(m):
            inline = [100 + a] + [rng.randint(0, 9) for _ in range(ninl - 1)]
            items.append((a, inline, [rng.randint(0, 50) for _ in range(k)]))
        geo = (lambda a: (0.1, 0.1, 0.1, 0.5, 0.5, 0.5)) if kind == 'bboxes' else (lambda a: (1.0 + a, 2.0, 3.0, 0.0, 1.0))
        data = {kind: [tuple(geo(a)) + tuple(inline) for a, inline, _ in items]}
        for j, f in enumerate(fields):
            data[f] = [ls[j] for _, _, ls in items]
        # an additional target of the same type (same number of items, its own inline fields 200 + id, the label lists
        # shared by position): the same steps are applied to both lists, so both keep the same annotations
        second = m > 0 and rng.random() < 0.4
        kind2 = kind + '2'
        add = {kind2: kind} if second else None
        if second:
            data[kind2] = [tuple(geo(a)) + (200 + a,) + tuple(inline[1:]) for a, inline, _ in items]
        if kind == 'bboxes':
            proc = A.core.bbox_utils.BboxProcessor(A.BboxParams('dicaugment_3d', label_fields=fields if k or rng.random() < 0.7 else None), add)
        else:
            proc = A.core.keypoints_utils.KeypointsProcessor(A.KeypointParams('xyzas', label_fields=fields if k or rng.random() < 0.7 else None), add)
        ng = 6 if kind == 'bboxes' else 5
        steps = []
        try:
            data = proc.add_label_fields_to_data(data)
            for s in range(rng.randint(0, 3)):
                if rng.random() < 0.5:
                    drop = set(rng.sample(range(m), rng.randint(0, m))) if m else set()
                    if rng.random() < 0.15:
                        drop = set(range(m))
                    data[kind] = [d for d in data[kind] if (d[ng] - 100) not in drop]
                    if second:
                        data[kind2] = [d for d in data[kind2] if (d[ng] - 200) not in drop]
                    steps.append('SFilter nat (fun g => negb (existsb (Nat.eqb g) %s))' % nl(sorted(drop)))
                else:
                    data[kind] = [tuple(d) for d in data[kind]]           # a geometry map keeps id and tail
                    steps.append('SMap nat (fun g => g)')
            data = proc.remove_label_fields_from_data(data)
            out_ann = [[int(v) for v in d[ng:]] for d in data[kind]]
            out_ann2 = [[int(v) for v in d[ng:]] for d in data[kind2]] if second else None
            out_lab = [[int(data[f][r]) for f in fields] for r in range(len(data[kind]))] if fields and proc.params.label_fields is not None else [[] for _ in data[kind]]
            if proc.params.label_fields is not None:
                for f in fields:
                    if len(data[f]) != len(data[kind]):
                        out_lab = None
            err = None
        except Exception as e:  # noqa
            err = type(e).__name__
        if err is not None or out_lab is None:
            kinds['impl:' + str(err or 'length-mismatch')] = kinds.get('impl:' + str(err or 'length-mismatch'), 0) + 1
            cases.append({'kind': kind, 'k': k, 'items': items, 'steps': steps, 'coq': 'false', 'observed': err or 'label list length differs from the annotation list'})
            continue
        kk = k if proc.params.label_fields is not None else 0
        coq_items = '[' + '; '.join('(%d, %s, %s)' % (a, nl(inl), nl(ls if kk else [])) for a, inl, ls in items) + ']'
        exp_ann = '[' + '; '.join(nl(t) for t in out_ann) + ']'
        exp_lab = '[' + '; '.join(nl(t) for t in out_lab) + ']'
        coq = ('(let out := run_steps nat nat [%s] (map (attach nat nat) %s) in '
               'list_eqb (list_eqb Nat.eqb) (map (fun a => snd (strip nat nat %d a)) out) %s && '
               'list_eqb (list_eqb Nat.eqb) (map (labels_of nat nat %d) out) %s)'
               % ('; '.join(steps), coq_items, kk, exp_ann, kk, exp_lab))
        if second:
            # the additional target: the same model on its own items (inline id 200 + a), the shared label lists
            items2 = '[' + '; '.join('(%d, %s, %s)' % (a, nl([200 + a] + inl[1:]), nl(ls if kk else [])) for a, inl, ls in items) + ']'
            exp_ann2 = '[' + '; '.join(nl(t) for t in out_ann2) + ']'
            coq = ('(%s && (let out := run_steps nat nat [%s] (map (attach nat nat) %s) in '
                   'list_eqb (list_eqb Nat.eqb) (map (fun a => snd (strip nat nat %d a)) out) %s && '
                   'list_eqb (list_eqb Nat.eqb) (map (labels_of nat nat %d) out) %s))'
                   % (coq, '; '.join(steps), items2, kk, exp_ann2, kk, exp_lab))
        kinds['ok' + ('+additional-target' if second else '')] = kinds.get('ok' + ('+additional-target' if second else ''), 0) + 1
        cases.append({'kind': kind, 'k': k, 'items': items, 'steps': steps, 'coq': coq})
    cdir = os.path.join(VERIF, 'coq', 'cases')
    os.makedirs(cdir, exist_ok=True)
    path = os.path.join(cdir, 'lb_%d.v' % seed)
    with open(path, 'w') as f:
        f.write('From Coq Require Import List Bool Arith.\nImport ListNotations.\nFrom DV.model Require Import Labels FrameworkCheck.\n'
                'Fixpoint list_eqb {A} (e : A -> A -> bool) (a b : list A) : bool := match a, b with [], [] => true '
                '| x :: a\', y :: b\' => e x y && list_eqb e a\' b\' | _, _ => false end.\n')
        f.write('Definition cases : list bool := [\n' + ';\n'.join(' ' + c['coq'] for c in cases) + '].\n')
        f.write('Eval vm_compute in (bad_idx 0 cases).\n')
    p = subprocess.run(['timeout', '600', 'coqc', '-Q', 'lib', 'DV.lib', '-Q', 'model', 'DV.model', path],
                       cwd=os.path.join(VERIF, 'coq'), stdout=subprocess.PIPE, stderr=subprocess.STDOUT, text=True)
    m_ = re.search(r'=\s*\[(.*?)\]', p.stdout, re.S)
    errors, bad = [], []
    if p.returncode != 0 or m_ is None:
        errors.append(p.stdout[-1500:])
    else:
        bad = [int(x) for x in re.findall(r'\d+', m_.group(1))]
    for ext in ('.vo', '.vok', '.vos', '.glob'):
        try:
            os.remove(path[:-2] + ext)
        except OSError:
            pass
    js = lambda c: {k_: v for k_, v in c.items() if k_ != 'coq'}
    return {'cases': len(cases), 'distinct_cases': len({c['coq'] for c in cases}), 'result_kinds': kinds,
            'n_disagreements': len(bad), 'disagreements': [js(cases[i]) for i in bad[:10]], 'coq_errors': errors,
            'missing_functions': [], 'samples': [js(c) for c in cases[:2]]}


if __name__ == '__main__':
    import json
    print(json.dumps(run(int(sys.argv[1]), int(sys.argv[2])), indent=1, default=str)[:3000])
