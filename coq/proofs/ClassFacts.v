(* ClassFacts.v -- decidable checks over the tables regenerated from the source by
   translator/classtab.py (Gen_classtab.v); the theorems are proved by computation and are
   re-checked against the current source on every run. *)
From Coq Require Import List String Bool.
Import ListNotations.
From DV.gen Require Import Gen_classtab.
Open Scope string_scope.

Definition mem (x : string) (l : list string) : bool := existsb (String.eqb x) l.
Definition is_nil {A} (l : list A) : bool := match l with [] => true | _ => false end.
Definition subset (a b : list string) : bool := forallb (fun x => mem x b) a.

(* ---- C14: every constructor argument is persisted ---- *)
Definition persist_complete (c : cls) : bool := negb (mem "?" (c_persisted c)) && is_nil (c_missing c).
(* open known finding: Equalize(mask, mask_params) -- arrays / callables have no plain-JSON form *)
Definition c14_known : list string := ["Equalize"].
Definition todict_row_ok (row : string * list (string * string) * list string) : bool :=
  let '(name, pairs, ctor) := row in
  forallb (fun ka => String.eqb (snd ka) "<expr>" || String.eqb (fst ka) (snd ka)) pairs &&
  forallb (fun p => mem p (map fst pairs) || mem p ["first"; "second"]) ctor.

(* ---- C12: the target table of every image-only class ---- *)
Definition image_only_targets_ok (c : cls) : bool :=
  negb (String.eqb (c_kind c) "ImageOnly") ||
  subset (c_targets c) ["image"] && mem "image" (c_targets c) ||
  (String.eqb (c_name c) "RescaleSlopeIntercept" && subset (c_targets c) ["image"; "dicom"]).
Definition dual_targets_ok (c : cls) : bool :=
  negb (String.eqb (c_kind c) "Dual") ||
  (subset ["image"; "mask"; "masks"; "bboxes"; "keypoints"; "dicom"] (c_targets c) &&
   subset (c_targets c) ["image"; "mask"; "masks"; "bboxes"; "keypoints"; "dicom"]).

(* ---- C09: entropy only from Python's random (or generators seeded from it) ---- *)
(* "process_state": the function writes module-level state (a global, a module-level dict / list, an lru_cache), the
   only way a result can depend on earlier calls in the process.  The one writer is the metaclass that registers a
   class for serialization when the class is DEFINED (import time, never on a result path) *)
Definition entropy_row_ok (row : string * string * list string) : bool :=
  let '(_, fn, srcs) := row in
  subset srcs ["py_random"; "seeded_state"; "identity"] ||
  (String.eqb fn "SerializableMeta.__new__" && subset srcs ["process_state"]) ||
  (* "instance_state": a method other than __init__ writes an attribute of self.  Only the configuration methods of
     the framework may (they are called while a pipeline is BUILT, not while it runs) *)
  (mem fn ["BasicTransform.set_deterministic"; "BasicTransform.add_targets"; "Compose._disable_check_args"] &&
   subset srcs ["instance_state"]).
(* id() is only used as the replay key (get_dict_with_id / __call__): never on a result path *)
Definition identity_row_ok (row : string * string * list string) : bool :=
  let '(_, fn, srcs) := row in
  negb (mem "identity" srcs) ||
  mem fn ["BaseCompose.get_dict_with_id"; "BasicTransform.get_dict_with_id"; "BasicTransform.__call__"].

(* ---- C06: the interpolation order that reaches the mask path ---- *)
Definition mask_interp_ok (c : cls) : bool :=
  mem (c_mask_interp c) ["inherited"; "none"; "nointerp"; "const:nearest"].

(* ---- C13: parameters are drawn in get_params* only (so that the record determines the result) ---- *)
Definition draws_inside_ok (c : cls) : bool := is_nil (c_draws_outside c).
(* open known findings: NPSNoise draws its noise field inside apply; PadIfNeeded(position="random") draws in update_params *)
Definition c13_known : list string := ["NPSNoise"; "PadIfNeeded"].

(* the replay record (get_dict_with_id of the composition classes) and the annotation parameters stored in it:
   every key holds the attribute of the same name (or a literal / a computed sub-record), the record has only
   the documented keys (in particular no probability: a replayed operator always runs), and BboxParams /
   KeypointParams -- rebuilt by ReplayCompose.replay from their _to_dict -- persist each argument under its name *)
Definition record_keys : list string :=
  ["__class_fullname__"; "id"; "params"; "transforms"; "bbox_params"; "keypoint_params"; "additional_targets"; "is_check_shapes"].
Definition record_row_ok (row : string * list (string * string)) : bool :=
  let '(name, pairs) := row in
  forallb (fun ka => String.eqb (snd ka) "<expr>" || String.eqb (snd ka) "<const>" || String.eqb (fst ka) (snd ka)) pairs &&
  forallb (fun ka => mem (fst ka) record_keys) pairs &&
  forallb (fun k => mem k (map fst pairs)) ["__class_fullname__"; "id"; "params"; "transforms"].
(* the record of a Compose carries every constructor argument of Compose (the pipeline is rebuilt from it), except
   the children -- recorded as sub-records -- and the probability, which a replay must not re-draw *)
Definition compose_ctor_args : list string :=
  flat_map (fun row => if String.eqb (fst (fst row)) "Compose" then snd row else []) todict_table.
Definition compose_record_keys : list string :=
  flat_map (fun row => if String.eqb (fst row) "Compose" then map fst (snd row) else []) record_table.
Definition compose_record_complete : bool :=
  forallb (fun a => mem a ["transforms"; "p"] || mem a compose_record_keys) compose_ctor_args &&
  Nat.leb 4 (List.length compose_ctor_args).
Definition is_params_row (row : string * list (string * string) * list string) : bool :=
  mem (fst (fst row)) ["Params"; "BboxParams"; "KeypointParams"].

(* ---- C11: no in-place write to a caller-owned value ---- *)
Definition no_mutation : bool := is_nil mutation_table.


(* ---- C01 / C02 / C03: every parameter a target path names is one the class's parameter methods supply ----
   A named formal of apply / apply_to_mask / apply_to_bbox / apply_to_keypoint / apply_to_dicom that no parameter
   method puts into the parameter dictionary silently keeps its default: that target would then ignore the drawn
   plane / offset / factor the image follows.  One such formal exists in the library: RandomSizedCrop has a `d_start`
   formal that get_params never supplies (the window always starts at the first slice -- on every target alike). *)
Definition param_formal_ok (cname : string) (keys : list string) (x : string) : bool :=
  mem x keys || (String.eqb cname "RandomSizedCrop" && String.eqb x "d_start").
Definition param_row_ok (row : string * list string * list (string * list string)) : bool :=
  let '(cname, keys, meths) := row in
  forallb (fun m => forallb (param_formal_ok cname keys) (snd m)) meths.

(* ---- C06: the mask side never reads an image fill value, the image side never a mask fill value ----
   rows: (class, method, parameter key or "", attributes of self read).  The mask side is apply_to_mask and every
   sampled parameter whose key names the mask; everything else is the image side. *)
Definition image_fills : list string := ["value"; "fill_value"; "pad_cval"; "drop_value"; "cval"].
Definition mask_fills : list string := ["mask_value"; "mask_fill_value"; "pad_cval_mask"; "mask_drop_value"; "cval_mask"].
Fixpoint has_sub (sub s : string) : bool :=
  match s with
  | EmptyString => String.eqb sub EmptyString
  | String _ tl => String.prefix sub s || has_sub sub tl
  end.
Definition fill_row_ok (row : string * string * string * list string) : bool :=
  let '(cname, meth, key, reads) := row in
  if String.eqb meth "apply_to_mask" || has_sub "mask" key
  then forallb (fun a => negb (mem a image_fills)) reads
  else forallb (fun a => negb (mem a mask_fills)) reads.

(* an own mask path that hands the mask to the class's image path (`self.apply(...)`) is acceptable only when that
   image path reads no image fill attribute -- otherwise the mask would be filled with the image's value *)
Definition apply_reads (tbl : list (string * string * string * list string)) (cname : string) : list string :=
  flat_map (fun row => let '(c, m, k, r) := row in
                       if String.eqb c cname && String.eqb m "apply" && String.eqb k "" then r else []) tbl.
Definition mask_path_row_ok (tbl : list (string * string * string * list string))
    (row : string * string * string * list string) : bool :=
  let '(cname, meth, key, reads) := row in
  negb (String.eqb meth "apply_to_mask" && mem "apply" reads) ||
  forallb (fun a => negb (mem a image_fills)) (apply_reads tbl cname).
