(* Values.v -- "no blending" on the array paths that are generated over the NumPy view model:
   every voxel of the result is either a voxel of the input or one of the allowed fill values.
   [fills_in P v]: every filled cell of v carries a value satisfying P. *)
From Coq Require Import ZArith QArith List Bool String Lia.
Import ListNotations.
From DV.lib Require Import PyNum PyRt.
From DV.model Require Import Arrays NpRt.
From DV.gen Require Import Gen_geom_arrays Gen_crops_functional Gen_dropout_functional
  Gen_cls_geom Gen_cls_rotate Gen_cls_crops Gen_cls_coarse Gen_cls_grid.
From DV.proofs Require Import Tac.
Open Scope Z_scope.

Lemma streq_eq a b : streq a b = true -> a = b.
Proof. unfold streq. apply String.eqb_eq. Qed.
Lemma streq_refl a : streq a a = true.
Proof. unfold streq. apply String.eqb_refl. Qed.

Definition fills_in (P : Q -> Prop) (v : view) : Prop :=
  forall o, match vat v o with Fill q => P q | Src _ => True | Mix => False end.

Lemma fills_id sh P : fills_in P (v_id sh).
Proof. intros o. exact I. Qed.

Lemma fills_weaken (P P' : Q -> Prop) v : (forall q, P q -> P' q) -> fills_in P v -> fills_in P' v.
Proof. intros W H o. specialize (H o). destruct (vat v o); auto. Qed.

Lemma fills_rev P a v : fills_in P v -> fills_in P (v_rev a v).
Proof. intros H o. apply H. Qed.

Lemma fills_transpose P p0 p1 p2 v : fills_in P v -> fills_in P (v_transpose p0 p1 p2 v).
Proof. intros H [[o0 o1] o2]. apply H. Qed.

Lemma fills_rot90 P k a1 a2 v : fills_in P v -> fills_in P (v_rot90 k a1 a2 v).
Proof.
  intros H. unfold v_rot90.
  destruct (k mod 4 =? 0); [exact H|]. destruct (k mod 4 =? 2); [|destruct (k mod 4 =? 1)];
  auto using fills_rev, fills_transpose.
Qed.

Lemma fills_slice3 P s0 s1 s2 v : fills_in P v -> fills_in P (v_slice3 s0 s1 s2 v).
Proof.
  intros H. unfold v_slice3. destruct (vshape v) as [[h w] d].
  destruct (slice_start_len h (fst s0) (snd s0)), (slice_start_len w (fst s1) (snd s1)),
    (slice_start_len d (fst s2) (snd s2)). intros [[i j] k]. apply H.
Qed.

Lemma fills_store3 P s0 s1 s2 value v :
  fills_in P v -> fills_in (fun q => P q \/ q = value) (v_store3 s0 s1 s2 value v).
Proof.
  intros H. unfold v_store3. destruct (vshape v) as [[h w] d].
  destruct (slice_start_len h (fst s0) (snd s0)), (slice_start_len w (fst s1) (snd s1)),
    (slice_start_len d (fst s2) (snd s2)). intros [[i j] k]. cbn.
  match goal with |- context [if ?c then _ else _] => destruct c end.
  - right. reflexivity.
  - specialize (H (i, j, k)). destruct (vat v (i, j, k)); auto.
Qed.

Lemma fills_pad P b0 a0 b1 a1 b2 a2 m value v :
  fills_in P v -> fills_in (fun q => P q \/ (m = PConstant /\ q = value)) (v_pad b0 a0 b1 a1 b2 a2 m value v).
Proof.
  intros H. unfold v_pad. destruct (vshape v) as [[h w] d]. intros [[i j] k]. cbn.
  destruct m.
  - match goal with |- context [if ?c then _ else _] => destruct c end.
    + specialize (H (i - b0, j - b1, k - b2)). destruct (vat v (i - b0, j - b1, k - b2)); auto.
    + right. split; reflexivity.
  - match goal with |- context [vat v ?x] => specialize (H x); destruct (vat v x); auto end.
  - match goal with |- context [vat v ?x] => specialize (H x); destruct (vat v x); auto end.
  - match goal with |- context [vat v ?x] => specialize (H x); destruct (vat v x); auto end.
  - match goal with |- context [vat v ?x] => specialize (H x); destruct (vat v x); auto end.
Qed.

Lemma np_padmode_constant m : np_padmode m = Some PConstant -> m = "constant"%string.
Proof.
  unfold np_padmode.
  destruct (streq m "constant") eqn:E; [intros _; apply streq_eq; exact E|].
  repeat match goal with |- context [if ?c then _ else _] => destruct c end; discriminate.
Qed.

Lemma fills_np_pad P v pw mode value v' :
  fills_in P v -> np_pad v pw mode value = Ok v' ->
  fills_in (fun q => P q \/ (mode = "constant"%string /\ q = value)) v'.
Proof.
  intros H. unfold np_pad. destruct pw as [[[b0 a0] [b1 a1]] [b2 a2]].
  destruct (_ || _); [discriminate|]. destruct (np_padmode mode) as [m|] eqn:M; [|discriminate].
  intros E. inversion E; subst. eapply fills_weaken; [|apply fills_pad; exact H].
  intros q [A|[A B]]; [left; exact A|right]. subst. split; [apply np_padmode_constant; exact M|reflexivity].
Qed.

(* F._pad / F.pad_with_params for EVERY border mode: the only value that is not an input voxel is
   the fill value, and only in constant mode *)
Lemma fills__pad P v pw border value v' :
  fills_in P v -> _pad v pw border value = Ok v' -> fills_in (fun q => P q \/ q = value) v'.
Proof.
  intros H. unfold _pad. intros E. res_inv.
  match goal with Hm : _ = Ok ?m |- _ => destruct (negb (streq m "constant")) eqn:C end.
  - match goal with Hp : np_pad _ _ ?m _ = Ok _ |- _ => apply (fills_np_pad P) in Hp; [|exact H] end.
    eapply fills_weaken; [|eassumption]. intros q [A|[A B]]; [left; exact A|].
    subst. rewrite streq_refl in C. discriminate.
  - match goal with Hp : np_pad _ _ ?m _ = Ok _ |- _ => apply (fills_np_pad P) in Hp; [|exact H] end.
    eapply fills_weaken; [|eassumption]. intros q [A|[A B]]; [left; exact A|right; exact B].
Qed.

Lemma fills_pad_with_params P v a b c d e f border value v' :
  fills_in P v -> pad_with_params v a b c d e f border value = Ok v' -> fills_in (fun q => P q \/ q = value) v'.
Proof. intros H E. unfold pad_with_params in E. eapply fills__pad; eassumption. Qed.

Lemma fills_cutout P v holes value :
  fills_in P v -> fills_in (fun q => P q \/ q = value) (cutout v holes value).
Proof.
  intros H. unfold cutout. cbn zeta.
  assert (H0 : fills_in (fun q => P q \/ q = value) v) by (eapply fills_weaken; [|exact H]; auto).
  clear H. revert v H0. induction holes as [|[[[[[x1 y1] z1] x2] y2] z2] tl IH]; intros v H0; cbn [fold_left]; [exact H0|].
  apply IH. eapply fills_weaken; [|apply fills_store3; exact H0]. cbn. intros q [[A|A]|A]; auto.
Qed.

(* ---- functional layer ---- *)
Ltac fills_auto :=
  repeat first
    [ assumption
    | apply fills_rev | apply fills_transpose | apply fills_rot90 | apply fills_slice3 ].

Lemma fills_vflip P v : fills_in P v -> fills_in P (vflip v). Proof. intros; unfold vflip; fills_auto. Qed.
Lemma fills_hflip P v : fills_in P v -> fills_in P (hflip v). Proof. intros; unfold hflip; fills_auto. Qed.
Lemma fills_zflip P v : fills_in P v -> fills_in P (zflip v). Proof. intros; unfold zflip; fills_auto. Qed.
Lemma fills_transpose_f P v : fills_in P v -> fills_in P (transpose v).
Proof. intros; unfold transpose. destruct (3 >? 3); fills_auto. Qed.
Lemma fills_rot90_f P v k ax : fills_in P v -> fills_in P (rot90 v k ax).
Proof. intros; unfold rot90. destruct ax. fills_auto. Qed.

Lemma fills_random_flip P v d v' : fills_in P v -> random_flip v d = Ok v' -> fills_in P v'.
Proof.
  intros H E. unfold random_flip in E.
  destruct (d =? 0); [inversion E; subst; apply fills_vflip; exact H|].
  destruct (d =? 1); [inversion E; subst; apply fills_hflip; exact H|].
  destruct (d =? 2); [inversion E; subst; apply fills_zflip; exact H|].
  destruct (d =? -1); [|discriminate]. inversion E; subst.
  apply fills_zflip, fills_vflip, fills_hflip; exact H.
Qed.

Lemma fills_crop P v x1 y1 z1 x2 y2 z2 v' : fills_in P v -> crop v x1 y1 z1 x2 y2 z2 = Ok v' -> fills_in P v'.
Proof.
  intros H E. unfold crop in E. destruct (vshape v) as [[h w] d].
  destruct (_ || _); [discriminate|]. destruct (_ || _); [discriminate|].
  inversion E; subst. fills_auto.
Qed.

Lemma fills_random_crop P v ch cw cd hs ws ds v' :
  fills_in P v -> random_crop v ch cw cd hs ws ds = Ok v' -> fills_in P v'.
Proof.
  intros H E. unfold random_crop in E. destruct (vshape v) as [[h w] d].
  destruct (_ || _); [discriminate|].
  destruct (get_random_crop_coords h w d ch cw cd hs ws ds) as [[[[[x1 y1] z1] x2] y2] z2].
  inversion E; subst. fills_auto.
Qed.

Lemma fills_center_crop P v ch cw cd v' :
  fills_in P v -> center_crop v ch cw cd = Ok v' -> fills_in P v'.
Proof.
  intros H E. unfold center_crop in E. destruct (vshape v) as [[h w] d].
  destruct (_ || _); [discriminate|].
  destruct (get_center_crop_coords h w d ch cw cd) as [[[[[x1 y1] z1] x2] y2] z2].
  inversion E; subst. fills_auto.
Qed.

Lemma fills_clamping_crop P v x1 y1 z1 x2 y2 z2 : fills_in P v -> fills_in P (clamping_crop v x1 y1 z1 x2 y2 z2).
Proof. intros H. unfold clamping_crop. destruct (vshape v) as [[h w] d]. cbn zeta. fills_auto. Qed.

(* ---- the mask path of every class whose array code is generated ---- *)
Definition or_fill (P : Q -> Prop) (f : option Q) : Q -> Prop :=
  fun q => P q \/ f = Some q.

Section MaskPaths.
Variable P : Q -> Prop.
Variable v : view.
Hypothesis Hv : fills_in P v.

Lemma mask_VerticalFlip c r s : fills_in P (VerticalFlip_apply_to_mask v c r s).
Proof. apply fills_vflip, Hv. Qed.
Lemma mask_HorizontalFlip c r s : fills_in P (HorizontalFlip_apply_to_mask v c r s).
Proof. apply fills_hflip, Hv. Qed.
Lemma mask_SliceFlip c r s : fills_in P (SliceFlip_apply_to_mask v c r s).
Proof. apply fills_zflip, Hv. Qed.
Lemma mask_Flip d c r s v' : Flip_apply_to_mask v d c r s = Ok v' -> fills_in P v'.
Proof. apply fills_random_flip, Hv. Qed.
Lemma mask_Transpose c r s : fills_in P (Transpose_apply_to_mask v c r s).
Proof. apply fills_transpose_f, Hv. Qed.
Lemma mask_RandomRotate90 n ax c r s v' : RandomRotate90_apply_to_mask v n ax c r s = Ok v' -> fills_in P v'.
Proof.
  unfold RandomRotate90_apply_to_mask, RandomRotate90_apply. intros E. res_inv.
  match goal with t : (Z * Z)%type |- _ => destruct t end. apply fills_rot90, Hv.
Qed.
Lemma mask_RandomCrop sd sh sw hs ws ds c r s v' :
  RandomCrop_apply_to_mask sd sh sw v hs ws ds c r s = Ok v' -> fills_in P v'.
Proof. apply fills_random_crop, Hv. Qed.
Lemma mask_CenterCrop sd sh sw c r s v' : CenterCrop_apply_to_mask sd sh sw v c r s = Ok v' -> fills_in P v'.
Proof. apply fills_center_crop, Hv. Qed.
Lemma mask_Crop a b c0 d e f c r s v' : Crop_apply_to_mask a b c0 d e f v c r s = Ok v' -> fills_in P v'.
Proof. apply fills_crop, Hv. Qed.
Lemma mask_RandomCropFromBorders x1 x2 y1 y2 z1 z2 c r s :
  fills_in P (RandomCropFromBorders_apply_to_mask v x1 x2 y1 y2 z1 z2 c r s).
Proof. apply fills_clamping_crop, Hv. Qed.
Lemma mask_RandomCropNearBBox x1 y1 z1 x2 y2 z2 c r s :
  fills_in P (RandomCropNearBBox_apply_to_mask v x1 y1 z1 x2 y2 z2 c r s).
Proof. apply fills_clamping_crop, Hv. Qed.
(* every border mode; the image fill [value] never reaches the mask *)
Lemma mask_PadIfNeeded border mval val pt pb pl pr pf pk c r s v' :
  PadIfNeeded_apply_to_mask border mval val v pt pb pl pr pf pk c r s = Ok v' ->
  fills_in (or_fill P (Some mval)) v'.
Proof.
  intros E. eapply fills_weaken; [|eapply fills_pad_with_params; [exact Hv|exact E]].
  intros q [A|A]; [left; exact A|right; subst; reflexivity].
Qed.
(* holes carry the mask fill value; without one the mask is returned as it is *)
Lemma mask_CoarseDropout holes fv mfv c r s :
  fills_in (or_fill P mfv) (CoarseDropout_apply_to_mask v holes fv mfv c r s).
Proof.
  unfold CoarseDropout_apply_to_mask. destruct mfv as [m|].
  - eapply fills_weaken; [|apply fills_cutout, Hv]. intros q [A|A]; [left; exact A|right; subst; reflexivity].
  - eapply fills_weaken; [|exact Hv]. intros q A; left; exact A.
Qed.
Lemma mask_CoarseDropout_untouched holes fv c r s : CoarseDropout_apply_to_mask v holes fv None c r s = v.
Proof. reflexivity. Qed.
Lemma mask_GridDropout sfv smfv holes fv mfv c r s :
  fills_in (or_fill P smfv) (GridDropout_apply_to_mask sfv smfv v holes fv mfv c r s).
Proof.
  unfold GridDropout_apply_to_mask. destruct smfv as [m|].
  - eapply fills_weaken; [|apply fills_cutout, Hv]. intros q [A|A]; [left; exact A|right; subst; reflexivity].
  - eapply fills_weaken; [|exact Hv]. intros q A; left; exact A.
Qed.
End MaskPaths.
