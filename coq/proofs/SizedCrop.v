(* SizedCrop.v -- RandomSizedCrop / RandomSizedBBoxSafeCrop: crop a window inside the volume, resize it to the
   promised size; boxes and keypoints use the same window (and the keypoint the same zoom). *)
From Coq Require Import ZArith QArith List Bool String Lia.
Import ListNotations.
From DV.lib Require Import PyNum PyRt.
From DV.model Require Import Arrays NpRt.
From DV.gen Require Import Gen_geom_functional Gen_geom_arrays Gen_crops_functional Gen_cls_crops_dicom.
From DV.proofs Require Import Tac Values Resample BoxSafe CropWin.
Open Scope Z_scope.

Lemma sized_crop_core v H W D ch cw cd hs ws ds sh sw sd ip :
  vshape v = (H, W, D) -> 0 < ch <= H -> 0 < cw <= W -> 0 < cd <= D ->
  (0 <= hs < 1)%Q -> (0 <= ws < 1)%Q -> (0 <= ds < 1)%Q ->
  exists vc v', random_crop v ch cw cd hs ws ds = Ok vc /\ vshape vc = (ch, cw, cd) /\
    resize vc sh sw sd ip = Ok v' /\ vshape v' = (sh, sw, sd) /\
    (ip = 0 -> forall P, fills_in P v -> fills_in P v').
Proof.
  intros Sh Hh Hw Hd Q1 Q2 Q3.
  pose proof (random_crop_window H W D ch cw cd hs ws ds Hh Hw Hd Q1 Q2 Q3) as Wn.
  destruct (random_crop_shape v H W D ch cw cd hs ws ds Sh) as (vc & Ec & Sc).
  { destruct (get_random_crop_coords H W D ch cw cd hs ws ds) as [[[[[x1 y1] z1] x2] y2] z2]. lia. }
  destruct (resize_shape vc ch cw cd sh sw sd ip Sc) as (v' & Er & Sr); try lia.
  exists vc, v'. repeat split; try assumption.
  intros -> P F. eapply resize_nearest_copies_voxels; [|exact Er]. eapply fills_random_crop; eassumption.
Qed.

Theorem RandomSizedCrop_image v H W D ch cw cd hs ws sh sw sd ip c r s :
  vshape v = (H, W, D) -> 0 < ch <= H -> 0 < cw <= W -> 0 < cd <= D ->
  (0 <= hs < 1)%Q -> (0 <= ws < 1)%Q ->
  exists v', RandomSizedCrop_apply sd sh sw v hs ws ch cw cd ip c r s = Ok v' /\ vshape v' = (sh, sw, sd) /\
    (ip = 0 -> forall P, fills_in P v -> fills_in P v').
Proof.
  intros Sh Hh Hw Hd Q1 Q2.
  destruct (sized_crop_core v H W D ch cw cd hs ws 0 sh sw sd ip Sh Hh Hw Hd Q1 Q2) as (vc & v' & Ec & Sc & Er & Sr & F).
  { split; [apply Qle_refl | reflexivity]. }
  exists v'. unfold RandomSizedCrop_apply. cbv zeta. rewrite Ec. cbn [bind]. auto.
Qed.

Theorem RandomSizedBBoxSafeCrop_image v H W D ch cw cd hs ws ds sh sw sd ip c r s :
  vshape v = (H, W, D) -> 0 < ch <= H -> 0 < cw <= W -> 0 < cd <= D ->
  (0 <= hs < 1)%Q -> (0 <= ws < 1)%Q -> (0 <= ds < 1)%Q ->
  exists v', RandomSizedBBoxSafeCrop_apply sd sh sw v hs ws ds ch cw cd ip c r s = Ok v' /\ vshape v' = (sh, sw, sd) /\
    (ip = 0 -> forall P, fills_in P v -> fills_in P v').
Proof.
  intros Sh Hh Hw Hd Q1 Q2 Q3.
  destruct (sized_crop_core v H W D ch cw cd hs ws ds sh sw sd ip Sh Hh Hw Hd Q1 Q2 Q3) as (vc & v' & Ec & Sc & Er & Sr & F).
  exists v'. unfold RandomSizedBBoxSafeCrop_apply. rewrite Ec. cbn [bind]. auto.
Qed.

(* boxes and keypoints of RandomSizedCrop are cut by the window the image path cuts (d_start is absent from
   get_params, so all three paths see d_start = 0), and the keypoint is zoomed by promised/cropped per axis *)
Open Scope Q_scope.
Theorem RandomSizedCrop_keypoint sd sh sw x y z a sc hs ws ch cw cd ip c r s :
  (0 < ch)%Z -> (0 < cw)%Z -> (0 < cd)%Z ->
  let '(x1, y1, z1, x2, y2, z2) := get_random_crop_coords r c s ch cw cd hs ws 0 in
  exists x' y' z' sc',
    RandomSizedCrop_apply_to_keypoint sd sh sw (x, y, z, a, sc) hs ws ch cw cd ip c r s = Ok (x', y', z', a, sc') /\
    x' == (x - inject_Z x1) * (inject_Z sw / inject_Z cw) /\
    y' == (y - inject_Z y1) * (inject_Z sh / inject_Z ch) /\
    z' == (z - inject_Z z1) * (inject_Z sd / inject_Z cd) /\
    sc' == sc * Qmax (Qmax (inject_Z sw / inject_Z cw) (inject_Z sh / inject_Z ch)) (inject_Z sd / inject_Z cd).
Proof.
  intros Hh Hw Hd.
  unfold RandomSizedCrop_apply_to_keypoint, keypoint_random_crop. cbv zeta.
  destruct (get_random_crop_coords r c s ch cw cd hs ws 0) as [[[[[x1 y1] z1] x2] y2] z2].
  assert (N : forall n, (0 < n)%Z -> ~ inject_Z n == 0).
  { intros n Hn E. apply (inject_Z_injective n 0) in E. lia. }
  rewrite !divq_ok by (apply N; assumption). cbn [bind].
  unfold crop_keypoint_by_coords, keypoint_scale.
  do 4 eexists. split; [reflexivity|]. repeat split; reflexivity.
Qed.

Theorem RandomSizedCrop_bbox_uses_the_image_window sd sh sw b hs ws ch cw cd ip c r s :
  RandomSizedCrop_apply_to_bbox sd sh sw b hs ws ch cw cd ip c r s =
  crop_bbox_by_coords b (get_random_crop_coords r c s ch cw cd hs ws 0) ch cw cd r c s.
Proof. reflexivity. Qed.

(* the parameter sampler: crop height inside the configured limits, start fractions in [0,1) -- the hypotheses
   of the image theorems above whenever the configured limits fit the volume *)
From DV.proofs Require Import PadParams.
Theorem RandomSizedCrop_params d2h lo hi w2h d1 d2 d3 hs ws ch cw cd :
  RandomSizedCropS_get_params d2h (lo, hi) w2h d1 d2 d3 = Ok (hs, ws, ch, cw, cd) ->
  (lo <= ch <= hi)%Z /\ (0 <= hs < 1)%Q /\ (0 <= ws < 1)%Q /\
  cw = py_int (inject_Z ch * w2h)%Q /\ cd = py_int (inject_Z ch * d2h)%Q.
Proof.
  unfold RandomSizedCropS_get_params. intros E. res_inv.
  repeat match goal with Hd : draw_int _ _ _ = Ok _ |- _ => apply draw_int_ok in Hd; destruct Hd as [-> ?] end.
  repeat match goal with Hd : draw_unit _ = Ok _ |- _ => apply draw_unit_ok in Hd; destruct Hd as [-> ?] end.
  repeat split; try tauto; lia.
Qed.
