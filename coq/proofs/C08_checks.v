(* C08_checks.v -- entry checks: the shape check of Compose (model CheckArgs.v) and the generated
   check_bbox / check_keypoint. *)
From Coq Require Import ZArith QArith List Bool Lia Lqa.
Import ListNotations.
From DV.lib Require Import PyNum PyRt.
From DV.model Require Import CheckArgs.
From DV.gen Require Import Gen_bbox_utils Gen_keypoints_utils.
From DV.proofs Require Import Tac.
Open Scope Z_scope.

Lemma shp_eqb_eq a b : shp_eqb a b = true <-> a = b.
Proof.
  destruct a as [[x y] z], b as [[x' y'] z']. unfold shp_eqb. rewrite !andb_true_iff, !Z.eqb_eq.
  split; [intros [[-> ->] ->]; reflexivity | intros E; inversion E; auto].
Qed.

(* two well-formed array targets whose shapes differ in ANY axis (depth only included) are rejected *)
Theorem mismatched_shapes_rejected hb a b : a <> b ->
  check_args hb true [AArr true false a; AArr true false b] = Raise ValueError.
Proof.
  intros N. unfold check_args. cbn.
  assert (E : shp_eqb a a = true) by (apply shp_eqb_eq; reflexivity).
  destruct (shp_eqb a b) eqn:F; [apply shp_eqb_eq in F; contradiction|].
  rewrite E. cbn. reflexivity.
Qed.

Theorem masks_shape_checked hb a b : a <> b ->
  check_args hb true [AArr true false a; AMasks true true b] = Raise ValueError.
Proof.
  intros N. unfold check_args. cbn.
  assert (E : shp_eqb a a = true) by (apply shp_eqb_eq; reflexivity).
  destruct (shp_eqb a b) eqn:F; [apply shp_eqb_eq in F; contradiction|].
  rewrite E. cbn. reflexivity.
Qed.

Theorem non_array_image_rejected hb cs bad sh tl : check_args hb cs (AArr false bad sh :: tl) = Raise TypeError.
Proof. reflexivity. Qed.
Theorem float32_outside_unit_rejected hb cs sh tl : check_args hb cs (AArr true true sh :: tl) = Raise ValueError.
Proof. reflexivity. Qed.
Theorem boxes_without_params_rejected cs tl : check_args false cs (ABoxes :: tl) = Raise ValueError.
Proof. reflexivity. Qed.

(* acceptance: well-formed targets of one common shape pass *)
Lemma scan_ok hb sh n acc :
  scan hb (repeat (AArr true false sh) n) acc = Ok (acc ++ repeat sh n).
Proof.
  revert acc. induction n as [|n IH]; intros acc; cbn; [rewrite app_nil_r; reflexivity|].
  rewrite IH, <- app_assoc. reflexivity.
Qed.
Theorem equal_shapes_accepted hb cs sh n : check_args hb cs (repeat (AArr true false sh) n) = Ok tt.
Proof.
  unfold check_args. rewrite scan_ok. cbn [app].
  assert (A : all_equal (repeat sh n) = true).
  { destruct n as [|n]; [reflexivity|]. cbn [repeat all_equal]. apply forallb_forall.
    intros x Hx. assert (x = sh) by (destruct Hx as [<-|Hx]; [reflexivity | eapply repeat_spec; exact Hx]).
    subst. apply shp_eqb_eq. reflexivity. }
  rewrite A. destruct cs; reflexivity.
Qed.

(* ---- generated check_bbox: it returns Ok or raises ValueError, and accepts only proper boxes whose
   coordinates are in [0,1] up to the np.isclose tolerance ---- *)
Open Scope Q_scope.
Definition near_unit (v : Q) : Prop := (0 <= v /\ v <= 1) \/ isclose v 0 = true \/ isclose v 1 = true.

Lemma check_bbox_total b : check_bbox b = Ok tt \/ check_bbox b = Raise ValueError.
Proof.
  destruct_box b. unfold check_bbox. cbn.
  repeat match goal with |- context [if ?c then _ else _] => destruct c end; auto.
Qed.

Theorem check_bbox_accepts_only_valid b : check_bbox b = Ok tt ->
  let '(x1, y1, z1, x2, y2, z2) := b in
  near_unit x1 /\ near_unit y1 /\ near_unit z1 /\ near_unit x2 /\ near_unit y2 /\ near_unit z2 /\
  x1 < x2 /\ y1 < y2 /\ z1 < z2.
Proof.
  destruct_box b. unfold check_bbox. cbn.
  repeat match goal with
  | |- context [if ?c then _ else _] => let E := fresh "E" in destruct c eqn:E; [discriminate|]
  end.
  intros _.
  assert (R : forall v, negb (Qle_bool 0 v && Qle_bool v 1) && negb (isclose v 0) && negb (isclose v 1) = false -> near_unit v).
  { intros v Hv. unfold near_unit.
    destruct (Qle_bool 0 v) eqn:A; destruct (Qle_bool v 1) eqn:B; cbn in Hv;
    try (left; split; apply Qle_bool_iff; assumption);
    destruct (isclose v 0) eqn:C; destruct (isclose v 1) eqn:D; cbn in Hv; try discriminate; auto. }
  assert (L : forall a c, Qle_bool c a = false -> a < c).
  { intros a c Hc. destruct (Qle_bool_spec c a); [discriminate|lra]. }
  repeat split; first [apply R; assumption | apply L; assumption].
Qed.

Theorem check_bbox_rejects b :
  (let '(x1, y1, z1, x2, y2, z2) := b in x2 <= x1 \/ y2 <= y1 \/ z2 <= z1) -> check_bbox b = Raise ValueError.
Proof.
  intros H. destruct (check_bbox_total b) as [E|E]; [|exact E].
  apply check_bbox_accepts_only_valid in E. destruct_box b. lra.
Qed.

(* ---- generated check_keypoint ---- *)
Theorem check_keypoint_exact k r c s :
  let '(x, y, z, a, sc) := k in
  (check_keypoint k r c s = Ok tt <->
   0 <= x /\ x < inject_Z c /\ 0 <= y /\ y < inject_Z r /\ 0 <= z /\ z < inject_Z s /\ 0 <= a /\ a < 2 * pi) /\
  (check_keypoint k r c s = Ok tt \/ check_keypoint k r c s = Raise ValueError).
Proof.
  destruct k as [[[[x y] z] a] sc]. unfold check_keypoint. cbn.
  assert (L : forall p q, Qlt_bool p q = true <-> p < q).
  { intros p q. destruct (Qlt_bool_spec p q); split; intros; try lra; try discriminate; reflexivity. }
  split.
  - split.
    + repeat match goal with
      | |- context [if ?cnd then _ else _] => let E := fresh "E" in destruct cnd eqn:E; [discriminate|]
      end.
      intros _.
      repeat match goal with
      | H : negb (_ && _) = false |- _ => apply negb_false_iff in H; apply andb_true_iff in H; destruct H as [?%Qle_bool_iff ?%L]
      end. repeat split; assumption.
    + intros (A1 & A2 & B1 & B2 & C1 & C2 & D1 & D2).
      repeat match goal with
      | |- context [Qle_bool ?p ?q] => rewrite (proj2 (Qle_bool_iff p q)) by assumption
      | |- context [Qlt_bool ?p ?q] => rewrite (proj2 (L p q)) by assumption
      end. reflexivity.
  - repeat match goal with |- context [if ?cnd then _ else _] => destruct cnd end; auto.
Qed.

(* ---- the validity check is reached in EVERY source format: a box accepted by the conversion with
        check_validity passes check_bbox (so it lies in the unit cube with positive extents) ---- *)
Theorem converted_boxes_are_checked b fmt r c s b' :
  convert_bbox_to_dicaugment b fmt r c s true = Ok b' -> check_bbox b' = Ok tt.
Proof.
  unfold convert_bbox_to_dicaugment. intros E.
  match type of E with (if ?g then _ else _) = _ => destruct g; [discriminate|] end.
  apply bind_ok in E. destruct E as (x & Ex & E). destruct x as [[[[[[tl xM] xm] yM] ym] zM] zm].
  cbv zeta in E. apply bind_ok in E. destruct E as (vb & Evb & E).
  apply bind_ok in E. destruct E as (u & Eu & E). inversion E; subst; clear E.
  cbn [andb] in Eu. apply bind_ok in Eu. destruct Eu as (r0 & Er & _). destruct r0. exact Er.
Qed.
