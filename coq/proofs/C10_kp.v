(* C10 -- converting a valid keypoint to the internal representation and back is the identity,
   for the six formats and both angle units. *)
From DV.lib Require Import PyNum PyRt Angle.
From DV.gen Require Import Gen_keypoints_utils.
From DV.proofs Require Import Tac KpTac.
From Coq Require Import Lqa Lia.
Open Scope Q_scope.

Global Arguments check_keypoint : simpl never.
Global Arguments angle_to_2pi_range : simpl never.

Definition kp_formats : list string :=
  ["xyz"%string; "zyx"%string; "xyza"%string; "xyzs"%string; "xyzas"%string; "xyzsa"%string].

(* number of meaningful leading components of a keypoint in a format (the model pads
   shorter Python tuples with zeros, see DESIGN section 3) *)
Definition fmt_arity (fmt : string) : nat :=
  if streq fmt "xyz" then 3 else if streq fmt "zyx" then 3
  else if streq fmt "xyza" then 4 else if streq fmt "xyzs" then 4 else 5.

Definition kp_prefix_eq (n : nat) (a b : kp) : Prop :=
  let '(a1, a2, a3, a4, a5) := a in let '(b1, b2, b3, b4, b5) := b in
  a1 == b1 /\ a2 == b2 /\ a3 == b3 /\
  (3 < n -> a4 == b4)%nat /\ (4 < n -> a5 == b5)%nat.

(* the angle field of a keypoint in a given format (0 when the format has none) *)
Definition fmt_angle (fmt : string) (k : kp) : Q :=
  let '(_, _, _, c4, c5) := k in
  if streq fmt "xyza" then c4 else if streq fmt "xyzas" then c4
  else if streq fmt "xyzsa" then c5 else 0.

Definition angle_in_unit (deg : bool) (a : Q) : Prop :=
  if deg then 0 <= a /\ a < 360 else 0 <= a /\ a < M.

Lemma check_keypoint_proper k k' r c s : kp_eq k k' ->
  check_keypoint k r c s = check_keypoint k' r c s.
Proof.
  destruct_kp k. destruct k' as [[[[x' y'] z'] a'] s']. intros (E1 & E2 & E3 & E4 & E5).
  unfold check_keypoint. rewrite E1, E2, E3, E4. reflexivity.
Qed.

Lemma radians_range a : 0 <= a -> a < 360 -> 0 <= radians a /\ radians a < M.
Proof.
  intros A0 A1. unfold radians, M. pose proof pi_pos as P.
  split.
  - apply Qle_shift_div_l; [lra|]. rewrite Qmult_0_l. apply Qmult_le_0_compat; lra.
  - apply Qlt_shift_div_r; [lra|].
    assert (a * pi < 360 * pi) by (apply Qmult_lt_compat_r; lra). lra.
Qed.
Lemma degrees_radians a : degrees (radians a) == a.
Proof. unfold degrees, radians. pose proof pi_pos. field. lra. Qed.

Lemma norm_norm_in a : 0 <= a -> a < M -> norm (norm a) == a.
Proof. intros. rewrite (norm_id a) by assumption. apply norm_id; assumption. Qed.

Lemma kp_roundtrip fmt k r c s cv deg n :
  In fmt kp_formats ->
  angle_in_unit deg (fmt_angle fmt k) ->
  convert_keypoint_to_dicaugment k fmt r c s cv deg = Ok n ->
  exists k', convert_keypoint_from_dicaugment n fmt r c s cv deg = Ok k' /\
             kp_prefix_eq (fmt_arity fmt) k' k.
Proof.
  intros Hf Ha H. unfold kp_formats in Hf. destruct_kp k.
  in_cases Hf; unfold convert_keypoint_to_dicaugment in H; cbn in H;
  unfold fmt_angle in Ha; cbn in Ha;
  destruct deg; cbn in H, Ha; destruct Ha as [A0 A1];
  destruct cv; cbn in H; res_inv;
  unfold convert_keypoint_from_dicaugment; cbn; to_norm;
  try (match goal with
       | Hr : check_keypoint ?k1 r c s = Ok _ |- context [check_keypoint ?k2 r c s] =>
           rewrite (check_keypoint_proper k2 k1)
             by (unfold kp_eq; repeat split; try reflexivity; apply norm_idem');
           rewrite Hr; cbn
       end);
  (eexists; split; [reflexivity|]);
  unfold kp_prefix_eq; cbn; repeat split; intros; try reflexivity; try lia;
  rewrite ?norm_idem';
  first [ rewrite (norm_id (radians _)) by (apply radians_range; assumption); apply degrees_radians
        | apply norm_id; assumption ].
Qed.

Example kp_roundtrip_premise_example :
  is_ok (convert_keypoint_to_dicaugment (1, 2, 3, 90, 2) "xyzas" 7 9 11 true true) = true /\
  is_ok (convert_keypoint_to_dicaugment (3, 2, 1, 0, 0) "zyx" 7 9 11 true false) = true.
Proof. split; vm_compute; reflexivity. Qed.
