(* Conv.v -- characterising lemmas for normalize_bbox / denormalize_bbox (generated). *)
From DV.lib Require Import PyNum PyRt.
From DV.gen Require Import Gen_bbox_utils.
From DV.proofs Require Import Tac.
From Coq Require Import Lqa Lia.
Open Scope Q_scope.

(* keep the big generated definitions folded under cbn/simpl: proofs go through the
   characterising lemmas below *)
Global Arguments normalize_bbox : simpl never.
Global Arguments denormalize_bbox : simpl never.
Global Arguments check_bbox : simpl never.
Global Arguments calculate_bbox_area_volume : simpl never.

Definition norm_box (b : box) (r c s : Z) : box :=
  let '(x1, y1, z1, x2, y2, z2) := b in
  (x1 / inject_Z c, y1 / inject_Z r, z1 / inject_Z s, x2 / inject_Z c, y2 / inject_Z r, z2 / inject_Z s).
Definition denorm_box (b : box) (r c s : Z) : box :=
  let '(x1, y1, z1, x2, y2, z2) := b in
  (x1 * inject_Z c, y1 * inject_Z r, z1 * inject_Z s, x2 * inject_Z c, y2 * inject_Z r, z2 * inject_Z s).

Global Arguments norm_box : simpl never.
Global Arguments denorm_box : simpl never.

Lemma normalize_bbox_ok b r c s : (0 < r)%Z -> (0 < c)%Z -> (0 < s)%Z ->
  normalize_bbox b r c s = Ok (norm_box b r c s).
Proof.
  intros Hr Hc Hs. destruct_box b. unfold normalize_bbox, norm_box.
  rewrite !Zleb_pos_false by assumption.
  rewrite !divq_ok by (apply Zpos_inject_nonzero; assumption). reflexivity.
Qed.

Lemma normalize_bbox_ok_inv b r c s n : normalize_bbox b r c s = Ok n ->
  (0 < r)%Z /\ (0 < c)%Z /\ (0 < s)%Z /\ n = norm_box b r c s.
Proof.
  intros H. generalize H. unfold normalize_bbox in H.
  destruct (Z.leb r 0) eqn:Er; [discriminate|].
  destruct (Z.leb c 0) eqn:Ec; [discriminate|].
  destruct (Z.leb s 0) eqn:Es; [discriminate|].
  apply Zleb_false_pos in Er, Ec, Es. clear H.
  intros H. rewrite (normalize_bbox_ok b r c s Er Ec Es) in H.
  repeat split; try assumption. congruence.
Qed.

Lemma denormalize_bbox_ok b r c s : (0 < r)%Z -> (0 < c)%Z -> (0 < s)%Z ->
  denormalize_bbox b r c s = Ok (denorm_box b r c s).
Proof.
  intros Hr Hc Hs. destruct_box b. unfold denormalize_bbox, denorm_box.
  rewrite !Zleb_pos_false by assumption. reflexivity.
Qed.

Lemma denormalize_bbox_ok_inv b r c s n : denormalize_bbox b r c s = Ok n ->
  (0 < r)%Z /\ (0 < c)%Z /\ (0 < s)%Z /\ n = denorm_box b r c s.
Proof.
  intros H. destruct_box b. unfold denormalize_bbox in H.
  destruct (Z.leb r 0) eqn:Er; [discriminate|].
  destruct (Z.leb c 0) eqn:Ec; [discriminate|].
  destruct (Z.leb s 0) eqn:Es; [discriminate|].
  apply Zleb_false_pos in Er, Ec, Es. repeat split; try assumption.
  unfold denorm_box. congruence.
Qed.

Lemma denorm_norm b r c s : (0 < r)%Z -> (0 < c)%Z -> (0 < s)%Z ->
  box_eq (denorm_box (norm_box b r c s) r c s) b.
Proof.
  intros Hr Hc Hs. destruct_box b. unfold denorm_box, norm_box, box_eq.
  pose proof (Zpos_inject_nonzero r Hr). pose proof (Zpos_inject_nonzero c Hc).
  pose proof (Zpos_inject_nonzero s Hs). repeat split; field; assumption.
Qed.

Lemma norm_denorm b r c s : (0 < r)%Z -> (0 < c)%Z -> (0 < s)%Z ->
  box_eq (norm_box (denorm_box b r c s) r c s) b.
Proof.
  intros Hr Hc Hs. destruct_box b. unfold denorm_box, norm_box, box_eq.
  pose proof (Zpos_inject_nonzero r Hr). pose proof (Zpos_inject_nonzero c Hc).
  pose proof (Zpos_inject_nonzero s Hs). repeat split; field; assumption.
Qed.
