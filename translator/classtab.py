#!/usr/bin/env python3
"""classtab -- second back end of the translator: facts about the transform classes and about
entropy / mutation in every function of the package, read from the source with Python's ast
and emitted as Gallina data (coq/gen/Gen_classtab.v).  Theorems over these finite tables
(C06, C09, C11, C12, C13, C14) are proved by computation and re-checked on every run; the
extraction is validated against run-time introspection by harness/corr_classtab.py.
Fail-closed: anything the extractor does not understand is recorded as an error AND as the
marker value "?" inside the table, which makes the corresponding forallb theorem false."""
import ast
import json
import os
import sys

REPO = os.environ.get('VERIF_REPO', '/repo')
PKG = 'dicaugment'
BASES = {'BasicTransform', 'DualTransform', 'ImageOnlyTransform'}
SKIP_DIRS = {'pytorch', 'tensorflow'}


def q(s):
    return '"%s"%%string' % s.replace('"', '""')


def slist(l):
    return '[' + '; '.join(q(x) for x in l) + ']'


def iter_sources():
    for root, dirs, files in os.walk(os.path.join(REPO, PKG)):
        dirs[:] = [d for d in dirs if d not in SKIP_DIRS and not d.startswith('__')]
        for f in sorted(files):
            if f.endswith('.py'):
                p = os.path.join(root, f)
                yield os.path.relpath(p, REPO), open(p).read()


class Tables:
    def __init__(self):
        self.classes = {}     # name -> ClassDef, file
        self.errors = []
        self.funcs = []       # (file, qualname, node)

    def load(self):
        self.modmut = {}
        for rel, src in iter_sources():
            tree = ast.parse(src)
            self.modmut[rel] = module_mutables(tree)
            for n in tree.body:
                if isinstance(n, ast.ClassDef):
                    self.classes[n.name] = (n, rel)
                    for m in n.body:
                        if isinstance(m, ast.FunctionDef):
                            self.funcs.append((rel, n.name + '.' + m.name, m))
                            for mm in ast.walk(m):
                                if isinstance(mm, ast.FunctionDef) and mm is not m:
                                    self.funcs.append((rel, n.name + '.' + m.name + '.' + mm.name, mm))
                elif isinstance(n, ast.FunctionDef):
                    self.funcs.append((rel, n.name, n))
                    for mm in ast.walk(n):
                        if isinstance(mm, ast.FunctionDef) and mm is not n:
                            self.funcs.append((rel, n.name + '.' + mm.name, mm))

    def mro(self, name):
        out = []
        cur = name
        seen = set()
        while cur in self.classes and cur not in seen:
            seen.add(cur)
            out.append(cur)
            node = self.classes[cur][0]
            nxt = None
            for b in node.bases:
                bn = b.id if isinstance(b, ast.Name) else (b.attr if isinstance(b, ast.Attribute) else None)
                if bn in self.classes:
                    nxt = bn
                    break
            cur = nxt
        return out

    def is_transform(self, name):
        m = self.mro(name)
        return any(c in BASES for c in m) and name not in BASES

    def find(self, name, method):
        for c in self.mro(name):
            for b in self.classes[c][0].body:
                if isinstance(b, ast.FunctionDef) and b.name == method:
                    return b, c
        return None, None


def init_params(t, name):
    fn, owner = t.find(name, '__init__')
    if fn is None:
        return []
    return [a.arg for a in fn.args.args if a.arg != 'self'] + [a.arg for a in fn.args.kwonlyargs]


def str_tuple(node):
    if isinstance(node, (ast.Tuple, ast.List)) and all(isinstance(e, ast.Constant) and isinstance(e.value, str) for e in node.elts):
        return [e.value for e in node.elts]
    return None


def persisted(t, name, errors):
    """names persisted by _to_dict (besides always_apply and p)"""
    def names_of(cname):
        fn, owner = t.find(cname, 'get_transform_init_args_names')
        if fn is None or owner in BASES:
            return None
        rets = [n for n in ast.walk(fn) if isinstance(n, ast.Return)]
        if len(rets) != 1:
            return ['?']
        v = rets[0].value
        st = str_tuple(v)
        if st is not None:
            return st
        if isinstance(v, ast.BinOp) and isinstance(v.op, ast.Add):
            right = str_tuple(v.right)
            left = v.left
            if right is not None and isinstance(left, ast.Call) and isinstance(left.func, ast.Attribute) \
                    and left.func.attr == 'get_transform_init_args_names':
                m = t.mro(owner)
                base = names_of(m[1]) if len(m) > 1 else None
                if base is not None:
                    return base + right
        return ['?']
    fn, owner = t.find(name, 'get_transform_init_args')
    if fn is not None and owner not in BASES:
        keys = []
        rets = [n for n in ast.walk(fn) if isinstance(n, ast.Return)]
        if len(rets) == 1 and isinstance(rets[0].value, ast.Dict):
            for k in rets[0].value.keys:
                keys.append(k.value if isinstance(k, ast.Constant) else '?')
            return keys
        # args = super().get_transform_init_args(); args["x"] = ...; return args
        base = names_of(name)
        if base is not None:
            keys = list(base)
            for n in ast.walk(fn):
                if isinstance(n, ast.Assign) and isinstance(n.targets[0], ast.Subscript) \
                        and isinstance(n.targets[0].slice, ast.Constant):
                    keys.append(n.targets[0].slice.value)
            return keys
        return ['?']
    r = names_of(name)
    if r is None:
        return ['?']      # not serializable (NotImplementedError at run time)
    # an overriding _to_dict may add keys:  result["interpolation"] = {...}
    td, owner = t.find(name, '_to_dict')
    if td is not None and owner not in BASES:
        r = list(r)
        for n in ast.walk(td):
            if isinstance(n, ast.Assign) and isinstance(n.targets[0], ast.Subscript) \
                    and isinstance(n.targets[0].slice, ast.Constant) and isinstance(n.targets[0].slice.value, str):
                r.append(n.targets[0].slice.value)
    return r


def ctor_replacements(name):
    """constructor arguments that are legitimately persisted under other names"""
    return {'ShiftScaleRotate': {'shift_limit': ['shift_limit_x', 'shift_limit_y', 'shift_limit_z']}}.get(name, {})


def dict_keys(fn):
    keys = []
    for n in ast.walk(fn):
        if isinstance(n, ast.Return) and isinstance(n.value, ast.Dict):
            for k in n.value.keys:
                if isinstance(k, ast.Constant):
                    keys.append(str(k.value))
    return keys


def targets_of(t, name):
    fn, owner = t.find(name, 'targets')
    if fn is None:
        return ['?']
    rets = [n for n in ast.walk(fn) if isinstance(n, ast.Return)]
    if len(rets) == 1 and isinstance(rets[0].value, ast.Dict):
        return [k.value for k in rets[0].value.keys if isinstance(k, ast.Constant)]
    return ['?']


def list_return(t, name, method):
    fn, owner = t.find(name, method)
    if fn is None:
        return []
    rets = [n for n in ast.walk(fn) if isinstance(n, ast.Return)]
    out = []
    for r in rets:
        v = r.value
        if isinstance(v, ast.List):
            for e in v.elts:
                out.append(e.value if isinstance(e, ast.Constant) else ast.unparse(e))
        elif isinstance(v, ast.BinOp):
            out.append(ast.unparse(v))
        else:
            out.append('?')
    return out


ENTROPY_PY = {'random', 'randint', 'uniform', 'choice', 'randrange', 'shuffle', 'sample', 'gauss', 'normalvariate',
              'getrandbits', 'choices', 'triangular'}


def entropy_of(fn):
    """entropy / order sources syntactically used by a function"""
    src = set()
    for n in ast.walk(fn):
        if isinstance(n, ast.Call):
            f = n.func
            if isinstance(f, ast.Attribute):
                # np.random.<fn>(...)   (np.random.RandomState(seed) is an explicitly seeded generator)
                if isinstance(f.value, ast.Attribute) and isinstance(f.value.value, ast.Name) \
                        and f.value.value.id in ('np', 'numpy') and f.value.attr == 'random':
                    src.add('seeded_state' if f.attr in ('RandomState', 'default_rng', 'Generator') else 'np_global')
                elif isinstance(f.value, ast.Name) and f.value.id in ('random', 'py_random') and f.attr in ENTROPY_PY:
                    src.add('py_random')
                elif isinstance(f.value, ast.Name) and f.value.id == 'random_utils':
                    src.add('py_random')
                elif isinstance(f.value, ast.Name) and f.value.id in ('os',) and f.attr == 'urandom':
                    src.add('os_entropy')
                elif isinstance(f.value, ast.Name) and f.value.id == 'time':
                    src.add('clock')
            elif isinstance(f, ast.Name) and f.id in ('set', 'frozenset'):
                # a set that is iterated / turned into a sequence exposes hash order
                src.add('set_built')
            elif isinstance(f, ast.Name) and f.id in ('id', 'hash'):
                src.add('identity')
        if isinstance(n, (ast.Set, ast.SetComp)):
            src.add('set_literal')
    # set_built only matters when the set is iterated or converted: list(set(..)), tuple(set(..)), for x in set(..)
    ordered = False
    for n in ast.walk(fn):
        if isinstance(n, ast.Call) and isinstance(n.func, ast.Name) and n.func.id in ('list', 'tuple', 'sorted', 'enumerate') \
                and n.args and isinstance(n.args[0], ast.Call) and isinstance(n.args[0].func, ast.Name) \
                and n.args[0].func.id in ('set', 'frozenset'):
            if n.func.id != 'sorted':
                ordered = True
        if isinstance(n, ast.For) and isinstance(n.iter, ast.Call) and isinstance(n.iter.func, ast.Name) \
                and n.iter.func.id in ('set', 'frozenset'):
            ordered = True
        if isinstance(n, ast.For) and isinstance(n.iter, (ast.Set, ast.SetComp)):
            ordered = True
    # names bound to set(...) and later passed to list()/iterated
    setvars = set()
    for n in ast.walk(fn):
        if isinstance(n, ast.Assign) and isinstance(n.value, ast.Call) and isinstance(n.value.func, ast.Name) \
                and n.value.func.id in ('set', 'frozenset'):
            for tt in n.targets:
                if isinstance(tt, ast.Name):
                    setvars.add(tt.id)
    for n in ast.walk(fn):
        if isinstance(n, ast.Call) and isinstance(n.func, ast.Name) and n.func.id in ('list', 'tuple') and n.args \
                and isinstance(n.args[0], ast.Name) and n.args[0].id in setvars:
            ordered = True
        if isinstance(n, ast.For) and isinstance(n.iter, ast.Name) and n.iter.id in setvars:
            ordered = True
    out = {s for s in src if s not in ('set_built', 'set_literal')}
    if ordered:
        out.add('hash_order')
    return sorted(out)


MUTABLE_CTORS = {'dict', 'list', 'set', 'defaultdict', 'OrderedDict', 'deque', 'Counter'}
STATE_METHODS = {'append', 'extend', 'insert', 'remove', 'pop', 'clear', 'update', 'setdefault', 'popitem', 'add', 'discard',
                 'appendleft', 'sort', 'reverse'}


def module_mutables(tree):
    """module-level names bound to a mutable container (a place where state can survive from one call to the next)"""
    out = set()
    for n in tree.body:
        tg, val = None, None
        if isinstance(n, ast.Assign) and len(n.targets) == 1 and isinstance(n.targets[0], ast.Name):
            tg, val = n.targets[0].id, n.value
        elif isinstance(n, ast.AnnAssign) and isinstance(n.target, ast.Name) and n.value is not None:
            tg, val = n.target.id, n.value
        if tg is None:
            continue
        if isinstance(val, (ast.Dict, ast.List, ast.Set, ast.DictComp, ast.ListComp, ast.SetComp)):
            out.add(tg)
        elif isinstance(val, ast.Call):
            f = val.func
            nm = f.attr if isinstance(f, ast.Attribute) else (f.id if isinstance(f, ast.Name) else '')
            if nm in MUTABLE_CTORS:
                out.add(tg)
    return out


def writes_process_state(fn, mutables):
    """does the function write into module-level state (`global X` + assignment, X[k] = v, X op= v, X.append(..)) --
    the only way a result can come to depend on earlier calls in the same process"""
    local = {a.arg for a in fn.args.args} | {a.arg for a in fn.args.kwonlyargs}
    declared_global = set()
    for n in ast.walk(fn):
        if isinstance(n, ast.Global):
            declared_global |= set(n.names)
    for n in ast.walk(fn):
        if isinstance(n, ast.Assign):
            for tg in n.targets:
                if isinstance(tg, ast.Name) and tg.id not in declared_global:
                    local.add(tg.id)
    for n in ast.walk(fn):
        if isinstance(n, (ast.Assign, ast.AugAssign)):
            tgs = n.targets if isinstance(n, ast.Assign) else [n.target]
            for tg in tgs:
                if isinstance(tg, ast.Name) and tg.id in declared_global:
                    return True
                if isinstance(tg, ast.Subscript):
                    b = tg
                    while isinstance(b, (ast.Subscript, ast.Attribute)):
                        b = b.value
                    if isinstance(b, ast.Name) and b.id in mutables and b.id not in local:
                        return True
                if isinstance(n, ast.AugAssign) and isinstance(tg, ast.Name) and tg.id in mutables and tg.id not in local:
                    return True
        if isinstance(n, ast.Call) and isinstance(n.func, ast.Attribute) and n.func.attr in STATE_METHODS \
                and isinstance(n.func.value, ast.Name) and n.func.value.id in mutables and n.func.value.id not in local:
            return True
    for d in fn.decorator_list:
        dn = d.func if isinstance(d, ast.Call) else d
        nm = dn.attr if isinstance(dn, ast.Attribute) else (dn.id if isinstance(dn, ast.Name) else '')
        if nm in ('lru_cache', 'cache', 'cached_property'):
            return True
    return False


def writes_instance_state(fn):
    """does a method other than __init__ write an attribute of self (self.x = .., self.x op= .., self.x[k] = .., self.x.append(..))
    -- state that survives on the transform object from one call to the next"""
    if fn.name == '__init__' or not fn.args.args or fn.args.args[0].arg != 'self':
        return False

    def may_be_self_attr(v):
        # self.x, or a conditional / boolean expression one of whose values is self.x (`self.x if c else list(self.x)`)
        if isinstance(v, ast.Attribute) and isinstance(v.value, ast.Name) and v.value.id == 'self':
            return True
        if isinstance(v, ast.IfExp):
            return may_be_self_attr(v.body) or may_be_self_attr(v.orelse)
        if isinstance(v, ast.BoolOp):
            return any(may_be_self_attr(x) for x in v.values)
        return False
    # local names that may be the very object held in an attribute of self: a store through them is a write to self
    aliases = {tg.id for n in ast.walk(fn) if isinstance(n, ast.Assign) and may_be_self_attr(n.value)
               for tg in n.targets if isinstance(tg, ast.Name)}
    for n in ast.walk(fn):
        if aliases:
            tg2 = n.targets if isinstance(n, ast.Assign) else ([n.target] if isinstance(n, ast.AugAssign) else [])
            for x in tg2:
                b = x
                while isinstance(b, ast.Subscript):
                    b = b.value
                if isinstance(x, ast.Subscript) and isinstance(b, ast.Name) and b.id in aliases:
                    return True
            if isinstance(n, ast.Call) and isinstance(n.func, ast.Attribute) and n.func.attr in STATE_METHODS \
                    and isinstance(n.func.value, ast.Name) and n.func.value.id in aliases:
                return True
    for n in ast.walk(fn):
        tgs = []
        if isinstance(n, ast.Assign):
            tgs = n.targets
        elif isinstance(n, ast.AugAssign) or (isinstance(n, ast.AnnAssign) and n.value is not None):
            tgs = [n.target]           # a bare annotation `self.x: T` is a type hint, not a write
        for tg in tgs:
            for x in (tg.elts if isinstance(tg, (ast.Tuple, ast.List)) else [tg]):
                b = x
                while isinstance(b, ast.Subscript):
                    b = b.value
                if isinstance(b, ast.Attribute) and isinstance(b.value, ast.Name) and b.value.id == 'self':
                    return True
        if isinstance(n, ast.Call) and isinstance(n.func, ast.Attribute) and n.func.attr in STATE_METHODS \
                and isinstance(n.func.value, ast.Attribute) and isinstance(n.func.value.value, ast.Name) and n.func.value.value.id == 'self':
            return True
    return False


def entropy_star(t, fn, _seen=None):
    """entropy sources of fn and of every module-level package function it (transitively) calls,
    resolved by bare name (F.cutout, Fdicom.add_noise_nps, _noise_to_3d, ...)"""
    if not hasattr(t, '_modfuncs'):
        t._modfuncs = {}
        for rel, qn, f in t.funcs:
            if '.' not in qn:
                t._modfuncs.setdefault(qn, []).append(f)
    seen = _seen if _seen is not None else set()
    out = set(entropy_of(fn))
    for c in ast.walk(fn):
        if isinstance(c, ast.Call):
            f = c.func
            nm = f.attr if isinstance(f, ast.Attribute) else (f.id if isinstance(f, ast.Name) else None)
            if isinstance(f, ast.Attribute) and isinstance(f.value, ast.Name) and f.value.id in ('self', 'random', 'np', 'random_utils', 'math', 'cv2'):
                continue
            for g in t._modfuncs.get(nm, []):
                if id(g) in seen or g is fn:
                    continue
                seen.add(id(g))
                out |= set(entropy_star(t, g, seen))
    return sorted(out)


INPLACE_METHODS = {'sort', 'append', 'extend', 'insert', 'remove', 'pop', 'clear', 'update', 'reverse', 'fill',
                   'setdefault', 'popitem', 'put', 'itemset', 'resize', 'setflags'}
FRESH_CALLS = {'astype', 'copy', 'deepcopy', 'array', 'zeros', 'ones', 'empty', 'zeros_like', 'ones_like', 'full',
               'list', 'tuple', 'dict', 'stack', 'concatenate', 'pad', 'clip', 'where', 'rot90_copy', 'zoom',
               'affine_transform', 'shift', 'convolve', 'median_filter', 'gaussian_filter', 'float32', 'float64',
               'around', 'round', 'power', 'multiply', 'add', 'subtract', 'divide', 'sqrt', 'real', 'imag', 'repeat',
               'dstack', 'expand_dims_copy', 'tile', 'arange', 'fromiter', 'frombuffer_copy', 'sorted', 'map', 'zip',
               'uniform', 'normal', 'randint', 'rand', 'randn', 'choice', 'random', 'poisson', 'permutation'}


def mutation_of(fn):
    """syntactic ownership analysis: which PARAMETERS (caller-owned values) may be written in place.
    A parameter is 'borrowed' until it is rebound to a fresh value (x = x.astype(..), x = x.copy(),
    x = np.something(...), arithmetic ...).  Flags: aug-assign / subscript store / attribute store /
    in-place method / out= on a borrowed name.  Aliasing through views (y = x[...]; y *= 2) is tracked
    one level: a name assigned from a borrowed name, its slice, reshape, squeeze, transpose or
    ascontiguousarray is borrowed too."""
    params = [a.arg for a in fn.args.args if a.arg not in ('self', 'cls')]
    if fn.args.vararg:
        params.append(fn.args.vararg.arg)
    # dicts that the framework itself creates per call (the ** dict of __call__, the parameter dict
    # returned by get_params -- copied by apply_with_params --, the record built by get_dict_with_id)
    FRAMEWORK_OWNED = {'data', 'kwargs', 'params', 'serialized', 'all_params', 'res', 'result'}
    borrowed = set(p for p in params if p not in FRAMEWORK_OWNED)
    ann = {a.arg: (ast.unparse(a.annotation) if a.annotation is not None else '') for a in fn.args.args}
    ARRAYISH = {'img', 'image', 'mask', 'masks', 'bboxes', 'keypoints', 'dicom', 'bbox', 'keypoint', 'holes', 'arr',
                'img1', 'img2', 'kernel', 'drop_mask', 'gauss', 'lut', 'array', 'labels'}

    def mutable_name(nm):
        a = ann.get(nm, '')
        return nm in ARRAYISH or any(k in a for k in ('ndarray', 'List', 'Sequence', 'Dict', 'Iterable', 'DicomType',
                                                      'BoxType', 'KeypointType')) and 'int' not in a.split('[')[0]
    flagged = []
    array_alias = set()      # names bound to an ndarray view / alias of a borrowed value (np.asarray(x), x.reshape(..), ...)

    def is_array_alias_call(v):
        if isinstance(v, ast.Call):
            f = v.func
            nm = f.attr if isinstance(f, ast.Attribute) else (f.id if isinstance(f, ast.Name) else '')
            return nm in ('ascontiguousarray', 'asarray', 'asanyarray', 'reshape', 'squeeze', 'transpose', 'ravel', 'view',
                          'swapaxes', 'expand_dims', 'require', 'atleast_1d', 'atleast_2d', 'atleast_3d', 'moveaxis', 'flip',
                          'flipud', 'fliplr', 'rot90', 'broadcast_to')
        return False

    def is_view_subscript(v, src):
        """x[..., i] / x[a:b] / x[:, j] of an array-like borrowed value: basic slicing of an ndarray returns a VIEW"""
        if not isinstance(v, ast.Subscript) or not (mutable_name(src) or src in array_alias):
            return False
        idx = v.slice.elts if isinstance(v.slice, ast.Tuple) else [v.slice]
        return any(isinstance(e, ast.Slice) or (isinstance(e, ast.Constant) and e.value is Ellipsis) for e in idx)

    def is_fresh(v):
        if isinstance(v, ast.Call):
            f = v.func
            nm = f.attr if isinstance(f, ast.Attribute) else (f.id if isinstance(f, ast.Name) else '')
            if nm in FRESH_CALLS:
                return True
            if nm in ('ascontiguousarray', 'asarray', 'reshape', 'squeeze', 'transpose', 'ravel', 'view', 'swapaxes',
                      'expand_dims', 'require', 'atleast_3d', 'get', 'items', 'values'):
                return False
            return True      # result of another function: a new value as far as THIS function is concerned
        if isinstance(v, (ast.BinOp, ast.UnaryOp, ast.Compare, ast.BoolOp, ast.Constant, ast.ListComp, ast.DictComp,
                          ast.List, ast.Dict, ast.Tuple, ast.JoinedStr, ast.IfExp, ast.GeneratorExp, ast.Lambda)):
            if isinstance(v, ast.IfExp):
                return is_fresh(v.body) and is_fresh(v.orelse)
            if isinstance(v, ast.Tuple):
                return all(is_fresh(e) for e in v.elts)
            return True
        return False

    def base_name(v):
        while isinstance(v, (ast.Subscript, ast.Attribute)):
            v = v.value
        if isinstance(v, ast.Call) and isinstance(v.func, ast.Attribute):
            if isinstance(v.func.value, ast.Name) and v.func.value.id in ('np', 'numpy', 'cv2', 'scipy', 'ndimage') and v.args:
                return base_name(v.args[0])      # np.asarray(x, ...): a possible alias of x
            return base_name(v.func.value)
        if isinstance(v, ast.Call) and v.args:
            return base_name(v.args[0])
        return v.id if isinstance(v, ast.Name) else None

    def visit(stmts):
        for st in stmts:
            if isinstance(st, ast.Assign):
                fresh = is_fresh(st.value)
                src = base_name(st.value)
                for tg in st.targets:
                    if isinstance(tg, ast.Name):
                        if fresh:
                            borrowed.discard(tg.id)
                            array_alias.discard(tg.id)
                        elif src in borrowed:
                            borrowed.add(tg.id)
                            if is_array_alias_call(st.value) or is_view_subscript(st.value, src):
                                array_alias.add(tg.id)
                        else:
                            borrowed.discard(tg.id)
                            array_alias.discard(tg.id)
                    elif isinstance(tg, (ast.Tuple, ast.List)):
                        for e in tg.elts:
                            if isinstance(e, ast.Name):
                                if fresh or src not in borrowed:
                                    borrowed.discard(e.id)
                                else:
                                    borrowed.add(e.id)
                    elif isinstance(tg, (ast.Subscript, ast.Attribute)):
                        b = base_name(tg)
                        if b in borrowed and b != 'self':
                            flagged.append('%s: store into %s (line %d)' % (fn.name, b, st.lineno))
            elif isinstance(st, ast.AugAssign):
                b = base_name(st.target)
                # `x op= e` on a bare name rebinds immutable scalars; it writes in place only for arrays/lists
                if isinstance(st.target, ast.Name) and not (mutable_name(b) or b in array_alias):
                    b = None
                if b in borrowed and b != 'self':
                    flagged.append('%s: in-place operator on %s (line %d)' % (fn.name, b, st.lineno))
            elif isinstance(st, ast.Expr) and isinstance(st.value, ast.Call) and isinstance(st.value.func, ast.Attribute):
                b = base_name(st.value.func.value)
                if st.value.func.attr in INPLACE_METHODS and b in borrowed and b != 'self':
                    flagged.append('%s: %s.%s() (line %d)' % (fn.name, b, st.value.func.attr, st.lineno))
            elif isinstance(st, ast.Delete):
                for tg in st.targets:
                    b = base_name(tg)
                    if isinstance(tg, ast.Subscript) and b in borrowed:
                        flagged.append('%s: del on %s (line %d)' % (fn.name, b, st.lineno))
            for n in ast.walk(st) if not isinstance(st, (ast.FunctionDef, ast.ClassDef)) else []:
                if isinstance(n, ast.Call):
                    for kw in n.keywords:
                        if kw.arg == 'out' and base_name(kw.value) in borrowed:
                            flagged.append('%s: out=%s (line %d)' % (fn.name, base_name(kw.value), n.lineno))
                        if kw.arg == 'copy' and isinstance(kw.value, ast.Constant) and kw.value.value is False:
                            pass
            if isinstance(st, (ast.FunctionDef, ast.ClassDef)):
                continue
            # branches: a name is borrowed after the statement if it is borrowed on ANY path through it
            # (an `if` that rebinds the name to a fresh value on one path only leaves it borrowed)
            subs = [getattr(st, f) for f in ('body', 'orelse', 'finalbody') if isinstance(getattr(st, f, None), list)]
            if isinstance(st, ast.Try):
                subs += [h.body for h in st.handlers]
            if subs:
                before = set(borrowed)
                merged = set()
                paths = list(subs)
                if isinstance(st, ast.If) and not st.orelse:
                    merged |= before                    # the fall-through path
                if isinstance(st, (ast.For, ast.While, ast.Try, ast.With)):
                    merged |= before                    # zero iterations / no exception
                for sub in paths:
                    borrowed.clear()
                    borrowed.update(before)
                    visit(sub)
                    merged |= set(borrowed)
                borrowed.clear()
                borrowed.update(merged)
    visit(fn.body)
    return flagged


def mask_interp(t, name):
    """how the mask path gets its interpolation: 'inherited' (forced 0 by DualTransform),
    'const:<expr>' the literal passed by an own apply_to_mask, 'param' when an own apply_to_mask
    forwards a formal named interpolation (which the shared parameter dict overrides), 'none'."""
    def interp_uses(f):
        out = []
        for n in ast.walk(f):
            if isinstance(n, ast.Call):
                for kw in n.keywords:
                    if kw.arg in ('interpolation', 'order'):
                        out.append(ast.unparse(kw.value))
                fname = n.func.attr if isinstance(n.func, ast.Attribute) else (n.func.id if isinstance(n.func, ast.Name) else '')
                if fname in ('shift_scale_rotate', 'rotate', 'resize', 'scale', 'crop_and_pad', 'longest_max_size',
                             'smallest_max_size'):
                    # positional interpolation argument of the functional: look the position up in the callee
                    pos = {'shift_scale_rotate': 8, 'rotate': 4, 'resize': 4, 'scale': 2, 'crop_and_pad': 7,
                           'longest_max_size': 2, 'smallest_max_size': 2}[fname]
                    if len(n.args) > pos:
                        out.append(ast.unparse(n.args[pos]))
        return out
    fn, owner = t.find(name, 'apply_to_mask')
    if fn is None:
        return 'none'
    if owner == 'DualTransform':
        # the inherited path calls self.apply with the `interpolation` KEYWORD forced to nearest: that reaches the
        # resampler only if apply hands on its own formal of that name (not self.interpolation, not a literal order)
        afn, _ = t.find(name, 'apply')
        if afn is not None:
            aformals = [a.arg for a in afn.args.args] + [a.arg for a in afn.args.kwonlyargs]
            bad = [u for u in interp_uses(afn) if u not in ('INTER_NEAREST', '0') and not (u == 'interpolation' and 'interpolation' in aformals)]
            if bad:
                return 'inherited-but-apply-uses:' + ','.join(bad)
        return 'inherited'
    formals = [a.arg for a in fn.args.args]
    uses = interp_uses(fn)
    if not uses:
        return 'nointerp'
    bad = [u for u in uses if u not in ('INTER_NEAREST', '0')]
    if not bad:
        return 'const:nearest'
    if any(u == 'interpolation' and 'interpolation' in formals for u in bad):
        return 'param'
    return 'other:' + ','.join(bad)


def supplied_keys(fn):
    """string keys a parameter method puts into the parameter dictionary (dict literals, .update(k=...), d['k'] = ...)"""
    ks = set()
    for n in ast.walk(fn):
        if isinstance(n, ast.Dict):
            for k in n.keys:
                if isinstance(k, ast.Constant) and isinstance(k.value, str):
                    ks.add(k.value)
        if isinstance(n, ast.Call) and isinstance(n.func, ast.Attribute) and n.func.attr == 'update':
            for kw in n.keywords:
                if kw.arg:
                    ks.add(kw.arg)
        if isinstance(n, ast.Assign):
            for tg in n.targets:
                if isinstance(tg, ast.Subscript) and isinstance(tg.slice, ast.Constant) and isinstance(tg.slice.value, str):
                    ks.add(tg.slice.value)
    return ks


def param_use(t, name):
    """(keys the class's parameter methods supply -- get_params, get_params_dependent_on_targets and update_params
    over the whole MRO --, [(target method, its named formals after the data argument)]) for the target methods the
    class (not the framework bases) defines"""
    keys = set()
    for c in t.mro(name):
        if c not in t.classes:
            continue
        for b in t.classes[c][0].body:
            if isinstance(b, ast.FunctionDef) and b.name in ('get_params', 'get_params_dependent_on_targets', 'update_params'):
                keys |= supplied_keys(b)
    meths = []
    for m in ('apply', 'apply_to_mask', 'apply_to_masks', 'apply_to_bbox', 'apply_to_bboxes', 'apply_to_keypoint',
              'apply_to_keypoints', 'apply_to_dicom'):
        fn, owner = t.find(name, m)
        if fn is not None and owner not in BASES:
            meths.append((m, [a.arg for a in fn.args.args][2:] + [a.arg for a in fn.args.kwonlyargs]))
    return sorted(keys), meths


def self_reads(node):
    return sorted({n.attr for n in ast.walk(node) if isinstance(n, ast.Attribute) and isinstance(n.value, ast.Name)
                   and n.value.id == 'self'})


def fill_use(t, name):
    """which instance attributes the image path, the mask path and each entry of the sampled parameter dictionaries
    read: [(method, key or '', attributes)]"""
    rows = []
    for m in ('apply', 'apply_to_mask'):
        fn, owner = t.find(name, m)
        if fn is not None and owner not in BASES:
            rows.append((m, '', self_reads(fn)))
    for m in ('get_params', 'get_params_dependent_on_targets', 'update_params'):
        fn, owner = t.find(name, m)
        if fn is None or owner in BASES:
            continue
        for d in ast.walk(fn):
            if isinstance(d, ast.Dict):
                for k, v in zip(d.keys, d.values):
                    if isinstance(k, ast.Constant) and isinstance(k.value, str):
                        rows.append((m, k.value, self_reads(v)))
    return rows


def main(out_dir):
    t = Tables()
    t.load()
    names = sorted(n for n in t.classes if t.is_transform(n) and not n.startswith('_'))
    rows = []
    for n in names:
        node, rel = t.classes[n]
        m = t.mro(n)
        kind = 'Dual' if 'DualTransform' in m else ('ImageOnly' if 'ImageOnlyTransform' in m else 'Basic')
        ip = [p for p in init_params(t, n) if p not in ('always_apply', 'p')]
        per = persisted(t, n, t.errors)
        repl = ctor_replacements(n)
        missing = []
        for p in ip:
            if p in per:
                continue
            if p in repl and all(x in per for x in repl[p]):
                continue
            missing.append(p)
        draws = {}
        for meth in ('__init__', 'apply', 'apply_to_mask', 'apply_to_masks', 'apply_to_bbox', 'apply_to_bboxes',
                     'apply_to_keypoint', 'apply_to_keypoints', 'apply_to_dicom', 'update_params', 'get_params',
                     'get_params_dependent_on_targets'):
            fn, owner = t.find(n, meth)
            if fn is not None:
                e = entropy_star(t, fn)
                # private helpers of the class called from the method
                for c in ast.walk(fn):
                    if isinstance(c, ast.Call) and isinstance(c.func, ast.Attribute) and isinstance(c.func.value, ast.Name) \
                            and c.func.value.id in ('self', n):
                        h, _ = t.find(n, c.func.attr)
                        if h is None:
                            h, _ = t.find(n, '_%s%s' % (n, c.func.attr))
                        if h is not None and h is not fn:
                            e = sorted(set(e) | set(entropy_star(t, h)))
                draws[meth] = e
        outside = sorted({s for mth, e in draws.items() if mth not in ('get_params', 'get_params_dependent_on_targets', '__init__')
                          for s in e})
        rows.append({'name': n, 'file': rel, 'kind': kind, 'init': ip, 'persisted': per, 'missing': missing,
                     'targets': targets_of(t, n), 'targets_as_params': list_return(t, n, 'targets_as_params'),
                     'own': [mm for mm in ('apply_to_mask', 'apply_to_bbox', 'apply_to_keypoint', 'apply_to_dicom',
                                           'apply_to_bboxes', 'apply_to_keypoints', 'update_params')
                             if t.find(n, mm)[1] not in (None,) + tuple(BASES)],
                     'mask_interp': mask_interp(t, n), 'draws_outside_get_params': outside,
                     'has_interpolation': 'interpolation' in ip})
    ent = []
    mut = []
    for rel, qn, fn in t.funcs:
        e = entropy_of(fn)
        if writes_process_state(fn, t.modmut.get(rel, set())):
            e = sorted(set(e) | {'process_state'})
        if writes_instance_state(fn):
            e = sorted(set(e) | {'instance_state'})
        if e:
            ent.append({'file': rel, 'function': qn, 'sources': e})
        mflag = mutation_of(fn)
        mut.append({'file': rel, 'function': qn, 'flags': mflag})
    # ---- _to_dict of parameter / composition classes: (class, key, attribute read, ctor params)
    todict = []
    for cname in ('Params', 'BboxParams', 'KeypointParams', 'BaseCompose', 'Compose', 'SomeOf', 'ReplayCompose',
                  'OneOf', 'OneOrOther', 'Sequential'):
        if cname not in t.classes:
            t.errors.append({'function': cname, 'error': 'class not found'})
            continue
        pairs = []
        # the _to_dict that runs for this class, and its parents' only as far as each one calls super()._to_dict()
        chain = []
        for c in t.mro(cname):
            own = [b for b in t.classes[c][0].body if isinstance(b, ast.FunctionDef) and b.name == '_to_dict'] if c in t.classes else []
            if not own:
                continue
            chain.append(c)
            calls_super = any(isinstance(n, ast.Call) and isinstance(n.func, ast.Attribute) and n.func.attr == '_to_dict'
                              and isinstance(n.func.value, ast.Call) and isinstance(n.func.value.func, ast.Name)
                              and n.func.value.func.id == 'super' for n in ast.walk(own[0]))
            if not calls_super:
                break
        for c in reversed(chain):
            for b in t.classes[c][0].body:
                if isinstance(b, ast.FunctionDef) and b.name == '_to_dict':
                    for n in ast.walk(b):
                        if isinstance(n, ast.Dict):
                            for k, v in zip(n.keys, n.values):
                                if isinstance(k, ast.Constant) and isinstance(k.value, str):
                                    if isinstance(v, ast.Attribute) and isinstance(v.value, ast.Name) and v.value.id == 'self':
                                        pairs.append((k.value, v.attr))
                                    else:
                                        pairs.append((k.value, '<expr>'))
        ctor = [p_ for p_ in init_params(t, cname)]
        todict.append({'class': cname, 'pairs': pairs, 'ctor': ctor})
    # ---- the replay record: get_dict_with_id of the composition classes (key, attribute read)
    record = []
    for cname in ('BaseCompose', 'Compose'):
        pairs = []
        for c in reversed(t.mro(cname)) if cname in t.classes else []:
            for b in t.classes[c][0].body:
                if isinstance(b, ast.FunctionDef) and b.name == 'get_dict_with_id':
                    for n in ast.walk(b):
                        if isinstance(n, ast.Dict):
                            for k, v in zip(n.keys, n.values):
                                if isinstance(k, ast.Constant) and isinstance(k.value, str):
                                    if isinstance(v, ast.Attribute) and isinstance(v.value, ast.Name) and v.value.id == 'self':
                                        pairs.append((k.value, v.attr))
                                    elif isinstance(v, ast.Constant):
                                        pairs.append((k.value, '<const>'))
                                    else:
                                        pairs.append((k.value, '<expr>'))
        record.append({'class': cname, 'pairs': pairs})
    # ---- emit
    lines = ['(* GENERATED by /verif/translator/classtab.py from the package sources -- do not edit *)',
             'From Coq Require Import List String Bool.', 'Import ListNotations.', 'Open Scope string_scope.', '',
             'Record cls := mkCls { c_name : string; c_kind : string; c_init : list string; c_persisted : list string;',
             '  c_missing : list string; c_targets : list string; c_targets_as_params : list string; c_own : list string;',
             '  c_mask_interp : string; c_draws_outside : list string; c_has_interp : bool }.', '',
             'Definition class_table : list cls := [']
    body = []
    for r in rows:
        body.append('  mkCls %s %s %s %s\n    %s %s %s %s\n    %s %s %s' % (
            q(r['name']), q(r['kind']), slist(r['init']), slist(r['persisted']), slist(r['missing']),
            slist(r['targets']), slist([str(x) for x in r['targets_as_params']]), slist(r['own']),
            q(r['mask_interp']), slist(r['draws_outside_get_params']), 'true' if r['has_interpolation'] else 'false'))
    lines.append(';\n'.join(body))
    lines.append('].')
    lines.append('')
    lines.append('(* functions that read entropy / expose hash order: (file, function, sources) *)')
    lines.append('Definition entropy_table : list (string * string * list string) := [')
    lines.append(';\n'.join('  (%s, %s, %s)' % (q(e['file']), q(e['function']), slist(e['sources'])) for e in ent))
    lines.append('].')
    lines.append('')
    lines.append('(* in-place writes to caller-owned values found by the ownership analysis: (file, function, flags) *)')
    lines.append('Definition mutation_table : list (string * string * list string) := [')
    lines.append(';\n'.join('  (%s, %s, %s)' % (q(m['file']), q(m['function']), slist(m['flags'])) for m in mut if m['flags']))
    lines.append('].')
    lines.append('Definition functions_analysed : nat := %d.' % len(mut))
    lines.append('')
    lines.append('(* _to_dict of parameter and composition classes: class, [(key, attribute read)], constructor parameters *)')
    lines.append('Definition todict_table : list (string * list (string * string) * list string) := [')
    lines.append(';\n'.join('  (%s, [%s], %s)' % (q(d['class']), '; '.join('(%s, %s)' % (q(k), q(a)) for k, a in d['pairs']),
                                                  slist(d['ctor'])) for d in todict))
    lines.append('].')
    lines.append('')
    lines.append('(* get_dict_with_id (the replay record) of the composition classes: class, [(key, attribute read)] *)')
    lines.append('Definition record_table : list (string * list (string * string)) := [')
    lines.append(';\n'.join('  (%s, [%s])' % (q(d['class']), '; '.join('(%s, %s)' % (q(k), q(a)) for k, a in d['pairs'])) for d in record))
    lines.append('].')
    lines.append('')
    lines.append('(* parameter use: class, keys its parameter methods supply, [(target method, named formals)] *)')
    lines.append('Definition param_table : list (string * list string * list (string * list string)) := [')
    puse = [(n,) + param_use(t, n) for n in names]
    lines.append(';\n'.join('  (%s, %s, [%s])' % (q(n), slist(ks), '; '.join('(%s, %s)' % (q(m), slist(fs)) for m, fs in ms))
                            for n, ks, ms in puse))
    lines.append('].')
    # ---- the arguments every transform persists: BasicTransform.get_base_init_args (key, attribute read or <expr>)
    base_pairs = []
    fn, _ = t.find('BasicTransform', 'get_base_init_args')
    if fn is None:
        t.errors.append({'function': 'BasicTransform.get_base_init_args', 'error': 'not found'})
    else:
        for n in ast.walk(fn):
            if isinstance(n, ast.Dict):
                for k, v in zip(n.keys, n.values):
                    if isinstance(k, ast.Constant) and isinstance(k.value, str):
                        base_pairs.append((k.value, v.attr if isinstance(v, ast.Attribute) and isinstance(v.value, ast.Name)
                                           and v.value.id == 'self' else '<expr>'))
    lines.append('')
    lines.append('(* BasicTransform.get_base_init_args: (key, attribute of self written under it, or <expr>) *)')
    lines.append('Definition base_args_table : list (string * string) := [%s].' % '; '.join('(%s, %s)' % (q(k), q(a)) for k, a in base_pairs))
    lines.append('')
    lines.append('(* fill use: class, target method or parameter method, parameter key ("" for a target method), attributes of self read *)')
    lines.append('Definition fill_table : list (string * string * string * list string) := [')
    fuse = [(n, m, k, r) for n in names for m, k, r in fill_use(t, n)]
    lines.append(';\n'.join('  (%s, %s, %s, %s)' % (q(n), q(m), q(k), slist(r)) for n, m, k, r in fuse))
    lines.append('].')
    text = '\n'.join(lines) + '\n'
    path = os.path.join(out_dir, 'Gen_classtab.v')
    old = open(path).read() if os.path.exists(path) else None
    if old != text:
        open(path, 'w').write(text)
    json.dump({'todict': todict, 'record': record, 'classes': rows, 'entropy': ent, 'mutation': [m for m in mut if m['flags']], 'errors': t.errors,
               'functions_analysed': len(mut)}, open(os.path.join(out_dir, 'classtab_manifest.json'), 'w'), indent=1)
    print('classtab: %d classes, %d entropy rows, %d mutation flags, %d errors'
          % (len(rows), len(ent), sum(1 for m in mut if m['flags']), len(t.errors)))


if __name__ == '__main__':
    out = sys.argv[1] if len(sys.argv) > 1 else os.path.join(os.path.dirname(os.path.abspath(__file__)), '..', 'coq', 'gen')
    main(out)
