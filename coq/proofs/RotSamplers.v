(* RotSamplers.v -- the parameter samplers of the rotation classes (regenerated from get_params /
   get_params_dependent_on_targets): whatever the draws are, the quarter-turn factor is one of 0..3, the angle /
   scale / shifts lie within their OWN configured limits, and the plane is the configured plane (a member of the
   configured list of planes). *)
From Coq Require Import ZArith QArith List Bool String Lia.
Import ListNotations.
From DV.lib Require Import PyNum PyRt.
From DV.model Require Import Arrays NpRt.
From DV.gen Require Import Gen_cls_rotate Gen_cls_geom.
From DV.proofs Require Import Tac PadParams Dropout.
Open Scope Z_scope.

Lemma nth_res_in {A} (l : list A) k x : nth_res l k = Ok x -> In x l.
Proof.
  unfold nth_res. destruct (nth_error l (Z.to_nat k)) eqn:E; [|discriminate].
  intros H. inversion H; subst. eapply nth_error_In; eassumption.
Qed.

Theorem RandomRotate90_params_one_plane axes d1 k ax :
  RandomRotate90S_get_params axes d1 = Ok (k, ax) -> 0 <= k <= 3 /\ ax = axes.
Proof.
  unfold RandomRotate90S_get_params. intros E. res_inv.
  repeat match goal with Hd : draw_int _ _ _ = Ok _ |- _ => apply draw_int_ok in Hd; destruct Hd as [-> ?] end.
  split; [lia | reflexivity].
Qed.

Theorem RandomRotate90_params_plane_list axes d1 d2 k ax :
  RandomRotate90L_get_params axes d1 d2 = Ok (k, ax) -> 0 <= k <= 3 /\ In ax axes.
Proof.
  unfold RandomRotate90L_get_params. intros E. res_inv.
  repeat match goal with Hd : draw_int _ _ _ = Ok _ |- _ => apply draw_int_ok in Hd; destruct Hd as [-> ?] end.
  split; [lia | eapply nth_res_in; eassumption].
Qed.

Theorem Rotate_params_one_plane axes lo hi d1 a ax :
  (lo <= hi)%Q -> RotateS_get_params_dependent_on_targets axes (lo, hi) d1 = Ok (a, ax) -> (lo <= a /\ a <= hi)%Q /\ ax = axes.
Proof.
  intros L. unfold RotateS_get_params_dependent_on_targets. intros E. res_inv.
  match goal with Hd : draw_uniform _ _ _ = Ok _ |- _ => apply (draw_uniform_ok _ _ _ _ L) in Hd end.
  split; [assumption | reflexivity].
Qed.

Theorem Rotate_params_plane_list axes lo hi d1 d2 a ax :
  (lo <= hi)%Q -> RotateL_get_params_dependent_on_targets axes (lo, hi) d1 d2 = Ok (a, ax) -> (lo <= a /\ a <= hi)%Q /\ In ax axes.
Proof.
  intros L. unfold RotateL_get_params_dependent_on_targets. intros E. res_inv.
  match goal with Hd : draw_uniform _ _ _ = Ok _ |- _ => apply (draw_uniform_ok _ _ _ _ L) in Hd end.
  split; [assumption | eapply nth_res_in; eassumption].
Qed.

Theorem ShiftScaleRotate_params axes r1 r2 s1 s2 x1 x2 y1 y2 z1 z2 d1 d2 d3 d4 d5 d6 a s dx dy dz ax :
  (r1 <= r2)%Q -> (s1 <= s2)%Q -> (x1 <= x2)%Q -> (y1 <= y2)%Q -> (z1 <= z2)%Q ->
  ShiftScaleRotateS_get_params axes (r1, r2) (s1, s2) (x1, x2) (y1, y2) (z1, z2) d1 d2 d3 d4 d5 d6 = Ok (a, s, dx, dy, dz, ax) ->
  (r1 <= a /\ a <= r2)%Q /\ (s1 <= s /\ s <= s2)%Q /\ (x1 <= dx /\ dx <= x2)%Q /\ (y1 <= dy /\ dy <= y2)%Q /\
  (z1 <= dz /\ dz <= z2)%Q /\ In ax axes.
Proof.
  intros R S X Y Z. unfold ShiftScaleRotateS_get_params. intros E. res_inv.
  repeat match goal with
  | Hd : draw_uniform ?a ?b _ = Ok _ |- _ =>
      first [apply (draw_uniform_ok _ _ _ _ R) in Hd | apply (draw_uniform_ok _ _ _ _ S) in Hd
            | apply (draw_uniform_ok _ _ _ _ X) in Hd | apply (draw_uniform_ok _ _ _ _ Y) in Hd
            | apply (draw_uniform_ok _ _ _ _ Z) in Hd]
  end.
  repeat split; try tauto. eapply nth_res_in; eassumption.
Qed.
