(* Lat_box.v -- the generated box maps equal the box map induced by the SAME lattice
   descriptor that the voxel path realises (Lat_vox.v).  Boxes are taken in pixel
   coordinates of the input frame; the library works on normalised boxes, so each
   statement is  denorm_out (bbox_T (norm_in b)) == lat_box lat_T b. *)
From Coq Require Import ZArith QArith List Bool Lia Lqa String.
From DV.lib Require Import PyNum PyRt.
From DV.model Require Import Arrays Lattice.
From DV.gen Require Import Gen_bbox_utils Gen_geom_functional Gen_crops_functional.
From DV.proofs Require Import Tac Conv C17_box.
Open Scope Q_scope.

Ltac nz := try (apply Zpos_inject_nonzero; assumption).
Ltac box_lat :=
  unfold denorm_box, norm_box, box_eq, lat_box, lat_box_lo, lat_box_hi; cbn;
  repeat split; push_inj; field; nz.

Section Frame.
Variables r c s : Z.
Hypothesis Hr : (0 < r)%Z.
Hypothesis Hc : (0 < c)%Z.
Hypothesis Hs : (0 < s)%Z.
Let sh : shape3 := (r, c, s).

Lemma bbox_vflip_lat b :
  box_eq (denorm_box (bbox_vflip (norm_box b r c s) r c s) r c s) (lat_box (lat_flip 0 sh) b).
Proof. destruct_box b. unfold bbox_vflip. box_lat. Qed.
Lemma bbox_hflip_lat b :
  box_eq (denorm_box (bbox_hflip (norm_box b r c s) r c s) r c s) (lat_box (lat_flip 1 sh) b).
Proof. destruct_box b. unfold bbox_hflip. box_lat. Qed.
Lemma bbox_zflip_lat b :
  box_eq (denorm_box (bbox_zflip (norm_box b r c s) r c s) r c s) (lat_box (lat_flip 2 sh) b).
Proof. destruct_box b. unfold bbox_zflip. box_lat. Qed.

Definition lat_flipcode (d : Z) (sh : shape3) : lat :=
  if (d =? 0)%Z then lat_flip 0 sh else if (d =? 1)%Z then lat_flip 1 sh
  else if (d =? 2)%Z then lat_flip 2 sh else lat_flip_all sh.

Lemma bbox_flip_lat b d : In d flipcodes ->
  exists nb, bbox_flip (norm_box b r c s) d r c s = Ok nb /\
             box_eq (denorm_box nb r c s) (lat_box (lat_flipcode d sh) b).
Proof.
  intros H. destruct_box b. unfold flipcodes in H.
  in_cases H; unfold bbox_flip, bbox_vflip, bbox_hflip, bbox_zflip; cbn;
  (eexists; split; [reflexivity|]); box_lat.
Qed.

Lemma bbox_transpose_lat b :
  exists nb, bbox_transpose (norm_box b r c s) 0 r c s = Ok nb /\
             box_eq (denorm_box nb c r s) (lat_box lat_transpose b).
Proof.
  destruct_box b. unfold bbox_transpose; cbn. eexists; split; [reflexivity|]. box_lat.
Qed.

(* quarter turns: the output frame has the two plane extents exchanged for odd factors *)
Definition rot_shape_q (k : Z) (a1 a2 : nat) : Z * Z * Z :=
  if Z.even k then (r, c, s) else setax a2 (getax a1 (r, c, s)) (setax a1 (getax a2 (r, c, s)) (r, c, s)).
Definition out_frame (k : Z) (ax : string) : Z * Z * Z :=
  let '(a1, a2) := plane_axes ax in rot_shape_q k a1 a2.

Lemma bbox_rot90_lat b k ax : In k factors -> In ax planes ->
  exists nb, bbox_rot90 (norm_box b r c s) k ax r c s = Ok nb /\
    let '(r', c', s') := out_frame k ax in
    let '(a1, a2) := plane_axes ax in
    box_eq (denorm_box nb r' c' s') (lat_box (lat_rot90 k a1 a2 sh) b).
Proof.
  intros Hk Ha. destruct_box b. unfold factors in Hk. unfold planes in Ha.
  in_cases Hk; in_cases Ha; unfold bbox_rot90; cbn; (eexists; split; [reflexivity|]); box_lat.
Qed.

End Frame.

(* ---- windows: crop_bbox_by_coords / bbox_crop follow the shift descriptor ---- *)
Section Crop.
Variables r c s : Z.
Hypothesis Hr : (0 < r)%Z.
Hypothesis Hc : (0 < c)%Z.
Hypothesis Hs : (0 < s)%Z.

Lemma bbox_crop_lat b x1 y1 z1 x2 y2 z2 : (x1 < x2)%Z -> (y1 < y2)%Z -> (z1 < z2)%Z ->
  exists nb, bbox_crop (norm_box b r c s) x1 y1 z1 x2 y2 z2 r c s = Ok nb /\
    box_eq (denorm_box nb (y2 - y1) (x2 - x1) (z2 - z1)) (lat_box (lat_shift y1 x1 z1) b).
Proof.
  intros Hx Hy Hz. destruct_box b. unfold bbox_crop, crop_bbox_by_coords.
  rewrite denormalize_bbox_ok by assumption. unfold denorm_box, norm_box. cbn.
  rewrite normalize_bbox_ok by lia. eexists; split; [reflexivity|].
  assert (N1 : ~ inject_Z (y2 - y1) == 0) by (apply Zpos_inject_nonzero; lia).
  assert (N2 : ~ inject_Z (x2 - x1) == 0) by (apply Zpos_inject_nonzero; lia).
  assert (N3 : ~ inject_Z (z2 - z1) == 0) by (apply Zpos_inject_nonzero; lia).
  pose proof (Zpos_inject_nonzero r Hr). pose proof (Zpos_inject_nonzero c Hc).
  pose proof (Zpos_inject_nonzero s Hs).
  unfold denorm_box, norm_box, box_eq, lat_box, lat_box_lo, lat_box_hi. cbn.
  repeat split; push_inj; field; repeat split; try assumption;
  rewrite <- ?inject_Z_sub; assumption.
Qed.
End Crop.
