(* PadCropInv.v -- a pad followed by the inverse crop is the identity on boxes, keypoints and voxels
   (generated PadIfNeeded / Crop class methods). *)
From Coq Require Import ZArith QArith List Bool String Lia Lqa.
From DV.lib Require Import PyNum PyRt.
From DV.model Require Import Arrays NpRt.
From DV.gen Require Import Gen_bbox_utils Gen_crops_functional Gen_geom_arrays Gen_cls_geom Gen_cls_crops.
From DV.proofs Require Import Tac Conv.
Open Scope Z_scope.

Theorem pad_then_inverse_crop_box bm mv v b pt pb pl pr pf pk r c s :
  0 < r -> 0 < c -> 0 < s -> 0 <= pt -> 0 <= pb -> 0 <= pl -> 0 <= pr -> 0 <= pf -> 0 <= pk ->
  exists b1 b2,
    PadIfNeeded_apply_to_bbox bm mv v b pt pb pl pr pf pk c r s = Ok b1 /\
    Crop_apply_to_bbox (pl + c) pl (pt + r) pt (pf + s) pf b1 (c + pl + pr) (r + pt + pb) (s + pf + pk) = Ok b2 /\
    box_eq b2 b.
Proof.
  intros Pr Pc Ps P1 P2 P3 P4 P5 P6.
  unfold PadIfNeeded_apply_to_bbox. rewrite (denormalize_bbox_ok b r c s Pr Pc Ps). cbn [bind].
  destruct_box b. unfold denorm_box at 1.
  rewrite normalize_bbox_ok by lia. eexists. eexists. split; [reflexivity|].
  unfold Crop_apply_to_bbox, bbox_crop, crop_bbox_by_coords. cbv zeta.
  rewrite denormalize_bbox_ok by lia. cbn [bind]. unfold norm_box at 1. unfold denorm_box at 1.
  rewrite normalize_bbox_ok by lia. split; [reflexivity|].
  unfold norm_box, box_eq.
  assert (N : forall n, 0 < n -> ~ (inject_Z n == 0)%Q) by (intros n Hn; apply Zpos_inject_nonzero; exact Hn).
  pose proof (N r Pr). pose proof (N c Pc). pose proof (N s Ps).
  pose proof (N (r + pt + pb) ltac:(lia)). pose proof (N (c + pl + pr) ltac:(lia)). pose proof (N (s + pf + pk) ltac:(lia)).
  replace (pt + r - pt) with r by lia. replace (pl + c - pl) with c by lia. replace (pf + s - pf) with s by lia.
  repeat split; field; auto.
Qed.

Theorem pad_then_inverse_crop_keypoint bm mv v k pt pb pl pr pf pk r c s r' c' s' :
  kp_eq (Crop_apply_to_keypoint (pl + c) pl (pt + r) pt (pf + s) pf
           (PadIfNeeded_apply_to_keypoint bm mv v k pt pb pl pr pf pk c r s) c' r' s') k.
Proof.
  destruct_kp k. unfold PadIfNeeded_apply_to_keypoint, Crop_apply_to_keypoint, crop_keypoint_by_coords, kp_eq.
  repeat split; try reflexivity; ring.
Qed.

(* voxels: constant padding followed by the crop of the original window returns the original volume *)
From DV.model Require Import Lattice.
From DV.proofs Require Import Lat_vox Cls_lattice2.
Open Scope Z_scope.
Lemma shift_back a b c o : lat_src (lat_shift (- a) (- b) (- c)) (lat_src (lat_shift a b c) o) = o.
Proof. destruct o as [[i j] k]. cbn. repeat f_equal; lia. Qed.

Theorem pad_then_inverse_crop_voxels v r c s pt pb pl pr pf pk val :
  vshape v = (r, c, s) -> 0 < r -> 0 < c -> 0 < s -> pad_ok pt pb pl pr pf pk ->
  exists v1 v2, pad_with_params v pt pb pl pr pf pk "constant" val = Ok v1 /\
                crop v1 pl pt pf (pl + c) (pt + r) (pf + s) = Ok v2 /\
                vshape v2 = vshape v /\ forall o, in_range (vshape v) o = true -> vat v2 o = vat v o.
Proof.
  intros Sh Pr Pc Ps Pad.
  destruct (pad_constant r c s v pt pb pl pr pf pk val Sh Pad) as (v1 & E1 & S1 & F1).
  destruct Pad as (A & B & C & D & E & F).
  destruct (crop_lat v1 pl pt pf (pl + c) (pt + r) (pf + s)) as (v2 & E2 & S2 & M2).
  { rewrite S1. cbn. lia. }
  exists v1, v2. repeat split; try assumption.
  - rewrite S2, Sh. f_equal; [f_equal|]; lia.
  - intros o Ho. rewrite (M2 o), (F1 _), shift_back, Ho. reflexivity.
Qed.
