(* C06 -- Masks are never blended.
   (1) For every exported class, the interpolation order that reaches the mask path is nearest
       (the inherited DualTransform.apply_to_mask override, an own mask path that passes the
       constant INTER_NEAREST, or no interpolation at all) -- a decidable fact about the class
       table regenerated from the source on every run.
   (2) For every class whose array code is generated over the NumPy view model (flips, transpose,
       quarter turns, all crops, PadIfNeeded in every border mode, Coarse/GridDropout): every voxel
       of the returned mask is a voxel of the input mask or the configured MASK fill value -- for
       every input view, every parameter value, every shape; the statement composes through
       pipelines because it is stated for an arbitrary set P of already-present fill values. *)
From Coq Require Import ZArith QArith List Bool String.
From DV.lib Require Import PyNum PyRt.
From DV.model Require Import Arrays NpRt.
From DV.gen Require Import Gen_classtab Gen_cls_geom Gen_cls_rotate Gen_cls_crops Gen_cls_coarse Gen_cls_grid.
From DV.proofs Require Import ClassFacts CF_C06 Values.
Open Scope Z_scope.

Theorem C06_interpolation_reaching_every_mask_path_is_nearest :
  forallb mask_interp_ok class_table = true.
Proof. exact mask_interp_all. Qed.
Print Assumptions C06_interpolation_reaching_every_mask_path_is_nearest.

Theorem C06_lattice_mask_paths_copy_voxels : forall (P : Q -> Prop) v, fills_in P v ->
  (forall c r s, fills_in P (VerticalFlip_apply_to_mask v c r s)) /\
  (forall c r s, fills_in P (HorizontalFlip_apply_to_mask v c r s)) /\
  (forall c r s, fills_in P (SliceFlip_apply_to_mask v c r s)) /\
  (forall d c r s v', Flip_apply_to_mask v d c r s = Ok v' -> fills_in P v') /\
  (forall c r s, fills_in P (Transpose_apply_to_mask v c r s)) /\
  (forall n ax c r s v', RandomRotate90_apply_to_mask v n ax c r s = Ok v' -> fills_in P v') /\
  (forall sd sh sw hs ws ds c r s v', RandomCrop_apply_to_mask sd sh sw v hs ws ds c r s = Ok v' -> fills_in P v') /\
  (forall sd sh sw c r s v', CenterCrop_apply_to_mask sd sh sw v c r s = Ok v' -> fills_in P v') /\
  (forall a b c0 d e f c r s v', Crop_apply_to_mask a b c0 d e f v c r s = Ok v' -> fills_in P v') /\
  (forall x1 x2 y1 y2 z1 z2 c r s, fills_in P (RandomCropFromBorders_apply_to_mask v x1 x2 y1 y2 z1 z2 c r s)) /\
  (forall x1 y1 z1 x2 y2 z2 c r s, fills_in P (RandomCropNearBBox_apply_to_mask v x1 y1 z1 x2 y2 z2 c r s)).
Proof.
  intros P v H. repeat split; intros.
  - apply mask_VerticalFlip, H.
  - apply mask_HorizontalFlip, H.
  - apply mask_SliceFlip, H.
  - eapply mask_Flip; eassumption.
  - apply mask_Transpose, H.
  - eapply mask_RandomRotate90; eassumption.
  - eapply mask_RandomCrop; eassumption.
  - eapply mask_CenterCrop; eassumption.
  - eapply mask_Crop; eassumption.
  - apply mask_RandomCropFromBorders, H.
  - apply mask_RandomCropNearBBox, H.
Qed.
Print Assumptions C06_lattice_mask_paths_copy_voxels.

Theorem C06_PadIfNeeded_mask_fill_only : forall (P : Q -> Prop) v border mval val pt pb pl pr pf pk c r s v',
  fills_in P v -> PadIfNeeded_apply_to_mask border mval val v pt pb pl pr pf pk c r s = Ok v' ->
  fills_in (or_fill P (Some mval)) v'.
Proof. intros. eapply mask_PadIfNeeded; eassumption. Qed.
Print Assumptions C06_PadIfNeeded_mask_fill_only.

Theorem C06_dropout_mask_fill_only : forall (P : Q -> Prop) v, fills_in P v ->
  (forall holes fv mfv c r s, fills_in (or_fill P mfv) (CoarseDropout_apply_to_mask v holes fv mfv c r s)) /\
  (forall holes fv c r s, CoarseDropout_apply_to_mask v holes fv None c r s = v) /\
  (forall sfv smfv holes fv mfv c r s, fills_in (or_fill P smfv) (GridDropout_apply_to_mask sfv smfv v holes fv mfv c r s)).
Proof.
  intros P v H. repeat split; intros.
  - apply mask_CoarseDropout, H.
  - apply mask_GridDropout, H.
Qed.
Print Assumptions C06_dropout_mask_fill_only.

(* non-vacuity: an input mask satisfies the hypothesis with no fill value present at all, and a
   padded mask really contains the mask fill *)
Example C06_input_has_no_fills : forall sh, fills_in (fun _ => False) (v_id sh).
Proof. intros. apply fills_id. Qed.
Example C06_pad_fills_with_the_mask_value :
  match PadIfNeeded_apply_to_mask "constant" 7 3 (v_id (2, 2, 2)) 1 0 0 0 0 0 2 2 2 with
  | Ok v' => vat v' (0, 0, 0) = Fill 7 /\ vat v' (1, 0, 0) = Src (0, 0, 0)
  | Raise _ => False
  end.
Proof. vm_compute. split; reflexivity. Qed.

(* resize family with a generated image path: the mask path (interpolation forced to 0) copies input voxels
   whatever order the image uses; any order >= 1 would blend (every voxel of the model's result is a mixture),
   so the override is what the property rests on *)
From DV.proofs Require Import Resample.
From DV.gen Require Import Gen_geom_arrays Gen_cls_resize.
Theorem C06_resized_masks_copy_voxels :
  (forall sd sh sw v ip c r s H W D, vshape v = (H, W, D) -> (0 < H)%Z -> (0 < W)%Z -> (0 < D)%Z ->
     exists vi vm, Resize_apply sd sh sw v ip c r s = Ok vi /\ Resize_apply_to_mask sd sh sw v ip c r s = Ok vm /\
       vshape vi = (sh, sw, sd) /\ vshape vm = (sh, sw, sd) /\ forall P, fills_in P v -> fills_in P vm) /\
  (forall v sc ip c r s P, fills_in P v -> fills_in P (RandomScale_apply_to_mask v sc ip c r s)) /\
  (forall zy zx zz order v o, order <> 0%Z -> vat (v_zoom zy zx zz order v) o = Mix).
Proof.
  repeat split; [exact Resize_image_and_mask | intros; apply RandomScale_image_and_mask; assumption | exact zoom_blends].
Qed.
Print Assumptions C06_resized_masks_copy_voxels.

(* CropAndPad mask path: every voxel of the result is a voxel of the input mask or the mask pad value *)
From DV.proofs Require Import CropPad.
From DV.gen Require Import Gen_cls_crops_dicom.
Theorem C06_CropAndPad_mask_values : forall P keep pm v cp pp pv pvm rr rc rs ip c r s v',
  fills_in P v -> CropAndPad_apply_to_mask keep pm v cp pp pv pvm rr rc rs ip c r s = Ok v' ->
  fills_in (fun q => P q \/ q = pvm) v'.
Proof. exact CropAndPad_mask_values. Qed.
Print Assumptions C06_CropAndPad_mask_values.

(* every entry of `masks` is handled by apply_to_mask (hand model Dispatch.dual_apply, tied to the real target table
   by harness/corr_dispatch.py) -- so the per-class mask theorems above cover the list target as well *)
From DV.model Require Import Dispatch.
Theorem C06_every_entry_of_masks_goes_through_apply_to_mask : forall fi fm fb fk fd l,
  dual_target fi fm fb fk fd "masks" (VList l) = VList (map fm l).
Proof. intros. apply masks_entrywise. Qed.
Print Assumptions C06_every_entry_of_masks_goes_through_apply_to_mask.

(* fill values stay on their side: no mask path (apply_to_mask) and no sampled parameter that names the mask reads an
   image fill attribute (value, fill_value, pad_cval, drop_value, cval), and no image path / image parameter reads a
   mask fill attribute -- over the regenerated table of attribute reads of every transform class *)
Theorem C06_mask_fill_comes_from_the_mask_fill_argument : forallb fill_row_ok fill_table = true.
Proof. exact fills_stay_on_their_side. Qed.
Print Assumptions C06_mask_fill_comes_from_the_mask_fill_argument.

(* ... and no own mask path hands the mask over to an image path (`self.apply`) that reads an image fill value *)
Theorem C06_no_mask_path_borrows_the_image_fill : forallb (mask_path_row_ok fill_table) fill_table = true.
Proof. exact mask_paths_do_not_borrow_the_image_fill. Qed.
Print Assumptions C06_no_mask_path_borrows_the_image_fill.
