(* KpTac.v -- bridge between the generated angle normalisation and Angle.norm *)
From DV.lib Require Import PyNum PyRt Angle.
From DV.gen Require Import Gen_keypoints_utils.
Open Scope Q_scope.

Lemma norm_eq a : angle_to_2pi_range a = norm a.  Proof. reflexivity. Qed.

Ltac to_norm :=
  repeat match goal with
  | |- context [angle_to_2pi_range ?x] => change (angle_to_2pi_range x) with (norm x)
  | H : context [angle_to_2pi_range ?x] |- _ => change (angle_to_2pi_range x) with (norm x) in H
  end.

Lemma norm_idem' a : norm (norm a) == norm a.
Proof. apply norm_id; apply norm_range. Qed.
