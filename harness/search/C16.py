"""C16 failing-input search: the header after a pipeline equals the header before with the in-plane
PixelSpacing multiplied, step by step, by the factor by which that step resampled rows / columns
(measured on the image; SciPy rounds target extents, hence a half-voxel tolerance), swapped when
rows and columns are swapped, untouched otherwise; every other field unchanged.
RescaleSlopeIntercept: int16 voxels raw*slope+intercept, header reset, second application no-op."""
import copy
import random

import numpy as np

import implrun as R

A = R.A


def step_pool(rng, shape):
    H, W, D = shape
    m, M = min(shape), max(shape)
    pool = [
        ('resample', {'cls': 'RandomScale', 'args': {'scale_limit': rng.choice([0.2, (0.3, 0.6), (-0.3, -0.1)]), 'interpolation': 0}}),
        ('resample', {'cls': 'LongestMaxSize', 'args': {'max_size': rng.randint(M // 2 + 2, 2 * M), 'interpolation': 0}}),
        ('resample', {'cls': 'SmallestMaxSize', 'args': {'max_size': rng.randint(max(2, m // 2 + 1), 2 * m), 'interpolation': 0}}),
        ('resample', {'cls': 'Resize', 'args': {'height': rng.randint(3, 2 * H), 'width': rng.randint(3, 2 * W), 'depth': rng.randint(2, 2 * D), 'interpolation': 0}}),
        ('scale_param', {'cls': 'ShiftScaleRotate', 'args': {'scale_limit': (0.2, 0.5), 'rotate_limit': 10}}),
        # the plane only selects where the rotation happens: the magnification acts on rows and columns in every plane
        ('scale_param', {'cls': 'ShiftScaleRotate', 'args': {'scale_limit': (0.2, 0.5), 'rotate_limit': 10, 'axes': 'yz'}}),
        ('scale_param', {'cls': 'ShiftScaleRotate', 'args': {'scale_limit': (-0.4, -0.2), 'rotate_limit': 10, 'axes': 'xz'}}),
        ('scale_param', {'cls': 'ShiftScaleRotate', 'args': {'scale_limit': (0.2, 0.5), 'rotate_limit': 0, 'axes': ['yz', 'xz']}}),
        ('target', {'cls': 'SetPixelSpacing', 'args': {'space_x': rng.choice([0.5, 0.8, 1.25]), 'space_y': rng.choice([0.5, 0.7, 1.0]), 'interpolation': 0}}),
        ('swap', {'cls': 'Transpose', 'args': {}}),
        ('rot', {'cls': 'RandomRotate90', 'args': {'axes': 'xy'}}),
        ('resample', {'cls': 'RandomSizedCrop', 'args': {'min_max_height': (max(2, H // 2), H), 'height': rng.randint(3, 2 * H), 'width': rng.randint(3, 2 * W), 'depth': rng.randint(2, 2 * D), 'interpolation': 0}}),
        ('resample_keep', {'cls': 'CropAndPad', 'args': {'px': rng.choice([-1, 2]), 'keep_size': True, 'interpolation': 0}}),
        ('same', {'cls': 'RandomCrop', 'args': {'height': max(1, H - 1), 'width': max(1, W - 2), 'depth': max(1, D - 1)}}),
        ('same', {'cls': 'CenterCrop', 'args': {'height': max(1, H - 2), 'width': max(1, W - 1), 'depth': D}}),
        ('same', {'cls': 'PadIfNeeded', 'args': {'min_height': H + 2, 'min_width': W + 1, 'min_depth': D + 3}}),
        ('same', {'cls': 'CropAndPad', 'args': {'px': rng.choice([-1, 2]), 'keep_size': False}}),
        ('same', {'cls': 'HorizontalFlip', 'args': {}}), ('same', {'cls': 'VerticalFlip', 'args': {}}),
        ('same', {'cls': 'SliceFlip', 'args': {}}), ('same', {'cls': 'Flip', 'args': {}}),
        ('same', {'cls': 'GaussNoise', 'args': {}}), ('same', {'cls': 'RandomGamma', 'args': {}}),
        ('same', {'cls': 'Blur', 'args': {}}), ('same', {'cls': 'InvertImg', 'args': {}}),
        ('same', {'cls': 'CoarseDropout', 'args': {'max_holes': 2, 'max_height': 2, 'max_width': 2, 'max_depth': 2}}),
        ('same', {'cls': 'PixelDropout', 'args': {}}), ('same', {'cls': 'NPSNoise', 'args': {}}),
    ]
    return pool


def close(a, b, tol):
    return abs(a - b) <= tol


def run_pipeline(case):
    shape = tuple(case['shape'])
    rs = np.random.RandomState(case['seed'] % 10000)
    img = rs.randint(0, 200, shape).astype(np.int16)
    hdr = {'PixelSpacing': tuple(case['spacing']), 'RescaleSlope': case['slope'], 'RescaleIntercept': case['intercept'],
           'ConvolutionKernel': 'STANDARD', 'XRayTubeCurrent': 160, 'SliceThickness': 2.5, 'Other': [1, 2]}
    R.seed(case['seed'])
    exp = list(hdr['PixelSpacing'])
    tol = 1e-9
    log = []
    for kind, spec in case['steps']:
        t = R.make_leaf({'cls': spec['cls'], 'args': dict(spec['args'], p=1.0)})
        pipe = A.ReplayCompose([t])
        h_in = copy.deepcopy(hdr)
        res = pipe(image=img, dicom=hdr)
        out, hdr2 = res['image'], res['dicom']
        if h_in != hdr:
            return ('input-header-mutated:%s' % spec['cls'], str(hdr), str(h_in), log)
        params = res['replay']['transforms'][0].get('params') or {}
        r_in, c_in = img.shape[:2]
        r_out, c_out = out.shape[:2]
        ry, rx = exp
        if kind == 'resample' or kind == 'resample_keep':
            fy, fx = r_out / r_in, c_out / c_in
            if kind == 'resample_keep':
                # crop/pad to another extent, then back to the input size: rows were resampled by rows / (rows + top + bottom)
                pp, cp = params.get('pad_params') or [0] * 6, params.get('crop_params')
                rr = (cp[4] - cp[1]) if cp else r_in
                cc = (cp[3] - cp[0]) if cp else c_in
                rr, cc = rr + pp[0] + pp[1], cc + pp[2] + pp[3]
                fy, fx = r_in / rr, c_in / cc
            if spec['cls'] == 'RandomSizedCrop':
                fy = spec['args']['height'] / params['crop_height']
                fx = spec['args']['width'] / params['crop_width']
            exp = [ry * fy, rx * fx]
            tol = tol * max(fy, fx) + max(ry, rx) * (0.5 / min(r_in, c_in)) * 1.01
        elif kind == 'scale_param':
            exp = [ry * params['scale'], rx * params['scale']]
        elif kind == 'target':
            exp = [spec['args']['space_y'], spec['args']['space_x']]
            tol = 1e-9
        elif kind == 'swap':
            exp = [rx, ry]
        elif kind == 'rot':
            if params.get('factor', 0) % 2 == 1:
                exp = [rx, ry]
        got = hdr2['PixelSpacing']
        log.append('%s %s -> %s spacing %s' % (spec['cls'], img.shape, out.shape, tuple(round(float(g), 6) for g in got)))
        if not (close(got[0], exp[0], tol) and close(got[1], exp[1], tol)):
            return ('C16:%s:spacing' % spec['cls'], 'PixelSpacing %s' % (tuple(got),),
                    'PixelSpacing %s (+-%.3g): rows %d->%d, cols %d->%d' % (tuple(exp), tol, r_in, r_out, c_in, c_out), log)
        exp = [float(got[0]), float(got[1])]      # continue from what the library returned
        tol = 1e-9
        others_in = {k: v for k, v in h_in.items() if k != 'PixelSpacing'}
        others_out = {k: v for k, v in hdr2.items() if k != 'PixelSpacing'}
        if others_in != others_out or list(h_in.keys()) != list(hdr2.keys()):
            return ('C16:%s:other-fields' % spec['cls'], str(others_out), str(others_in), log)
        img, hdr = out, hdr2
    return None


def check_rescale(case):
    shape = tuple(case['shape'])
    rs = np.random.RandomState(case['seed'] % 10000)
    sl, ic = case['slope'], case['intercept']
    raw = rs.randint(-500, 3000, shape).astype(case['raw_dtype'])
    if case['raw_dtype'] == 'uint16':
        raw = np.abs(raw).astype('uint16')
    if float(sl) == 0.5:
        raw = (raw // 2 * 2).astype(case['raw_dtype'])   # keep raw*slope integral for slope 1/2
    hdr = {'PixelSpacing': tuple(case['spacing']), 'RescaleSlope': sl, 'RescaleIntercept': ic, 'ConvolutionKernel': 'B30f'}
    want = raw.astype(np.float64) * float(sl) + float(ic)
    if want.min() < -32768 or want.max() > 32767:
        return None
    # a fractional slope gives non-integral Hounsfield values: the int16 voxel is then the NEAREST integer (a value
    # within half a unit; exact ties are left out), never one a whole unit away
    ties = np.abs(want - np.floor(want) - 0.5) < 1e-6
    pipe = A.Compose([A.RescaleSlopeIntercept(p=1.0)])
    try:
        res = pipe(image=raw, dicom=hdr)
    except Exception as e:  # noqa
        return ('C16:RescaleSlopeIntercept:raises', '%s: %s' % (type(e).__name__, str(e)[:160]), 'int16 voxels raw*slope+intercept', [])
    out, h2 = res['image'], res['dicom']
    if str(out.dtype) != 'int16' or out.shape != want.shape or np.any((np.abs(out.astype(np.float64) - want) > 0.5) & ~ties) \
            or np.any(np.abs(out.astype(np.float64) - want) > 0.5 + 1e-6):
        return ('C16:RescaleSlopeIntercept:voxels', 'dtype %s, first voxels %s' % (out.dtype, out.ravel()[:4].tolist()),
                'int16 %s' % want.ravel()[:4].tolist(), [])
    if h2.get('RescaleSlope') != 1 or h2.get('RescaleIntercept') != 0 or \
            {k: v for k, v in h2.items() if not k.startswith('Rescale')} != {k: v for k, v in hdr.items() if not k.startswith('Rescale')}:
        return ('C16:RescaleSlopeIntercept:header', str(h2), 'slope 1, intercept 0, other fields unchanged', [])
    res2 = pipe(image=out, dicom=h2)
    if not np.array_equal(res2['image'], out) or res2['dicom'] != h2 or res2['image'].dtype != out.dtype:
        return ('C16:RescaleSlopeIntercept:second-application', 'changed', 'no-op', [])
    return None


def run(seed=0, tier='quick', hints=None, broken=False):
    rng = random.Random(seed * 49979687 + 16)
    n = 40 if tier == 'quick' else 800
    if broken:
        n *= 3
    viol, evals, seen = [], 0, set()
    for i in range(n):
        shape = rng.sample([6, 7, 8, 9, 10, 12, 14, 16], 3)
        pool = step_pool(rng, shape)
        k = rng.choice([1, 1, 2, 3, 4])
        steps = [list(rng.choice(pool)) for _ in range(k)]
        case = {'shape': shape, 'seed': R.pick_seed(rng), 'steps': steps,
                'spacing': rng.choice([[0.7, 0.4], [0.35, 0.9], [1.0, 0.5], [0.625, 0.3125]]),
                'slope': rng.choice([1, 1.0, 2]), 'intercept': rng.choice([-1024, -1024.0, 0])}
        # pipelines whose later steps would see a shape the pool was not drawn for are fine: sizes are absolute
        try:
            bad = run_pipeline(case)
        except Exception as e:  # noqa -- totality is C08's question
            bad = None
        evals += 1
        seen.add(tuple(s[1]['cls'] for s in steps))
        if bad:
            viol.append({'site': bad[0] if bad[0].startswith('C16') else 'C16:' + bad[0], 'kind': 'pipeline', 'case': case,
                         'observed': bad[1], 'expected': bad[2], 'log': bad[3]})
    # every slope x every intercept (integer-typed, whole-number floats, fractional floats off the half: a value such as
    # -1023.75 that a truncation or a rounding of the HEADER moves the voxels by more than half a unit), both raw dtypes
    # alternating; the thorough tier repeats the product on more volumes
    grid = [(sl, ic) for sl in [1, 2, 1.0, 2.0, 0.5, 0.3, 1.1, 0.7]
            for ic in [-1024, 0, -1024.0, 10, 10.0, 12.5, -1023.75, 0.25, -0.75]]
    for i, (sl, ic) in enumerate(grid * (1 if tier == 'quick' else 12)):
        case = {'shape': rng.sample([3, 4, 5, 6], 3), 'seed': R.pick_seed(rng), 'spacing': [0.7, 0.4],
                'slope': sl, 'intercept': ic, 'raw_dtype': ['int16', 'uint16'][(i + i // len(grid)) % 2]}
        bad = check_rescale(case)
        evals += 1
        seen.add(('rescale', type(case['slope']).__name__, type(case['intercept']).__name__, case['raw_dtype']))
        if bad:
            viol.append({'site': bad[0], 'kind': 'rescale', 'case': case, 'observed': bad[1], 'expected': bad[2]})
    return {'violations': viol, 'info': {'evaluations': evals, 'distinct': len(seen),
                                         'what': 'step-wise header vs measured resampling factor; RescaleSlopeIntercept int/float headers'}}


def replay(v):
    bad = run_pipeline(v['case']) if v.get('kind') == 'pipeline' else check_rescale(v['case'])
    if bad:
        return [{'site': bad[0], 'case': v['case'], 'kind': v.get('kind'), 'observed': bad[1], 'expected': bad[2]}]
    return []
