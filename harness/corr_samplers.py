#!/usr/bin/env python3
"""Correspondence for the generated PARAMETER SAMPLERS (get_params / get_params_dependent_on_targets /
update_params, incl. the loop samplers): the real method runs with every random.random / randint /
uniform call recorded; the model gets the same instance attributes, the same targets and the recorded
draws in its oracle slots.  A branch of the real code consumes a sub-sequence of the slots, so every
order- and type-preserving assignment of the recorded draws to the slots is tried (some assignment
must reproduce the result)."""
import itertools
import json
import os
import random
import re
import subprocess
import sys

sys.path.insert(0, os.path.dirname(os.path.abspath(__file__)))
import corr
import implrun as R
import numpy as np
from corr_methods import to_model

A = R.A
Fr = corr.Fr


class DrawRecorder:
    def __enter__(self):
        self.ev = []
        self.o = (random.random, random.randint, random.uniform, random.choice)
        o_random, o_randint, _, _c = self.o

        def rnd():
            v = o_random()
            self.ev.append(('Q', Fr(v)))
            return v

        def rint(a, b):
            v = o_randint(a, b)
            self.ev.append(('Z', int(v)))
            return v

        def uni(a, b):
            u = o_random()
            self.ev.append(('Q', Fr(u)))
            return a + (b - a) * u
        def cho(seq):
            # random.choice(seq) = seq[index drawn below len(seq)] (IndexError on an empty sequence)
            if not len(seq):
                raise IndexError('Cannot choose from an empty sequence')
            i = o_randint(0, len(seq) - 1)
            self.ev.append(('Z', int(i)))
            return seq[i]
        random.random, random.randint, random.uniform, random.choice = rnd, rint, uni, cho
        return self

    def __exit__(self, *a):
        random.random, random.randint, random.uniform, random.choice = self.o


def assignments(slots, ev, cap=400):
    """order-preserving, type-respecting injections of the recorded draws into the slots"""
    out = []
    n, k = len(slots), len(ev)
    if k > n:
        return out
    for idx in itertools.combinations(range(n), k):
        if all(slots[i][1] == e[0] for i, e in zip(idx, ev)):
            vals = [0 if t == 'Z' else Fr(0) for _, t in slots]
            for i, e in zip(idx, ev):
                vals[i] = e[1]
            out.append(vals)
            if len(out) >= cap:
                break
    return out


def boxes_norm(rng, n):
    out = []
    for _ in range(n):
        def seg():
            a = Fr(rng.randint(0, 40), 64)
            b = a + Fr(rng.randint(4, 24), 64)
            return a, min(b, Fr(1))
        (x1, x2), (y1, y2), (z1, z2) = seg(), seg(), seg()
        out.append((x1, y1, z1, x2, y2, z2))
    return out


def make_jobs(rng):
    """(coq function, class, ctor kwargs, model target args, real call, loop kind)"""
    jobs = []
    shape = tuple(rng.sample([6, 7, 8, 9, 10, 12, 15], 3))
    H, W, D = shape
    img = np.zeros(shape, np.uint8)
    if rng.random() < 0.5:
        kw = dict(min_height=H + rng.randint(0, 5), min_width=W + rng.randint(0, 5), min_depth=D + rng.randint(0, 5))
    else:
        kw = dict(min_height=None, min_width=None, min_depth=None, pad_height_divisor=rng.randint(1, 6),
                  pad_width_divisor=rng.randint(1, 6), pad_depth_divisor=rng.randint(1, 6))
    kw['position'] = rng.choice(['center', 'front_top_left', 'back_bottom_right', 'front_top_right', 'random', 'random'])
    jobs.append(('PadIfNeededS_update_params', 'PadIfNeeded', kw, [H, W, D], lambda o: o.update_params({}, image=img), None))
    jobs.append(('FlipS_get_params', 'Flip', {}, [], lambda o: o.get_params(), None))
    planes = ['xy', 'yz', 'xz']
    some = rng.sample(planes, rng.randint(1, 3))
    jobs.append(('RandomRotate90S_get_params', 'RandomRotate90', dict(axes=rng.choice(planes)), [], lambda o: o.get_params(), None))
    jobs.append(('RandomRotate90L_get_params', 'RandomRotate90', dict(axes=list(some)), [], lambda o: o.get_params(), None))
    lim = rng.choice([30, (10, 50), (-90, -45), 0.5, (20, 20)])
    jobs.append(('RotateS_get_params_dependent_on_targets', 'Rotate', dict(limit=lim, axes=rng.choice(planes)), [],
                 lambda o: o.get_params_dependent_on_targets({}), None))
    jobs.append(('RotateL_get_params_dependent_on_targets', 'Rotate', dict(limit=lim, axes=list(some)), [],
                 lambda o: o.get_params_dependent_on_targets({}), None))
    jobs.append(('ShiftScaleRotateS_get_params', 'ShiftScaleRotate',
                 dict(rotate_limit=lim, scale_limit=rng.choice([0.1, (0.25, 0.5), (-0.25, 0.0)]), shift_limit=rng.choice([0.0625, (0.125, 0.25)]),
                      axes=rng.choice([list(some), rng.choice(planes)]), **rng.choice([{}, {'shift_limit_z': (0.0, 0.5)}, {'shift_limit_x': 0.25, 'shift_limit_y': (-0.5, -0.25)}])),
                 [], lambda o: o.get_params(), None))
    jobs.append(('RandomBrightnessContrastS_get_params', 'RandomBrightnessContrast',
                 dict(brightness_limit=rng.choice([0.25, (0.125, 0.5), (-0.5, -0.25), 0]), contrast_limit=rng.choice([0.25, (0.5, 0.75), 0])),
                 [], lambda o: o.get_params(), None))
    jobs.append(('RandomGammaS_get_params', 'RandomGamma', dict(gamma_limit=rng.choice([(80, 120), (50, 150), 120, (100, 100)])), [],
                 lambda o: o.get_params(), None))
    jobs.append(('DownscaleS_get_params', 'Downscale', rng.choice([{}, dict(scale_min=0.5, scale_max=0.75), dict(scale_min=0.5, scale_max=0.5)]), [],
                 lambda o: o.get_params(), None))
    jobs.append(('RandomScaleS_get_params', 'RandomScale', dict(scale_limit=rng.choice([0.125, (0.25, 0.5), (-0.5, 0.0)])), [],
                 lambda o: o.get_params(), None))
    jobs.append(('RandomCropS_get_params', 'RandomCrop', dict(height=3, width=3, depth=2), [], lambda o: o.get_params(), None))
    lo = rng.randint(1, 6)
    jobs.append(('RandomSizedCropS_get_params', 'RandomSizedCrop',
                 dict(min_max_height=(lo, lo + rng.randint(0, 5)), height=5, width=4, depth=3,
                      w2h_ratio=rng.choice([1.0, 0.5, 1.25, 0.75]), d2h_ratio=rng.choice([1.0, 0.25, 1.5])), [],
                 lambda o: o.get_params(), None))
    cp = [rng.randint(0, 2 * n) if rng.random() < 0.7 else rng.randint(0, 3) for n in (H, H, W, W, D, D)]
    jobs.append(('CropAndPadS_prevent_zero', 'CropAndPad', dict(px=(0, 0, 0, 0, 0, 0)), [tuple(cp), H, W, D],
                 lambda o, c=cp: tuple(o._prevent_zero(list(c), H, W, D)), None))
    v1, v2, mv = rng.randint(0, 12), rng.randint(0, 12), rng.randint(1, 10)
    jobs.append(('CropAndPadS_priv_prevent_zero', 'CropAndPad', dict(px=(0, 0, 0, 0, 0, 0)), [v1, v2, mv],
                 lambda o: tuple(o._CropAndPad__prevent_zero(v1, v2, mv)), None))
    # dyadic fractions: int(fraction * extent) is then the same in float64 and in exact arithmetic (no truncation at a
    # value that is an integer only up to round-off)
    kw = {k: rng.choice([0.125, 0.25, 0.375, 0.4375]) for k in ('crop_left', 'crop_right', 'crop_top', 'crop_bottom', 'crop_close', 'crop_far')}
    jobs.append(('RandomCropFromBordersS_get_params_dependent_on_targets', 'RandomCropFromBorders', kw, [shape],
                 lambda o: o.get_params_dependent_on_targets({'image': img}), None))
    bxs = boxes_norm(rng, rng.randint(0, 3))
    jobs.append(('BBoxSafeRandomCropS_get_params_dependent_on_targets', 'BBoxSafeRandomCrop', dict(erosion_rate=rng.choice([0.0, 0.125, 0.25])),
                 [shape, bxs], lambda o, b=bxs: o.get_params_dependent_on_targets({'image': img, 'bboxes': [tuple(float(v) for v in x) for x in b]}), None))
    x1, y1, z1 = rng.randint(0, W - 3), rng.randint(0, H - 3), rng.randint(0, D - 3)
    ref = (x1, y1, z1, rng.randint(x1 + 2, W), rng.randint(y1 + 2, H), rng.randint(z1 + 2, D))
    jobs.append(('RandomCropNearBBoxS_get_params_dependent_on_targets', 'RandomCropNearBBox',
                 dict(max_part_shift=rng.choice([0.25, (0.125, 0.5, 0.25), 0])), [ref],
                 lambda o, r=ref: o.get_params_dependent_on_targets({o.cropping_bbox_key: r}), None))
    hdr = (Fr(7, 10), Fr(2, 5), Fr(rng.choice([1, 2])), Fr(rng.choice([-1024, 0])), 7, 'float')
    jobs.append(('SetPixelSpacingS_get_params_dependent_on_targets', 'SetPixelSpacing', dict(space_x=0.5, space_y=rng.choice([0.25, 1.0])), [hdr],
                 lambda o, h=hdr: o.get_params_dependent_on_targets({'dicom': corr.to_py(h, 'hdr')}), None))
    jobs.append(('RescaleSlopeInterceptS_get_params_dependent_on_targets', 'RescaleSlopeIntercept', {}, [hdr],
                 lambda o, h=hdr: o.get_params_dependent_on_targets({'dicom': corr.to_py(h, 'hdr')}), None))
    kwi = dict(max_holes=rng.randint(1, 3), max_height=rng.randint(1, H), max_width=rng.randint(1, W), max_depth=rng.randint(1, D))
    kwi.update(min_holes=rng.randint(1, kwi['max_holes']), min_height=rng.randint(1, kwi['max_height']),
               min_width=rng.randint(1, kwi['max_width']), min_depth=rng.randint(1, kwi['max_depth']))
    jobs.append(('CoarseDropoutI_get_params_dependent_on_targets', 'CoarseDropout', kwi, [shape],
                 lambda o: o.get_params_dependent_on_targets({'image': img}), 'coarse'))
    kwf = dict(max_holes=rng.randint(1, 3), min_holes=1, max_height=0.5, max_width=0.25, max_depth=0.75, min_height=0.125,
               min_width=0.125, min_depth=0.25)
    jobs.append(('CoarseDropoutF_get_params_dependent_on_targets', 'CoarseDropout', kwf, [shape],
                 lambda o: o.get_params_dependent_on_targets({'image': img}), 'coarse'))
    kwg = dict(ratio=rng.choice([0.25, 0.5, 0.75]), random_offset=rng.random() < 0.5)
    if rng.random() < 0.4:
        a = rng.randint(2, min(H, W) - 1)
        kwg.update(unit_size_min=a, unit_size_max=rng.randint(a, min(H, W)))
    else:
        kwg.update(holes_number_x=rng.choice([None, rng.randint(1, W // 2)]), holes_number_y=rng.choice([None, rng.randint(1, H // 2)]),
                   holes_number_z=rng.choice([None, rng.randint(1, D // 2)]), shift_x=rng.randint(0, 3), shift_y=rng.randint(0, 2),
                   shift_z=rng.randint(0, 2))
    jobs.append(('GridDropoutS_get_params_dependent_on_targets', 'GridDropout', kwg, [shape],
                 lambda o: o.get_params_dependent_on_targets({'image': img}), 'grid'))
    return jobs


def head(f, attrs, targs):
    params = [(p, corr.tt(t)) for p, t in f['params']]
    parts = [f['name']]
    parts += [corr.enc(v, corr.tt(t)) for v, (a, t) in zip(attrs, f['self_attrs'])]
    parts += [corr.enc(v, t) for v, (p, t) in zip(targs, params)]
    return parts


def coq_call(f, attrs, targs, draws, loop_vars=None):
    parts = head(f, attrs, targs) + list(loop_vars or [])
    parts += [corr.enc(v, corr.tt(t)) for v, (n_, t) in zip(draws, f['draws'])]
    return '(' + ' '.join(parts) + ')'


def one_case(fns, job):
    name, cls, kw, targs, call, loop = job
    obj = getattr(A, cls)(p=1.0, **kw)
    with DrawRecorder() as rec:
        try:
            res = call(obj)
            err = None
        except Exception as e:  # noqa
            res, err = None, type(e).__name__
    ev = rec.ev
    if loop is None:
        f = fns[name]
        attrs = [to_model(getattr(obj, a), t) for a, t in f['self_attrs']]
        ret = corr.tt(f['ret_ty'])
        cands = assignments(f['draws'], ev)
        if not cands:
            return 'false', 'no-assignment'
        alts = []
        for dv in cands:
            c = coq_call(f, attrs, targs, dv)
            if err is None:
                value = [res[k] for k in f['ret_keys']] if f['ret_keys'] else res
                if f['ret_keys'] and len(f['ret_keys']) == 1 and not corr.is_t(ret, 'tuple'):
                    value = value[0]
                expt = corr.enc(corr.canon_result(value, ret), ret)
                alts.append(('Nat.eqb (code_res %s %s (Ok %s)) 0' if f['raises'] else '(%s %s %s)') % (corr.chk_of(ret), c, expt))
            else:
                alts.append('Nat.eqb (code_res %s %s (Raise %s)) 0' % (corr.chk_of(ret), c, err) if f['raises'] else 'false')
        return '(' + ' || '.join(alts) + ')', ('ok' if err is None else err)
    fc, fb = fns[name + '_count'], fns[name + '_body']
    attrs = [to_model(getattr(obj, a), t) for a, t in fc['self_attrs']]
    if err is not None:
        return 'true', 'raised:' + err
    holes = [tuple(int(v) for v in h) for h in res['holes']]
    rb = corr.tt(fb['ret_ty'])
    if loop == 'coarse':
        if len(ev) != 1 + 6 * len(holes):
            return 'false', 'draw-count'
        terms = ['Nat.eqb (code_res chk_z %s (Ok (%d)%%Z)) 0' % (coq_call(fc, attrs, targs, [ev[0][1]]), len(holes))]
        for i, h in enumerate(holes):
            seg = ev[1 + 6 * i: 7 + 6 * i]
            if [e[0] for e in seg] != [t for _, t in fb['draws']]:
                return 'false', 'draw-types'
            terms.append('Nat.eqb (code_res %s %s (Ok %s)) 0' % (corr.chk_of(rb), coq_call(fb, attrs, targs, [e[1] for e in seg]), corr.enc(h, rb)))
        return '(' + ' && '.join(terms) + ')', 'ok'
    # grid: count (nx, ny, nz) and every cell (i, j, k) -> hole number (i * ny + j) * nz + k, all with the same draws
    cc, cb = assignments(fc['draws'], ev), assignments(fb['draws'], ev)
    if not cc or not cb:
        return 'false', 'no-assignment'
    lit = '[' + '; '.join(corr.enc(h, rb) for h in holes) + ']'
    alts = []
    for dc in cc[:6]:
        for db in cb[:6]:
            cnt = coq_call(fc, attrs, targs, dc)
            body = ' '.join(head(fb, attrs, targs) + ['i', 'j', 'k'] + [corr.enc(v, corr.tt(t)) for v, (n_, t) in zip(db, fb['draws'])])
            alts.append("(match %s with Ok (a, b, c) => Z.eqb (a * b * c)%%Z %d && forallb (fun n => let i := (Z.of_nat n / (b * c))%%Z in "
                        "let j := ((Z.of_nat n / c) mod b)%%Z in let k := (Z.of_nat n mod c)%%Z in "
                        "Nat.eqb (code_res %s (%s) (Ok (nth n %s (0, 0, 0, 0, 0, 0)%%Z))) 0) (seq 0 %d) | _ => false end)"
                        % (cnt, len(holes), corr.chk_of(rb), body, lit, min(len(holes), 60)))
    return '(' + ' || '.join(alts) + ')', 'ok'


def run(seed, n):
    man, fns = corr.load_manifest()
    rng = random.Random(seed * 999331 + 5)
    cases, kinds = [], {}
    for i in range(n):
        random.seed(rng.randint(0, 1 << 30))
        for job in make_jobs(rng):
            try:
                term, kind = one_case(fns, job)
            except KeyError as e:
                term, kind = 'false', 'missing:' + str(e)
            key = job[1] + ':' + kind
            kinds[key] = kinds.get(key, 0) + 1
            cases.append({'sampler': job[0], 'class': job[1], 'kwargs': repr(job[2]), 'kind': kind, 'coq': term})
    path = os.path.join(corr.VERIF, 'coq', 'cases', 'smp_%d.v' % seed)
    os.makedirs(os.path.dirname(path), exist_ok=True)
    mods = sorted({m['coq_module'] for m in man['modules']})
    base = ['Gen_keypoints_utils', 'Gen_bbox_utils', 'Gen_geom_functional', 'Gen_geom_arrays', 'Gen_dropout_functional',
            'Gen_dicom_functional', 'Gen_pixel_dropout', 'Gen_crops_functional']
    with open(path, 'w') as f:
        f.write('From Coq Require Import ZArith QArith List Bool.\nImport ListNotations.\nFrom DV.lib Require Import PyNum PyRt Corr.\n'
                'From DV.model Require Import Arrays NpRt FrameworkCheck.\n')
        for mname in base + [x for x in mods if x not in base and x.startswith('Gen_cls')]:
            f.write('From DV.gen Require Import %s.\n' % mname)
        f.write('Open Scope Q_scope.\n')
        f.write('Definition cases : list bool := [\n' + ';\n'.join(' ' + c['coq'] for c in cases) + '].\n')
        f.write('Eval vm_compute in (bad_idx 0 cases).\n')
    p = subprocess.run(['timeout', '900', 'coqc', '-Q', 'lib', 'DV.lib', '-Q', 'gen', 'DV.gen', '-Q', 'model', 'DV.model', path],
                       cwd=os.path.join(corr.VERIF, 'coq'), stdout=subprocess.PIPE, stderr=subprocess.STDOUT, text=True)
    m = re.search(r'=\s*\[(.*?)\]', p.stdout, re.S)
    errors, bad = [], []
    if p.returncode != 0 or m is None:
        errors.append(p.stdout[-2500:])
    else:
        bad = [int(x) for x in re.findall(r'\d+', m.group(1))]
    for ext in ('.vo', '.vok', '.vos', '.glob'):
        try:
            os.remove(path[:-2] + ext)
        except OSError:
            pass
    js = lambda c: {k: v for k, v in c.items() if k != 'coq'}
    return {'cases': len(cases), 'distinct_cases': len({c['coq'] for c in cases}), 'result_kinds': kinds,
            'n_disagreements': len(bad), 'disagreements': [js(cases[i]) for i in bad[:12]], 'coq_errors': errors,
            'missing_functions': [], 'samples': [js(c) for c in cases[:2]]}


if __name__ == '__main__':
    print(json.dumps(run(int(sys.argv[1]), int(sys.argv[2])), indent=1, default=str)[:5000])
