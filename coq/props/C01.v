(* C01 -- Image and mask undergo the same geometric map.
   For every lattice class the mask path (own method, or the inherited DualTransform.apply_to_mask
   = image path with interpolation 0, regenerated from transforms_interface.py) has the SAME
   output shape and the SAME voxel source map as the image path; padding differs only in the
   fill value (value vs mask_value). *)
From Coq Require Import ZArith QArith List Bool String.
From DV.lib Require Import PyNum PyRt.
From DV.model Require Import Arrays NpRt Lattice.
From DV.gen Require Import Gen_cls_geom Gen_cls_rotate Gen_cls_crops Gen_geom_arrays Gen_crops_functional.
From DV.proofs Require Import C17_box Lat_vox Cls_lattice Cls_lattice2.
Open Scope Z_scope.

(* classes whose mask path is the inherited one: it is literally the image path *)
Theorem C01_inherited_mask_path_is_the_image_path :
  (forall v c r s, VerticalFlip_apply_to_mask v c r s = VerticalFlip_apply v c r s) /\
  (forall v c r s, HorizontalFlip_apply_to_mask v c r s = HorizontalFlip_apply v c r s) /\
  (forall v c r s, SliceFlip_apply_to_mask v c r s = SliceFlip_apply v c r s) /\
  (forall v d c r s, Flip_apply_to_mask v d c r s = Flip_apply v d c r s) /\
  (forall v c r s, Transpose_apply_to_mask v c r s = Transpose_apply v c r s) /\
  (forall v n ax c r s, RandomRotate90_apply_to_mask v n ax c r s = RandomRotate90_apply v n ax c r s) /\
  (forall sh sw sd v hs ws ds c r s,
     RandomCrop_apply_to_mask sd sh sw v hs ws ds c r s = RandomCrop_apply sd sh sw v hs ws ds c r s) /\
  (forall sh sw sd v c r s, CenterCrop_apply_to_mask sd sh sw v c r s = CenterCrop_apply sd sh sw v c r s) /\
  (forall a b c0 d e f v c r s, Crop_apply_to_mask a b c0 d e f v c r s = Crop_apply a b c0 d e f v c r s).
Proof. repeat split; reflexivity. Qed.
Print Assumptions C01_inherited_mask_path_is_the_image_path.

Theorem C01_own_mask_paths_crop_from_borders : forall v x1 x2 y1 y2 z1 z2 c r s,
  RandomCropFromBorders_apply_to_mask v x1 x2 y1 y2 z1 z2 c r s = RandomCropFromBorders_apply v x1 x2 y1 y2 z1 z2 c r s.
Proof. reflexivity. Qed.
Print Assumptions C01_own_mask_paths_crop_from_borders.

Theorem C01_PadIfNeeded_same_offsets : forall r c s v pt pb pl pr pf pk val mval,
  vshape v = (r, c, s) -> pad_ok pt pb pl pr pf pk ->
  exists vi vm,
    PadIfNeeded_apply "constant" mval val v pt pb pl pr pf pk c r s = Ok vi /\
    PadIfNeeded_apply_to_mask "constant" mval val v pt pb pl pr pf pk c r s = Ok vm /\
    vshape vi = (r + pt + pb, c + pl + pr, s + pf + pk) /\ vshape vm = vshape vi /\
    padded_from vi v pt pl pf val /\ padded_from vm v pt pl pf mval.
Proof. intros r c s v pt pb pl pr pf pk val mval. apply PadIfNeeded_image_mask. Qed.
Print Assumptions C01_PadIfNeeded_same_offsets.

Theorem C01_lattice_classes_follow_one_descriptor : forall r c s, 0 < r -> 0 < c -> 0 < s ->
  follows4 r c s (fun v => VerticalFlip_apply v c r s) (fun v => VerticalFlip_apply_to_mask v c r s)
    (fun b => VerticalFlip_apply_to_bbox b c r s) (fun k => VerticalFlip_apply_to_keypoint k c r s)
    (lat_flip 0 (r, c, s)) (r, c, s) /\
  follows4 r c s (fun v => HorizontalFlip_apply v c r s) (fun v => HorizontalFlip_apply_to_mask v c r s)
    (fun b => HorizontalFlip_apply_to_bbox b c r s) (fun k => HorizontalFlip_apply_to_keypoint k c r s)
    (lat_flip 1 (r, c, s)) (r, c, s) /\
  follows4 r c s (fun v => SliceFlip_apply v c r s) (fun v => SliceFlip_apply_to_mask v c r s)
    (fun b => SliceFlip_apply_to_bbox b c r s) (fun k => SliceFlip_apply_to_keypoint k c r s)
    (lat_flip 2 (r, c, s)) (r, c, s).
Proof.
  intros. repeat split; first [apply VerticalFlip_follows | apply HorizontalFlip_follows | apply SliceFlip_follows];
  assumption.
Qed.
Print Assumptions C01_lattice_classes_follow_one_descriptor.

(* resampling classes whose image path is generated (SciPy zoom as a shape + order-0 source model):
   image and mask come back with the same shape for every image interpolation order *)
From DV.proofs Require Import Resample Values.
From DV.gen Require Import Gen_cls_resize.
Theorem C01_Resize_and_RandomScale_same_shape :
  (forall sd sh sw v ip c r s H W D, vshape v = (H, W, D) -> (0 < H)%Z -> (0 < W)%Z -> (0 < D)%Z ->
     exists vi vm, Resize_apply sd sh sw v ip c r s = Ok vi /\ Resize_apply_to_mask sd sh sw v ip c r s = Ok vm /\
       vshape vi = (sh, sw, sd) /\ vshape vm = (sh, sw, sd) /\ forall P, fills_in P v -> fills_in P vm) /\
  (forall v sc ip c r s, vshape (RandomScale_apply v sc ip c r s) = vshape (RandomScale_apply_to_mask v sc ip c r s)).
Proof. split; [exact Resize_image_and_mask | intros; apply RandomScale_image_and_mask]. Qed.
Print Assumptions C01_Resize_and_RandomScale_same_shape.

(* CropAndPad (image path generated: crop, constant/edge/... pad, optional resize back): the shape of the
   result is a function of the window, the pad amounts and keep_size alone, so image and mask -- which differ in
   fill value and interpolation order only -- come back with one shape *)
From DV.proofs Require Import CropPad.
From DV.gen Require Import Gen_cls_crops_dicom.
Theorem C01_CropAndPad_image_and_mask_same_shape : forall keep pm v cp pp pv pvm rr rc rs ip c r s vi vm,
  CropAndPad_apply keep pm v cp pp pv pvm rr rc rs ip c r s = Ok vi ->
  CropAndPad_apply_to_mask keep pm v cp pp pv pvm rr rc rs ip c r s = Ok vm ->
  vshape vi = vshape vm /\ vshape vi = cp_shape (vshape v) cp pp r c s keep.
Proof.
  intros keep pm v cp pp pv pvm rr rc rs ip c r s vi vm A B. split.
  - exact (CropAndPad_image_and_mask_same_shape _ _ _ _ _ _ _ _ _ _ _ _ _ _ _ _ A B).
  - unfold CropAndPad_apply in A. exact (crop_and_pad_shape _ _ _ _ _ _ _ _ _ _ _ A).
Qed.
Print Assumptions C01_CropAndPad_image_and_mask_same_shape.

(* the target table of a DualTransform (hand model Dispatch.dual_apply, tied to BasicTransform.apply_with_params /
   DualTransform.targets by harness/corr_dispatch.py): the mask, EVERY entry of masks and every additional target
   aliased to "mask" go through the one mask hook fm; additional images through the image hook fi *)
From DV.model Require Import Dispatch.
Theorem C01_every_mask_target_uses_the_mask_hook : forall fi fm fb fk fd additional z l key,
  dual_target fi fm fb fk fd "mask" (VArr z) = VArr (fm z) /\
  dual_target fi fm fb fk fd "masks" (VList l) = VList (map fm l) /\
  (Dispatch.lookup key additional = Some "mask"%string ->
   dual_apply fi fm fb fk fd additional [(key, Some (VArr z))] = [(key, Some (VArr (fm z)))]) /\
  (Dispatch.lookup key additional = Some "image"%string ->
   dual_apply fi fm fb fk fd additional [(key, Some (VArr z))] = [(key, Some (VArr (fi z)))]).
Proof.
  intros. repeat split; try reflexivity; intros E; unfold dual_apply; cbn [map fst snd]; rewrite E; reflexivity.
Qed.
Print Assumptions C01_every_mask_target_uses_the_mask_hook.

(* "each returned mask voxel holds the value of an input mask voxel": for every exported class the interpolation
   that reaches the mask path is nearest -- the inherited override (and then apply hands on its own `interpolation`
   formal, not self.interpolation), a literal INTER_NEAREST, or no resampling at all (regenerated class table) *)
From DV.gen Require Import Gen_classtab.
From DV.proofs Require Import ClassFacts CF_C01.
Theorem C01_every_mask_path_resamples_with_nearest : forallb mask_interp_ok class_table = true.
Proof. exact mask_paths_nearest. Qed.
Print Assumptions C01_every_mask_path_resamples_with_nearest.

(* every named parameter of a target path (apply, apply_to_mask, apply_to_bbox, apply_to_keypoint, ...) of every
   transform class is one the class's parameter methods put into the shared parameter dictionary, so no mask path can
   silently fall back to a default plane / offset / factor while the image follows the drawn one; the one formal
   that is never supplied, RandomSizedCrop's d_start, is unsupplied for every target alike (regenerated table) *)
From DV.gen Require Import Gen_classtab.
From DV.proofs Require Import ClassFacts CF_C01.
Theorem C01_every_parameter_a_target_path_names_is_supplied : forallb param_row_ok param_table = true.
Proof. exact target_path_parameters_are_supplied. Qed.
Print Assumptions C01_every_parameter_a_target_path_names_is_supplied.
