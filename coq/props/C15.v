(* C15 -- Choice and sequence operators schedule children as documented.
   Statements about model/Framework.v (hand-written model of composition.py and
   BasicTransform.__call__, tied to the code by the recorded-draw correspondence: same tree,
   same draws => same fired leaves in the same order, same number of draws read). *)
From Coq Require Import List QArith Bool Arith.
Import ListNotations.
From DV.model Require Import Framework FrameworkCheck.
From DV.proofs Require Import Fw C15_fw.
Open Scope Q_scope.

Theorem C15_leaf_fires_iff : forall data sem id p a force (d : data) u ds,
  run data sem (Leaf id p a) force d (DU u :: ds) =
    if Qltb u p || a || force then Some (sem id d, [id], ds) else Some (d, [], ds).
Proof. intros. apply leaf_fires_iff. Qed.
Print Assumptions C15_leaf_fires_iff.

Theorem C15_p1_always_p0_never : forall data sem id (d : data) u ds, 0 <= u -> u < 1 ->
  (forall a force, run data sem (Leaf id 1 a) force d (DU u :: ds) = Some (sem id d, [id], ds)) /\
  run data sem (Leaf id 0 false) false d (DU u :: ds) = Some (d, [], ds) /\
  (forall p a force, a || force = true ->
     run data sem (Leaf id p a) force d (DU u :: ds) = Some (sem id d, [id], ds)).
Proof.
  intros. split; [|split].
  - intros. apply leaf_p1_always; assumption.
  - apply leaf_p0_never; assumption.
  - intros. apply leaf_forced_or_always; assumption.
Qed.
Print Assumptions C15_p1_always_p0_never.

Theorem C15_firing_set_is_0_p : forall data sem id p (d : data) u ds, 0 <= u ->
  (exists d', run data sem (Leaf id p false) false d (DU u :: ds) = Some (d', [id], ds)) <-> u < p.
Proof. intros. apply firing_set. assumption. Qed.
Print Assumptions C15_firing_set_is_0_p.

Theorem C15_oneof_exactly_the_chosen_child : forall data sem p k kids (d : data) u i ds,
  (u < p -> run data sem (OneOfN p (k :: kids)) false d (DU u :: DC [i] :: ds) =
            pick_with data (fun t f d ds => run data sem t f d ds) (k :: kids) i d ds) /\
  run data sem (OneOfN p (k :: kids)) true d (DC [i] :: ds) =
    pick_with data (fun t f d ds => run data sem t f d ds) (k :: kids) i d ds /\
  (~ u < p -> run data sem (OneOfN p (k :: kids)) false d (DU u :: ds) = Some (d, [], ds)).
Proof.
  intros. split; [|split].
  - intros. apply oneof_fires. assumption.
  - apply oneof_forced.
  - intros. apply oneof_skips. assumption.
Qed.
Print Assumptions C15_oneof_exactly_the_chosen_child.

Theorem C15_oneof_leaf_child_fires_alone : forall data sem kids i id p a (d : data) ds u,
  nth_error kids i = Some (Leaf id p a) ->
  pick_with data (fun t f d ds => run data sem t f d ds) kids i d (DU u :: ds) = Some (sem id d, [id], ds).
Proof. intros. eapply pick_leaf. eassumption. Qed.
Print Assumptions C15_oneof_leaf_child_fires_alone.

Theorem C15_someof_exactly_n : forall data sem p n rep k kids (d : data) idx ds, length idx = n ->
  run data sem (SomeOfN p n rep (k :: kids)) true d (DC idx :: ds) =
  picks_with data (fun t f d ds => run data sem t f d ds) (k :: kids) idx d ds.
Proof. intros. apply someof_forced. assumption. Qed.
Print Assumptions C15_someof_exactly_n.

Theorem C15_oneorother_exactly_one : forall data sem a b p force (d : data) u ds,
  run data sem (OneOrOtherN p [a; b]) force d (DU u :: ds) =
  if Qltb u p then run data sem a true d ds else run data sem b true d ds.
Proof. intros. apply oneorother. Qed.
Print Assumptions C15_oneorother_exactly_one.

Theorem C15_compose_order_and_skip : forall data sem p kids (d : data) u ds,
  (u < p -> run data sem (Comp p kids) false d (DU u :: ds) =
            seq_with data (fun t f d ds => run data sem t f d ds) kids d ds) /\
  (~ u < p -> run data sem (Comp p kids) false d (DU u :: ds) =
              fire_always data sem (always_of_list kids) d ds).
Proof. intros. split; intros; [apply compose_runs_in_order | apply compose_skipped]; assumption. Qed.
Print Assumptions C15_compose_order_and_skip.

Theorem C15_listed_order : forall data sem (ids : list nat) (d : data) ds,
  seq_with data (fun t f d ds => run data sem t f d ds) (map (fun i => Leaf i 1 false) ids) d
           (ones (length ids) ++ ds) =
  Some (fold_left (fun d i => sem i d) ids d, ids, ds).
Proof. intros. apply seq_order. Qed.
Print Assumptions C15_listed_order.

Theorem C15_weights_normalised : forall kids,
  ~ fold_right (fun k acc => node_p k + acc) 0 kids == 0 -> fold_right Qplus 0 (weights kids) == 1.
Proof. exact weights_sum. Qed.
Print Assumptions C15_weights_normalised.

(* forced application reaches a leaf through EVERY chain of choice operators: a tree built from OneOf (non-empty),
   OneOrOther and leaves, once selected by its parent (force_apply), applies exactly one leaf -- whatever probabilities
   are written on its operators and leaves, for every depth and every draw list *)
From DV.proofs Require Import FwForced.
Theorem C15_selected_choice_tree_applies_exactly_one_leaf : forall data sem t,
  choice_only t = true ->
  forall (d : data) ds d' tr ds', run data sem t true d ds = Some (d', tr, ds') -> length tr = 1%nat.
Proof. exact forced_choice_fires_one. Qed.
Print Assumptions C15_selected_choice_tree_applies_exactly_one_leaf.
