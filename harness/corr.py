#!/usr/bin/env python3
"""Correspondence engine: run generated Gallina definitions (inside Coq, vm_compute)
and the Python implementation on the same inputs and report where they differ.

Model values are exact rationals; implementation floats are sent as the exact
rational value of the IEEE double.  Results agree when |model - impl| <=
1e-9 * max(1, |impl|) component-wise (integers, booleans, exception kinds: exactly).
"""
import fractions
import importlib
import json
import math
import os
import random
import re
import subprocess
import sys
import time

VERIF = os.path.abspath(os.path.join(os.path.dirname(__file__), '..'))
REPO = os.environ.get('VERIF_REPO', '/repo')
Fr = fractions.Fraction


# ---------------------------------------------------------------- encoding
def is_t(t, k):
    return isinstance(t, (list, tuple)) and len(t) > 0 and t[0] == k


def enc(v, t):
    """Python value -> Coq term of translator type t"""
    if t == 'Q':
        f = Fr(v)
        return '(%d # %d)' % (f.numerator, f.denominator)
    if t == 'Z':
        return '(%d)%%Z' % int(v)
    if t == 'bool':
        return 'true' if v else 'false'
    if t == 'str':
        return '"%s"%%string' % v
    if t in ('tail', 'none'):
        return 'tt'
    if t == 'arr':
        return '(v_id (%d, %d, %d)%%Z)' % tuple(v)
    if t == 'bmask':
        return '(mask_of_list [%s])' % '; '.join('(%d, %d, %d)%%Z' % tuple(i) for i in v[1])
    if t == 'hdr':
        r, c, sl, ic = [Fr(x) for x in v[:4]]
        rest = v[4] if len(v) > 4 else 7
        return '(mkHdr (%s, %s) %s %s (%d)%%Z)' % (enc(r, 'Q'), enc(c, 'Q'), enc(sl, 'Q'), enc(ic, 'Q'), rest)
    if is_t(t, 'tuple'):
        if len(t[1]) == 0:
            return 'tt'
        vs = list(v) + [0] * (len(t[1]) - len(v))   # padding convention for short tuples
        return '(' + ', '.join(enc(x, tt) for x, tt in zip(vs, t[1])) + ')'
    if is_t(t, 'list'):
        return '[' + '; '.join(enc(x, t[1]) for x in v) + ']'
    if is_t(t, 'opt'):
        return 'None' if v is None else '(Some %s)' % enc(v, t[1])
    raise ValueError('enc %r' % (t,))


def chk_of(t):
    if t == 'Q':
        return 'chk_q'
    if t == 'Z':
        return 'chk_z'
    if t == 'bool':
        return 'chk_b'
    if t == 'str':
        return 'chk_str'
    if t in ('tail', 'none'):
        return 'chk_unit'
    if t == 'hdr':
        return 'chk_hdr'
    if is_t(t, 'tuple'):
        if len(t[1]) == 0:
            return 'chk_unit'
        c = chk_of(t[1][0])
        for tt in t[1][1:]:
            c = '(chk_pair %s %s)' % (c, chk_of(tt))
        return c
    if is_t(t, 'list'):
        return '(chk_list %s)' % chk_of(t[1])
    if is_t(t, 'opt'):
        return '(chk_opt %s)' % chk_of(t[1])
    raise ValueError('chk %r' % (t,))


def to_py(v, t):
    """generator value (Fractions/ints) -> what the implementation is called with"""
    if t == 'Q':
        return float(v)
    if t == 'Z':
        return int(v)
    if t == 'arr':
        import numpy as np
        n = int(v[0] * v[1] * v[2])
        return (np.arange(n, dtype=np.int64) + 1).reshape(tuple(v))
    if t == 'bmask':
        import numpy as np
        m = np.zeros(tuple(v[0]), bool)
        for i in v[1]:
            m[tuple(i)] = True
        return m
    if t == 'hdr':
        def num(x):
            return int(x) if (isinstance(x, int) or (len(v) > 5 and v[5] == 'int' and Fr(x).denominator == 1)) else float(x)
        return {'PixelSpacing': (float(v[0]), float(v[1])), 'RescaleSlope': num(v[2]), 'RescaleIntercept': num(v[3]),
                'ConvolutionKernel': 'STANDARD', 'XRayTubeCurrent': 160}
    if is_t(t, 'tuple'):
        return tuple(to_py(x, tt) for x, tt in zip(v, t[1]))
    if is_t(t, 'list'):
        return [to_py(x, t[1]) for x in v]
    if is_t(t, 'opt'):
        return None if v is None else to_py(v, t[1])
    return v


def canon_result(r, t):
    """implementation result -> exact values of type t (raises ValueError on non-finite)"""
    if t == 'Q':
        f = float(r)
        if not math.isfinite(f):
            raise ZeroDivisionError('non-finite')
        return Fr(f)
    if t == 'Z':
        if isinstance(r, bool):
            return int(r)
        if float(r) != int(r):
            raise TypeError('expected int, got %r' % (r,))
        return int(r)
    if t == 'bool':
        return bool(r)
    if t == 'str':
        if not isinstance(r, str):
            raise TypeError('expected str, got %r' % (r,))
        return r
    if t in ('tail', 'none'):
        return None
    if t == 'hdr':
        if not isinstance(r, dict):
            raise TypeError('header expected')
        others = {k: x for k, x in r.items() if k not in ('PixelSpacing', 'RescaleSlope', 'RescaleIntercept')}
        same = others == {'ConvolutionKernel': 'STANDARD', 'XRayTubeCurrent': 160} and \
            list(r.keys()) == ['PixelSpacing', 'RescaleSlope', 'RescaleIntercept', 'ConvolutionKernel', 'XRayTubeCurrent']
        sp = r['PixelSpacing']
        return (canon_result(sp[0], 'Q'), canon_result(sp[1], 'Q'), canon_result(r['RescaleSlope'], 'Q'),
                canon_result(r['RescaleIntercept'], 'Q'), 7 if same else 8)
    if is_t(t, 'tuple'):
        if len(t[1]) == 0:
            return ()
        r = list(r)
        return tuple(canon_result(x, tt) for x, tt in zip(r, t[1]))
    if is_t(t, 'list'):
        return [canon_result(x, t[1]) for x in r]
    if is_t(t, 'opt'):
        return None if r is None else canon_result(r, t[1])
    raise ValueError(t)


EXN = {'ValueError', 'TypeError', 'KeyError', 'IndexError', 'AssertionError', 'ZeroDivisionError',
       'RuntimeError', 'NotImplementedError', 'UnboundLocalError'}


def load_manifest():
    man = json.load(open(os.path.join(VERIF, 'coq/gen/manifest.json')))
    fns = {}
    for m in man['modules']:
        mod = m['file'][:-3].replace('/', '.')
        for f in m['functions']:
            f = dict(f)
            f['module'] = mod
            f['coq_module'] = m['coq_module']
            fns[f['name']] = f
    return man, fns


def tt(t):
    """json lists -> tuples"""
    if isinstance(t, list):
        return tuple(tt(x) for x in t)
    return t


class Case:
    __slots__ = ('fn', 'args', 'expected', 'kind', 'coq', 'call', 'prefix', 'note')

    def __init__(self, fn, args, call=None, prefix='', note=None):
        self.fn = fn
        self.args = args
        self.call = call        # optional callable standing for the implementation (bound method with keyword binding)
        self.prefix = prefix    # Coq terms of the leading instance-attribute parameters
        self.note = note


def run_impl(fns, cases):
    sys.path.insert(0, REPO)
    import warnings
    warnings.filterwarnings('ignore')
    import numpy as np
    np.seterr(all='ignore')
    out = []
    for c in cases:
        f = fns[c.fn]
        if getattr(c, 'call', None) is not None:
            pyf = c.call
        else:
            mod = importlib.import_module(f['module'])
            pyf = getattr(mod, f['py_name'])
        params = [(p, tt(t)) for p, t in f['params']]
        ret = tt(f['ret_ty'])
        pyargs = [to_py(a, t) for a, (_, t) in zip(c.args, params)]
        voxel = [i for i, (pn, t) in enumerate(params) if pn == 'img' and t == 'Q']
        if voxel:
            import numpy as _np
            pyargs[voxel[0]] = _np.array([[[int(c.args[voxel[0]])]]], dtype=_np.int16)
        is_arr = ret == 'arr'
        if is_arr:
            ret = ('tuple', (('tuple', ('Z', 'Z', 'Z')), ('list', 'Z')))
            sh0 = next(a for a, (_, t) in zip(c.args, params) if t == 'arr')
        try:
            r = pyf(*pyargs)
            c.kind = 'ok'
            if voxel:
                if str(r.dtype) != 'int16' or r.shape != (1, 1, 1):
                    raise TypeError('voxel function changed dtype / shape: %s %s' % (r.dtype, r.shape))
                r = int(r.ravel()[0])
            if is_arr:
                if r.ndim != 3:
                    raise TypeError('result is not 3-D')
                r = (tuple(int(x) for x in r.shape), [int(x) for x in r.reshape(-1)])
            c.expected = canon_result(r, ret)
        except Exception as e:  # noqa
            nm = type(e).__name__
            if nm == 'UFuncTypeError':
                nm = 'TypeError'
            c.kind = nm if nm in EXN else 'Other:' + nm
            c.expected = None
        call = f['name'] + ' ' + (getattr(c, 'prefix', '') or '') + ' ' + ' '.join(enc(a, t) for a, (_, t) in zip(c.args, params))
        if is_arr:
            rnd = 'render (%d, %d, %d)%%Z' % tuple(sh0)
            call = ('res_map (%s) (%s)' % (rnd, call)) if f['raises'] else ('%s (%s)' % (rnd, call))
        chk = chk_of(ret)
        if f['raises']:
            if c.kind == 'ok':
                c.coq = 'code_res %s (%s) (Ok %s)' % (chk, call, enc(c.expected, ret))
            elif c.kind in EXN:
                c.coq = 'code_res %s (%s) (Raise %s)' % (chk, call, c.kind)
            else:
                c.coq = '1%nat'
        else:
            if c.kind == 'ok':
                c.coq = 'code_b (%s (%s) %s)' % (chk, call, enc(c.expected, ret))
            else:
                c.coq = '1%nat'   # the model cannot raise here, the implementation did
        out.append(c)
    return out


def run_coq(tag, cases, coq_modules, shard=400, jobs=8):
    """returns list of indices of disagreeing cases"""
    cdir = os.path.join(VERIF, 'coq', 'cases')
    os.makedirs(cdir, exist_ok=True)
    files = []
    for k in range(0, len(cases), shard):
        part = cases[k:k + shard]
        name = '%s_%d' % (tag, k // shard)
        path = os.path.join(cdir, name + '.v')
        with open(path, 'w') as f:
            f.write('From DV.lib Require Import PyNum PyRt Corr.\nFrom DV.model Require Import Arrays NpRt.\n')
            for m in coq_modules:
                f.write('From DV.gen Require Import %s.\n' % m)
            f.write('Open Scope Q_scope.\n')
            f.write('Definition cases : list nat := [\n')
            f.write(';\n'.join(' ' + c.coq for c in part))
            f.write('].\nEval vm_compute in (verdict cases).\n')
        files.append((k, path))
    procs = []
    bad = []
    zde = []
    errors = []
    pending = list(files)
    running = []
    while pending or running:
        while pending and len(running) < jobs:
            k, path = pending.pop(0)
            p = subprocess.Popen(['timeout', '600', 'coqc', '-Q', 'lib', 'DV.lib', '-Q', 'gen', 'DV.gen',
                                  '-Q', 'model', 'DV.model', path], cwd=os.path.join(VERIF, 'coq'),
                                 stdout=subprocess.PIPE, stderr=subprocess.STDOUT, text=True)
            running.append((k, path, p))
        for item in list(running):
            k, path, p = item
            if p.poll() is not None:
                outp = p.stdout.read()
                running.remove(item)
                m = re.search(r'=\s*\(\s*\[(.*?)\]\s*,\s*\[(.*?)\]\s*\)', outp, re.S)
                if p.returncode != 0 or m is None:
                    errors.append((path, outp[-2000:]))
                else:
                    bad += [k + int(x) for x in re.findall(r'\d+', m.group(1))]
                    zde += [k + int(x) for x in re.findall(r'\d+', m.group(2))]
                for ext in ('.vo', '.vok', '.vos', '.glob'):
                    try:
                        os.remove(path[:-2] + ext)
                    except OSError:
                        pass
                try:
                    os.remove(os.path.join(os.path.dirname(path), '.' + os.path.basename(path)[:-2] + '.aux'))
                except OSError:
                    pass
        time.sleep(0.05)
    return sorted(bad), sorted(zde), errors


def describe(c, fns):
    f = fns[c.fn]
    def j(v):
        if isinstance(v, Fr):
            return float(v)
        if isinstance(v, (list, tuple)) and len(v) > 40:
            return [j(x) for x in v[:40]] + ['...']
        if isinstance(v, (list, tuple)):
            return [j(x) for x in v]
        return v
    return {'function': f['module'] + '.' + f['py_name'],
            'args': {p: j(a) for (p, _), a in zip(f['params'], c.args)},
            'implementation': c.kind if c.kind != 'ok' else j(c.expected)}
