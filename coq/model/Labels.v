(* Labels.v -- hand-written model of label bookkeeping around a pipeline
   (DataProcessor.add_label_fields_to_data / remove_label_fields_from_data, the tail-carrying
   DualTransform.apply_to_bboxes / apply_to_keypoints, and the filters), polymorphic in the
   geometry type G and the label type L (labels may be any Python object).
   Tied to the code by harness/search/C05.py (same inputs, observed survivor pattern). *)
From Coq Require Import List Arith Lia.
Import ListNotations.

Section Labels.
Variables G L : Type.

(* an annotation inside the pipeline: geometry + trailing fields (inline ones first, then one
   value per declared label field) *)
Definition ann : Type := (G * list L)%type.

(* what the caller passes: geometry with inline trailing fields, and per annotation the values
   of the k declared label fields *)
Definition item : Type := (G * list L * list L)%type.

Definition attach (it : item) : ann := let '(g, t0, ls) := it in (g, t0 ++ ls).

(* pipeline steps as far as annotations are concerned *)
Inductive step :=
| SMap (f : G -> G)            (* apply_to_bboxes / apply_to_keypoints: geometry mapped, tail carried *)
| SFilter (keep : G -> bool).  (* filter_bboxes / filter_keypoints / per-transform checks *)

Definition run_step (s : step) (l : list ann) : list ann :=
  match s with
  | SMap f => map (fun a => (f (fst a), snd a)) l
  | SFilter keep => filter (fun a => keep (fst a)) l
  end.
Definition run_steps (ss : list step) (l : list ann) : list ann := fold_left (fun l s => run_step s l) ss l.

(* the same steps on the caller-side items (geometry only is touched) *)
Definition run_step_i (s : step) (l : list item) : list item :=
  match s with
  | SMap f => map (fun it => let '(g, t0, ls) := it in (f g, t0, ls)) l
  | SFilter keep => filter (fun it => let '(g, _, _) := it in keep g) l
  end.
Definition run_steps_i (ss : list step) (l : list item) : list item := fold_left (fun l s => run_step_i s l) ss l.

(* remove_label_fields_from_data: the last k tail entries are the field values *)
Definition strip (k : nat) (a : ann) : ann := (fst a, firstn (length (snd a) - k) (snd a)).
Definition labels_of (k : nat) (a : ann) : list L := skipn (length (snd a) - k) (snd a).

Lemma run_step_attach s l : run_step s (map attach l) = map attach (run_step_i s l).
Proof.
  destruct s as [f|keep]; cbn.
  - rewrite !map_map. apply map_ext. intros [[g t0] ls]. reflexivity.
  - induction l as [|[[g t0] ls] tl IH]; cbn; [reflexivity|].
    destruct (keep g); cbn; rewrite IH; reflexivity.
Qed.

Lemma run_steps_attach ss : forall l, run_steps ss (map attach l) = map attach (run_steps_i ss l).
Proof.
  induction ss as [|s tl IH]; intros l; cbn; [reflexivity|].
  rewrite run_step_attach. apply IH.
Qed.

Lemma strip_attach k it : length (snd it) = k -> strip k (attach it) = (fst (fst it), snd (fst it)).
Proof.
  destruct it as [[g t0] ls]. cbn. intros H. unfold strip. cbn.
  rewrite app_length, H. replace (length t0 + k - k) with (length t0) by lia.
  rewrite firstn_app, Nat.sub_diag, firstn_all. cbn. rewrite app_nil_r. reflexivity.
Qed.
Lemma labels_attach k it : length (snd it) = k -> labels_of k (attach it) = snd it.
Proof.
  destruct it as [[g t0] ls]. cbn. intros H. unfold labels_of. cbn.
  rewrite app_length, H. replace (length t0 + k - k) with (length t0) by lia.
  rewrite skipn_app, Nat.sub_diag, skipn_all. reflexivity.
Qed.

(* steps never change the label part: survivors carry the labels they came with *)
Lemma run_step_i_labels s l k :
  Forall (fun it => length (snd it) = k) l -> Forall (fun it => length (snd it) = k) (run_step_i s l).
Proof.
  intros H. destruct s as [f|keep]; cbn.
  - rewrite Forall_forall in *. intros it Hin. apply in_map_iff in Hin.
    destruct Hin as ([[g t0] ls] & E & Hin). subst it. apply (H _ Hin).
  - rewrite Forall_forall in *. intros it Hin. apply filter_In in Hin. apply H. apply Hin.
Qed.
Lemma run_steps_i_labels ss : forall l k,
  Forall (fun it => length (snd it) = k) l -> Forall (fun it => length (snd it) = k) (run_steps_i ss l).
Proof.
  induction ss as [|s tl IH]; intros l k H; cbn; [exact H|]. apply IH. apply run_step_i_labels. exact H.
Qed.

End Labels.
