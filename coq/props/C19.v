(* C19 -- Box-safe crops keep every box.
   All functions are regenerated from the source: union_of_bboxes, the parameter sampler of
   BBoxSafeRandomCrop (its ten draws are oracle parameters), get_random_crop_coords, random_crop,
   the sampler and the image / box paths of RandomCropNearBBox.

   The property's "at most one input voxel per face" is REFUTED for the faithful model (witness
   below, reproduced on the implementation by the search: open known finding); what is proved is
   the same statement with "less than two voxels". *)
From Coq Require Import ZArith QArith List Bool String.
Import ListNotations.
From DV.lib Require Import PyNum PyRt.
From DV.model Require Import Arrays NpRt.
From DV.gen Require Import Gen_bbox_utils Gen_crops_functional Gen_cls_crops.
From DV.proofs Require Import BoxSafe.
Open Scope Q_scope.

(* the union reaches every box up to the erosion fraction of ITS OWN extent on each axis *)
Theorem C19_union_covers_every_box : forall H W D bs e b, In b bs -> covers e (union_of_bboxes H W D bs e) b.
Proof. exact union_covers_every_box. Qed.
Print Assumptions C19_union_covers_every_box.

(* for every value of the draws: window inside the volume, of the sampled size, and every box is cut by
   less than two voxels plus the erosion fraction of its extent on each face *)
Theorem C19_box_safe_window_partial :
  forall e img bs d1 d2 d3 d4 d5 d6 d7 d8 d9 d10 H W D hs ws ds ch cw cd,
  vshape img = (H, W, D) -> (0 < H)%Z -> (0 < W)%Z -> (0 < D)%Z -> 0 <= e <= 1 # 2 ->
  bs <> [] -> Forall box_valid bs ->
  BBoxSafeRandomCropS_get_params_dependent_on_targets e img bs d1 d2 d3 d4 d5 d6 d7 d8 d9 d10 = Ok (hs, ws, ds, ch, cw, cd) ->
  let win := get_random_crop_coords H W D ch cw cd hs ws ds in
  let '(x1, y1, z1, x2, y2, z2) := win in
  ((0 <= x1 /\ x2 = x1 + cw /\ x2 <= W /\ 0 <= y1 /\ y2 = y1 + ch /\ y2 <= H /\ 0 <= z1 /\ z2 = z1 + cd /\ z2 <= D /\
    0 <= cw /\ 0 <= ch /\ 0 <= cd)%Z) /\
  forall b, In b bs -> face_bounds e H W D win b.
Proof. exact bbox_safe_window. Qed.
Print Assumptions C19_box_safe_window_partial.

(* full-strength face bound of the property (one voxel), refuted by a witness *)
Definition one_voxel_bound (e : Q) (W : Z) (x2 : Z) (b : Q * Q * Q * Q * Q * Q) : Prop :=
  let '(xm, ym, zm, xM, yM, zM) := b in inject_Z W * (xM - e * (xM - xm)) - 1 <= inject_Z x2.
Theorem C19_one_voxel_bound_refuted :
  exists img bs d5 d6 d7 d8 d9 d10 hs ws ds ch cw cd,
    vshape img = (10, 10, 10)%Z /\ Forall box_valid bs /\
    BBoxSafeRandomCropS_get_params_dependent_on_targets 0 img bs 0%Z 0 0 0 d5 d6 d7 d8 d9 d10 = Ok (hs, ws, ds, ch, cw, cd) /\
    let '(x1, y1, z1, x2, y2, z2) := get_random_crop_coords 10 10 10 ch cw cd hs ws ds in
    exists b, In b bs /\ ~ one_voxel_bound 0 10 x2 b.
Proof.
  exists (v_id (10, 10, 10)%Z), [(7 # 40, 7 # 40, 7 # 40, 3 # 8, 3 # 8, 3 # 8)], (7 # 16), (7 # 16), (7 # 16), 0, 0, 0.
  eexists _, _, _, _, _, _. split; [reflexivity|]. split.
  - constructor; [|constructor]. cbn. repeat split; discriminate.
  - split; [vm_compute; reflexivity|]. vm_compute. eexists. split; [left; reflexivity|]. intros C. apply C. reflexivity.
Qed.
Print Assumptions C19_one_voxel_bound_refuted.

(* the image path returns exactly the sampled size, which is the frame the box path normalises by *)
Theorem C19_image_shape_is_the_box_frame : forall v H W D ch cw cd hs ws ds,
  vshape v = (H, W, D) ->
  (let '(x1, y1, z1, x2, y2, z2) := get_random_crop_coords H W D ch cw cd hs ws ds in
   0 <= x1 /\ x2 = x1 + cw /\ x2 <= W /\ 0 <= y1 /\ y2 = y1 + ch /\ y2 <= H /\ 0 <= z1 /\ z2 = z1 + cd /\ z2 <= D /\
   0 <= cw /\ 0 <= ch /\ 0 <= cd)%Z ->
  (exists v', BBoxSafeRandomCrop_apply v hs ws ds ch cw cd W H D = Ok v' /\ vshape v' = (ch, cw, cd)) /\
  forall b, BBoxSafeRandomCrop_apply_to_bbox b hs ws ds ch cw cd W H D =
            crop_bbox_by_coords b (get_random_crop_coords H W D ch cw cd hs ws ds) ch cw cd H W D.
Proof.
  intros v H W D ch cw cd hs ws ds Sh Win. split; [|reflexivity].
  unfold BBoxSafeRandomCrop_apply. apply (random_crop_shape v H W D ch cw cd hs ws ds Sh Win).
Qed.
Print Assumptions C19_image_shape_is_the_box_frame.

(* RandomCropNearBBox: each face of a valid reference box moves by at most round(extent * its OWN axis fraction);
   the minimum is clamped at 0; the window is never empty and always keeps a voxel of the reference box (so it
   is non-empty after clamping to any frame that contains the reference box); image and boxes use the same
   window clamped to the frame *)
Theorem C19_near_bbox_faces : forall fh fw fd bx1 by1 bz1 bx2 by2 bz2 d1 d2 d3 d4 d5 d6 x1 y1 z1 x2 y2 z2,
  (0 <= bx1 < bx2)%Z -> (0 <= by1 < by2)%Z -> (0 <= bz1 < bz2)%Z ->
  RandomCropNearBBoxS_get_params_dependent_on_targets (fh, fw, fd) (bx1, by1, bz1, bx2, by2, bz2) d1 d2 d3 d4 d5 d6
    = Ok (x1, y1, z1, x2, y2, z2) ->
  let sh := py_round ((inject_Z by2 - inject_Z by1) * fh) in
  let sw := py_round ((inject_Z bx2 - inject_Z bx1) * fw) in
  let sd := py_round ((inject_Z bz2 - inject_Z bz1) * fd) in
  (Z.max 0 (bx1 - sw) <= x1 <= Z.max 0 (bx1 + sw) /\ bx2 - sw <= x2 <= bx2 + sw /\ x1 < x2 /\ x1 < bx2)%Z /\
  (Z.max 0 (by1 - sh) <= y1 <= Z.max 0 (by1 + sh) /\ by2 - sh <= y2 <= by2 + sh /\ y1 < y2 /\ y1 < by2)%Z /\
  (Z.max 0 (bz1 - sd) <= z1 <= Z.max 0 (bz1 + sd) /\ bz2 - sd <= z2 <= bz2 + sd /\ z1 < z2 /\ z1 < bz2)%Z.
Proof. exact near_bbox_faces. Qed.
Print Assumptions C19_near_bbox_faces.

Theorem C19_near_bbox_one_window_for_image_and_boxes : forall v H W D x1 y1 z1 x2 y2 z2,
  vshape v = (H, W, D) -> (0 <= x1 <= Z.min x2 W)%Z -> (0 <= y1 <= Z.min y2 H)%Z -> (0 <= z1 <= Z.min z2 D)%Z ->
  vshape (RandomCropNearBBox_apply v x1 y1 z1 x2 y2 z2 W H D) = (Z.min y2 H - y1, Z.min x2 W - x1, Z.min z2 D - z1)%Z /\
  forall b, RandomCropNearBBox_apply_to_bbox b x1 y1 z1 x2 y2 z2 W H D =
            crop_bbox_by_coords b (x1, y1, z1, Z.min x2 W, Z.min y2 H, Z.min z2 D)
              (Z.min y2 H - y1) (Z.min x2 W - x1) (Z.min z2 D - z1) H W D.
Proof. exact near_bbox_frame. Qed.
Print Assumptions C19_near_bbox_one_window_for_image_and_boxes.
