#!/bin/bash
# usage: run_all.sh <tier> <seed>...   : every claimed property on the current tree
tier=${1:-quick}; shift
seeds=${@:-0}
out=/verif/work/run_all_${tier}.txt; : > $out
for s in $seeds; do
  for i in $(seq -w 1 20); do
    r=$(VERIF_SEED=$s /verif/check C$i $tier 2>&1 | grep -v conda)
    ec=$?
    echo "$r" | grep -E "^VIOLATION|tier=" | sed "s/^/seed=$s /" >> $out
    echo "$r" | grep -c "^KNOWN-FINDING" | sed "s/^/seed=$s C$i known-findings=/" >> $out
  done
done
grep -c "^seed=.*VIOLATION" $out | sed 's/^/violation lines: /'
