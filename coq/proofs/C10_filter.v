(* C10 -- the filter that runs after EVERY call (also when nothing fired) returns the boxes it was given when they lie
   in the frame and meet the configured thresholds: nothing is dropped, order kept, coordinates unchanged. *)
From Coq Require Import ZArith QArith List Bool.
From DV.lib Require Import PyNum PyRt.
From DV.gen Require Import Gen_bbox_utils Gen_bbox_proc.
From DV.proofs Require Import Tac C04_filter C04_sound.
Open Scope Q_scope.

Lemma keep_all_is_clip t r c s l :
  Forall (fun b => keepb t b r c s = true) l -> flat_map (keep_list t r c s) l = map clip01 l.
Proof.
  induction l as [|b tl IH]; intros H; [reflexivity|].
  inversion H as [|b0 tl0 Hb Htl]; subst. cbn [flat_map map]. unfold keep_list at 1. rewrite Hb.
  cbn [app]. f_equal. apply IH. exact Htl.
Qed.

Lemma clip_all_id l : Forall in_unit l -> Forall2 box_eq (map clip01 l) l.
Proof.
  induction l as [|b tl IH]; intros H; [constructor|].
  inversion H as [|b0 tl0 Hb Htl]; subst. cbn [map]. constructor; [apply clip01_id; exact Hb | apply IH; exact Htl].
Qed.

Lemma processor_filter_keeps_all t r c s l :
  (0 < r)%Z -> (0 < c)%Z -> (0 < s)%Z ->
  Forall proper_box l -> Forall in_unit l -> Forall (fun b => keepb t b r c s = true) l ->
  exists out,
    BboxProcessor_filter (t_area_vis t) (t_d t) (t_h t) (t_area t) (t_vol t) (t_vol_vis t) (t_w t) l r c s = Ok out /\
    Forall2 box_eq out l.
Proof.
  intros Hr Hc Hs Hp Hu Hk. exists (map clip01 l). split; [|apply clip_all_id; exact Hu].
  change (BboxProcessor_filter (t_area_vis t) (t_d t) (t_h t) (t_area t) (t_vol t) (t_vol_vis t) (t_w t) l r c s)
    with (filter_bboxes l r c s (t_area_vis t) (t_vol_vis t) (t_area t) (t_vol t) (t_w t) (t_h t) (t_d t)).
  rewrite (filter_bboxes_spec r c s Hr Hc Hs t l Hp). f_equal. apply keep_all_is_clip. exact Hk.
Qed.

(* non-vacuity: a slab-like box (deep 1/8 of 32 slices = 4 voxels, high 1/2 of 48 rows = 24 voxels) meets
   min_height = 10 with min_depth = 0 -- and would not, were the depth compared with the height threshold *)
Example slab_meets_height_threshold :
  keepb (mkThr 0 0 0 0 0 10 0) (1 # 8, 1 # 4, 1 # 2, 3 # 4, 3 # 4, 5 # 8) 48 64 32 = true /\
  keepb (mkThr 0 0 0 0 0 10 10) (1 # 8, 1 # 4, 1 # 2, 3 # 4, 3 # 4, 5 # 8) 48 64 32 = false.
Proof. split; vm_compute; reflexivity. Qed.
