(* class-table facts used by C09; proved by computation over the regenerated tables *)
From Coq Require Import List String Bool.
Import ListNotations.
From DV.gen Require Import Gen_classtab.
From DV.proofs Require Import ClassFacts.
Open Scope string_scope.

Lemma entropy_ok : forallb (fun r => entropy_row_ok r && identity_row_ok r) entropy_table = true.
Proof. vm_compute. reflexivity. Qed.
