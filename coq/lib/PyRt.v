(* PyRt.v -- run-time helpers referenced by generated code: checked division
   (Python raises ZeroDivisionError; Coq's total division would hide it) and a
   monadic fold for translated for-loops. *)
From DV.lib Require Import PyNum.
Open Scope Q_scope.

Definition divq (a b : Q) : res Q :=
  if Qeq_bool b 0 then Raise ZeroDivisionError else Ok (a / b).
Definition divz (a b : Z) : res Z :=
  if Z.eqb b 0 then Raise ZeroDivisionError else Ok (Z.div a b).
Definition modz (a b : Z) : res Z :=
  if Z.eqb b 0 then Raise ZeroDivisionError else Ok (Z.modulo a b).
(* float modulo; the translated code only uses positive moduli (2*pi) *)
Definition modq (a b : Q) : res Q :=
  if Qeq_bool b 0 then Raise ZeroDivisionError
  else Ok (a - b * inject_Z (Qfloor (a / b))).

Fixpoint fold_res {S A : Type} (f : S -> A -> res S) (l : list A) (s : S) : res S :=
  match l with
  | [] => Ok s
  | x :: tl => match f s x with Ok s' => fold_res f tl s' | Raise e => Raise e end
  end.

Fixpoint map_res {A B : Type} (f : A -> res B) (l : list A) : res (list B) :=
  match l with
  | [] => Ok []
  | x :: tl =>
      match f x with
      | Raise e => Raise e
      | Ok y => match map_res f tl with Ok ys => Ok (y :: ys) | Raise e => Raise e end
      end
  end.

(* ---- random draws as oracle arguments ---- *)
(* random.random(): a value in [0, 1) *)
Definition draw_unit (u : Q) : res Q :=
  if Qle_bool 0 u && Qlt_bool u 1 then Ok u else Raise BadDraw.
(* random.randint(a, b): ValueError on an empty range, otherwise an integer in [a, b] *)
Definition draw_int (a b k : Z) : res Z :=
  if Z.ltb b a then Raise ValueError
  else if Z.leb a k && Z.leb k b then Ok k else Raise BadDraw.
(* random.uniform(a, b) = a + (b - a) * random.random() *)
Definition draw_uniform (a b u : Q) : res Q :=
  if Qle_bool 0 u && Qlt_bool u 1 then Ok (a + (b - a) * u) else Raise BadDraw.
(* random.choice(seq): IndexError on an empty sequence, otherwise an index below len(seq) *)
Definition draw_index (n k : Z) : res Z :=
  if Z.leb n 0 then Raise IndexError
  else if Z.leb 0 k && Z.ltb k n then Ok k else Raise BadDraw.
Definition nth_res {A} (l : list A) (k : Z) : res A :=
  match nth_error l (Z.to_nat k) with Some x => Ok x | None => Raise IndexError end.

Lemma divq_ok a b : ~ b == 0 -> divq a b = Ok (a / b).
Proof. intros H. unfold divq. destruct (Qeq_bool_spec b 0); [tauto|reflexivity]. Qed.
Lemma divz_ok a b : b <> 0%Z -> divz a b = Ok (Z.div a b).
Proof. intros H. unfold divz. destruct (Z.eqb_spec b 0); [tauto|reflexivity]. Qed.
Lemma modz_ok a b : b <> 0%Z -> modz a b = Ok (Z.modulo a b).
Proof. intros H. unfold modz. destruct (Z.eqb_spec b 0); [tauto|reflexivity]. Qed.
Lemma modq_pos a b : 0 < b -> modq a b = Ok (Qmodpos a b).
Proof.
  intros H. unfold modq. destruct (Qeq_bool_spec b 0) as [E|E].
  - rewrite E in H. discriminate.
  - reflexivity.
Qed.

(* ---- DICOM header dict (dicaugment.augmentations.utils.read_dcm_image):
   PixelSpacing (row, col), RescaleSlope, RescaleIntercept; every other key/value pair of the
   dict is represented by one token that no generated function can change except by copying it ---- *)
Record header := mkHdr { h_spacing : Q * Q; h_slope : Q; h_intercept : Q; h_rest : Z }.
Definition hdr_set_spacing (h : header) (v : Q * Q) : header := mkHdr v (h_slope h) (h_intercept h) (h_rest h).
Definition hdr_set_slope (h : header) (v : Q) : header := mkHdr (h_spacing h) v (h_intercept h) (h_rest h).
Definition hdr_set_intercept (h : header) (v : Q) : header := mkHdr (h_spacing h) (h_slope h) v (h_rest h).
(* ndarray.astype(np.int16) of an integral value: two's complement wrap *)
Definition wrap_int16 (z : Z) : Z := ((z + 32768) mod 65536 - 32768)%Z.
