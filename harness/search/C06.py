"""C06 failing-input search: for every spatial transform, every image interpolation order,
every mask dtype / sparse label alphabet: each returned mask (mask, masks, additional mask
target) keeps its dtype and contains only input values plus the configured mask fill."""
import copy
import random

import numpy as np

import implrun as R
from ctor_args import CTOR

A = R.A
DICOM = {'PixelSpacing': (0.7, 0.4), 'RescaleIntercept': -1024.0, 'RescaleSlope': 1.0, 'ConvolutionKernel': 'STANDARD',
         'XRayTubeCurrent': 160}
ALPHABETS = {
    'uint8': [1, 5, 7, 200, 255],
    'uint16': [2, 9, 300, 40000, 65535],
    'int16': [-7, 3, 11, 30000, -32768],
    'int32': [4, 1000, 70001, 2 ** 31 - 1, -99],
    'uint32': [6, 65537, 3000000000],
    # NumPy's default integer type (np.argmax, np.random.randint give int64 label maps) and the smallest one
    'int64': [4, 1000, 70001, 2 ** 40, -99],
    'int8': [-7, 3, 11, 127, -128],
}
FILL_ARG = {'Rotate': 'mask_value', 'ShiftScaleRotate': 'mask_value', 'PadIfNeeded': 'mask_value',
            'CropAndPad': 'pad_cval_mask', 'CoarseDropout': 'mask_fill_value', 'GridDropout': 'mask_fill_value',
            'PixelDropout': 'mask_drop_value'}
# the image-side fill argument: always set, to a value no mask may contain (77 is in no label alphabet and is no mask fill)
IMG_FILL_ARG = {'Rotate': 'value', 'ShiftScaleRotate': 'value', 'PadIfNeeded': 'value', 'CropAndPad': 'pad_cval',
                'CoarseDropout': 'fill_value', 'GridDropout': 'fill_value', 'PixelDropout': 'drop_value'}
MODE_ARG = {'Rotate': 'border_mode', 'ShiftScaleRotate': 'border_mode', 'PadIfNeeded': 'border_mode',
            'CropAndPad': 'pad_mode'}
MODES = ['constant', 'reflect', 'nearest', 'mirror', 'wrap']


def spatial_classes():
    out = []
    for name in sorted(CTOR):
        cls = getattr(A, name)
        if issubclass(cls, A.DualTransform):
            out.append(name)
    return out


def has_interp(name):
    import inspect
    return 'interpolation' in inspect.signature(getattr(A, name).__init__).parameters


def make_case(rng, name, order=None, force=None):
    spec = CTOR[name]
    kw = dict(spec['base'])
    if force:
        kw.update(force)
    # a random documented alternative on top of the base configuration
    alts = [(k, v) for k, vs in spec['alts'].items() for v in vs if k not in ('interpolation',)]
    for k, v in rng.sample(alts, min(len(alts), rng.randint(0, 2))):
        if force and k in force:
            continue
        if k.startswith('_combo'):
            kw.update(v)
        else:
            kw[k] = v
    dtype = rng.choice(sorted(ALPHABETS))
    if name in FILL_ARG:
        fill = rng.choice([None, 0, rng.choice(ALPHABETS[dtype][:2]) + 1])
        if fill is not None and fill < 0:
            fill = 0
        if name in ('Rotate', 'ShiftScaleRotate', 'PadIfNeeded', 'CropAndPad') and fill is None:
            fill = 0
        kw[FILL_ARG[name]] = fill
    if name in MODE_ARG and not (force and MODE_ARG[name] in force):
        kw[MODE_ARG[name]] = rng.choice(MODES)
    if order is not None and has_interp(name):
        kw['interpolation'] = order
    shape = rng.sample([5, 6, 7, 8, 9, 10, 12], 3)
    if name in ('RandomSizedBBoxSafeCrop', 'BBoxSafeRandomCrop', 'RandomCropNearBBox'):
        shape = [max(s, 8) for s in shape]
    image_dtype = rng.choice(['uint8', 'float32', 'int16'])
    if name in IMG_FILL_ARG and not (force and IMG_FILL_ARG[name] in force):
        kw[IMG_FILL_ARG[name]] = 0.77 if image_dtype == 'float32' else 77
    return {'name': name, 'kw': kw, 'dtype': dtype, 'shape': shape, 'seed': R.pick_seed(rng),
            'image_dtype': image_dtype}


def jsonable(v):
    if isinstance(v, tuple):
        return [jsonable(x) for x in v]
    if isinstance(v, list):
        return [jsonable(x) for x in v]
    if isinstance(v, dict):
        return {k: jsonable(x) for k, x in v.items()}
    return v


def detuple(v):
    """JSON round trip turns tuples into lists; the documented range forms accept both except
    where a tuple is required"""
    if isinstance(v, list):
        return tuple(detuple(x) for x in v)
    if isinstance(v, dict):
        return {k: detuple(x) for k, x in v.items()}
    return v


def check(case, viol):
    name, kw = case['name'], {k: detuple(v) if k != 'axes' else v for k, v in case['kw'].items()}
    if isinstance(kw.get('axes'), list):
        kw['axes'] = list(kw['axes'])
    shape = tuple(case['shape'])
    rs = np.random.RandomState(case['seed'] % 100000)
    alpha = ALPHABETS[case['dtype']]
    mask = np.zeros(shape, case['dtype'])
    # sparse labels: isolated voxels and small blobs, so that any averaging creates foreign values
    for _ in range(max(6, int(np.prod(shape)) // 6)):
        i, j, k = (rs.randint(0, s) for s in shape)
        mask[i, j, k] = alpha[rs.randint(0, len(alpha))]
    mask[: shape[0] // 2, : shape[1] // 2, : shape[2] // 3] = alpha[-1]
    if case['image_dtype'] == 'float32':
        img = rs.rand(*shape).astype(np.float32)
    elif case['image_dtype'] == 'int16':
        img = rs.randint(-1000, 2000, shape).astype(np.int16)
    else:
        img = rs.randint(0, 255, shape).astype(np.uint8)
    data = dict(image=img, mask=mask, masks=[mask.copy(), mask[::-1].copy()], seg=mask.copy(), dicom=copy.deepcopy(DICOM))
    ckw = dict(additional_targets={'seg': 'mask'})
    needs = CTOR[name].get('needs', [])
    H, W, D = shape
    if 'bboxes' in needs:
        data['bboxes'] = [(1.0, 1.0, 1.0, W - 2.0, H - 2.0, D - 2.0, 'a')]
        ckw['bbox_params'] = A.BboxParams('pascal_voc_3d')
    if 'cropping_bbox' in needs:
        key = kw.get('cropping_box_key', 'cropping_bbox')
        data[key] = (1, 1, 1, W - 2, H - 2, D - 2)
    try:
        pipe = A.Compose([getattr(A, name)(p=1.0, **kw)], **ckw)
        R.seed(case['seed'])
        np.random.seed(case['seed'] % 1000)
        res = pipe(**data)
    except Exception:  # noqa -- whether a configuration runs at all is C08's question
        return False
    fill = kw.get(FILL_ARG.get(name, ''), None)
    allowed = set(int(x) for x in np.unique(mask))
    if isinstance(fill, tuple):
        allowed |= set(range(int(min(fill)), int(max(fill)) + 1))
    elif fill is not None:
        allowed.add(int(fill))
    elif name in ('Rotate', 'ShiftScaleRotate', 'PadIfNeeded', 'CropAndPad'):
        allowed.add(0)
    outs = [('mask', res['mask']), ('masks[0]', res['masks'][0]), ('masks[1]', res['masks'][1]), ('seg', res['seg'])]
    for k, m in outs:
        if str(m.dtype) != case['dtype']:
            viol.append({'site': 'C06:%s:dtype' % name, 'case': jsonable(case), 'target': k,
                         'observed': 'mask dtype %s' % m.dtype, 'expected': 'dtype %s kept' % case['dtype']})
            return True
        foreign = sorted(set(int(x) for x in np.unique(m)) - allowed)
        if foreign:
            viol.append({'site': 'C06:%s:values' % name, 'case': jsonable(case), 'target': k,
                         'observed': 'foreign mask values %s' % foreign[:8],
                         'expected': 'only input values %s plus the mask fill %s' % (sorted(allowed)[:8], fill)})
            return True
    return True


def run(seed=0, tier='quick', hints=None, broken=False):
    rng = random.Random(seed * 104729 + 6)
    classes = spatial_classes()
    reps = 1 if tier == 'quick' else 12
    if broken:
        reps *= 3
    viol, evals, ran, seen = [], 0, 0, set()
    for _ in range(reps):
        for name in classes:
            orders = range(6) if has_interp(name) else [None]
            for order in orders:
                # classes with a border mode: every image order once with the CONSTANT border (where the fill values
                # show) and once with a border mode drawn at random
                for force in ([{MODE_ARG[name]: 'constant'}, None] if name in MODE_ARG else [None]):
                    case = make_case(rng, name, order, force=force)
                    ok = check(case, viol)
                    evals += 1
                    ran += bool(ok)
                    seen.add((name, order, case['dtype'], bool(force)))
    # every documented alternative of every class once (with a random image order)
    for name in classes:
        for arg, vals in CTOR[name]['alts'].items():
            if arg == 'interpolation':
                continue
            for v in vals:
                force = dict(v) if arg.startswith('_combo') else {arg: v}
                for order in ([rng.choice([1, 2, 3, 4, 5])] if has_interp(name) else [None]):
                    case = make_case(rng, name, order, force=force)
                    ok = check(case, viol)
                    evals += 1
                    ran += bool(ok)
                    seen.add((name, order, case['dtype'], arg))
    return {'violations': viol, 'info': {'evaluations': evals, 'ran_to_completion': ran, 'distinct': len(seen),
                                         'classes': len(classes),
                                         'what': 'mask dtype and value set, all image interpolation orders, sparse label alphabets'}}


def replay(v):
    out = []
    check(v['case'], out)
    return out
