(* Corr.v -- comparison helpers used by the generated correspondence files
   (coq/cases/*.v).  The harness writes, per case, the model call and the value the
   implementation returned; [vm_compute] evaluates [chk_*] and only the indices
   of disagreeing cases are printed. *)
From DV.lib Require Import PyNum PyRt.
Open Scope Q_scope.

Definition tol : Q := 1 # 1000000000.
Definition close (a b : Q) : bool :=
  Qle_bool (Qabs (a - b)) (tol * Qmax 1 (Qabs b)).

Definition chk_q (a b : Q) : bool := close a b.
Definition chk_z (a b : Z) : bool := Z.eqb a b.
Definition chk_b (a b : bool) : bool := Bool.eqb a b.
Definition chk_unit (a b : unit) : bool := true.
Definition chk_str (a b : String.string) : bool := String.eqb a b.
Definition chk_hdr (a b : header) : bool :=
  chk_q (fst (h_spacing a)) (fst (h_spacing b)) && chk_q (snd (h_spacing a)) (snd (h_spacing b)) &&
  chk_q (h_slope a) (h_slope b) && chk_q (h_intercept a) (h_intercept b) && Z.eqb (h_rest a) (h_rest b).
Definition chk_pair {A B} (f : A -> A -> bool) (g : B -> B -> bool) (a b : A * B) : bool :=
  f (fst a) (fst b) && g (snd a) (snd b).
Fixpoint chk_list {A} (f : A -> A -> bool) (a b : list A) : bool :=
  match a, b with
  | [], [] => true
  | x :: a', y :: b' => f x y && chk_list f a' b'
  | _, _ => false
  end.
Definition chk_opt {A} (f : A -> A -> bool) (a b : option A) : bool :=
  match a, b with Some x, Some y => f x y | None, None => true | _, _ => false end.

Definition exn_eqb (a b : exn) : bool :=
  match a, b with
  | ValueError, ValueError | TypeError, TypeError | KeyError, KeyError | IndexError, IndexError
  | AssertionError, AssertionError | ZeroDivisionError, ZeroDivisionError
  | RuntimeError, RuntimeError | NotImplementedError, NotImplementedError
  | UnboundLocalError, UnboundLocalError | BadDraw, BadDraw => true
  | _, _ => false
  end.
Definition chk_res {A} (f : A -> A -> bool) (m e : res A) : bool :=
  match m, e with
  | Ok x, Ok y => f x y
  | Raise a, Raise b => exn_eqb a b
  | _, _ => false
  end.

Definition res_map {A B} (f : A -> B) (r : res A) : res B :=
  match r with Ok a => Ok (f a) | Raise e => Raise e end.

(* verdict codes: 0 agree, 1 disagree, 2 the model raises ZeroDivisionError where the
   implementation (NumPy float arithmetic: inf/nan instead of an exception) does not *)
Definition code_res {A} (f : A -> A -> bool) (m e : res A) : nat :=
  match m, e with
  | Ok x, Ok y => if f x y then 0 else 1
  | Raise a, Raise b => if exn_eqb a b then 0 else 1
  | Raise ZeroDivisionError, Ok _ => 2
  | _, _ => 1
  end%nat.
Definition code_b (b : bool) : nat := if b then 0%nat else 1%nat.
Fixpoint idx_from (c n : nat) (l : list nat) : list nat :=
  match l with
  | [] => []
  | x :: tl => if Nat.eqb x c then n :: idx_from c (S n) tl else idx_from c (S n) tl
  end.
Definition verdict (l : list nat) : list nat * list nat := (idx_from 1 0 l, idx_from 2 0 l).

(* indices of the failing cases *)
Fixpoint bad_from (n : nat) (l : list bool) : list nat :=
  match l with
  | [] => []
  | b :: tl => if b then bad_from (S n) tl else n :: bad_from (S n) tl
  end.
Definition bad (l : list bool) : list nat := bad_from 0 l.
