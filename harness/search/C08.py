"""C08 failing-input search: (a) every exported transform x every documented constructor form x its
documented image dtypes x non-cubic HWD / HWDC volumes x target sets runs to completion and returns
every target it was given; (b) malformed calls are rejected with the documented exception type."""
import copy
import random
import re

import numpy as np

import implrun as R
from ctor_args import CTOR, configurations, channel_configurations

A = R.A
DICOM = {'PixelSpacing': (0.7, 0.4), 'RescaleIntercept': -1024.0, 'RescaleSlope': 1.0, 'ConvolutionKernel': 'STANDARD',
         'XRayTubeCurrent': 160}
KNOWN_DTYPES = ['uint8', 'uint16', 'int16', 'int32', 'float32', 'float64']


def detuple(v):
    if isinstance(v, list):
        return tuple(detuple(x) for x in v)
    if isinstance(v, dict):
        return {k: detuple(x) for k, x in v.items()}
    return v


def jsonable(v):
    if isinstance(v, (tuple, list)):
        return [jsonable(x) for x in v]
    if isinstance(v, dict):
        return {k: jsonable(x) for k, x in v.items()}
    return v


def documented_dtypes(name):
    doc = getattr(A, name).__doc__ or ''
    m = re.search(r'Image types:\s*\n\s*([^\n]+)', doc)
    if not m:
        return ['uint8']
    out = [d for d in re.findall(r'[a-z]+[0-9]+', m.group(1)) if d in KNOWN_DTYPES]
    if 'any' in m.group(1).lower():
        out = ['uint8', 'float32', 'int16']
    return out or ['uint8']


def make_image(dtype, shape, channels, rs):
    full = tuple(shape) + ((channels,) if channels else ())
    if dtype in ('float32', 'float64'):
        return rs.rand(*full).astype(dtype)
    if dtype in ('int16', 'int32'):
        return rs.randint(-300, 1200, full).astype(dtype)
    return rs.randint(0, 250, full).astype(dtype)


def check_total(case):
    name = case['name']
    kw = {k: (detuple(v) if k != 'axes' else v) for k, v in case['kw'].items()}
    spec = CTOR[name]
    shape = tuple(case['shape'])
    H, W, D = shape
    rs = np.random.RandomState(case['seed'] % 100003)
    img = make_image(case['dtype'], shape, case['channels'], rs)
    data = {'image': img}
    ckw = {}
    tg = case['targets']
    if 'mask' in tg:
        data['mask'] = rs.randint(0, 4, shape).astype(np.uint8)
    if 'masks' in tg:
        data['masks'] = [rs.randint(0, 4, shape).astype(np.int32), rs.randint(0, 2, shape).astype(np.uint8)]
    if 'bboxes' in tg or 'bboxes' in spec.get('needs', []):
        data['bboxes'] = [(1.0, 1.0, 1.0, W - 2.0, H - 2.0, D - 2.0, 'a'), (2.0, 1.5, 0.5, 5.0, 4.5, 3.5, 'b')]
        ckw['bbox_params'] = A.BboxParams('pascal_voc_3d')
    if 'keypoints' in tg:
        data['keypoints'] = [(float(rs.randint(0, W)), float(rs.randint(0, H)), float(rs.randint(0, D)), 0.3, 1.5) for _ in range(5)]
        ckw['keypoint_params'] = A.KeypointParams('xyzas', angle_in_degrees=False)
    if case.get('empty_annotations'):
        # a sample without any annotation is a valid sample: empty box / keypoint lists
        for k in ('bboxes', 'keypoints'):
            if k in data:
                data[k] = []
    if 'dicom' in tg or 'dicom' in spec.get('needs', []):
        # documented header fields as floats (non-integral where the field allows it) or as integers
        data['dicom'] = dict(DICOM, XRayTubeCurrent=212.5) if case['float_header'] else dict(DICOM, RescaleIntercept=-1024, RescaleSlope=1)
    if 'cropping_bbox' in spec.get('needs', []):
        data[kw.get('cropping_box_key', 'cropping_bbox')] = (2, 2, 1, W - 2, H - 2, D - 1)
    try:
        pipe = A.Compose([getattr(A, name)(p=1.0, **kw)], **ckw)
        R.seed(case['seed'])
        res = pipe(**copy.deepcopy(data))
    except NotImplementedError as e:
        return ('unsupported-target', str(e)[:120], None)
    except Exception as e:  # noqa
        return ('raises', '%s: %s' % (type(e).__name__, str(e)[:160]), 'runs to completion')
    missing = [k for k in data if k not in res]
    if missing:
        return ('missing-target', 'result lacks %s' % missing, 'every target that was given')
    if not isinstance(res['image'], np.ndarray) or res['image'].ndim != img.ndim:
        return ('image-rank', 'image ndim %s' % getattr(res['image'], 'ndim', None), 'ndim %d' % img.ndim)
    return None


def check_rejects(rng):
    """list of (site, observed, expected) for malformed calls that are NOT rejected as documented"""
    out = []
    img = np.zeros((6, 5, 4), np.uint8)

    def expect(site, exc, fn):
        try:
            fn()
            out.append((site, 'returned', exc.__name__))
        except exc:
            pass
        except Exception as e:  # noqa
            out.append((site, '%s: %s' % (type(e).__name__, str(e)[:100]), exc.__name__))
    flip = lambda **k: A.Compose([A.HorizontalFlip(p=1.0)], **k)
    for ax in range(3):
        sh = [6, 5, 4]
        sh[ax] += rng.choice([1, 2])
        expect('shape-mismatch-axis%d-mask' % ax, ValueError, lambda: flip()(image=img, mask=np.zeros(sh, np.uint8)))
        expect('shape-mismatch-axis%d-masks' % ax, ValueError, lambda: flip()(image=img, masks=[np.zeros(sh, np.uint8)]))
        expect('shape-mismatch-axis%d-additional' % ax, ValueError,
               lambda: flip(additional_targets={'m2': 'mask'})(image=img, m2=np.zeros(sh, np.uint8)))
    expect('non-array-image', TypeError, lambda: flip()(image=img.tolist()))
    expect('non-array-mask', TypeError, lambda: flip()(image=img, mask=img.tolist()))
    bad = np.full((6, 5, 4), 0.5, np.float32)
    bad[0, 0, 0] = rng.choice([1.5, -0.5, 255.0])
    expect('float32-outside-unit', ValueError, lambda: flip()(image=bad))
    bp = A.BboxParams('pascal_voc_3d')
    for nm, box in (('box-outside-frame', (1.0, 1.0, 1.0, 9.0, 3.0, 3.0, 'a')), ('box-negative', (-2.0, 1.0, 1.0, 3.0, 3.0, 3.0, 'a')),
                    ('box-zero-extent', (2.0, 1.0, 1.0, 2.0, 3.0, 3.0, 'a')), ('box-inverted', (3.0, 1.0, 1.0, 2.0, 3.0, 3.0, 'a'))):
        expect(nm, ValueError, lambda: flip(bbox_params=bp)(image=img, bboxes=[box]))
    # the same out-of-frame / degenerate boxes in every box format (frame 6 x 5 x 4: rows, cols, slices)
    H_, W_, D_ = 6, 5, 4

    def to_fmt(b, fmt):
        x1, y1, z1, x2, y2, z2 = b
        if fmt == 'coco_3d':
            return (x1, y1, z1, x2 - x1, y2 - y1, z2 - z1, 'a')
        if fmt == 'yolo_3d':
            return ((x1 + x2) / 2 / W_, (y1 + y2) / 2 / H_, (z1 + z2) / 2 / D_, (x2 - x1) / W_, (y2 - y1) / H_, (z2 - z1) / D_, 'a')
        if fmt == 'dicaugment_3d':
            return (x1 / W_, y1 / H_, z1 / D_, x2 / W_, y2 / H_, z2 / D_, 'a')
        return (x1, y1, z1, x2, y2, z2, 'a')
    for fmt in ('pascal_voc_3d', 'coco_3d', 'yolo_3d', 'dicaugment_3d'):
        fp = A.BboxParams(fmt)
        for nm, box in (('sticks-out-right', (2.0, 1.0, 1.0, 6.5, 3.0, 3.0)), ('sticks-out-left', (-1.0, 1.0, 1.0, 2.0, 3.0, 3.0)),
                        ('sticks-out-bottom', (1.0, 2.0, 1.0, 3.0, 7.0, 3.0)), ('sticks-out-far', (1.0, 1.0, 2.0, 3.0, 3.0, 4.5)),
                        ('sticks-out-near', (1.0, 1.0, -0.5, 3.0, 3.0, 2.0))):
            expect('box-%s-%s' % (nm, fmt), ValueError, lambda: flip(bbox_params=fp)(image=img, bboxes=[to_fmt(box, fmt)]))
        ok_box = to_fmt((1.0, 1.0, 1.0, 4.0, 5.0, 3.0), fmt)
        try:
            flip(bbox_params=fp)(image=img, bboxes=[ok_box])
        except Exception as e:  # noqa
            out.append(('box-inside-%s' % fmt, '%s: %s' % (type(e).__name__, str(e)[:100]), 'accepted'))
    expect('missing-label-field', ValueError,
           lambda: flip(bbox_params=A.BboxParams('pascal_voc_3d', label_fields=['cls']))(image=img, bboxes=[(1.0, 1.0, 1.0, 3.0, 3.0, 3.0)]))
    expect('missing-keypoint-label-field', ValueError,
           lambda: flip(keypoint_params=A.KeypointParams('xyz', label_fields=['ids']))(image=img, keypoints=[(1, 1, 1)]))
    expect('boxes-without-bbox-params', ValueError, lambda: flip()(image=img, bboxes=[(1.0, 1.0, 1.0, 3.0, 3.0, 3.0, 'a')]))
    expect('positional-data', KeyError, lambda: flip()(img))
    expect('positional-data-transform', KeyError, lambda: A.HorizontalFlip(p=1.0)(img))
    return out


SIZE_FREE_DUAL = {'HorizontalFlip', 'VerticalFlip', 'SliceFlip', 'Flip', 'Transpose', 'NoOp', 'RandomRotate90', 'Rotate',
                  'ShiftScaleRotate', 'RandomScale', 'RandomCropFromBorders', 'PixelDropout'}


def shape_free(name, kw):
    """True when the configuration names no absolute size (so its documentation holds for every volume shape)"""
    cls = getattr(A, name)
    if issubclass(cls, A.ImageOnlyTransform):
        return 'dicom' not in CTOR[name].get('needs', []) and 'apply_to_channel_idx' not in kw
    if name == 'CoarseDropout':
        sizes = [kw.get(k) for k in ('max_height', 'max_width', 'max_depth', 'min_height', 'min_width', 'min_depth') if kw.get(k) is not None]
        return bool(sizes) and all(isinstance(v, float) for v in sizes)
    return name in SIZE_FREE_DUAL


def run(seed=0, tier='quick', hints=None, broken=False):
    rng = random.Random(seed * 179424673 + 8)
    viol, evals, outcomes, seen = [], 0, {}, set()
    for name in sorted(CTOR):
        spec = CTOR[name]
        cfgs = configurations(name)
        dts = documented_dtypes(name)
        if 'image' in spec:
            dts = [{'float': 'float32'}.get(spec['image'], spec['image'])] if tier == 'quick' else dts
        cls = getattr(A, name)
        dual = issubclass(cls, A.DualTransform)
        for kw in cfgs:
            reps = 1 if tier == 'quick' and not broken else 3
            # then the same configuration with every draw at an end point of its range (implrun.seed)
            patterns = [0x0000, 0xFFFF, 0x5555, 0xAAAA] + ([] if tier == 'quick' else [rng.getrandbits(16) for _ in range(8)])
            for it, ext in enumerate([None] * reps + patterns):
                dt = rng.choice(dts)
                targets = ['mask', 'masks', 'dicom'] + (['keypoints'] if name not in ('BBoxSafeRandomCrop', 'RandomSizedBBoxSafeCrop', 'GridDropout') else []) \
                    + (['bboxes'] if name not in ('CoarseDropout', 'GridDropout') else [])
                targets = [t for t in targets if rng.random() < 0.8]
                channels = 2 if 'apply_to_channel_idx' in kw else rng.choice([None, None, 3, 1])
                if name == 'NPSNoise':
                    channels = None
                case = {'name': name, 'kw': jsonable(kw), 'shape': [12, 10, 8], 'seed': rng.randint(0, 10 ** 6),
                        'dtype': dt, 'channels': channels, 'targets': targets,
                        'float_header': (it % 2 == 0) if 'dicom' in spec.get('needs', []) else rng.random() < 0.5,
                        'empty_annotations': dual and it % 3 == 2}
                if ext is not None:
                    case['seed'] = R.EXT_BASE + ext
                bad = check_total(case)
                evals += 1
                seen.add((name, repr(sorted(kw)), dt))
                key = 'ok' if bad is None else bad[0]
                outcomes[key] = outcomes.get(key, 0) + 1
                if bad and bad[0] != 'unsupported-target':
                    viol.append({'site': 'C08:%s:%s' % (name, bad[0]), 'kind': 'total', 'case': case, 'observed': bad[1], 'expected': bad[2]})
    # configurations that address the channels of the image, on an image with that many channels
    for name in sorted(CTOR):
        for ch, kw in channel_configurations(name):
            for sd in [rng.randint(0, 10 ** 6), R.EXT_BASE, R.EXT_BASE + 0xFFFF]:
                case = {'name': name, 'kw': jsonable(kw), 'shape': [12, 10, 8], 'seed': sd,
                        'dtype': {'float': 'float32'}.get(CTOR[name].get('image', 'uint8'), CTOR[name].get('image', 'uint8')),
                        'channels': ch, 'targets': ['mask'], 'float_header': False}
                bad = check_total(case)
                evals += 1
                seen.add((name, 'channels', ch))
                if bad and bad[0] != 'unsupported-target':
                    viol.append({'site': 'C08:%s:%s:channel-configuration' % (name, bad[0]), 'kind': 'total', 'case': case, 'observed': bad[1], 'expected': bad[2]})
    # configurations without absolute sizes (flips, rotations, rescaling, fractions of the extent, image-only classes)
    # are documented for EVERY volume shape: each runs on strongly anisotropic and thin volumes too
    thin_shapes = [[40, 6, 3], [3, 40, 6], [6, 3, 40], [32, 32, 4], [12, 1, 9], [9, 12, 1]]
    for name in sorted(CTOR):
        cls = getattr(A, name)
        for kw in configurations(name):
            if not shape_free(name, kw):
                continue
            for shp, sd in [(shp, sd) for shp in thin_shapes
                            for sd in ([rng.randint(0, 10 ** 6), R.EXT_BASE + 0xFFFF] + ([] if tier == 'quick' else [R.EXT_BASE, R.EXT_BASE + rng.getrandbits(16), rng.randint(0, 10 ** 6)]))]:
                nth = evals % 3
                case = {'name': name, 'kw': jsonable(kw), 'shape': shp, 'seed': sd,
                        'dtype': 'uint8' if CTOR[name].get('image') in (None, 'uint8') else {'float': 'float32'}.get(CTOR[name]['image'], CTOR[name]['image']),
                        # channel layouts in rotation (the mask stays H x W x D): none, three channels, one channel
                        'channels': None if name == 'NPSNoise' else [None, 3, 1][nth], 'targets': ['mask', 'keypoints'] if issubclass(cls, A.DualTransform) and name != 'GridDropout' else ['mask'],
                        'float_header': False}
                bad = check_total(case)
                evals += 1
                seen.add((name, 'thin', tuple(shp)))
                if bad and bad[0] != 'unsupported-target':
                    viol.append({'site': 'C08:%s:%s:thin-volume' % (name, bad[0]), 'kind': 'total', 'case': case, 'observed': bad[1], 'expected': bad[2]})
    for site, obs, exp in check_rejects(rng):
        viol.append({'site': 'C08:reject:%s' % site, 'kind': 'reject', 'case': {'seed': seed}, 'observed': obs, 'expected': 'raises ' + exp})
    evals += 20
    return {'violations': viol, 'info': {'evaluations': evals, 'distinct': len(seen), 'outcomes': outcomes,
                                         'what': 'constructor-domain totality sweep and malformed-call rejection'}}


def replay(v):
    if v.get('kind') == 'total':
        bad = check_total(v['case'])
        return [{'site': v['site'], 'kind': 'total', 'case': v['case'], 'observed': bad[1], 'expected': bad[2]}] if bad else []
    return [{'site': 'C08:reject:%s' % s, 'kind': 'reject', 'case': v['case'], 'observed': o, 'expected': e}
            for s, o, e in check_rejects(random.Random(1)) if 'C08:reject:%s' % s == v['site']]
