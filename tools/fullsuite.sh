#!/bin/bash
# runs the repository's whole test suite on /repo HEAD in a scratch worktree and compares the failing set with the baseline
wt=/var/tmp/fullsuite_wt
out=/verif/work/fullsuite.txt
mkdir -p /verif/work
rm -rf $wt; git -C /repo worktree prune
git -C /repo worktree add -q --detach $wt HEAD || exit 1
{
echo "HEAD $(git -C /repo rev-parse --short HEAD)"
cd $wt
PYTHONPATH=$wt /venv/bin/python -m pytest -q -p no:cacheprovider --junitxml=/var/tmp/fullsuite.xml > /var/tmp/fullsuite.log 2>&1
tail -1 /var/tmp/fullsuite.log
/venv/bin/python - <<PY
import xml.etree.ElementTree as ET
t=ET.parse('/var/tmp/fullsuite.xml')
failed=sorted(tc.get('classname')+'::'+tc.get('name') for tc in t.iter('testcase') if any(c.tag in('failure','error') for c in tc))
base=sorted(l.strip() for l in open('/verif/tools/baseline_failed.txt') if l.strip())
print('failing set identical to baseline:', failed==base, 'new:', [f for f in failed if f not in base][:10], 'fixed:', [f for f in base if f not in failed][:10])
PY
} > $out 2>&1
cd /; git -C /repo worktree remove --force $wt; rm -f /var/tmp/fullsuite.xml /var/tmp/fullsuite.log
