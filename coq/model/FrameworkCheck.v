(* FrameworkCheck.v -- evaluation helpers for the framework correspondence files *)
From Coq Require Import List QArith Bool Arith.
Import ListNotations.
From DV.model Require Import Framework.

Fixpoint nat_list_eqb (a b : list nat) : bool :=
  match a, b with
  | [], [] => true
  | x :: a', y :: b' => Nat.eqb x y && nat_list_eqb a' b'
  | _, _ => false
  end.

(* the model must fire exactly the recorded leaves, in order, and read all recorded draws *)
Definition check_run (t : node) (force : bool) (ds : list draw) (expected : list nat) : bool :=
  match run unit (fun _ d => d) t force tt ds with
  | Some (_, tr, []) => nat_list_eqb tr expected
  | _ => false
  end.

(* the same for the top-level pipeline object, the per-transform checks recorded as 0 *)
Definition check_run_top (chk : bool) (t : node) (force : bool) (ds : list draw) (expected : list nat) : bool :=
  match t with
  | Comp p kids =>
      match run_top unit (fun _ d => d) chk p kids force tt ds with
      | Some (_, tr, []) => nat_list_eqb tr expected
      | _ => false
      end
  | _ => false
  end.

Fixpoint bad_idx (n : nat) (l : list bool) : list nat :=
  match l with
  | [] => []
  | b :: tl => if b then bad_idx (S n) tl else n :: bad_idx (S n) tl
  end.

(* OneOf / SomeOf constructors: transforms_ps must be p_i / sum p (compared at 1e-12) *)
From Coq Require Import QArith Qabs.
Definition weights (kids : list node) : list Q :=
  let s := fold_right (fun k acc => (node_p k + acc)%Q) 0%Q kids in map (fun k => (node_p k / s)%Q) kids.
Definition node_kids (t : node) : list node :=
  match t with
  | Leaf _ _ _ => []
  | Comp _ k | OneOfN _ k | SomeOfN _ _ _ k | OneOrOtherN _ k | SeqN _ k => k
  end.
Fixpoint qlist_close (a b : list Q) : bool :=
  match a, b with
  | [], [] => true
  | x :: a', y :: b' => Qle_bool (Qabs (x - y)) (1 # 1000000000000) && qlist_close a' b'
  | _, _ => false
  end.
Definition check_weights (t : node) (recorded : list Q) : bool := qlist_close (weights (node_kids t)) recorded.
