"""Per-property configuration of the check driver."""
import os
import sys

sys.path.insert(0, os.path.join(os.path.dirname(os.path.abspath(__file__)), '..', 'harness'))

COMMON_TRUSTED = [
    'Coq 8.16.1 kernel (coqc); vm_compute is used for the correspondence evaluation and closed-term examples; no native_compute',
    'translator/py2coq.py (Python ast -> Gallina, fail-closed) -- validated by the correspondence run, not verified',
    'floats modelled as exact rationals (Q); IEEE rounding not modelled; comparison tolerance 1e-9 relative',
    'no Axiom/Parameter/Admitted anywhere in /verif/coq (tools/audit.sh greps for them)',
]


def corr_fn(tag, functions, n_quick, n_thorough):
    def run(tier, seed):
        import run_corr
        n = n_quick if tier == 'quick' else n_thorough
        return run_corr.correspond(tag, functions, n, seed)
    return run


LATTICE_FUNCS = ['bbox_vflip', 'bbox_hflip', 'bbox_zflip', 'bbox_flip', 'bbox_transpose', 'bbox_rot90',
                 'keypoint_vflip', 'keypoint_hflip', 'keypoint_zflip', 'keypoint_flip', 'keypoint_transpose',
                 'keypoint_rot90', 'angle_to_2pi_range']

PROPS = {
    'C17': {
        'requires': LATTICE_FUNCS,
        'corr': corr_fn('C17', LATTICE_FUNCS, 40, 1500),
        'search': 'C17',
        'trusted_base': ['box/keypoint maps are the regenerated Gallina definitions of geometric/functional.py; '
                         'the voxel maps (numpy slicing / rot90 / transpose / pad) are checked on the implementation '
                         'by the search oracle only in this round'],
        'assumptions': ['keypoint angles are in [0, 2*pi) (what convert_keypoint_to_dicaugment produces)',
                        'pi is any positive rational in the theorems (only pi_pos is used)'],
        'level_text': 'Group laws (involutions, k then 4-k quarter turns, four turns, commutation, all-axes flip = three '
                      'flips) are theorems over the Gallina definitions regenerated from geometric/functional.py on every '
                      'run, for all boxes, keypoints (position, angle mod 2pi, scale), planes, factors and frame sizes, together with '
                      'the relations between the maps (quarter turn = transpose then flip, half turn = two flips, a flip '
                      'conjugates k turns to 4-k, factor k = k single turns) and pad followed by the inverse crop on boxes, '
                      'keypoints and voxels; voxel-level laws of the other maps are exercised on the implementation by the '
                      'search oracle.',
        'level_note': 'Trusted: Coq kernel, the translator (validated by the vm_compute correspondence on every run), '
                      'exact-rational model of floats. Voxel maps are not yet inside the proof for this property.',
    },
}



def corr_multi(*fns):
    """merge several correspondence runs into one summary"""
    def run(tier, seed):
        out = None
        for f in fns:
            r = f(tier, seed)
            if out is None:
                out = dict(r)
                continue
            for k in ('cases', 'distinct_cases', 'n_disagreements'):
                out[k] = out.get(k, 0) + r.get(k, 0)
            for k in ('disagreements', 'coq_errors', 'missing_functions', 'samples', 'functions'):
                out[k] = list(out.get(k, []) or []) + list(r.get(k, []) or [])
            rk = dict(out.get('result_kinds', {}))
            for kk, vv in r.get('result_kinds', {}).items():
                rk[kk] = rk.get(kk, 0) + vv
            out['result_kinds'] = rk
        return out
    return run


def corr_framework(n_quick, n_thorough):
    def run(tier, seed):
        import corr_framework as C
        return C.run(seed, n_quick if tier == 'quick' else n_thorough)
    return run


def corr_replay(n_quick, n_thorough):
    def run(tier, seed):
        import corr_replay as C
        return C.run(seed, n_quick if tier == 'quick' else n_thorough)
    return run


def corr_checkargs(n_quick, n_thorough):
    def run(tier, seed):
        import corr_checkargs as C
        return C.run(seed, n_quick if tier == 'quick' else n_thorough)
    return run


def corr_pixel(n_quick, n_thorough):
    def run(tier, seed):
        import corr_pixel as C
        return C.run(seed, n_quick if tier == 'quick' else n_thorough)
    return run


def corr_methods(n_quick, n_thorough):
    def run(tier, seed):
        import corr_methods as C
        return C.run(seed, n_quick if tier == 'quick' else n_thorough)
    return run


def corr_samplers(n_quick, n_thorough):
    def run(tier, seed):
        import corr_samplers as C
        return C.run(seed, n_quick if tier == 'quick' else n_thorough)
    return run


def corr_labels(n_quick, n_thorough):
    def run(tier, seed):
        import corr_labels as C
        return C.run(seed, n_quick if tier == 'quick' else n_thorough)
    return run


def corr_dispatch(n_quick, n_thorough):
    def run(tier, seed):
        import corr_dispatch as C
        return C.run(seed, n_quick if tier == 'quick' else n_thorough)
    return run


def corr_dual_dispatch(n_quick, n_thorough):
    def run(tier, seed):
        import corr_dispatch as C
        return C.run_dual(seed, n_quick if tier == 'quick' else n_thorough)
    return run


CONV_FUNCS = ['normalize_bbox', 'denormalize_bbox', 'convert_bbox_to_dicaugment', 'convert_bbox_from_dicaugment',
              'check_bbox', 'convert_keypoint_to_dicaugment', 'convert_keypoint_from_dicaugment', 'check_keypoint',
              'angle_to_2pi_range', 'convert_bboxes_to_dicaugment', 'convert_bboxes_from_dicaugment',
              'convert_keypoints_to_dicaugment', 'convert_keypoints_from_dicaugment']

PROPS['C10'] = {
    'requires': CONV_FUNCS,
    'corr': corr_multi(corr_fn('C10', CONV_FUNCS, 40, 1500), corr_framework(150, 4000)),
    'search': 'C10',
    'trusted_base': ['coq/model/Framework.v is hand-written; tied to composition.py / BasicTransform.__call__ by '
                     'the recorded-draw correspondence (harness/corr_framework.py)',
                     'tuples of different lengths (keypoint formats) are modelled padded with zeros'],
    'assumptions': ['valid = accepted by the input conversion (check_bbox / check_keypoint pass)',
                    'input angle in [0, 360) degrees resp. [0, 2*pi) radians'],
    'level_text': 'Round-trip identity of the box (3 formats) and keypoint (6 formats x 2 angle units) conversions is '
                  'proved over the Gallina definitions regenerated from the source, for every frame size and every '
                  'real-valued valid annotation; "no leaf fired => data returned unchanged" is proved for every '
                  'operator tree, draw list and leaf semantics on the scheduling model. The box filter that runs after every '
                  'call returns boxes meeting the configured thresholds unchanged (theorem over the regenerated processor '
                  'wiring and filter). The pre/post-processing glue '
                  'around an empty pipeline is exercised on the implementation by the search oracle.',
    'level_note': 'Trusted: Coq kernel, translator, hand-written Framework model (validated by correspondence on '
                  'recorded draws), exact-rational floats. Bit-identity of arrays is an implementation-side check.',
}

ARR_FUNCS = ['vflip', 'hflip', 'zflip', 'random_flip', 'transpose', 'rot90', '_pad', 'pad_with_params', 'pad',
             'cutout', 'random_crop', 'center_crop', 'crop', 'clamping_crop', 'resize', '_resize', 'scale',
             'longest_max_size', 'smallest_max_size', 'crop_and_pad']
BOX_FUNCS = ['bbox_vflip', 'bbox_hflip', 'bbox_zflip', 'bbox_flip', 'bbox_transpose', 'bbox_rot90',
             'normalize_bbox', 'denormalize_bbox', 'crop_bbox_by_coords', 'bbox_random_crop', 'bbox_center_crop',
             'bbox_crop', 'crop_and_pad_bbox', 'get_random_crop_coords', 'get_center_crop_coords']
KP_FUNCS = ['keypoint_vflip', 'keypoint_hflip', 'keypoint_zflip', 'keypoint_flip', 'keypoint_transpose',
            'keypoint_rot90', 'keypoint_scale', 'crop_keypoint_by_coords', 'keypoint_random_crop',
            'keypoint_center_crop', 'crop_and_pad_keypoint', 'filter_keypoints', 'angle_to_2pi_range']
GEOM_TRUSTED = ['model/Arrays.v (NumPy slicing / reversal / transpose / rot90 / pad / slice assignment as index maps) is '
                'hand-written and trusted, validated voxel-by-voxel against NumPy on index-labelled volumes on every run',
                'model/Lattice.v descriptors are the specification of the documented voxel maps',
                'class methods are translated with the keyword binding of BasicTransform.apply_with_params made '
                'explicit (parameter-dict keys read from get_params*/update_params literals)']

PROPS['C02'] = {
    'requires': BOX_FUNCS, 'corr': corr_multi(corr_fn('C02', BOX_FUNCS, 30, 800), corr_fn('C02a', ARR_FUNCS, 25, 500), corr_methods(2, 20)),
    'search': 'C02', 'trusted_base': GEOM_TRUSTED,
    'assumptions': ['frame extents positive', 'resampling and free-rotation clauses are checked on the implementation '
                    'by the search oracle only (SciPy resampling is not modelled)'],
    'level_text': 'For flips, Flip, Transpose, RandomRotate90 (all planes and factors), PadIfNeeded and crop windows the box '
                  'path and the voxel path are proved to follow one lattice descriptor, for every real-valued box and '
                  'every frame shape; the resize/rotate clauses are explored on the implementation with the stated bounds.',
    'level_note': 'Trusted: Coq kernel, translator, Arrays.v NumPy model (validated), exact rationals. '
                  'Resampling transforms: search oracle only (partial).',
}
PROPS['C03'] = {
    'requires': KP_FUNCS, 'corr': corr_multi(corr_fn('C03', KP_FUNCS, 30, 800), corr_fn('C03a', ARR_FUNCS, 15, 300), corr_methods(2, 20)),
    'search': 'C03', 'trusted_base': GEOM_TRUSTED + ['angle table lat_angle: direction vector (cos a, sin a) under the xy '
                                                    'part of the descriptor (specification)'],
    'assumptions': ['quarter turns in planes containing z keep the in-plane angle (library convention, DESIGN 7)'],
    'level_text': 'Keypoint position, angle (mod 2pi, always in [0,2pi)) and scale are proved to follow the same lattice '
                  'descriptor as the voxels for flips, Flip, Transpose, RandomRotate90 and PadIfNeeded, and the '
                  'visibility filter is proved to keep exactly the in-frame keypoints in order; crop_and_pad_keypoint is '
                  'proved to shift and then zoom EVERY axis (keep_size); resampling / rotation bounds are explored on the '
                  'implementation.',
    'level_note': 'Trusted: as C02. Resampling transforms: search oracle only (partial).',
}
PROPS['C01'] = {
    'requires': ARR_FUNCS, 'corr': corr_multi(corr_fn('C01', ARR_FUNCS, 40, 900), corr_methods(2, 20), corr_dual_dispatch(100, 1500)), 'search': 'C01', 'trusted_base': GEOM_TRUSTED,
    'assumptions': ['SciPy resampling (zoom / affine_transform) is not modelled: those transforms are covered by the '
                    'search oracle with nearest interpolation'],
    'level_text': 'For the lattice classes the mask path is proved identical to the image path (inherited path = image '
                  'path with interpolation 0, regenerated from DualTransform.apply_to_mask) or to share offsets and '
                  'shape with it (PadIfNeeded); Resize / RandomScale (generated over the SciPy-zoom model) return image and '
                  'mask of one shape for every interpolation order; masks / additional targets and the other resampling '
                  'transforms are explored on labelled volumes.',
    'level_note': 'Trusted: as C02; target dispatch (masks list, additional targets) is checked on the implementation.',
}
PROPS['C07'] = {
    'requires': ARR_FUNCS + ['get_random_crop_coords', 'get_center_crop_coords'],
    'corr': corr_multi(corr_fn('C07', ARR_FUNCS, 40, 900), corr_fn('C07b', ['get_random_crop_coords', 'get_center_crop_coords'], 60, 1500),
                       corr_methods(2, 20), corr_samplers(6, 80)),
    'search': 'C07', 'trusted_base': GEOM_TRUSTED,
    'assumptions': ['target-size arithmetic of the SciPy-based resizes is explored, not proved'],
    'level_text': 'Flips, transpose, quarter turns, crop windows (inside the volume and of the requested size for every '
                  'draw in [0,1)), centre crop and constant padding are theorems about the generated image paths for '
                  'every input view; PadIfNeeded.update_params (with its position draws) realises max(extent, minimum) / the '
                  'next multiple of the divisor with non-negative pads; F.resize returns exactly the requested shape for '
                  'every order (SciPy-zoom extent model, validated voxel by voxel for order 0); Longest/SmallestMaxSize '
                  'sizes and channel layout are explored against NumPy references.',
    'level_note': 'Trusted: as C02.',
}

FILTER_FUNCS = ['filter_bboxes', 'calculate_bbox_area_volume', 'check_bbox', 'convert_bbox_to_dicaugment',
                'convert_bbox_from_dicaugment', 'normalize_bbox', 'denormalize_bbox']
PROPS['C04'] = {
    'requires': FILTER_FUNCS, 'corr': corr_multi(corr_fn('C04', FILTER_FUNCS, 60, 2500), corr_framework(120, 2000)), 'search': 'C04',
    'trusted_base': ['np.clip / np.isclose modelled as clip / isclose in lib/PyNum.v',
                     'NumPy float division by zero (inf/nan) is outside the model: theorems assume boxes with positive '
                     'extent before clipping (what every transform produces from a valid box)'],
    'assumptions': ['boxes handed to the filter have x_min < x_max, y_min < y_max, z_min < z_max'],
    'level_text': 'filter_bboxes (regenerated from the source) is proved EQUAL to clip-then-threshold (inclusive '
                  'thresholds, visibility against the pre-clip box, order preserved) for every box list, frame and '
                  'threshold setting; every kept box is proved to lie in [0,1]^6 with strictly positive extents and to '
                  'pass check_bbox, so post-processing cannot raise on it; the processor wiring is a theorem. The two '
                  'filtering schedules and the output formats are exercised through Compose by the search.',
    'level_note': 'Trusted: Coq kernel, translator, exact rationals (threshold equality is decided exactly in the model; '
                  'the implementation-side oracle only uses frames where float arithmetic is exact for equality cases).',
}

PROPS['C15'] = {
    'requires': [], 'corr': corr_framework(250, 6000), 'search': 'C15',
    'trusted_base': ['coq/model/Framework.v is hand-written; correspondence = same tree + recorded draws => same fired '
                     'leaves, same order, same number of draws, and OneOf/SomeOf.transforms_ps == p_i/sum(p)',
                     'MT19937 / numpy RandomState.choice are not modelled: frequencies are an implementation-side '
                     'statistical check (6 sigma)'],
    'assumptions': ['sum of child probabilities > 0 for OneOf / SomeOf (otherwise the constructor divides by zero)'],
    'level_text': 'Per-call scheduling clauses (fires iff u<p or always or forced; OneOf = the drawn child, forced; SomeOf '
                  '= the n drawn children in order; OneOrOther = first or last; listed order; skipped Compose = '
                  'always-apply leaves; weights sum to 1) are theorems on the operator model for every tree, draw list '
                  'and leaf semantics; a selected tree of choice operators applies exactly one leaf at every depth (induction '
                  'over the tree); the frequency clause is statistical and explored only.',
    'level_note': 'Trusted: Coq kernel; the hand-written Framework model, validated on every run against the real '
                  'operators with recording transforms and recorded entropy reads. Frequencies: partial.',
}

PROPS['C05'] = {
    'requires': [], 'corr': corr_labels(200, 4000), 'search': 'C05',
    'trusted_base': ['coq/model/Labels.v is hand-written (dict manipulation of DataProcessor is outside the translator); '
                     'tied to the code by harness/corr_labels.py (the real add_label_fields_to_data / '
                     'remove_label_fields_from_data of both processors around random maps and filters, any number of label '
                     'fields and inline fields, all-dropped cases) and by the differential search through Compose'],
    'assumptions': ['a transform acts on annotations as map-on-geometry + filter (DualTransform.apply_to_bboxes / '
                    'apply_to_keypoints; CoarseDropout.apply_to_keypoints is a filter)'],
    'level_text': 'labels_follow and order preservation are proved for every pipeline of geometry maps and filters, any '
                  'number of label fields, any inline trailing fields and any label type (polymorphic); the model is '
                  'hand-written and validated against Compose on pipelines that drop annotations from the middle.',
    'level_note': 'Trusted: Coq kernel, the hand-written Labels model (validated by differential search). Known '
                  'finding: label_fields shared by additional targets.',
}

def corr_classtab():
    def run(tier, seed):
        import corr_classtab as C
        return C.run()
    return run


CLASSTAB_TRUSTED = ['translator/classtab.py (Python ast -> tables of class facts) is validated against run-time '
                    'introspection of all exported classes (constructor signatures, persisted keys, target tables) on every run',
                    'theorems over the finite tables are proved by vm_compute (the bound is the table itself)']
PROPS['C14'] = {
    'requires': [], 'corr': corr_classtab(), 'search': 'C14', 'trusted_base': CLASSTAB_TRUSTED,
    'assumptions': ['float documents are compared at 1e-12 relative (to_tuple(bias=+-1) round trips)'],
    'level_text': 'persist_complete (every constructor argument of every exported transform is in the persisted form) and '
                  'the key/attribute agreement of BboxParams / KeypointParams / operator _to_dict are theorems over the '
                  'class table regenerated from the source; behaviour preservation (same document, bit-identical outputs '
                  'under the same seed, JSON and YAML carriers, every argument at non-default values) is explored.',
    'level_note': 'Trusted: Coq kernel, classtab extractor (validated). Known finding: Equalize(mask, mask_params).',
}

PROPS['C12'] = {
    'requires': [], 'corr': corr_multi(corr_classtab(), corr_dispatch(200, 3000), corr_dual_dispatch(150, 2500)), 'search': 'C12',
    'trusted_base': CLASSTAB_TRUSTED + ['coq/model/Dispatch.v is a hand-written model of _get_target_function / '
                                        'apply_with_params, tied to the code by harness/corr_dispatch.py (random target tables, '
                                        'additional targets, unknown and None-valued keys); the search runs every image-only class '
                                        'with every other target'],
    'assumptions': ['RescaleSlopeIntercept rewrites two header fields by design (C16)'],
    'level_text': 'The target table of every image-only class ({image}) is a theorem over the class table regenerated '
                  'from the source; "keys outside the table pass through unchanged" and "the result has the keys it was '
                  'given" are theorems on the dispatch model; shape / channel preservation and dropout behaviour are explored.',
    'level_note': 'Trusted: Coq kernel, classtab extractor (validated), hand-written dispatch model.',
}

MASK_FUNCS = ['vflip', 'hflip', 'zflip', 'random_flip', 'transpose', 'rot90', '_pad', 'pad_with_params', 'cutout',
              'random_crop', 'center_crop', 'crop', 'clamping_crop', 'resize', 'scale']
PROPS['C06'] = {
    'requires': MASK_FUNCS, 'corr': corr_multi(corr_multi(corr_fn('C06', MASK_FUNCS, 25, 500), corr_classtab()), corr_methods(2, 20), corr_dual_dispatch(100, 1500)), 'search': 'C06',
    'trusted_base': GEOM_TRUSTED + CLASSTAB_TRUSTED + [
        'SciPy zoom / affine_transform with order=0 return input voxels or cval (not modelled; explored by the search '
        'with sparse label alphabets)', 'dtype preservation is a NumPy fact outside the model (explored)'],
    'assumptions': ['order-0 resampling inside SciPy copies voxels'],
    'level_text': 'Theorems: (1) for every exported class the interpolation order that reaches the mask path is nearest '
                  '(class table regenerated from the source, own mask paths resolved argument by argument); (2) for every '
                  'class whose array code is generated over the view model (flips, transpose, quarter turns, all crops, '
                  'PadIfNeeded in every border mode, Coarse/GridDropout) every voxel of the returned mask is an input '
                  'voxel or the mask fill value, for every input, parameter value and shape, composable through pipelines; '
                  '(3) for Resize / RandomScale the mask path copies input voxels whatever order the image uses, while any '
                  'order >= 1 blends every voxel (SciPy-zoom model). '
                  'The other SciPy-resampled paths (Longest/SmallestMaxSize, Rotate, ShiftScaleRotate, CropAndPad keep_size) and dtype '
                  'preservation are explored: all six image orders x label dtypes x sparse alphabets x masks / additional targets.',
    'level_note': 'Trusted: Coq kernel, translator, classtab extractor, view model of NumPy; SciPy order-0 behaviour explored only.',
}

PROPS['C09'] = {
    'requires': [], 'corr': corr_multi(corr_framework(60, 1200), corr_classtab()), 'search': 'C09',
    'trusted_base': CLASSTAB_TRUSTED + ['coq/model/Framework.v is a hand-written model of the scheduling layer, validated '
                                        'against the recorded draws of the implementation on random trees on every run',
                                        'entropy analysis is syntactic (ast): it sees random.*, np.random.*, RandomState, '
                                        'os.urandom / time / uuid / secrets, set iteration and id(); behaviour inside NumPy / '
                                        'SciPy (BLAS threads etc.) is outside the model'],
    'assumptions': ['third-party calls are deterministic functions of their arguments'],
    'level_text': 'Theorems: every function of the package that reads entropy reads it from Python random or a generator '
                  'seeded from it, never numpy global / OS / clock / set order (table regenerated from the whole package); '
                  'in the scheduling model a call reads a prefix of the draw stream and a pipeline call consumes at least '
                  'one draw. Bit-identity across numpy global state, call history and PYTHONHASHSEED worker processes is '
                  'explored over every class x documented argument and operator trees.',
    'level_note': 'Trusted: Coq kernel, classtab extractor (validated), hand-written scheduling model (correspondence).',
}

PROPS['C11'] = {
    'requires': ['cutout'], 'corr': corr_multi(corr_fn('C11', ['cutout'], 30, 400), corr_classtab()), 'search': 'C11',
    'trusted_base': CLASSTAB_TRUSTED + [
        'the ownership analysis (translator/classtab.py: mutation_of) is syntactic: parameters are borrowed until rebound '
        'to a fresh value; aug-assign / subscript store / in-place method / out= on a borrowed name is flagged; aliasing is '
        'tracked one level; which NumPy calls return views is a hand-written table',
        'the array back end of the translator accepts a subscript store only on an array the function copied itself '
        '(fail-closed), so cutout cannot be translated without its copy-before-write'],
    'assumptions': ['NumPy / SciPy / OpenCV functions do not write into their inputs unless asked to (out=, in-place operators)'],
    'level_text': 'Theorem over the table regenerated from all 552 functions of the package: no function writes in place '
                  'into a value it received from its caller (ownership analysis), and the generated cutout exists only because '
                  'the source copies before writing. The statement about the running program (every container, every layout, '
                  'calls that raise) is explored: deep comparison before/after for every class x documented argument x '
                  'C / strided view / Fortran / read-only arrays x list- and tuple-typed annotations.',
    'level_note': 'Partial: the proof is about a syntactic over-approximation, third-party calls are trusted.',
}

DICOM_FUNCS = ['dicom_scale', 'transpose_dicom', 'reset_dicom_slope_intercept', 'rescale_slope_intercept']
PROPS['C16'] = {
    'requires': DICOM_FUNCS, 'corr': corr_multi(corr_multi(corr_fn('C16', DICOM_FUNCS, 60, 1500), corr_classtab()), corr_methods(2, 20), corr_samplers(6, 80)), 'search': 'C16',
    'trusted_base': CLASSTAB_TRUSTED + [
        'header model (lib/PyRt.v: header): PixelSpacing, RescaleSlope, RescaleIntercept plus ONE opaque token for all other '
        'keys; the translator accepts only the fresh-dict idiom (res = {}; for k, v in d.items(): res[k] = v) as a copy and '
        'only stores under the three known keys',
        'rescale_slope_intercept is translated at voxel level (img : one number); ndarray broadcasting is NumPy; float64 '
        'arithmetic is modelled by exact rationals (exact whenever raw*slope+intercept is an integer below 2^53)',
        'the image-side resampling factor named in the theorems (scale, max_size/max(shape), target/extent) is read off the '
        'image path by hand; that the SciPy resize really produces round(extent*factor) voxels is explored (C07)'],
    'assumptions': ['volume extents are positive', 'raw*slope+intercept is an integer within the int16 range'],
    'level_text': 'Theorems on code regenerated from the source: header helpers (scale / transpose / reset) change exactly their '
                  'field; every class with an apply_to_dicom of its own (table theorem lists them: all others inherit the '
                  'identity) multiplies PixelSpacing by the factor its image path is resampled by, Transpose and odd xy quarter '
                  'turns swap it, SetPixelSpacing reaches the requested spacing; RescaleSlopeIntercept is exact for integer- and '
                  'float-valued headers, keeps the Hounsfield meaning of (voxels, header) and is idempotent. Pipelines of '
                  'resampling / transposing / cropping / padding / flipping / pixel-level steps on non-cubic volumes with '
                  'anisotropic spacing are explored step by step against the measured image factor.',
    'level_note': 'Trusted: Coq kernel, translator (header idioms), classtab extractor, exact-rational model of float64.',
}

PROPS['C13'] = {
    'requires': [], 'corr': corr_multi(corr_replay(150, 3000), corr_framework(60, 1500), corr_classtab()), 'search': 'C13',
    'trusted_base': CLASSTAB_TRUSTED + [
        'coq/model/Framework.v and coq/model/Replay.v are hand-written models of the scheduling layer and of record / '
        'restore / replay; tied to the code by harness/corr_framework.py and harness/corr_replay.py (random trees over '
        'recording leaves: fired trace, applied flags, leaves applied by the replay, entropy read during replay)',
        'leaf-level fidelity rests on "parameters are drawn in get_params* only" (class table, helper functions followed '
        'transitively by bare name) and on apply being a function of (params, inputs)'],
    'assumptions': ['leaves of the tree are distinct objects (the record is keyed by id())'],
    'level_text': 'Theorems on the scheduling / replay models: for every SomeOf-free tree (Compose, OneOf, OneOrOther, '
                  'Sequential, any nesting), draw list and leaf semantics the replay applies exactly the fired leaves in the '
                  'recorded order and returns the recorded data, independently of any later draw; the full statement is refuted '
                  'for SomeOf by a witness (known finding); the data after a call is determined by the applied leaves; a leaf is '
                  'marked applied iff it fired. Class table theorem: every class draws in get_params* only, except NPSNoise and '
                  'PadIfNeeded (known findings). Bit-identity per class x documented argument, other volume of the same shape, '
                  'and random trees are explored on the implementation.',
    'level_note': 'Trusted: Coq kernel, hand-written models (correspondence), classtab extractor.',
}

PROPS['C20'] = {
    'requires': ['cutout', 'pixel_dropout'],
    'corr': corr_multi(corr_fn('C20', ['cutout', 'pixel_dropout'], 60, 1200), corr_methods(2, 20), corr_samplers(8, 120)), 'search': 'C20',
    'trusted_base': GEOM_TRUSTED + [
        'the hole samplers are translated per loop iteration (translator/py2coq.py: split_loop_sampler checks the '
        '`for _ in range(count): ...; holes.append(h)` idiom syntactically); the random draws are oracle parameters whose '
        'ranges are those of random.randint / random.uniform (lib/PyRt.v draw_int, draw_uniform)',
        'int- and float-sized CoarseDropout configurations are two specialisations chosen by the declared types of the '
        'instance attributes (the isinstance tests of the source are evaluated on those types)',
        'the boolean drop mask of PixelDropout is modelled by its indicator function (model/Arrays.v v_where); the NumPy '
        'generator that draws it is outside the model (explored: dropped fraction)'],
    'assumptions': ['holes handed to cutout lie inside the frame (proved for both samplers)'],
    'level_text': 'Theorems on code regenerated from the source: cutout sets exactly the voxels of the holes to the fill value '
                  'and leaves every other voxel; image and mask paths use the same holes, and the mask is returned untouched '
                  'without a mask fill value; CoarseDropout holes (int and fractional sizes) lie inside the frame with counts '
                  'and extents within the configured limits for every value of the draws; GridDropout holes lie inside the '
                  'frame for every accepted configuration and stay below the largest allowed unit; a keypoint is removed iff '
                  'it is inside a hole, half-open on all axes, survivors keep order and values; PixelDropout is np.where on '
                  'its drop mask for image and mask. Explored on the implementation: dtypes, channels, shapes, keypoints on '
                  'hole faces, dropped fraction.',
    'level_note': 'Trusted: Coq kernel, translator (loop-sampler split, static isinstance), view model of NumPy.',
}

C19_FUNCS = ['union_of_bboxes', 'get_random_crop_coords', 'random_crop', 'clamping_crop', 'bbox_crop', 'bbox_random_crop',
             'crop_bbox_by_coords']
PROPS['C19'] = {
    'requires': C19_FUNCS, 'corr': corr_multi(corr_fn('C19', C19_FUNCS, 40, 1200), corr_methods(2, 20), corr_samplers(8, 120)), 'search': 'C19',
    'trusted_base': GEOM_TRUSTED + [
        'the parameter samplers of BBoxSafeRandomCrop / RandomCropNearBBox are translated with their random draws as oracle '
        'parameters (random.random in [0,1), random.randint in its range); float arithmetic is modelled by exact rationals, '
        'so draws for which a float start rounds to exactly 1.0 are covered by the closed interval [0,1] of the model'],
    'assumptions': ['boxes are valid normalised boxes; 0 <= erosion_rate <= 1/2 (beyond that the eroded union can be empty)'],
    'level_text': 'Theorems on regenerated code, for every value of the draws: union_of_bboxes reaches every box up to the '
                  'erosion fraction of its own extent per axis; the BBoxSafeRandomCrop window lies inside the volume, has the '
                  'sampled size (which is the shape of the returned image and the frame of the returned boxes) and trims every '
                  'box by LESS THAN TWO voxels + erosion per face; the one-voxel bound of the property is refuted by a witness '
                  '(open known finding); RandomCropNearBBox moves each face by at most round(extent * its own axis fraction), '
                  'and image and boxes use the same clamped window. Explored: box sets touching the borders, sized variant, '
                  'keypoints, labels.',
    'level_note': 'Trusted: Coq kernel, translator (sampler back end), view model, exact-rational float model.',
}

PROPS['C08'] = {
    'requires': ['check_bbox', 'check_keypoint'],
    'corr': corr_multi(corr_checkargs(200, 3000), corr_fn('C08', ['check_bbox', 'check_keypoint'], 60, 1500)), 'search': 'C08',
    'trusted_base': ['coq/model/CheckArgs.v is a hand-written model of Compose._check_args, tied to the code by '
                     'harness/corr_checkargs.py (generated keyword arguments, shapes differing in one axis, malformed targets)',
                     'harness/ctor_args.py transcribes the documented constructor domain of every exported transform by hand '
                     '(specification); the documented image dtypes are read from the class docstrings'],
    'assumptions': ['np.isclose tolerance of check_bbox as in lib/PyNum.v isclose'],
    'level_text': 'Proved (rejection half): mismatched image / mask / masks shapes in ANY single axis raise ValueError, '
                  'non-array images TypeError, float32 outside [0,1] ValueError, boxes without bbox_params ValueError (model of '
                  '_check_args); check_bbox accepts only proper boxes inside the unit cube (up to isclose) and otherwise raises '
                  'ValueError, check_keypoint accepts exactly the in-frame keypoints with angle in [0, 2 pi) (generated code). '
                  'Explored (totality half, outside the model: NumPy / SciPy / OpenCV casting and kernels): every class x every '
                  'documented constructor form x documented dtypes x HWD / HWDC x target sets runs and returns all targets; '
                  'missing label fields, positional data and the other malformed calls raise the documented type.',
    'level_note': 'Partial by nature: "runs to completion on every dtype" is not a statement about a model the proof assistant sees.',
}

PROPS['C18'] = {
    'requires': [], 'corr': corr_multi(corr_pixel(300, 5000), corr_samplers(6, 80)), 'search': 'C18',
    'trusted_base': ['coq/model/Pixel.v is a hand-written voxel-level model (clip-to-dtype wrapper, MIN / MAX tables, gauss_noise, '
                     'brightness / contrast with max_brightness, invert with two\'s complement wrap, to_float, from_float, the '
                     'Sharpen kernel); tied to the code by harness/corr_pixel.py on one-voxel arrays of every dtype at values where '
                     'float32 arithmetic is exact (to_float within one float32 rounding)',
                     'SciPy filters, spline zoom, np.power and float32 rounding are not modelled'],
    'assumptions': ['ndarray.astype(int dtype) of an in-range float truncates toward zero'],
    'level_text': 'Theorems on the voxel-level model: every @clipped formula returns a value inside the dtype\'s nominal range for '
                  'all six dtypes (saturation, never wrap-around); invert is an involution mapping the range onto itself (integer '
                  'dtypes with their wrap arithmetic, float32); from_float inverts to_float on the integers of the range; the '
                  'Sharpen kernel weights sum to 1 - alpha + alpha * lightness; point-wise maps commute with permutations. '
                  'Explored on the implementation (partial): all image-only transforms x documented dtypes x HWD / HWDC vs an '
                  'independent NumPy / SciPy evaluation with the recorded parameters (+-1 LSB), dtype / range, permutation and flip '
                  'commutation.',
    'level_note': 'Partial: neighbourhood filters, zoom and float32 rounding are explored, not proved.',
}

NOT_CLAIMED = {}
