#!/bin/bash
# the mutant matrix without touching /repo: every seeded change is applied to a scratch export of /repo HEAD and
# checked (quick tier, VERIF_REPO pointing at the export) in a scratch copy of /verif; JOBS copies work in parallel.
# usage: mutant_matrix_parallel.sh [ids...]      env: JOBS (default 4), VERIF_SEED (default 0), TIER (default quick)
# scratch copies live under /var/tmp/vmx_* and are removed at the end.
JOBS=${JOBS:-4}
ids=${@:-$(ls -d /verif/seeded/C[0-9][0-9]* | xargs -n1 basename)}
out=/verif/work/mutant_matrix_parallel.txt; : > $out
for j in $(seq 1 $JOBS); do
  rm -rf /var/tmp/vmx_$j
  rsync -a --exclude .git --exclude work --exclude replays --exclude evidence /verif/ /var/tmp/vmx_$j/
  mkdir -p /var/tmp/vmx_$j/work /var/tmp/vmx_$j/replays /var/tmp/vmx_$j/evidence
done
one() {
  d=$1; j=$2; id=${d:0:3}
  r=/var/tmp/vmx_repo_$j; rm -rf $r; mkdir -p $r
  git -C /repo archive HEAD | tar -x -C $r
  if ! (cd $r && patch -p1 -s --dry-run < /verif/seeded/$d/patch.diff > /dev/null 2>&1); then echo "$d PATCH-DOES-NOT-APPLY"; rm -rf $r; return; fi
  (cd $r && patch -p1 -s < /verif/seeded/$d/patch.diff)
  res=$(cd /var/tmp/vmx_$j && VERIF_REPO=$r VERIF_SEED=${VERIF_SEED:-0} ./check $id ${TIER:-quick} 2>&1 | grep -v conda)
  nv=$(echo "$res" | grep -c "^VIOLATION")
  nf=$(echo "$res" | grep "^VIOLATION" | grep -c "no-failing-input-found")
  sm=$(echo "$res" | grep "tier=" | sed 's/.*obligations=\([0-9]*\) discharged=\([0-9]*\).*/obligations=\1 discharged=\2/')
  echo "$d violations=$nv without-input=$nf $sm"
  rm -rf $r
}
export -f one
i=0
for d in $ids; do
  j=$(( i % JOBS + 1 )); i=$(( i + 1 ))
  echo "$d $j"
done > /var/tmp/vmx_jobs.txt
for j in $(seq 1 $JOBS); do
  ( grep " $j\$" /var/tmp/vmx_jobs.txt | while read d jj; do one $d $jj; done >> $out ) &
done
wait
sort $out -o $out
cat $out
for j in $(seq 1 $JOBS); do rm -rf /var/tmp/vmx_$j /var/tmp/vmx_repo_$j; done
rm -f /var/tmp/vmx_jobs.txt
