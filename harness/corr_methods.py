#!/usr/bin/env python3
"""Correspondence for the generated CLASS METHODS (apply / apply_to_mask / apply_to_bbox /
apply_to_keypoint / apply_to_dicom and helper methods without random draws): the real bound method
is called the way BasicTransform.apply_with_params calls it -- data argument plus the parameter
dict as keywords (incl. cols / rows / slices and the injected keys) -- on an instance built from
the documented constructor domain; the generated Gallina function gets the instance attributes it
reads and the same parameter values.  This validates the keyword-binding logic of the translator."""
import json
import os
import random
import sys

sys.path.insert(0, os.path.dirname(os.path.abspath(__file__)))
import corr
import corr_gen
import implrun as R
from ctor_args import CTOR, configurations

A = R.A
Fr = corr.Fr


def class_of(fname, py_name):
    suffix = '_' + py_name.lstrip('_')
    if not fname.endswith(suffix):
        return None
    return fname[:-len(suffix)]


def attr_value(obj, path, ty):
    v = obj
    for part in path.split('_') if False else [path]:
        v = getattr(v, part)
    return v


def to_model(v, t):
    """python attribute value -> generator-style value (Fractions / ints) of translator type t"""
    t = corr.tt(t)
    if t == 'Q':
        return Fr(v)
    if t == 'Z':
        if isinstance(v, bool) or int(v) != v:
            raise TypeError('attribute is not an int')
        return int(v)
    if t in ('bool', 'str'):
        if t == 'str':
            return v.value if hasattr(v, 'value') and not isinstance(v, str) else v     # Enum members are compared by value
        return bool(v)
    if corr.is_t(t, 'opt'):
        return None if v is None else to_model(v, t[1])
    if corr.is_t(t, 'tuple'):
        return tuple(to_model(x, tt_) for x, tt_ in zip(v, t[1]))
    if corr.is_t(t, 'list'):
        return [to_model(x, t[1]) for x in v]
    raise TypeError('attribute type %r' % (t,))


def run(seed, n):
    man, fns = corr.load_manifest()
    rng = random.Random(seed * 2147483629 % (2 ** 31) + 77)
    methods = []
    for name, f in sorted(fns.items()):
        if 'cls' not in f['coq_module'] or f['draws']:
            continue
        cls = class_of(name, f['py_name'])
        if cls is None or not hasattr(A, cls) or cls not in CTOR:
            continue
        methods.append((name, cls, f))
    cases, skipped = [], {}
    for i in range(n):
        for name, cls, f in methods:
            # the test volumes are integer label arrays: a fractional fill value would be truncated by NumPy
            # (dtype casting is C18's subject, not the index maps compared here)
            cfgs = [k for k in configurations(cls)
                    if all(float(v) == int(v) for a, v in k.items()
                           if a in ('value', 'mask_value', 'fill_value', 'mask_fill_value') and isinstance(v, (int, float)))]
            kw = rng.choice(cfgs)
            try:
                obj = getattr(A, cls)(p=1.0, **kw)
                attrs = [to_model(attr_value(obj, a, t), t) for a, t in f['self_attrs']]
            except Exception as e:  # noqa -- e.g. a float-sized configuration for the integer specialisation
                skipped[cls + ':' + type(e).__name__] = skipped.get(cls + ':' + type(e).__name__, 0) + 1
                continue
            prefix = ' '.join(corr.enc(v, corr.tt(t)) for v, (a, t) in zip(attrs, f['self_attrs']))
            try:
                args = corr_gen.gen_args(rng, f, malformed_rate=0.05)
            except ValueError as e:
                skipped['nogen:' + str(e)[:60]] = skipped.get('nogen:' + str(e)[:60], 0) + 1
                continue
            names = [p for p, _ in f['params']]
            meth = getattr(obj, f['py_name'])

            def call(data, *vals, _m=meth, _names=names[1:]):
                return _m(data, **dict(zip(_names, vals)))
            cases.append(corr.Case(name, args, call=call, prefix=prefix, note={'class': cls, 'kwargs': repr(kw)}))
    cases = corr.run_impl(fns, cases)
    mods = sorted({fns[c.fn]['coq_module'] for c in cases})
    base = ['Gen_keypoints_utils', 'Gen_bbox_utils', 'Gen_geom_functional', 'Gen_geom_arrays', 'Gen_dropout_functional',
            'Gen_dicom_functional', 'Gen_pixel_dropout', 'Gen_crops_functional']
    bad, zde, errors = corr.run_coq('meth_%d' % seed, cases, base + mods, jobs=8)
    kinds = {}
    for c in cases:
        kinds[c.kind] = kinds.get(c.kind, 0) + 1

    def desc(c):
        d = corr.describe(c, fns)
        d['instance'] = c.note
        return d
    return {'functions': [m[0] for m in methods], 'missing_functions': [], 'cases': len(cases),
            'distinct_cases': len({(c.fn, repr(c.args), c.prefix) for c in cases}), 'result_kinds': kinds, 'skipped': skipped,
            'disagreements': [desc(cases[i]) for i in bad][:20], 'n_disagreements': len(bad), 'coq_errors': errors,
            'model_zero_division_where_numpy_gives_nonfinite': len(zde), 'samples': [desc(c) for c in cases[:2]]}


if __name__ == '__main__':
    r = run(int(sys.argv[1]), int(sys.argv[2]))
    r['functions'] = len(r['functions'])
    print(json.dumps(r, indent=1, default=str)[:6000])
