#!/usr/bin/env python3
"""Correspondence for coq/model/Pixel.v: the voxel-level model vs the implementation on one-voxel
arrays of every dtype (values chosen so that float32 arithmetic is exact), incl. dtype extremes."""
import fractions
import os
import random
import re
import subprocess
import sys

sys.path.insert(0, os.path.dirname(os.path.abspath(__file__)))
import implrun as R
import numpy as np

A = R.A
import dicaugment.augmentations.functional as F  # noqa: E402
from dicaugment.augmentations.utils import clip as u_clip  # noqa: E402

Fr = fractions.Fraction
VERIF = os.path.abspath(os.path.join(os.path.dirname(__file__), '..'))
DT = {'uint8': 'U8', 'uint16': 'U16', 'int16': 'I16', 'int32': 'I32', 'float32': 'F32', 'float64': 'F64'}


def q(v):
    f = Fr(v)
    return '(%d # %d)' % (f.numerator, f.denominator)


def value_for(rng, dt):
    if dt.startswith('float'):
        return Fr(rng.randint(0, 64), 64)
    info = np.iinfo(dt)
    return Fr(rng.choice([info.min, info.max, info.min + 1, info.max - 1, rng.randint(info.min, info.max), rng.randint(-100, 300)])) \
        if info.min < 0 else Fr(rng.choice([0, info.max, 1, info.max - 1, rng.randint(0, info.max), rng.randint(0, 255)]))


def arr(v, dt):
    return np.array([[[float(v) if dt.startswith('float') else int(v)]]], dtype=dt)


def run(seed, n):
    rng = random.Random(seed * 32416190071 % (2 ** 31) + 18)
    cases, kinds = [], {}
    for i in range(n):
        dt = rng.choice(sorted(DT))
        d = DT[dt]
        kind = rng.choice(['gauss', 'bright', 'invert', 'to_float', 'from_float', 'clip', 'sharpen'])
        v = value_for(rng, dt)
        a = arr(v, dt)
        if float(a.ravel()[0]) != float(v):
            continue          # not representable (float32 of a huge int32): outside the exact fragment
        try:
            if kind == 'gauss':
                if dt in ('float64', 'int32'):
                    continue  # float32 intermediate is not exact there
                g = Fr(rng.randint(-2000, 2000), 8) if not dt.startswith('float') else Fr(rng.randint(-64, 64), 64)
                r = F.gauss_noise(a, np.array([[[float(g)]]]))
                coq = 'chk_q (gauss_noise_vox %s %s %s) %s' % (d, q(v), q(g), q(Fr(float(r.ravel()[0]))))
            elif kind == 'bright':
                if dt in ('float64', 'int32'):
                    continue
                al, be = Fr(rng.choice([1, 3, 1, 2, 4]), rng.choice([1, 2, 4])), Fr(rng.choice([0, 1, -1, 2]), 4)
                mb = Fr(1) if dt.startswith('float') else Fr(rng.choice([255, 1000, 200, 32767 if dt != 'uint8' else 128]))
                r = F.brightness_contrast_adjust(a, float(al), float(be), float(mb) if dt.startswith('float') else int(mb))
                coq = 'chk_q (brightness_contrast_vox %s %s %s %s %s) %s' % (d, q(v), q(al), q(be), q(mb), q(Fr(float(r.ravel()[0]))))
            elif kind == 'invert':
                if dt == 'float64':
                    continue  # not a documented InvertImg dtype (finfo.max - (x - finfo.max) overflows)
                r = F.invert(a)
                if dt.startswith('float'):
                    coq = 'chk_q (invert_float %s %s) %s' % (d, q(v), q(Fr(float(r.ravel()[0]))))
                else:
                    coq = 'Z.eqb (invert_int %s (%d)%%Z) (%d)%%Z' % (d, int(v), int(r.ravel()[0]))
            elif kind == 'to_float':
                if dt in ('float64', 'int32'):
                    continue
                r = F.to_float(a)
                coq = 'chk_f32 (to_float_vox %s %s) %s' % (d, q(v), q(Fr(float(r.ravel()[0]))))
            elif kind == 'from_float':
                if dt in ('float64', 'int32', 'float32'):
                    continue
                x = Fr(rng.randint(0, 256), 256)
                r = F.from_float(np.array([[[float(x)]]], dtype=np.float64), dt)
                coq = 'chk_q (from_float_vox %s %s) %s' % (d, q(x), q(Fr(float(r.ravel()[0]))))
            elif kind == 'clip':
                x = Fr(rng.randint(-10 ** 6, 10 ** 6), 8) * rng.choice([1, 1, 5000])
                lo_, hi_ = (0.0, 1.0) if dt == 'float32' else ((np.finfo(dt).min, np.finfo(dt).max) if dt == 'float64' else (np.iinfo(dt).min, np.iinfo(dt).max))
                r = u_clip(np.array([float(x)]), np.dtype(dt), lo_, hi_)
                coq = 'chk_q (clip_to %s %s) %s' % (d, q(x), q(Fr(float(r.ravel()[0]))))
            else:
                al, li = Fr(rng.randint(0, 8), 8), Fr(rng.randint(0, 16), 8)
                m = A.Sharpen._Sharpen__generate_sharpening_matrix(float(al), float(li))
                coq = 'chk_list chk_q (sharpen_kernel %s %s) [%s]' % (q(al), q(li), '; '.join(q(Fr(float(x))) for x in m.ravel()))
        except Exception as e:  # noqa
            kinds['raised:' + type(e).__name__] = kinds.get('raised:' + type(e).__name__, 0) + 1
            continue
        kinds[kind] = kinds.get(kind, 0) + 1
        cases.append({'kind': kind, 'dtype': dt, 'value': str(v), 'coq': coq})
    cdir = os.path.join(VERIF, 'coq', 'cases')
    os.makedirs(cdir, exist_ok=True)
    path = os.path.join(cdir, 'px_%d.v' % seed)
    with open(path, 'w') as f:
        f.write('From Coq Require Import ZArith QArith List Bool.\nImport ListNotations.\nFrom DV.lib Require Import PyNum PyRt Corr.\n'
                'From DV.model Require Import Pixel FrameworkCheck.\nOpen Scope Q_scope.\n'
                '(* one float32 rounding step: relative 2^-23 of a value in [0,1] *)\n'
                'Definition chk_f32 (a b : Q) : bool := Qle_bool (Qabs (a - b)) (1 # 4000000).\n')
        f.write('Definition cases : list bool := [\n' + ';\n'.join(' ' + c['coq'] for c in cases) + '].\n')
        f.write('Eval vm_compute in (bad_idx 0 cases).\n')
    p = subprocess.run(['timeout', '600', 'coqc', '-Q', 'lib', 'DV.lib', '-Q', 'model', 'DV.model', path],
                       cwd=os.path.join(VERIF, 'coq'), stdout=subprocess.PIPE, stderr=subprocess.STDOUT, text=True)
    m = re.search(r'=\s*\[(.*?)\]', p.stdout, re.S)
    errors, bad = [], []
    if p.returncode != 0 or m is None:
        errors.append(p.stdout[-1500:])
    else:
        bad = [int(x) for x in re.findall(r'\d+', m.group(1))]
    for ext in ('.vo', '.vok', '.vos', '.glob'):
        try:
            os.remove(path[:-2] + ext)
        except OSError:
            pass
    return {'cases': len(cases), 'distinct_cases': len({c['coq'] for c in cases}), 'result_kinds': kinds,
            'n_disagreements': len(bad), 'disagreements': [cases[i] for i in bad[:10]], 'coq_errors': errors,
            'missing_functions': [], 'samples': cases[:2]}


if __name__ == '__main__':
    import json
    print(json.dumps(run(int(sys.argv[1]), int(sys.argv[2])), indent=1)[:3000])
