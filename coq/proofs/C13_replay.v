(* C13_replay.v -- replay fidelity on the scheduling model. *)
From Coq Require Import List QArith Bool Arith Lia.
Import ListNotations.
From DV.model Require Import Framework Replay.
From DV.proofs Require Import Fw.
Open Scope Q_scope.

(* order-preserving subsequence *)
Inductive sub {A} : list A -> list A -> Prop :=
| sub_nil : forall l, sub [] l
| sub_take : forall x a b, sub a b -> sub (x :: a) (x :: b)
| sub_skip : forall x a b, sub a b -> sub a (x :: b).

Lemma sub_refl {A} (l : list A) : sub l l.
Proof. induction l; constructor; assumption. Qed.
Lemma sub_app {A} (a b c d : list A) : sub a b -> sub c d -> sub (a ++ c) (b ++ d).
Proof.
  intros H. revert c d. induction H; intros c d Hc; cbn.
  - induction l; cbn; [exact Hc | apply sub_skip; exact IHl].
  - apply sub_take. apply IHsub. exact Hc.
  - apply sub_skip. apply IHsub. exact Hc.
Qed.
Lemma sub_app_l {A} (a b c : list A) : sub a b -> sub a (b ++ c).
Proof. intros H. rewrite <- (app_nil_r a). apply sub_app; [exact H | constructor]. Qed.
Lemma sub_app_r {A} (a b c : list A) : sub a c -> sub a (b ++ c).
Proof. intros H. induction b; cbn; [exact H | apply sub_skip; exact IHb]. Qed.
Lemma sub_in {A} (a b : list A) x : sub a b -> In x a -> In x b.
Proof. intros H. induction H; cbn; intros Hx; [contradiction | destruct Hx; auto | auto]. Qed.

Lemma memb_in id l : memb id l = true <-> In id l.
Proof.
  unfold memb. rewrite existsb_exists. split.
  - intros (x & Hx & E). apply Nat.eqb_eq in E. subst. exact Hx.
  - intros H. exists id. split; [exact H | apply Nat.eqb_refl].
Qed.

(* a subsequence of a duplicate-free list is recovered by filtering on membership *)
Lemma filter_sub tr l : NoDup l -> sub tr l -> filter (fun id => memb id tr) l = tr.
Proof.
  intros ND H. induction H as [l | x a b H IH | x a b H IH].
  - induction l as [|y l IHl]; cbn; [reflexivity|]. apply IHl. inversion ND; assumption.
  - inversion ND as [|? ? Hnin ND']; subst. cbn. rewrite Nat.eqb_refl. cbn. f_equal.
    transitivity (filter (fun id => memb id a) b); [|apply IH; exact ND'].
    apply filter_ext_in. intros y Hy. cbn.
    destruct (Nat.eqb_spec y x) as [->|]; [contradiction | reflexivity].
  - inversion ND as [|? ? Hnin ND']; subst. cbn.
    destruct (memb x a) eqn:E.
    + apply memb_in in E. exfalso. apply Hnin. eapply sub_in; eassumption.
    + apply IH. exact ND'.
Qed.

Lemma leaves_kids kids :
  (fix go (l : list node) : list nat := match l with [] => [] | k :: tl => leaves k ++ go tl end) kids
  = flat_map leaves kids.
Proof. induction kids as [|k tl IH]; cbn; [reflexivity | rewrite IH; reflexivity]. Qed.

Lemma someof_free_kids kids :
  (fix go (l : list node) : bool := match l with [] => true | k :: tl => someof_free k && go tl end) kids = true ->
  forall k, In k kids -> someof_free k = true.
Proof.
  induction kids as [|k tl IH]; cbn; intros H k0 Hin; [contradiction|].
  apply andb_true_iff in H. destruct H as [H1 H2]. destruct Hin as [<-|Hin]; [exact H1 | apply IH; assumption].
Qed.

Section Lemmas.
Variable data : Type.
Variable sem : nat -> data -> data.
Notation run := (run data sem).
Notation state := (state data).
Notation apply_all := (apply_all data sem).

Lemma apply_all_app a b d : apply_all (a ++ b) d = apply_all b (apply_all a d).
Proof. unfold Replay.apply_all. apply fold_left_app. Qed.

(* ---- the data after a call is the fired leaves applied in firing order ---- *)
Definition is_fold (f : data -> list draw -> option state) : Prop :=
  forall d ds d' tr ds', f d ds = Some (d', tr, ds') -> d' = apply_all tr d.

Lemma then_fold (r : option state) k d0 d tr ds :
  (forall d1 tr1 ds1, r = Some (d1, tr1, ds1) -> d1 = apply_all tr1 d0) -> is_fold k ->
  then_ data r k = Some (d, tr, ds) -> d = apply_all tr d0.
Proof.
  intros Hr Hk H. apply then_some in H. destruct H as (d1 & tr1 & ds1 & tr2 & E & F & ->).
  rewrite apply_all_app. rewrite <- (Hr _ _ _ E). eapply Hk; exact F.
Qed.

Lemma fire_always_fold ls : is_fold (fire_always data sem ls).
Proof.
  induction ls as [|k r IH]; intros d ds d' tr ds' H; cbn in H.
  - inversion H; subst. reflexivity.
  - destruct k; try discriminate. destruct ds as [|[u|l] ds0]; try discriminate.
    destruct (fire_always data sem r (sem id d) ds0) as [[[d2 tr2] ds2]|] eqn:E; [|discriminate].
    inversion H; subst. cbn. eapply IH; exact E.
Qed.

Section Helpers.
Variable rk : node -> bool -> data -> list draw -> option state.
Lemma seq_with_fold l : (forall k, In k l -> forall f, is_fold (rk k f)) -> is_fold (seq_with data rk l).
Proof.
  induction l as [|k tl IHl]; intros Hk d ds d' tr ds' H; cbn in H.
  - inversion H; subst. reflexivity.
  - eapply then_fold; [| |exact H].
    + intros d1 tr1 ds1 E. eapply (Hk k (or_introl eq_refl)); exact E.
    + apply IHl. intros k' Hin. apply Hk. right. exact Hin.
Qed.
Lemma pick_with_fold l : (forall k, In k l -> forall f, is_fold (rk k f)) -> forall i, is_fold (pick_with data rk l i).
Proof.
  induction l as [|k tl IHl]; intros Hk i d ds d' tr ds' H; cbn in H.
  - destruct i; discriminate.
  - destruct i as [|j].
    + eapply (Hk k (or_introl eq_refl)); exact H.
    + eapply IHl; [|exact H]. intros k' Hin. apply Hk. right. exact Hin.
Qed.
Lemma picks_with_fold l : (forall k, In k l -> forall f, is_fold (rk k f)) -> forall idx, is_fold (picks_with data rk l idx).
Proof.
  intros Hk. induction idx as [|i tl IHi]; intros d ds d' tr ds' H; cbn in H.
  - inversion H; subst. reflexivity.
  - eapply then_fold; [| exact IHi | exact H].
    intros d1 tr1 ds1 E. eapply pick_with_fold; [exact Hk | exact E].
Qed.
End Helpers.

Theorem run_is_fold : forall t force, is_fold (run t force).
Proof.
  induction t as [id p a | p kids IH | p kids IH | p n r kids IH | p kids IH | p kids IH] using node_ind';
  intros force d ds d' tr ds' H; cbn in H;
  try (assert (IH' : forall k, In k kids -> forall f, is_fold ((fun k f d ds => run k f d ds) k f))
        by (rewrite Forall_forall in IH; intros k Hin f; exact (IH k Hin f)); clear IH).
  - destruct ds as [|[u|l] ds0]; try discriminate.
    destruct (Qltb u p || a || force); inversion H; subst; reflexivity.
  - destruct force.
    + eapply seq_with_fold; [exact IH' | exact H].
    + destruct ds as [|[u|l] ds0]; try discriminate.
      destruct (Qltb u p).
      * eapply seq_with_fold; [exact IH' | exact H].
      * eapply fire_always_fold; exact H.
  - destruct kids as [|k0 tl]; [inversion H; subst; reflexivity|].
    destruct force.
    + destruct ds as [|[u|[|i [|]]] ds1]; try discriminate.
      eapply pick_with_fold; [exact IH' | exact H].
    + destruct ds as [|[u|l] ds0]; try discriminate.
      destruct (Qltb u p); [|inversion H; subst; reflexivity].
      destruct ds0 as [|[u'|[|i [|]]] ds1]; try discriminate.
      eapply pick_with_fold; [exact IH' | exact H].
  - destruct kids as [|k0 tl]; [inversion H; subst; reflexivity|].
    destruct force.
    + destruct ds as [|[u|idx] ds1]; try discriminate.
      destruct (Nat.eqb (length idx) n); [|discriminate].
      eapply picks_with_fold; [exact IH' | exact H].
    + destruct ds as [|[u|l] ds0]; try discriminate.
      destruct (Qltb u p); [|inversion H; subst; reflexivity].
      destruct ds0 as [|[u'|idx] ds1]; try discriminate.
      destruct (Nat.eqb (length idx) n); [|discriminate].
      eapply picks_with_fold; [exact IH' | exact H].
  - destruct ds as [|[u|l] ds0]; try discriminate.
    destruct (Qltb u p); eapply pick_with_fold; try exact IH'; exact H.
  - destruct kids as [|k tl]; [inversion H; subst; reflexivity|].
    eapply then_fold; [| |exact H].
    + intros d1 tr1 ds1 E. eapply (IH' k (or_introl eq_refl)); exact E.
    + apply seq_with_fold. intros k' Hin. apply IH'. right. exact Hin.
Qed.

(* ---- without SomeOf, leaves fire in tree order ---- *)
Definition in_order (ls : list nat) (f : data -> list draw -> option state) : Prop :=
  forall d ds d' tr ds', f d ds = Some (d', tr, ds') -> sub tr ls.

Lemma then_order (r : option state) k l1 l2 d tr ds :
  (forall d1 tr1 ds1, r = Some (d1, tr1, ds1) -> sub tr1 l1) -> in_order l2 k ->
  then_ data r k = Some (d, tr, ds) -> sub tr (l1 ++ l2).
Proof.
  intros Hr Hk H. apply then_some in H. destruct H as (d1 & tr1 & ds1 & tr2 & E & F & ->).
  apply sub_app; [eapply Hr; exact E | eapply Hk; exact F].
Qed.

Lemma always_kids kids :
  (fix go (l : list node) : list node := match l with [] => [] | k :: tl => always_leaves k ++ go tl end) kids
  = flat_map always_leaves kids.
Proof. induction kids as [|k tl IH]; cbn; [reflexivity | rewrite IH; reflexivity]. Qed.

Lemma always_kids_sub kids :
  Forall (fun t => sub (flat_map leaves (always_leaves t)) (leaves t)) kids ->
  sub (flat_map leaves (flat_map always_leaves kids)) (flat_map leaves kids).
Proof.
  induction kids as [|k tl IHk]; intros IH; cbn [flat_map]; [constructor|].
  rewrite flat_map_app. inversion IH; subst. apply sub_app; [assumption | apply IHk; assumption].
Qed.

Lemma always_leaves_sub t : sub (flat_map leaves (always_leaves t)) (leaves t).
Proof.
  induction t as [id p a | p kids IH | p kids IH | p n r kids IH | p kids IH | p kids IH] using node_ind';
  cbn [always_leaves leaves]; try (apply always_kids_sub; exact IH).
  destruct a; cbn; [apply sub_refl | constructor].
Qed.

Lemma always_of_list_sub kids : sub (flat_map leaves (always_of_list kids)) (flat_map leaves kids).
Proof.
  unfold always_of_list. induction kids as [|k tl IH]; cbn; [constructor|].
  rewrite flat_map_app. apply sub_app; [apply always_leaves_sub | exact IH].
Qed.

Lemma fire_always_order ls : in_order (flat_map leaves ls) (fire_always data sem ls).
Proof.
  induction ls as [|k r IH]; intros d ds d' tr ds' H; cbn in H.
  - inversion H; subst. constructor.
  - destruct k; try discriminate. destruct ds as [|[u|l] ds0]; try discriminate.
    destruct (fire_always data sem r (sem id d) ds0) as [[[d2 tr2] ds2]|] eqn:E; [|discriminate].
    inversion H; subst. cbn. apply sub_take. eapply IH; exact E.
Qed.

Section Helpers2.
Variable rk : node -> bool -> data -> list draw -> option state.
Lemma seq_with_order l : (forall k, In k l -> forall f, in_order (leaves k) (rk k f)) ->
  in_order (flat_map leaves l) (seq_with data rk l).
Proof.
  induction l as [|k tl IHl]; intros Hk d ds d' tr ds' H; cbn in H.
  - inversion H; subst. constructor.
  - cbn. eapply then_order; [| |exact H].
    + intros d1 tr1 ds1 E. eapply (Hk k (or_introl eq_refl)); exact E.
    + apply IHl. intros k' Hin. apply Hk. right. exact Hin.
Qed.
Lemma pick_with_order l : (forall k, In k l -> forall f, in_order (leaves k) (rk k f)) ->
  forall i, in_order (flat_map leaves l) (pick_with data rk l i).
Proof.
  induction l as [|k tl IHl]; intros Hk i d ds d' tr ds' H; cbn in H.
  - destruct i; discriminate.
  - cbn. destruct i as [|j].
    + apply sub_app_l. eapply (Hk k (or_introl eq_refl)); exact H.
    + apply sub_app_r. eapply IHl; [|exact H]. intros k' Hin. apply Hk. right. exact Hin.
Qed.
End Helpers2.

Theorem run_in_tree_order : forall t, someof_free t = true -> forall force, in_order (leaves t) (run t force).
Proof.
  induction t as [id p a | p kids IH | p kids IH | p n r kids IH | p kids IH | p kids IH] using node_ind';
  intros SF force d ds d' tr ds' H; cbn in H; cbn [leaves];
  try change (sub tr (flat_map leaves kids));
  try (assert (IH' : forall k, In k kids -> forall f, in_order (leaves k) ((fun k f d ds => run k f d ds) k f))
        by (rewrite Forall_forall in IH; intros k Hin f; apply (IH k Hin); cbn in SF;
            eapply someof_free_kids; [exact SF | exact Hin]); clear IH).
  - destruct ds as [|[u|l] ds0]; try discriminate.
    destruct (Qltb u p || a || force); inversion H; subst; [apply sub_refl | constructor].
  - destruct force.
    + eapply seq_with_order; [exact IH' | exact H].
    + destruct ds as [|[u|l] ds0]; try discriminate.
      destruct (Qltb u p).
      * eapply seq_with_order; [exact IH' | exact H].
      * apply fire_always_order in H.
        (* the trace is a subsequence of the always_apply leaves, themselves in tree order *)
        clear IH'. revert H. generalize (always_of_list_sub kids).
        generalize (flat_map leaves (always_of_list kids)) (flat_map leaves kids).
        intros a b Hab Hta. clear - Hab Hta.
        revert tr Hta. induction Hab; intros tr Hta.
        -- inversion Hta; subst. constructor.
        -- inversion Hta; subst; [constructor | apply sub_take; auto | apply sub_skip; auto].
        -- apply sub_skip. auto.
  - destruct kids as [|k0 tl]; [inversion H; subst; constructor|].
    destruct force.
    + destruct ds as [|[u|[|i [|]]] ds1]; try discriminate.
      eapply pick_with_order; [exact IH' | exact H].
    + destruct ds as [|[u|l] ds0]; try discriminate.
      destruct (Qltb u p); [|inversion H; subst; constructor].
      destruct ds0 as [|[u'|[|i [|]]] ds1]; try discriminate.
      eapply pick_with_order; [exact IH' | exact H].
  - discriminate.
  - destruct ds as [|[u|l] ds0]; try discriminate.
    destruct (Qltb u p); eapply pick_with_order; try exact IH'; exact H.
  - destruct kids as [|k tl]; [inversion H; subst; constructor|].
    cbn. eapply then_order; [| |exact H].
    + intros d1 tr1 ds1 E. eapply (IH' k (or_introl eq_refl)); exact E.
    + apply seq_with_order. intros k' Hin. apply IH'. right. exact Hin.
Qed.

(* ---- fidelity ---- *)
Theorem replay_faithful t force d ds d' tr ds' :
  someof_free t = true -> NoDup (leaves t) ->
  run t force d ds = Some (d', tr, ds') ->
  replay_trace t tr = tr /\ replay_data data sem t tr d = d'.
Proof.
  intros SF ND H.
  assert (E : replay_trace t tr = tr).
  { unfold replay_trace. apply filter_sub; [exact ND|]. eapply run_in_tree_order; eassumption. }
  split; [exact E|]. unfold replay_data. rewrite E. symmetry. eapply run_is_fold; exact H.
Qed.

End Lemmas.

(* the full-strength statement fails for SomeOf: it replays the chosen children in LISTED order *)
Definition someof_witness : node := Comp 1 [SomeOfN 1 2 false [Leaf 1 1 false; Leaf 2 1 false]].
Lemma someof_replay_refuted :
  exists ds d' tr ds',
    run (list nat) (fun id d => id :: d) someof_witness false [] ds = Some (d', tr, ds') /\
    NoDup (leaves someof_witness) /\
    replay_data (list nat) (fun id d => id :: d) someof_witness tr [] <> d'.
Proof.
  exists [DU 0; DU 0; DC [1; 0]%nat; DU 0; DU 0]. eexists _, _, _. split; [vm_compute; reflexivity|].
  split; [repeat constructor; cbn; intuition discriminate|]. vm_compute. discriminate.
Qed.

(* applied flags: a leaf is marked iff it fired, an operator iff some child is marked *)
Lemma record_leaf id p a fired : rec_applied (record (Leaf id p a) fired) = memb id fired.
Proof. reflexivity. Qed.
