"""Helpers to drive the real library from JSON-able pipeline specs (so that every
case the searches run can be written into a replay file and rebuilt)."""
import math
import os
import operator
import random
import sys
import warnings

warnings.filterwarnings('ignore')
REPO = os.environ.get('VERIF_REPO', '/repo')
if REPO not in sys.path:
    sys.path.insert(0, REPO)
import numpy as np  # noqa: E402

np.seterr(all='ignore')
import dicaugment as A  # noqa: E402


# ---- seeding: ordinary seeds, and "extreme" seeds under which every draw is an END POINT of its range ----
# An extreme seed EXT_BASE + pattern makes random.random / randint / uniform / randrange return the lowest or the
# highest value they can legally return, chosen by the bits of the 16-bit pattern (cyclically).  Corners of the
# parameter samplers that a seeded run meets once in thousands of calls (both faces of a window shifted inwards
# by the full amount, a start fraction of 0.999..., the largest hole) are then met on every such run.  The seed
# is an integer like any other, so replay files need nothing special.
EXT_BASE = 1 << 40
_ORIG = (random.random, random.randint, random.uniform, random.randrange)
EXT_PATTERNS = [0x0000, 0xFFFF, 0x5555, 0xAAAA, 0x3333, 0xCCCC, 0x0F0F, 0xF0F0]


def restore_random():
    random.random, random.randint, random.uniform, random.randrange = _ORIG


def seed(value):
    """random.seed(value); for an extreme seed additionally route the draw functions to their end points"""
    restore_random()
    random.seed(value)
    if not isinstance(value, int) or value < EXT_BASE:
        return
    st = {'p': value - EXT_BASE, 'i': 0}

    def bit():
        b = (st['p'] >> (st['i'] % 16)) & 1
        st['i'] += 1
        return b
    top = 1.0 - 2.0 ** -53

    def rrange(a, b=None, step=1):
        # argument types as the real function: non-integers raise TypeError (operator.index), as in random.randrange
        a, step = operator.index(a), operator.index(step)
        if b is None:
            a, b = 0, a
        b = operator.index(b)
        n = (b - a + step - 1) // step
        if n <= 0:
            raise ValueError('empty range for randrange()')
        return a + (n - 1) * step if bit() else a
    random.random = lambda: top if bit() else 0.0
    random.randint = lambda a, b: _ORIG[1](a, b) if (b < a or not isinstance(a, int) or not isinstance(b, int)) else (b if bit() else a)
    random.uniform = lambda a, b: a + (b - a) * (top if bit() else 0.0)
    random.randrange = rrange


def pick_seed(rng, p_extreme=0.2):
    """a case seed: mostly ordinary, sometimes an extreme one"""
    if rng.random() < p_extreme:
        return EXT_BASE + (rng.choice(EXT_PATTERNS) if rng.random() < 0.7 else rng.getrandbits(16))
    return rng.randint(0, 10 ** 6)


def make_leaf(spec):
    """spec = {'cls': name, 'args': {...}, 'pin': {...} or None}"""
    cls = getattr(A, spec['cls'])
    t = cls(**spec.get('args', {}))
    pin = spec.get('pin')
    if pin is not None:
        pin = dict(pin)
        if getattr(t, 'targets_as_params', None):
            t.get_params = lambda: {}
            t.get_params_dependent_on_targets = lambda params, _p=pin: dict(_p)
        else:
            t.get_params = lambda _p=pin: dict(_p)
    return t


def make_node(spec):
    if 'children' in spec:
        cls = getattr(A, spec['op'])
        kids = [make_node(c) for c in spec['children']]
        return cls(kids, **spec.get('args', {}))
    return make_leaf(spec)


def build(specs, bbox_format=None, kp_format=None, bbox_kw=None, kp_kw=None, compose_kw=None, cls='Compose'):
    kw = dict(compose_kw or {})
    if bbox_format:
        kw['bbox_params'] = A.BboxParams(format=bbox_format, **(bbox_kw or {}))
    if kp_format:
        kw['keypoint_params'] = A.KeypointParams(format=kp_format, **(kp_kw or {}))
    return getattr(A, cls)([make_node(s) for s in specs], **kw)


def labelled(shape, dtype='int32'):
    """volume whose voxel values are their own linear index + 1 (0 is left for fill)"""
    n = int(np.prod(shape))
    return (np.arange(n, dtype=np.int64) + 1).reshape(shape).astype(dtype)


def close(a, b, tol=1e-9):
    return abs(a - b) <= tol * max(1.0, abs(a), abs(b))


def seq_close(a, b, tol=1e-9):
    return len(a) == len(b) and all(close(float(x), float(y), tol) for x, y in zip(a, b))


def ang_close_deg(a, b, tol=1e-7):
    d = (a - b) % 360.0
    return min(d, 360.0 - d) <= tol


def ang_close_rad(a, b, tol=1e-9):
    d = (a - b) % (2 * math.pi)
    return min(d, 2 * math.pi - d) <= tol
