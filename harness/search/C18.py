"""C18 failing-input search: image-only transforms vs an independent NumPy / SciPy evaluation of the
documented formula with the parameters recorded by ReplayCompose: dtype kept, values inside the
dtype's nominal range (saturated, never wrapped), +-1 LSB where truncation is ill-conditioned;
point-wise transforms commute with voxel permutations, symmetric-kernel filters with flips."""
import random
import re

import numpy as np
from scipy import ndimage

import implrun as R

A = R.A
LO = {'uint8': 0, 'uint16': 0, 'int16': -32768, 'int32': -2147483648, 'float32': 0.0, 'float64': None}
HI = {'uint8': 255, 'uint16': 65535, 'int16': 32767, 'int32': 2147483647, 'float32': 1.0, 'float64': None}
MODES = {'reflect': 'reflect', 'constant': 'constant', 'nearest': 'nearest', 'mirror': 'mirror', 'wrap': 'wrap'}


def doc_dtypes(name):
    m = re.search(r'Image types:\s*\n\s*([^\n]+)', getattr(A, name).__doc__ or '')
    out = [d for d in re.findall(r'[a-z]+[0-9]+', m.group(1))] if m else []
    if m and 'any' in m.group(1).lower():
        out = ['uint8', 'uint16', 'int16', 'int32', 'float32']
    return [d for d in out if d in LO] or ['uint8', 'float32']


def make_blocks(dt, shape, rs):
    """piecewise-constant volume (flat boxes on a flat background): filters meet exact ties there -- residual
    exactly 0 inside a flat region, equal neighbours under a median -- which noise images never produce"""
    # values away from both ends of the range, so that clipping does not hide what a filter does at an edge
    fr = [0.3, 0.2, 0.45, 0.6, 0.8]
    if dt.startswith('float'):
        vals = fr
    else:
        lo, hi = max(LO[dt], 0), HI[dt]
        vals = [int(lo + f * (hi - lo)) for f in fr]
    img = np.full(shape, vals[0], dtype=dt)
    for _ in range(rs.randint(1, 3)):
        a = [rs.randint(0, max(1, n - 4)) for n in shape[:3]]
        b = [rs.randint(min(x + 4, n), n + 1) for x, n in zip(a, shape[:3])]
        img[a[0]:b[0], a[1]:b[1], a[2]:b[2]] = vals[rs.randint(1, len(vals))]
    return img


def make_image(dt, shape, rs, extremes=True):
    if dt.startswith('float'):
        img = rs.rand(*shape).astype(dt)
        if extremes:
            img.flat[0], img.flat[1] = 0.0, 1.0
        return img
    lo, hi = LO[dt], HI[dt]
    span = min(hi - lo, 4000)
    img = rs.randint(0, span, shape).astype(np.int64) + (lo if rs.rand() < 0.3 else max(lo, 0))
    img = np.clip(img, lo, hi)
    if extremes:
        img.flat[0], img.flat[1], img.flat[2] = lo, hi, hi - 1
    return img.astype(dt)


def sat(x, dt):
    """clip to the nominal range and cast like ndarray.astype (truncation)"""
    if dt == 'float64':
        return x.astype(dt)
    y = np.clip(x, LO[dt], HI[dt])
    return y.astype(dt)


def close_int(a, b, tol=1):
    return a.shape == b.shape and np.all(np.abs(a.astype(np.float64) - b.astype(np.float64)) <= tol)


def close_f(a, b, rtol=2e-5, atol=2e-6):
    return a.shape == b.shape and np.allclose(a.astype(np.float64), b.astype(np.float64), rtol=rtol, atol=atol)


def cmp(out, exp, dt, tol=1):
    if str(out.dtype) != str(exp.dtype):
        return 'dtype %s (expected %s)' % (out.dtype, exp.dtype)
    ok = close_f(out, exp) if str(exp.dtype).startswith('float') else close_int(out, exp, tol)
    if ok:
        return None
    d = np.abs(out.astype(np.float64) - exp.astype(np.float64))
    i = np.unravel_index(int(np.argmax(d)), d.shape)
    return '%d voxels differ from the formula; worst at %s: observed %s expected %s' % (int(np.sum(d > (tol if not str(exp.dtype).startswith('float') else 1e-4))), tuple(int(x) for x in i), out[i], exp[i])


def expected(name, kw, prm, img, dt):
    """independent evaluation; returns (expected array, LSB tolerance) or None when only invariants are checked"""
    x = img.astype(np.float64)
    if name == 'Normalize':
        mean = kw.get('mean'); std = kw.get('std')
        ax = None if img.ndim == 3 else tuple(range(img.ndim - 1))
        mean = np.mean(x, axis=ax) if mean is None else np.array(mean, np.float64)
        std = np.std(x, axis=ax) if std is None else np.array(std, np.float64)
        return ((x - mean) / std).astype(np.float32), 0
    if name == 'ToFloat':
        lo = kw.get('min_value'); hi = kw.get('max_value')
        if lo is None or hi is None:
            lo, hi = LO[dt], HI[dt]
        return ((x - lo) / (hi - lo)).astype(np.float32), 0
    if name == 'FromFloat':
        t = kw.get('dtype', 'uint16')
        lo = kw.get('min_value'); hi = kw.get('max_value')
        if lo is None or hi is None:
            lo, hi = LO[t], HI[t]
        return (x * (hi - lo) + lo).astype(t), 1
    if name == 'InvertImg':
        if dt.startswith('float'):
            return (HI[dt] - (x + LO[dt])).astype(dt), 0
        return (HI[dt] - x + (0 if LO[dt] == 0 else -HI[dt] - 1 - LO[dt] - LO[dt] * 0 + LO[dt] * 0 + (-(LO[dt]) - HI[dt] - 1))).astype(dt) if False else \
            ((HI[dt] - x) if LO[dt] == 0 else (-1 - x)).astype(dt), 0
    if name == 'RandomGamma':
        with np.errstate(all='ignore'):
            y = np.power(x, prm['gamma'])
        return sat(np.nan_to_num(y, nan=0.0, posinf=1e300), dt), 1
    if name == 'RandomBrightnessContrast':
        a, b, mb = prm['alpha'], prm['beta'], kw.get('max_brightness')
        y = x * a
        if b != 0:
            y = y + (b * mb if mb is not None else b * np.mean(y))
        if mb is not None:
            y = np.clip(y, LO[dt], mb)
        return sat(y, dt), 2
    if name == 'GaussNoise':
        return sat(x + np.asarray(prm['gauss'], np.float64), dt), 1
    if name == 'Posterize':
        bits = prm['num_bits']
        if isinstance(bits, (list, tuple)):
            # per-channel depths (documented for 3-channel uint8 images): each channel keeps its own number of high bits
            if not (dt == 'uint8' and img.ndim == 4 and len(bits) == img.shape[-1]):
                return None
            out = img.copy()
            for c, b in enumerate(bits):
                out[..., c] = 0 if b == 0 else (img[..., c] & ~np.uint8(2 ** (8 - int(b)) - 1))
            return out, 0
        nb = {'uint8': 8, 'uint16': 8, 'int16': 16, 'int32': 32}[dt]
        if bits == 0:
            return np.zeros_like(img), 0
        mask = ~np.array(2 ** (nb - bits) - 1, dtype=dt)
        return (img & mask), 0
    if name in ('Blur', 'MedianBlur'):
        k = int(prm['ksize'])
        mode, cval, bys = kw.get('mode', 'constant'), kw.get('cval', 0), kw.get('by_slice', False)
        size = (k, k, 1) if bys else (k, k, k)

        def one(v):
            if name == 'Blur':
                ker = np.ones(size, np.float64) / np.prod(size)
                return ndimage.convolve(v.astype(np.float64), ker, mode=mode, cval=cval)
            return ndimage.median_filter(v, size=size, mode=mode, cval=cval).astype(np.float64)
        y = one(img) if img.ndim == 3 else np.stack([one(img[..., c]) for c in range(img.shape[-1])], -1)
        return sat(y, dt), 1
    if name in ('GaussianBlur', 'UnsharpMask'):
        if dt == 'float64':
            return None
        k, sg = int(prm['ksize']), float(prm['sigma'])
        if k == 0:
            k = int(round(sg * 8) + 1)
        if sg == 0:
            sg = 0.3 * ((k - 1) * 0.5 - 1) + 0.8
        mode, cval = kw.get('mode', 'constant'), kw.get('cval', 0)
        r = (k - 1) // 2
        radius = (r, r, 0) if (name == 'GaussianBlur' and kw.get('by_slice', False)) else (r, r, r)
        g = lambda v: ndimage.gaussian_filter(v, sigma=sg, radius=radius, mode=mode, cval=cval)
        chan = lambda f, v: f(v) if v.ndim == 3 else np.stack([f(v[..., c]) for c in range(v.shape[-1])], -1)
        if name == 'GaussianBlur':
            return chan(g, img), 1
        # UnsharpMask, the documented formula in the float32 arithmetic of to_float / from_float:
        #   residual = x - gauss(x); mask = |residual| > threshold (strictly: flat areas are never sharpened);
        #   out = soft * clip(x + alpha * residual, 0, 1) + (1 - soft) * x  with  soft = gauss(mask)
        lo, hi = (0.0, 1.0) if dt == 'float32' else (LO[dt], HI[dt])
        xf = img if dt == 'float32' else (img.astype('float32') - lo) / (hi - lo)
        alpha, thr = float(prm['alpha']), kw.get('threshold', 0.05)

        def one(v):
            res_ = v - g(v)
            m = (np.abs(res_) > thr).astype('float32')
            sharp = np.clip(v + alpha * res_, 0, 1)
            soft = g(m)
            return soft * sharp + (1 - soft) * v
        y = chan(one, xf)
        if dt == 'float32':
            return np.clip(y, 0, 1).astype('float32'), 1
        span = hi - lo
        return sat(y.astype(np.float64) * span + lo, dt), max(2, int(span * 4e-7))
    if name == 'Sharpen':
        ker = np.asarray(prm['sharpening_matrix'], np.float64)
        mode, cval = kw.get('mode', 'constant'), kw.get('cval', 0)
        one = lambda v: ndimage.convolve(v.astype(np.float64), ker, mode=mode, cval=cval)
        y = one(img) if img.ndim == 3 else np.stack([one(img[..., c]) for c in range(img.shape[-1])], -1)
        return sat(y, dt), 2
    if name == 'Downscale':
        sc = prm['scale']
        itp = prm['__interpolation__']        # as persisted in the record (the default is nearest for both)
        down, up = (itp['downscale'], itp['upscale']) if isinstance(itp, dict) else (itp, itp)

        def one(v):
            d = ndimage.zoom(v, sc, order=down)
            inv = tuple(v.shape[i] / d.shape[i] for i in range(3))
            return ndimage.zoom(d, inv, order=up)
        y = one(img) if img.ndim == 3 else np.stack([one(img[..., c]) for c in range(img.shape[-1])], -1)
        return sat(y, dt) if dt != 'float64' else y.astype(dt), 1
    return None


POINTWISE = {'Normalize', 'ToFloat', 'FromFloat', 'InvertImg', 'RandomGamma', 'RandomBrightnessContrast', 'Posterize'}
SYMMETRIC = {'Blur', 'MedianBlur', 'GaussianBlur', 'Sharpen', 'UnsharpMask'}
CONFIGS = {
    'Normalize': [{}, {'mean': 10.0, 'std': 2.0}, {'mean': 0.25, 'std': 0.5}],
    'ToFloat': [{}, {'min_value': 0.0, 'max_value': 1000.0}],
    'FromFloat': [{'dtype': 'uint8'}, {'dtype': 'uint16'}, {'dtype': 'int16'}, {'dtype': 'uint16', 'min_value': 0.0, 'max_value': 100.0}],
    'InvertImg': [{}],
    'RandomGamma': [{}, {'gamma_limit': (50, 150)}, {'gamma_limit': 120}],
    'RandomBrightnessContrast': [{}, {'max_brightness': 200}, {'brightness_limit': 0.5, 'contrast_limit': 0.4}, {'max_brightness': 1.0},
                                 # contrast only (beta = 0) and brightness only (alpha = 1), with and without the ceiling
                                 {'max_brightness': 200, 'brightness_limit': 0, 'contrast_limit': (0.3, 0.5)},
                                 {'brightness_limit': 0, 'contrast_limit': (0.3, 0.5)},
                                 {'max_brightness': 200, 'brightness_limit': (0.1, 0.3), 'contrast_limit': 0},
                                 {'brightness_limit': (-0.3, -0.1), 'contrast_limit': 0}],
    'GaussNoise': [{}, {'var_limit': 20.0, 'mean': 3}, {'var_limit': (5.0, 30.0), 'per_channel': False},
                   {'apply_to_channel_idx': 0, 'var_limit': 30.0}, {'apply_to_channel_idx': 1, 'var_limit': 30.0, 'per_channel': False}],
    'Posterize': [{'num_bits': 4}, {'num_bits': (2, 6)}, {'num_bits': 1}, {'num_bits': [3, 8, 5], '__channels__': 3},
                  {'num_bits': [[3, 4], [8, 8], [2, 6]], '__channels__': 3}, {'num_bits': [1, 7, 0], '__channels__': 3}],
    'Blur': [{}, {'blur_limit': (3, 5), 'by_slice': True}, {'mode': 'reflect'}, {'mode': 'nearest', 'cval': 3}, {'mode': 'wrap'},
             {'blur_limit': (4, 4)}, {'blur_limit': (2, 6), 'by_slice': True}, {'blur_limit': (6, 6), 'mode': 'reflect'},
             {'mode': 'constant', 'cval': 7}],
    'MedianBlur': [{}, {'blur_limit': 3, 'by_slice': True}, {'mode': 'mirror'}, {'mode': 'constant', 'cval': 7},
                   {'mode': 'constant', 'cval': 7, 'by_slice': True, 'blur_limit': (3, 5)}],
    'GaussianBlur': [{}, {'sigma_limit': (0.5, 2)}, {'blur_limit': (3, 5), 'mode': 'reflect'}, {'mode': 'constant', 'cval': 7},
                     {'by_slice': True, 'mode': 'nearest'}],
    'Sharpen': [{}, {'alpha': (0.1, 0.9), 'lightness': (0.2, 1.5)}, {'mode': 'reflect'}, {'mode': 'constant', 'cval': 7}],
    'UnsharpMask': [{}, {'alpha': 0.7, 'threshold': 0.2}, {'mode': 'mirror'}, {'threshold': 0.0, 'alpha': 0.5},
                    {'threshold': 0.0, 'blur_limit': (3, 5), 'alpha': (0.3, 0.9)}, {'mode': 'constant', 'cval': 0.5}],
    'Downscale': [{}, {'scale_min': 0.3, 'scale_max': 0.6}, {'interpolation': 0}, {'interpolation': {'downscale': 0, 'upscale': 1}},
                  {'interpolation': {'downscale': 1, 'upscale': 0}}, {'interpolation': {'downscale': 3, 'upscale': 1}}],
}


def check(case):
    name, kw, dt = case['name'], dict(case['kw']), case['dtype']
    kw = {k: (tuple(v) if isinstance(v, list) else v) for k, v in kw.items()}
    shape = tuple(case['shape']) + ((case['channels'],) if case['channels'] else ())
    if '__channels__' in kw:
        # a configuration that addresses the channels: documented for uint8 images with that many channels
        if dt != 'uint8':
            return None
        shape = tuple(case['shape']) + (kw.pop('__channels__'),)
    rs = np.random.RandomState(case['seed'] % 99989)
    if 'apply_to_channel_idx' in kw and len(shape) == 3:
        shape = shape + (2,)           # the option addresses a channel: needs a channel axis
    img = make_blocks(dt, shape, rs) if case.get('structure') == 'blocks' else make_image(dt, shape, rs)
    if name == 'RandomBrightnessContrast' and kw.get('max_brightness') == 1.0 and not dt.startswith('float'):
        kw['max_brightness'] = 200
    if name == 'RandomBrightnessContrast' and kw.get('max_brightness') == 200 and dt.startswith('float'):
        kw['max_brightness'] = 1.0
    if dt.startswith('float') and isinstance(kw.get('cval'), (int, float)) and kw['cval'] > 1:
        kw['cval'] = 0.5          # a border value inside the nominal range of the float image
    random.seed(case['seed'])
    try:
        pipe = A.ReplayCompose([getattr(A, name)(p=1.0, **kw)])
        res = pipe(image=img.copy())
    except Exception as e:  # noqa -- whether a documented configuration runs is C08's question
        return None
    out = res['image']
    prm = dict(res['replay']['transforms'][0]['params'] or {})
    prm['__interpolation__'] = res['replay']['transforms'][0].get('interpolation')
    want_dt = 'float32' if name in ('Normalize', 'ToFloat') else (kw.get('dtype', 'uint16') if name == 'FromFloat' else dt)
    if str(out.dtype) != want_dt:
        return ('dtype', 'returned %s' % out.dtype, want_dt)
    if out.shape != img.shape:
        return ('shape', str(out.shape), str(img.shape))
    custom = name in ('ToFloat', 'FromFloat') and ('min_value' in kw or 'max_value' in kw)
    if name not in ('Normalize',) and not custom and want_dt != 'float64' and LO.get(want_dt) is not None:
        if out.min() < LO[want_dt] or out.max() > HI[want_dt]:
            return ('range', 'values in [%s, %s]' % (out.min(), out.max()), 'inside [%s, %s]' % (LO[want_dt], HI[want_dt]))
    if kw.get('apply_to_channel_idx') is not None and out.ndim == 4:
        k_ = kw['apply_to_channel_idx']
        others = [c for c in range(out.shape[-1]) if c != k_]
        if any(not np.array_equal(out[..., c], img[..., c]) for c in others):
            return ('channel', 'channels %s changed as well' % [c for c in others if not np.array_equal(out[..., c], img[..., c])],
                    'only channel %d receives noise, every other channel bit-identical' % k_)
        if np.array_equal(out[..., k_], img[..., k_]):
            return ('channel', 'channel %d unchanged' % k_, 'noise on channel %d' % k_)
    e = expected(name, kw, prm, img, dt)
    if e is not None:
        exp, tol = e
        bad = cmp(out, exp, want_dt, tol)
        if bad:
            return ('formula', bad, 'the documented formula with the recorded parameters %s' % {k: (v if np.ndim(v) == 0 or isinstance(v, dict) else '<array>') for k, v in prm.items()})
    rec = res['replay']
    if name in POINTWISE:
        perm = rs.permutation(int(np.prod(shape[:3])))
        pimg = img.reshape((-1,) + shape[3:])[perm].reshape(shape)
        pout = A.ReplayCompose.replay(rec, image=pimg)['image']
        pexp = out.reshape((-1,) + out.shape[3:])[perm].reshape(out.shape)
        # formulas with a global statistic (mean of the image) see another summation order after the permutation:
        # one LSB of round-off is not a different formula
        loose = name in ('RandomBrightnessContrast', 'Normalize') and not str(out.dtype).startswith('float') and close_int(pout, pexp, 1)
        if not (np.array_equal(pout, pexp) or loose or (str(out.dtype).startswith('float') and close_f(pout, pexp))):
            return ('permutation', 'T(permuted image) differs from permuted T(image) at %d voxels' % int(np.sum(pout != pexp)), 'point-wise transforms commute with voxel permutations')
    # an even-sized window has no centre voxel: the filter is a shifted one and does not commute with flips
    if name in SYMMETRIC and not (isinstance(prm.get('ksize'), (int, np.integer)) and int(prm['ksize']) % 2 == 0 and int(prm['ksize']) > 0):
        ax = case['flip_axis']
        fout = A.ReplayCompose.replay(rec, image=np.ascontiguousarray(np.flip(img, ax)))['image']
        fexp = np.flip(out, ax)
        okf = close_f(fout, fexp, 1e-4, 1e-5) if str(out.dtype).startswith('float') else close_int(fout, fexp, 1)
        if not okf:
            return ('flip', 'T(flipped image) differs from flipped T(image) at %d voxels (axis %d)' % (int(np.sum(fout != fexp)), ax), 'symmetric-kernel filters commute with flips')
    return None


def check_convolve(case):
    """F.convolve with an odd-sized NON-symmetric kernel against the convolution sum written out:
    out[i] = sum_a w[a] * x[i + c - a]  (c = centre index, zero outside the volume), then saturated to the dtype"""
    import dicaugment.augmentations.functional as F
    rs = np.random.RandomState(case['seed'] % 99989)
    dt = case['dtype']
    shape = tuple(case['shape'])
    img = make_image(dt, shape, rs, extremes=False)
    ksh = tuple(case['kshape'])
    ker = rs.randint(-2, 4, ksh).astype(np.float64)
    ker[tuple(0 for _ in ksh)] += 1.5          # make sure it is not point-symmetric
    try:
        out = F.convolve(img.copy(), ker)
    except Exception as e:  # noqa
        return ('raises', '%s: %s' % (type(e).__name__, str(e)[:120]), 'runs')
    x = img.astype(np.float64)
    c = [k // 2 for k in ksh]
    xp = np.pad(x, [(k, k) for k in ksh], mode='constant')
    acc = np.zeros_like(x)
    for a in range(ksh[0]):
        for b in range(ksh[1]):
            for d in range(ksh[2]):
                oy, ox, oz = c[0] - a + ksh[0], c[1] - b + ksh[1], c[2] - d + ksh[2]
                acc += ker[a, b, d] * xp[oy:oy + shape[0], ox:ox + shape[1], oz:oz + shape[2]]
    exp = sat(acc, dt)
    bad = cmp(out, exp, dt, 1)
    return ('formula', bad, 'the convolution sum with the kernel %s' % ker.tolist()) if bad else None


def run(seed=0, tier='quick', hints=None, broken=False):
    rng = random.Random(seed * 472882027 + 18)
    reps = 1 if tier == 'quick' else 12
    if broken:
        reps *= 3
    viol, evals, seen = [], 0, set()
    for _ in range(reps):
        for name, cfgs in sorted(CONFIGS.items()):
            for kw in cfgs:
                for dt in doc_dtypes(name):
                    if name == 'FromFloat' and dt != 'float32':
                        continue
                    case = {'name': name, 'kw': kw, 'dtype': dt, 'shape': rng.sample([5, 6, 7, 8, 9], 3),
                            'channels': rng.choice([None, None, 2]) if name not in ('GaussNoise',) else rng.choice([None, 2]),
                            'seed': rng.randint(0, 10 ** 6), 'flip_axis': rng.randrange(3)}
                    # both channel layouts for EVERY configuration and dtype (a statistic taken over the wrong axes, a
                    # kernel or table applied across the channel axis show only with the channel axis present)
                    todo = [case, dict(case, channels=(None if case['channels'] else 2), seed=rng.randint(0, 10 ** 6))]
                    if name in SYMMETRIC:
                        # the neighbourhood filters also on a piecewise-constant volume; flat regions must be thicker
                        # than the filter radius (up to 3) to contain exact ties
                        todo.append(dict(case, structure='blocks', shape=rng.sample([11, 12, 13, 14, 16], 3), seed=rng.randint(0, 10 ** 6)))
                    for case in todo:
                        bad = check(case)
                        evals += 1
                        seen.add((name, repr(sorted(kw)), dt, case.get('structure')))
                        if bad:
                            viol.append({'site': 'C18:%s:%s' % (name, bad[0]), 'case': case, 'observed': str(bad[1])[:300], 'expected': str(bad[2])[:300]})
    for i in range(6 if tier == 'quick' else 120):
        case = {'name': 'F.convolve', 'dtype': rng.choice(['uint8', 'uint16', 'int16', 'float32']), 'shape': rng.sample([4, 5, 6, 7], 3),
                'kshape': [rng.choice([1, 3]), rng.choice([1, 3]), rng.choice([1, 3, 5])], 'seed': rng.randint(0, 10 ** 6)}
        if case['kshape'] == [1, 1, 1]:
            case['kshape'] = [3, 1, 1]
        bad = check_convolve(case)
        evals += 1
        if bad:
            viol.append({'site': 'C18:F.convolve:%s' % bad[0], 'case': case, 'observed': str(bad[1])[:300], 'expected': str(bad[2])[:300]})
    return {'violations': viol, 'info': {'evaluations': evals, 'distinct': len(seen),
                                         'what': 'image-only transforms vs independent formula; dtype / range; permutation and flip commutation'}}


def replay(v):
    if v['case'].get('name') == 'F.convolve':
        bad = check_convolve(v['case'])
        return [{'site': 'C18:F.convolve:%s' % bad[0], 'case': v['case'], 'observed': str(bad[1]), 'expected': str(bad[2])}] if bad else []
    bad = check(v['case'])
    return [{'site': 'C18:%s:%s' % (v['case']['name'], bad[0]), 'case': v['case'], 'observed': str(bad[1]), 'expected': str(bad[2])}] if bad else []
