(* Dispatch.v -- hand-written model of BasicTransform._get_target_function / apply_with_params:
   a keyword is mapped through the additional-target table, looked up in the transform's target
   table, and handled by the identity when it is not there; None values pass through. *)
From Coq Require Import List String Bool.
Import ListNotations.
Open Scope string_scope.

Section Dispatch.
Variable value : Type.
(* the target functions of one transform: target name -> function (already closed over params) *)
Definition table : Type := list (string * (value -> value)).

Fixpoint lookup {A} (k : string) (l : list (string * A)) : option A :=
  match l with
  | [] => None
  | (k', v) :: tl => if String.eqb k k' then Some v else lookup k tl
  end.

Definition target_function (targets : table) (additional : list (string * string)) (key : string) : value -> value :=
  let tkey := match lookup key additional with Some t => t | None => key end in
  match lookup tkey targets with Some f => f | None => fun x => x end.

(* apply_with_params on a keyword dict (None values are kept as None) *)
Definition apply_with_params (targets : table) (additional : list (string * string))
  (kwargs : list (string * option value)) : list (string * option value) :=
  map (fun kv => (fst kv, match snd kv with
                          | Some v => Some (target_function targets additional (fst kv) v)
                          | None => None
                          end)) kwargs.

Lemma untouched_key targets additional key v :
  lookup key additional = None -> lookup key targets = None ->
  target_function targets additional key v = v.
Proof. intros A B. unfold target_function. rewrite A, B. reflexivity. Qed.

Lemma same_keys targets additional kwargs :
  map fst (apply_with_params targets additional kwargs) = map fst kwargs.
Proof. unfold apply_with_params. rewrite map_map. reflexivity. Qed.

(* an image-only transform (target table = [image]) returns every other keyword unchanged *)
Lemma image_only_passthrough (f : value -> value) additional kwargs :
  (forall k t, lookup k additional = Some t -> t <> "image") ->
  forall k v, In (k, Some v) kwargs -> k <> "image" ->
  In (k, Some v) (apply_with_params [("image", f)] additional kwargs).
Proof.
  intros Hadd k v Hin Hk. unfold apply_with_params. apply in_map_iff.
  exists (k, Some v). split; [|exact Hin]. cbn. f_equal. f_equal.
  unfold target_function. destruct (lookup k additional) as [t|] eqn:E.
  - cbn. destruct (String.eqb_spec t "image") as [->|N]; [exfalso; eapply Hadd; eauto|reflexivity].
  - cbn. destruct (String.eqb_spec k "image"); [contradiction|reflexivity].
Qed.

End Dispatch.

(* ---- DualTransform: the target table and the list-valued targets.  Values are abstracted to integers (an array,
   the geometry of an annotation, the header); an annotation is (geometry, trailing fields).  Every entry of
   `masks` goes through apply_to_mask, every box through apply_to_bbox with its trailing fields kept, in order. ---- *)
From Coq Require Import ZArith.
Inductive dval : Type :=
| VArr (z : Z)                         (* image, mask, header *)
| VList (l : list Z)                   (* masks *)
| VAnn (l : list (Z * Z)).             (* bboxes / keypoints: (geometry, trailing fields) *)

Section Dual.
Variables fi fm fb fk fd : Z -> Z.     (* apply, apply_to_mask, apply_to_bbox, apply_to_keypoint, apply_to_dicom *)

Definition dual_target (tkey : string) (v : dval) : dval :=
  match v with
  | VArr z => if String.eqb tkey "image" then VArr (fi z)
              else if String.eqb tkey "mask" then VArr (fm z)
              else if String.eqb tkey "dicom" then VArr (fd z) else v
  | VList l => if String.eqb tkey "masks" then VList (map fm l) else v
  | VAnn l => if String.eqb tkey "bboxes" then VAnn (map (fun gt => (fb (fst gt), snd gt)) l)
              else if String.eqb tkey "keypoints" then VAnn (map (fun gt => (fk (fst gt), snd gt)) l) else v
  end.

Definition dual_apply (additional : list (string * string)) (kwargs : list (string * option dval))
  : list (string * option dval) :=
  map (fun kv => let tkey := match lookup (fst kv) additional with Some t => t | None => fst kv end in
                 (fst kv, match snd kv with Some v => Some (dual_target tkey v) | None => None end)) kwargs.

Lemma masks_entrywise l : dual_target "masks" (VList l) = VList (map fm l).
Proof. reflexivity. Qed.
Lemma boxes_keep_their_tails l :
  dual_target "bboxes" (VAnn l) = VAnn (map (fun gt => (fb (fst gt), snd gt)) l) /\
  map snd (map (fun gt => (fb (fst gt), snd gt)) l) = map snd l.
Proof. split; [reflexivity|]. rewrite map_map. reflexivity. Qed.
Lemma keypoints_keep_their_tails l :
  dual_target "keypoints" (VAnn l) = VAnn (map (fun gt => (fk (fst gt), snd gt)) l) /\
  map snd (map (fun gt => (fk (fst gt), snd gt)) l) = map snd l.
Proof. split; [reflexivity|]. rewrite map_map. reflexivity. Qed.
Lemma dual_same_keys additional kwargs : map fst (dual_apply additional kwargs) = map fst kwargs.
Proof. unfold dual_apply. rewrite map_map. reflexivity. Qed.
End Dual.
