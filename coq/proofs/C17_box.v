(* C17 -- group laws of the lattice box maps (generated code). *)
From DV.lib Require Import PyNum PyRt.
From DV.gen Require Import Gen_bbox_utils Gen_geom_functional.
From DV.proofs Require Import Tac.
From Coq Require Import Lqa Lia.
Open Scope Q_scope.

Definition planes : list string := ["xy"%string; "yz"%string; "xz"%string].
Definition factors : list Z := [0; 1; 2; 3]%Z.
Definition flipcodes : list Z := [-1; 0; 1; 2]%Z.

Section Frame.
Variables r c s r' c' s' : Z.   (* frame sizes are ignored by the box maps: any values *)

Lemma bbox_vflip_invol b : box_eq (bbox_vflip (bbox_vflip b r c s) r' c' s') b.
Proof. destruct_box b. unfold bbox_vflip. box_solve. Qed.
Lemma bbox_hflip_invol b : box_eq (bbox_hflip (bbox_hflip b r c s) r' c' s') b.
Proof. destruct_box b. unfold bbox_hflip. box_solve. Qed.
Lemma bbox_zflip_invol b : box_eq (bbox_zflip (bbox_zflip b r c s) r' c' s') b.
Proof. destruct_box b. unfold bbox_zflip. box_solve. Qed.

Lemma bbox_flip_invol b d : In d flipcodes ->
  res_box_eq (do b1 <- bbox_flip b d r c s; bbox_flip b1 d r' c' s') (Ok b).
Proof.
  intros H. destruct_box b. unfold flipcodes in H. in_cases H;
  unfold bbox_flip, bbox_vflip, bbox_hflip, bbox_zflip; cbn; repeat split; lra.
Qed.

Lemma bbox_flips_commute b :
  box_eq (bbox_vflip (bbox_hflip b r c s) r c s) (bbox_hflip (bbox_vflip b r c s) r c s) /\
  box_eq (bbox_vflip (bbox_zflip b r c s) r c s) (bbox_zflip (bbox_vflip b r c s) r c s) /\
  box_eq (bbox_hflip (bbox_zflip b r c s) r c s) (bbox_zflip (bbox_hflip b r c s) r c s).
Proof. destruct_box b. unfold bbox_vflip, bbox_hflip, bbox_zflip. repeat split; cbn; lra. Qed.

Lemma bbox_flip_all b :
  res_box_eq (bbox_flip b (-1) r c s)
             (Ok (bbox_zflip (bbox_vflip (bbox_hflip b r c s) r c s) r c s)).
Proof. destruct_box b. unfold bbox_flip, bbox_vflip, bbox_hflip, bbox_zflip. cbn. repeat split; lra. Qed.

Lemma bbox_transpose_invol b :
  res_box_eq (do b1 <- bbox_transpose b 0 r c s; bbox_transpose b1 0 r' c' s') (Ok b).
Proof. destruct_box b. unfold bbox_transpose. cbn. repeat split; lra. Qed.

(* k quarter turns followed by 4-k quarter turns in the same plane *)
Lemma bbox_rot90_inverse b k ax : In k factors -> In ax planes ->
  res_box_eq (do b1 <- bbox_rot90 b k ax r c s; bbox_rot90 b1 ((4 - k) mod 4) ax r' c' s') (Ok b).
Proof.
  intros Hk Ha. destruct_box b. unfold factors in Hk. unfold planes in Ha.
  in_cases Hk; in_cases Ha; unfold bbox_rot90; cbn; repeat split; lra.
Qed.

(* four quarter turns *)
Lemma bbox_rot90_four b ax : In ax planes ->
  res_box_eq (do b1 <- bbox_rot90 b 1 ax r c s; do b2 <- bbox_rot90 b1 1 ax r c s;
              do b3 <- bbox_rot90 b2 1 ax r c s; bbox_rot90 b3 1 ax r c s) (Ok b).
Proof.
  intros Ha. destruct_box b. unfold planes in Ha.
  in_cases Ha; unfold bbox_rot90; cbn; repeat split; lra.
Qed.

(* factor k equals k single quarter turns *)
Lemma bbox_rot90_two b ax : In ax planes ->
  res_box_eq (do b1 <- bbox_rot90 b 1 ax r c s; bbox_rot90 b1 1 ax r c s) (bbox_rot90 b 2 ax r c s).
Proof.
  intros Ha. destruct_box b. unfold planes in Ha.
  in_cases Ha; unfold bbox_rot90; cbn; repeat split; lra.
Qed.
Lemma bbox_rot90_three b ax : In ax planes ->
  res_box_eq (do b1 <- bbox_rot90 b 2 ax r c s; bbox_rot90 b1 1 ax r c s) (bbox_rot90 b 3 ax r c s).
Proof.
  intros Ha. destruct_box b. unfold planes in Ha.
  in_cases Ha; unfold bbox_rot90; cbn; repeat split; lra.
Qed.

(* ---- relations BETWEEN the lattice maps (presentation of the dihedral group of the xy plane) ---- *)
(* a quarter turn is the transpose followed by the vertical flip *)
Lemma bbox_rot90_is_transpose_vflip b :
  res_box_eq (bbox_rot90 b 1 "xy" r c s) (do b1 <- bbox_transpose b 0 r c s; Ok (bbox_vflip b1 r' c' s')).
Proof. destruct_box b. unfold bbox_rot90, bbox_transpose, bbox_vflip. cbn. repeat split; lra. Qed.
(* three quarter turns: the transpose followed by the horizontal flip *)
Lemma bbox_rot270_is_transpose_hflip b :
  res_box_eq (bbox_rot90 b 3 "xy" r c s) (do b1 <- bbox_transpose b 0 r c s; Ok (bbox_hflip b1 r' c' s')).
Proof. destruct_box b. unfold bbox_rot90, bbox_transpose, bbox_hflip. cbn. repeat split; lra. Qed.
(* a half turn in a plane is the two flips of that plane *)
Lemma bbox_rot180_is_two_flips b :
  res_box_eq (bbox_rot90 b 2 "xy" r c s) (Ok (bbox_vflip (bbox_hflip b r c s) r' c' s')) /\
  res_box_eq (bbox_rot90 b 2 "yz" r c s) (Ok (bbox_zflip (bbox_vflip b r c s) r' c' s')) /\
  res_box_eq (bbox_rot90 b 2 "xz" r c s) (Ok (bbox_zflip (bbox_hflip b r c s) r' c' s')).
Proof. destruct_box b. unfold bbox_rot90, bbox_vflip, bbox_hflip, bbox_zflip. cbn. repeat split; lra. Qed.
(* the transpose about the second diagonal is the transpose followed by a half turn *)
Lemma bbox_antitranspose_is_transpose_rot180 b :
  res_box_eq (bbox_transpose b 1 r c s) (do b1 <- bbox_transpose b 0 r c s; bbox_rot90 b1 2 "xy" r' c' s').
Proof. destruct_box b. unfold bbox_rot90, bbox_transpose. cbn. repeat split; lra. Qed.
(* conjugating k quarter turns of the xy plane by a flip of that plane gives 4-k quarter turns *)
Lemma bbox_flip_conjugates_rot90 b k : In k factors ->
  res_box_eq (do b1 <- bbox_rot90 (bbox_vflip b r c s) k "xy" r c s; Ok (bbox_vflip b1 r' c' s'))
             (bbox_rot90 b ((4 - k) mod 4) "xy" r c s) /\
  res_box_eq (do b1 <- bbox_rot90 (bbox_hflip b r c s) k "xy" r c s; Ok (bbox_hflip b1 r' c' s'))
             (bbox_rot90 b ((4 - k) mod 4) "xy" r c s).
Proof.
  intros Hk. destruct_box b. unfold factors in Hk.
  in_cases Hk; unfold bbox_rot90, bbox_vflip, bbox_hflip; cbn; repeat split; lra.
Qed.
(* the flip along the axis a plane does not contain commutes with the quarter turns of that plane *)
Lemma bbox_zflip_commutes_rot90_xy b k : In k factors ->
  res_box_eq (do b1 <- bbox_rot90 b k "xy" r c s; Ok (bbox_zflip b1 r' c' s'))
             (bbox_rot90 (bbox_zflip b r c s) k "xy" r c s).
Proof.
  intros Hk. destruct_box b. unfold factors in Hk.
  in_cases Hk; unfold bbox_rot90, bbox_zflip; cbn; repeat split; lra.
Qed.
Lemma bbox_hflip_commutes_rot90_yz b k : In k factors ->
  res_box_eq (do b1 <- bbox_rot90 b k "yz" r c s; Ok (bbox_hflip b1 r' c' s'))
             (bbox_rot90 (bbox_hflip b r c s) k "yz" r c s).
Proof.
  intros Hk. destruct_box b. unfold factors in Hk.
  in_cases Hk; unfold bbox_rot90, bbox_hflip; cbn; repeat split; lra.
Qed.
Lemma bbox_vflip_commutes_rot90_xz b k : In k factors ->
  res_box_eq (do b1 <- bbox_rot90 b k "xz" r c s; Ok (bbox_vflip b1 r' c' s'))
             (bbox_rot90 (bbox_vflip b r c s) k "xz" r c s).
Proof.
  intros Hk. destruct_box b. unfold factors in Hk.
  in_cases Hk; unfold bbox_rot90, bbox_vflip; cbn; repeat split; lra.
Qed.

End Frame.
