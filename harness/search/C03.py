"""C03 failing-input search: returned keypoints = image of the input keypoint under the map
the voxels underwent (derived from an index-labelled volume): position exactly for lattice
pipelines, angle mirrored/rotated with the xy plane and reported in [0, 2pi), scale times the
zoom, dropped iff outside the frame."""
import math
import random

import numpy as np

import geom
import implrun as R
import rotcheck as RC
import spatial as S


def expect_lattice(lat, kps, oshape, check_angle):
    h, w, d = oshape
    out = []
    for k in kps:
        x, y, z = geom.lat_point(lat, k[0], k[1], k[2])
        if not (0 <= x < w and 0 <= y < h and 0 <= z < d):
            continue
        a = geom.lat_angle(lat, k[3]) if check_angle else None
        out.append((x, y, z, a, k[4]) + tuple(k[5:]))
    return out


def kp_match(got, exp):
    if len(got) != len(exp):
        return False
    for g, e in zip(got, exp):
        if not R.seq_close(g[:3], e[:3], 1e-7):
            return False
        if not (0 <= g[3] < 2 * math.pi + 1e-12):
            return False
        if e[3] is not None and not R.ang_close_rad(float(g[3]), e[3], 1e-7):
            return False
        if not R.close(float(g[4]), e[4], 1e-9) or tuple(g[5:]) != tuple(e[5:]):
            return False
    return True


def check_lattice(name, specs, case, viol):
    shape = tuple(case['shape'])
    try:
        # several steps: filter once at the end (per-step filtering would also drop keypoints that
        # leave an INTERMEDIATE frame, which the end-to-end voxel map cannot show)
        res = S.run(specs, shape, case['seed'], kps=case['keypoints'],
                    kp_kw={'angle_in_degrees': False, 'check_each_transform': len(specs) == 1})
    except NotImplementedError:
        return      # transform without a keypoint path (documented)
    except Exception as e:  # noqa
        viol.append({'site': 'C03:%s:raises' % name, 'kind': 'lattice', 'name': name, 'pipeline': specs, 'case': case,
                     'observed': '%s: %s' % (type(e).__name__, e), 'expected': 'no exception'})
        return
    img = res['image']
    lat = geom.derive_lattice(img, shape)
    if lat is None:
        return
    # quarter turns in planes containing z keep the in-plane angle (library convention): skip the angle there
    check_angle = all(not (c['cls'] == 'RandomRotate90' and c['args'].get('axes') != 'xy') for c in specs)
    got = res['keypoints']
    ok = False
    exp0 = None
    for l in geom.variants(lat):
        ang_ok = check_angle and geom.lat_angle(l, 0.0) is not None
        exp = expect_lattice(l, case['keypoints'], img.shape[:3], ang_ok)
        exp0 = exp0 or exp
        if kp_match(got, exp):
            ok = True
            break
    if not ok:
        viol.append({'site': 'C03:%s' % name, 'kind': 'lattice', 'name': name, 'pipeline': specs, 'case': case,
                     'observed': [list(map(float, g[:5])) for g in got],
                     'expected': [[None if v is None else float(v) for v in e[:5]] for e in exp0], 'voxel_map': lat})


def check_resample(name, spec, case, viol):
    shape = tuple(case['shape'])
    try:
        res = S.run([spec], shape, case['seed'], kps=case['keypoints'], kp_kw={'angle_in_degrees': False,
                                                                               'remove_invisible': False})
    except Exception as e:  # noqa
        viol.append({'site': 'C03:%s:raises' % name, 'kind': 'resample', 'name': name, 'pipeline': [spec], 'case': case,
                     'observed': '%s: %s' % (type(e).__name__, e), 'expected': 'no exception'})
        return
    oshape = res['image'].shape[:3]
    sc = (oshape[1] / shape[1], oshape[0] / shape[0], oshape[2] / shape[2])
    got = res['keypoints']
    bad = len(got) != len(case['keypoints'])
    if not bad:
        for g, k in zip(got, case['keypoints']):
            for i in range(3):
                if abs(g[i] - k[i] * sc[i]) > max(1.0, abs(sc[i] - 1)) + 0.5 + 1e-9:
                    bad = True
            if not R.ang_close_rad(float(g[3]), k[3], 1e-9):
                bad = True
            iso = max(sc) - min(sc) < 0.35      # isotropic up to output-size rounding
            if spec['cls'] != 'Resize' and iso and not (min(sc) - 1e-9 <= g[4] / k[4] <= max(sc) + 1e-9 or
                                                        abs(g[4] / k[4] - float(np.mean(sc))) < 0.6):
                bad = True
    if bad:
        viol.append({'site': 'C03:%s' % name, 'kind': 'resample', 'name': name, 'pipeline': [spec], 'case': case,
                     'observed': [list(map(float, g[:5])) for g in got], 'expected': 'positions x %s' % (sc,)})


def check_crop_and_pad_keep(case, viol):
    """CropAndPad(keep_size=True): crop / pad by per-side amounts (one axis only included), then resize back:
    the keypoint is the shifted point zoomed by the per-axis factor; its scale is multiplied by the largest factor"""
    A = R.A
    shape = tuple(case['shape'])
    H, W, D = shape
    img = R.labelled(shape, 'int32')
    kps = [tuple(k) for k in case['keypoints']]
    pipe = A.ReplayCompose([A.CropAndPad(px=tuple(case['px']), keep_size=True, interpolation=0, p=1.0)],
                           keypoint_params=A.KeypointParams('xyzas', angle_in_degrees=False, remove_invisible=False))
    R.seed(case['seed'])
    try:
        res = pipe(image=img, keypoints=kps)
    except Exception as e:  # noqa
        viol.append({'site': 'C03:CropAndPad-keep_size:raises', 'kind': 'croppad', 'case': case,
                     'observed': '%s: %s' % (type(e).__name__, e), 'expected': 'no exception'})
        return
    p = res['replay']['transforms'][0]['params']
    cp, pp = p.get('crop_params'), p.get('pad_params')
    rr, rc, rs = p['result_rows'], p['result_cols'], p['result_slices']
    sx, sy, sz = W / rc, H / rr, D / rs
    for k, g in zip(kps, res['keypoints']):
        x, y, z = k[0], k[1], k[2]
        if cp:
            x, y, z = x - cp[0], y - cp[1], z - cp[2]
        if pp:
            x, y, z = x + pp[2], y + pp[0], z + pp[4]
        exp = (x * sx, y * sy, z * sz, k[3], k[4] * max(sx, sy, sz))
        if not (R.seq_close(g[:3], exp[:3], 1e-7) and R.close(float(g[4]), exp[4], 1e-9) and R.ang_close_rad(float(g[3]), exp[3], 1e-9)):
            viol.append({'site': 'C03:CropAndPad-keep_size', 'kind': 'croppad', 'case': case,
                         'observed': [float(v) for v in g[:5]], 'expected': [float(v) for v in exp],
                         'note': 'window %s pads %s zoom (x, y, z) = (%.4f, %.4f, %.4f)' % (cp, pp, sx, sy, sz)})
            return


def check_rotation(case, viol):
    try:
        res = RC.run_case(case)
    except Exception as e:  # noqa
        viol.append({'site': 'C03:free-rotation:raises', 'kind': 'rotation', 'case': case,
                     'observed': '%s: %s' % (type(e).__name__, e), 'expected': 'no exception'})
        return
    for kind, what, obs, exp in res or []:
        if kind == 'box':
            continue
        if kind == 'keypoint':
            site = 'C03:free-rotation:position:%s' % ('xy' if case['plane'] == 'xy' else 'planes-with-z')
        elif kind == 'angle':
            site = 'C03:free-rotation:angle-sense'
        else:
            site = 'C03:free-rotation:%s' % kind
        viol.append({'site': site, 'kind': 'rotation', 'case': case, 'observed': obs, 'expected': exp})
        return


def gen_case(rng):
    shape = S.random_shape(rng)
    return {'shape': list(shape), 'keypoints': S.random_kps(rng, shape), 'seed': R.pick_seed(rng)}


def check_sized(case, viol):
    import sizedcrop
    bad = sizedcrop.check(case, 'keypoints')
    if bad and bad[0] in ('keypoint', 'keypoint-lost', 'image', 'raises'):
        viol.append({'site': 'C03:RandomSizedCrop:%s' % bad[0], 'kind': 'sized', 'case': case, 'observed': bad[1], 'expected': bad[2]})


def check_near(case, viol):
    import search.C19 as C19
    bad = C19.check_near(case, faces=False, check_boxes=False)
    if bad and bad[0] in ('keypoint-frame', 'image-window', 'raises', 'empty-window'):
        viol.append({'site': 'C03:RandomCropNearBBox:%s' % bad[0], 'kind': 'near', 'case': case, 'observed': bad[1], 'expected': bad[2]})


def run(seed=0, tier='quick', hints=None, broken=False):
    rng = random.Random(seed * 7919 + 3)
    n = 6 if tier == 'quick' else 150
    if broken:
        n *= 4
    viol, evals, seen = [], 0, set()
    for _ in range(n):
        case = gen_case(rng)
        shape = tuple(case['shape'])
        cfgs = S.lattice_configs(rng, shape)
        for c in cfgs:
            check_lattice(c['cls'], [c], case, viol)
            evals += 1
            seen.add((c['cls'], shape))
        second = [S.L('HorizontalFlip'), S.L('Transpose'), S.L('RandomRotate90', axes='xy'),
                  S.L('SliceFlip'), S.L('VerticalFlip')]
        for c in rng.sample(cfgs, 4):
            d = rng.choice(second)
            check_lattice(c['cls'] + '+' + d['cls'], [c, d], case, viol)
            evals += 1
            seen.add((c['cls'], d['cls'], shape))
        for c in S.resample_configs(rng, shape, interpolation=rng.randint(0, 1)):
            check_resample(c['cls'], c, case, viol)
            evals += 1
            seen.add((c['cls'], shape))
    for _ in range(n * 3):
        case = gen_case(rng)
        sides = [0] * 6
        axes = rng.choice([[0], [1], [2], [2], [0, 1], [0, 2], [1, 2], [0, 1, 2]])     # one axis only included
        for a in axes:
            sides[2 * a] = rng.choice([-2, -1, 0, 1, 3])
            sides[2 * a + 1] = rng.choice([-1, 0, 2])
        if all(v == 0 for v in sides):
            sides[4] = 2
        case['px'] = sides           # (top, bottom, left, right, close, far)
        case['shape'] = [max(6, v) for v in case['shape']]
        case['keypoints'] = S.random_kps(rng, tuple(case['shape']))
        check_crop_and_pad_keep(case, viol)
        evals += 1
        seen.add(('CropAndPad-keep', tuple(axes)))
    # RandomRotate90: every plane x every number of quarter turns once per run (pinned), on frames with three different extents
    for ax in S.PLANES:
        for k_ in range(4):
            shape = tuple(rng.sample([4, 5, 6, 7, 9], 3))
            case = {'shape': list(shape), 'keypoints': S.random_kps(rng, shape), 'seed': R.pick_seed(rng)}
            check_lattice('RandomRotate90', [S.L('RandomRotate90', pin={'factor': k_, 'axes': ax}, axes=ax)], case, viol)
            evals += 1
            seen.add(('RandomRotate90-sweep', ax, k_))
    for rep in range(1 if tier == 'quick' else 12):
        for c in S.crop_and_pad_sweep(rng):          # keep_size=False: a lattice map, every axis pattern once
            shape = tuple(rng.sample([5, 6, 7, 8, 9, 10], 3))
            case = {'shape': list(shape), 'keypoints': S.random_kps(rng, shape), 'seed': R.pick_seed(rng)}
            check_lattice('CropAndPad', [c], case, viol)
            evals += 1
            seen.add(('CropAndPad-sweep', repr(c['args'].get('px', c['args'].get('percent')))))
    # RandomCropNearBBox: keypoints are expressed in the CLAMPED window the image shows, also when the drawn window
    # passes the near or the far faces of the volume (oracle shared with C19)
    # RandomSizedCrop with a different zoom per axis: annotations follow their voxels (window read off the output)
    import sizedcrop
    for i in range(10 if tier == 'quick' else 250):
        case = sizedcrop.gen_case(rng)
        check_sized(case, viol)
        evals += 1
        seen.add(('RandomSizedCrop', tuple(case['shape']), case['kw']['w2h_ratio']))
    import search.C19 as C19
    for i in range(8 if tier == 'quick' else 200):
        case = C19.gen_case(rng, 'near', touch_far=(i % 4 == 0), touch_low=(i % 4 == 2))
        if i % 2 == 0:
            case['seed'] = R.EXT_BASE + [0xFFFF, 0x0000, 0xAAAA, 0x5555, rng.getrandbits(16)][(i // 2) % 5]
        check_near(case, viol)
        evals += 1
        seen.add(('RandomCropNearBBox', tuple(case['shape']), i % 4))
    # free rotations (Rotate, ShiftScaleRotate): annotations vs the affine map fitted to marked voxels
    for case in RC.sweep(rng) * (1 if tier == 'quick' else 6):
        case = dict(case, seed=rng.randint(0, 10 ** 6))
        check_rotation(case, viol)
        evals += 1
        seen.add(('rotation-sweep', case['cls'], case['plane'], bool(case.get('crop_to_border'))))
    for _ in range(n * 2):
        case = RC.gen_case(rng)
        check_rotation(case, viol)
        evals += 1
        seen.add(('rotation', case['cls'], case['plane']))
    return {'violations': viol, 'info': {'evaluations': evals, 'distinct': len(seen),
                                         'what': 'keypoint path vs voxel path (lattice map derived from labelled volume; affine fit for free rotations)'}}


def replay(v):
    viol = []
    if v.get('kind') == 'sized':
        check_sized(v['case'], viol)
    elif v.get('kind') == 'near':
        check_near(v['case'], viol)
    elif v.get('kind') == 'rotation':
        check_rotation(v['case'], viol)
    elif v.get('kind') == 'croppad':
        check_crop_and_pad_keep(v['case'], viol)
    elif v.get('kind') == 'resample':
        check_resample(v['name'], v['pipeline'][0], v['case'], viol)
    else:
        check_lattice(v['name'], v['pipeline'], v['case'], viol)
    return bool(viol)
