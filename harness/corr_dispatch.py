#!/usr/bin/env python3
"""Correspondence for coq/model/Dispatch.v: BasicTransform.apply_with_params / _get_target_function of a
user-defined transform with a random target table and random additional targets, on keyword dicts with
known, additional, unknown and None-valued keys, vs the model."""
import os
import random
import re
import subprocess
import sys

sys.path.insert(0, os.path.dirname(os.path.abspath(__file__)))
import implrun as R
import numpy as np

A = R.A
VERIF = os.path.abspath(os.path.join(os.path.dirname(__file__), '..'))
NAMES = ['image', 'mask', 'bboxes', 'keypoints', 'dicom', 'masks']


class Tag(A.BasicTransform):
    """target function of name i adds 1000 * (i + 1) to the value"""

    def __init__(self, names):
        super().__init__(always_apply=True, p=1.0)
        self._names = list(names)

    @property
    def targets(self):
        return {n: (lambda v, _c=(NAMES.index(n) + 1) * 1000, **p: v + _c) for n in self._names}


class TagDual(A.DualTransform):
    """a DualTransform whose six hooks add distinct constants: which hook handled a value can be read off the result"""

    def __init__(self):
        super().__init__(always_apply=True, p=1.0)

    def apply(self, img, **params):
        return img + 1000

    def apply_to_mask(self, img, **params):
        return img + 2000

    def apply_to_bbox(self, bbox, **params):
        return (bbox[0] + 3000,) + tuple(bbox[1:])

    def apply_to_keypoint(self, keypoint, **params):
        return (keypoint[0] + 4000,) + tuple(keypoint[1:])

    def apply_to_dicom(self, dicom, **params):
        return {'v': dicom['v'] + 5000}

    def get_transform_init_args_names(self):
        return ()


def run_dual(seed, n):
    """DualTransform target table and list-valued targets vs Dispatch.dual_apply"""
    rng = random.Random(seed * 40503 % (2 ** 31) + 77)
    cases, kinds = [], {}
    for i in range(n):
        t = TagDual()
        additional = {}
        for j in range(rng.randint(0, 3)):
            additional['extra%d' % j] = rng.choice(['image', 'mask', 'masks', 'bboxes', 'keypoints'])
        t.add_targets(additional)
        keys = ['image'] + rng.sample(['mask', 'masks', 'bboxes', 'keypoints', 'dicom'] + list(additional), rng.randint(0, 5))
        rng.shuffle(keys)
        kwargs, model_kw = {}, []
        for k in keys:
            tk = additional.get(k, k)
            if k != 'image' and rng.random() < 0.12:
                kwargs[k] = None
                model_kw.append((k, 'None'))
                continue
            if tk in ('image', 'mask'):
                z = rng.randint(0, 99)
                kwargs[k] = np.full((1, 1, 1), z, np.int64)
                model_kw.append((k, '(Some (VArr (%d)%%Z))' % z))
            elif tk == 'dicom':
                z = rng.randint(0, 99)
                kwargs[k] = {'v': z}
                model_kw.append((k, '(Some (VArr (%d)%%Z))' % z))
            elif tk == 'masks':
                zs = [rng.randint(0, 99) for _ in range(rng.randint(0, 4))]
                kwargs[k] = [np.full((1, 1, 1), z, np.int64) for z in zs]
                model_kw.append((k, '(Some (VList [%s]))' % '; '.join('(%d)%%Z' % z for z in zs)))
            else:
                glen = 6 if tk == 'bboxes' else 5
                anns = [(rng.randint(0, 99), rng.randint(100, 199)) for _ in range(rng.randint(0, 4))]
                kwargs[k] = [(g,) + (0,) * (glen - 1) + (tl,) for g, tl in anns]
                model_kw.append((k, '(Some (VAnn [%s]))' % '; '.join('((%d)%%Z, (%d)%%Z)' % a for a in anns)))
        try:
            res = t.apply_with_params({}, **kwargs)
            err = None
        except Exception as e:  # noqa
            res, err = None, type(e).__name__
        kinds[err or 'ok'] = kinds.get(err or 'ok', 0) + 1
        if err is not None:
            coq, obs = 'false', err
        else:
            outs = []
            for k, v in res.items():
                tk = additional.get(k, k)
                if v is None:
                    outs.append((k, 'None'))
                elif isinstance(v, np.ndarray):
                    outs.append((k, '(Some (VArr (%d)%%Z))' % int(v.ravel()[0])))
                elif isinstance(v, dict):
                    outs.append((k, '(Some (VArr (%d)%%Z))' % int(v['v'])))
                elif tk == 'masks':
                    outs.append((k, '(Some (VList [%s]))' % '; '.join('(%d)%%Z' % int(m.ravel()[0]) for m in v)))
                else:
                    outs.append((k, '(Some (VAnn [%s]))' % '; '.join('((%d)%%Z, (%d)%%Z)' % (int(a[0]), int(a[-1])) for a in v)))
            addl = '[' + '; '.join('("%s"%%string, "%s"%%string)' % kv for kv in additional.items()) + ']'
            kw = '[' + '; '.join('("%s"%%string, %s)' % kv for kv in model_kw) + ']'
            exp = '[' + '; '.join('("%s"%%string, %s)' % kv for kv in outs) + ']'
            coq = 'dkw_eqb (dual_apply (Z.add 1000) (Z.add 2000) (Z.add 3000) (Z.add 4000) (Z.add 5000) %s %s) %s' % (addl, kw, exp)
            obs = [k for k, _ in outs]
        cases.append({'additional': additional, 'keys': list(kwargs), 'observed': obs, 'coq': coq})
    cdir = os.path.join(VERIF, 'coq', 'cases')
    os.makedirs(cdir, exist_ok=True)
    path = os.path.join(cdir, 'dpd_%d.v' % seed)
    with open(path, 'w') as f:
        f.write('From Coq Require Import ZArith List Bool String.\nImport ListNotations.\nFrom DV.model Require Import Dispatch FrameworkCheck.\n'
                'Fixpoint zl_eqb (a b : list Z) : bool := match a, b with [], [] => true | x :: a\', y :: b\' => Z.eqb x y && zl_eqb a\' b\' | _, _ => false end.\n'
                'Fixpoint al_eqb (a b : list (Z * Z)) : bool := match a, b with [], [] => true | (x, s) :: a\', (y, t) :: b\' => Z.eqb x y && Z.eqb s t && al_eqb a\' b\' | _, _ => false end.\n'
                'Definition dv_eqb (a b : dval) : bool := match a, b with VArr x, VArr y => Z.eqb x y | VList x, VList y => zl_eqb x y | VAnn x, VAnn y => al_eqb x y | _, _ => false end.\n'
                'Definition odv_eqb (a b : option dval) : bool := match a, b with Some x, Some y => dv_eqb x y | None, None => true | _, _ => false end.\n'
                'Fixpoint dkw_eqb (a b : list (string * option dval)) : bool := match a, b with [], [] => true '
                '| (k, v) :: a\', (k\', v\') :: b\' => String.eqb k k\' && odv_eqb v v\' && dkw_eqb a\' b\' | _, _ => false end.\n')
        f.write('Definition cases : list bool := [\n' + ';\n'.join(' ' + c['coq'] for c in cases) + '].\n')
        f.write('Eval vm_compute in (bad_idx 0 cases).\n')
    p = subprocess.run(['timeout', '600', 'coqc', '-Q', 'lib', 'DV.lib', '-Q', 'model', 'DV.model', path],
                       cwd=os.path.join(VERIF, 'coq'), stdout=subprocess.PIPE, stderr=subprocess.STDOUT, text=True)
    m_ = re.search(r'=\s*\[(.*?)\]', p.stdout, re.S)
    errors, bad = [], []
    if p.returncode != 0 or m_ is None:
        errors.append(p.stdout[-1500:])
    else:
        bad = [int(x) for x in re.findall(r'\d+', m_.group(1))]
    for ext in ('.vo', '.vok', '.vos', '.glob'):
        try:
            os.remove(path[:-2] + ext)
        except OSError:
            pass
    js = lambda c: {k_: v for k_, v in c.items() if k_ != 'coq'}
    return {'cases': len(cases), 'distinct_cases': len({c['coq'] for c in cases}), 'result_kinds': kinds,
            'n_disagreements': len(bad), 'disagreements': [js(cases[i]) for i in bad[:10]], 'coq_errors': errors,
            'missing_functions': [], 'samples': [js(c) for c in cases[:2]]}


def run(seed, n):
    rng = random.Random(seed * 613651349 % (2 ** 31) + 12)
    cases, kinds = [], {}
    for i in range(n):
        names = rng.sample(NAMES, rng.randint(1, 5))
        t = Tag(names)
        additional = {}
        for j in range(rng.randint(0, 3)):
            additional['extra%d' % j] = rng.choice(NAMES)
        t.add_targets(additional)
        keys = ['image'] + rng.sample([k for k in NAMES if k != 'image'] + list(additional) + ['labels', 'ids', 'other'], rng.randint(0, 6))
        rng.shuffle(keys)
        kwargs = {}
        for k in keys:
            kwargs[k] = None if (k != 'image' and rng.random() < 0.2) else np.full((1, 1, 1), rng.randint(0, 99), np.int64)
        try:
            res = t.apply_with_params({}, **kwargs)
            out = [(k, None if v is None else int(np.asarray(v).ravel()[0])) for k, v in res.items()]
            err = None
        except Exception as e:  # noqa
            out, err = None, type(e).__name__
        kinds[err or 'ok'] = kinds.get(err or 'ok', 0) + 1
        table = '[' + '; '.join('("%s"%%string, (fun v => v + %d)%%Z)' % (nm, (NAMES.index(nm) + 1) * 1000) for nm in names) + ']'
        addl = '[' + '; '.join('("%s"%%string, "%s"%%string)' % kv for kv in additional.items()) + ']'
        kw = '[' + '; '.join('("%s"%%string, %s)' % (k, 'None' if v is None else '(Some (%d)%%Z)' % int(v.ravel()[0])) for k, v in kwargs.items()) + ']'
        if err is not None:
            coq = 'false'
        else:
            exp = '[' + '; '.join('("%s"%%string, %s)' % (k, 'None' if v is None else '(Some (%d)%%Z)' % v) for k, v in out) + ']'
            coq = 'kw_eqb (apply_with_params Z %s %s %s) %s' % (table, addl, kw, exp)
        cases.append({'targets': names, 'additional': additional, 'keys': list(kwargs), 'observed': out if err is None else err, 'coq': coq})
    cdir = os.path.join(VERIF, 'coq', 'cases')
    os.makedirs(cdir, exist_ok=True)
    path = os.path.join(cdir, 'dp_%d.v' % seed)
    with open(path, 'w') as f:
        f.write('From Coq Require Import ZArith List Bool String.\nImport ListNotations.\nFrom DV.model Require Import Dispatch FrameworkCheck.\n'
                'Definition ov_eqb (a b : option Z) : bool := match a, b with Some x, Some y => Z.eqb x y | None, None => true | _, _ => false end.\n'
                'Fixpoint kw_eqb (a b : list (string * option Z)) : bool := match a, b with [], [] => true '
                '| (k, v) :: a\', (k\', v\') :: b\' => String.eqb k k\' && ov_eqb v v\' && kw_eqb a\' b\' | _, _ => false end.\n')
        f.write('Definition cases : list bool := [\n' + ';\n'.join(' ' + c['coq'] for c in cases) + '].\n')
        f.write('Eval vm_compute in (bad_idx 0 cases).\n')
    p = subprocess.run(['timeout', '600', 'coqc', '-Q', 'lib', 'DV.lib', '-Q', 'model', 'DV.model', path],
                       cwd=os.path.join(VERIF, 'coq'), stdout=subprocess.PIPE, stderr=subprocess.STDOUT, text=True)
    m_ = re.search(r'=\s*\[(.*?)\]', p.stdout, re.S)
    errors, bad = [], []
    if p.returncode != 0 or m_ is None:
        errors.append(p.stdout[-1500:])
    else:
        bad = [int(x) for x in re.findall(r'\d+', m_.group(1))]
    for ext in ('.vo', '.vok', '.vos', '.glob'):
        try:
            os.remove(path[:-2] + ext)
        except OSError:
            pass
    js = lambda c: {k_: v for k_, v in c.items() if k_ != 'coq'}
    return {'cases': len(cases), 'distinct_cases': len({c['coq'] for c in cases}), 'result_kinds': kinds,
            'n_disagreements': len(bad), 'disagreements': [js(cases[i]) for i in bad[:10]], 'coq_errors': errors,
            'missing_functions': [], 'samples': [js(c) for c in cases[:2]]}


if __name__ == '__main__':
    import json
    print(json.dumps(run(int(sys.argv[1]), int(sys.argv[2])), indent=1, default=str)[:1500])
    print(json.dumps(run_dual(int(sys.argv[1]), int(sys.argv[2])), indent=1, default=str)[:3000])
