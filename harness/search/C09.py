"""C09 failing-input search: the same random.seed gives bit-identical outputs for every target
whatever numpy's global generator state, the history of earlier calls on the pipeline object and
the worker process (PYTHONHASHSEED) are; a call advances Python's random state."""
import json
import os
import random
import subprocess
import sys
import tempfile

from ctor_args import CTOR, configurations

HERE = os.path.dirname(os.path.abspath(__file__))
WORKER = os.path.join(os.path.dirname(HERE), 'c09_worker.py')
REPO = os.environ.get('VERIF_REPO', '/repo')


def jsonable(v):
    if isinstance(v, (tuple, list)):
        return [jsonable(x) for x in v]
    if isinstance(v, dict):
        return {k: jsonable(x) for k, x in v.items()}
    return v


def leaf(name, kw):
    kw = dict(kw)
    kw['p'] = 1.0
    return {'cls': name, 'args': jsonable(kw)}


def cases_for(rng, tier):
    cases = []
    for name in sorted(CTOR):
        spec = CTOR[name]
        cfgs = configurations(name)
        # image kinds: the one the class needs, else the documented dtypes (a branch that draws may exist for one
        # dtype only) -- one at random in the quick tier, all of them otherwise
        if 'image' in spec:
            kinds = [spec['image']]
        else:
            from search.C08 import documented_dtypes
            doc = documented_dtypes(name)
            kinds = [k for k, d in (('uint8', 'uint8'), ('float', 'float32'), ('int16', 'int16')) if d in doc] or ['uint8']
        for kw in cfgs:
            for kind in ([rng.choice(kinds)] if tier == 'quick' else kinds):
                case = {'name': name, 'pipeline': [leaf(name, kw)], 'shape': [12, 10, 8], 'seed': rng.randint(0, 10 ** 6),
                        'data_seed': rng.randint(0, 10 ** 5), 'image': kind, 'extra': {},
                        'channels': 2 if 'apply_to_channel_idx' in kw else (3 if rng.random() < 0.15 and name != 'NPSNoise' else None)}
                if 'cropping_bbox' in spec.get('needs', []):
                    case['extra'][kw.get('cropping_box_key', 'cropping_bbox')] = [2, 2, 1, 8, 9, 6]
                cases.append(case)
    # sequence-valued arguments given as LISTS (what a pipeline rebuilt from JSON / YAML holds): the same object is called
    # in the history and in the seeded call, so a configuration consumed or rewritten by a call shows
    as_list = lambda v: {'__list__': v}
    for name, kw in (('CropAndPad', {'px': as_list([[0, 2], 1, [1, 3], 0, [0, 2], 1])}),
                     ('CropAndPad', {'px': None, 'percent': as_list([[0.0, 0.2], 0.1, [-0.2, 0.0], 0.0, 0.1, [0.0, 0.1]])}),
                     ('CropAndPad', {'px': 1, 'pad_cval': as_list([1, 2, 3])}),
                     ('RandomRotate90', {'axes': ['xy', 'yz', 'xz']}), ('Rotate', {'axes': ['xy', 'xz'], 'limit': as_list([10, 40])}),
                     ('PadIfNeeded', {'min_height': 14, 'min_width': 13, 'min_depth': 11, 'position': 'random'}),
                     ('RandomScale', {'scale_limit': as_list([-0.2, 0.3])}), ('Blur', {'blur_limit': as_list([3, 5])}),
                     ('GaussNoise', {'var_limit': as_list([5.0, 30.0])}), ('RandomCropNearBBox', {'max_part_shift': as_list([0.2, 0.3, 0.1])})):
        case = {'name': name, 'pipeline': [{'cls': name, 'args': dict(jsonable(kw), p=1.0)}], 'shape': [12, 10, 8], 'seed': rng.randint(0, 10 ** 6),
                'data_seed': rng.randint(0, 10 ** 5), 'image': CTOR[name].get('image', 'uint8'), 'extra': {}, 'channels': None}
        if 'cropping_bbox' in CTOR[name].get('needs', []):
            case['extra']['cropping_bbox'] = [2, 2, 1, 8, 9, 6]
        cases.append(case)
    # operators
    flips = [leaf('HorizontalFlip', {}), leaf('VerticalFlip', {}), leaf('Transpose', {}),
             leaf('RandomRotate90', {'axes': ['xy', 'yz', 'xz']})]
    for f in flips:
        f['args']['p'] = 0.5
    noisy = [leaf('GaussNoise', {}), leaf('RandomGamma', {}), leaf('PixelDropout', {'dropout_prob': 0.2}),
             leaf('CoarseDropout', CTOR['CoarseDropout']['base'])]
    for i in range(3 if tier == 'quick' else 12):
        tree = [{'op': 'OneOf', 'children': rng.sample(flips, 3), 'args': {'p': 0.8}},
                {'op': 'SomeOf', 'children': rng.sample(flips + noisy, 4), 'args': {'n': 2, 'replace': rng.random() < 0.5, 'p': 0.9}},
                {'op': 'Sequential', 'children': rng.sample(noisy, 2), 'args': {'p': 1.0}},
                {'op': 'OneOrOther', 'children': rng.sample(noisy + flips, 2), 'args': {'p': 0.5}},
                leaf('ShiftScaleRotate', {'axes': ['xy', 'yz', 'xz']})]
        cases.append({'name': 'operators', 'pipeline': tree, 'shape': [12, 10, 8], 'seed': rng.randint(0, 10 ** 6),
                      'data_seed': rng.randint(0, 10 ** 5), 'image': 'uint8', 'extra': {}})
    return cases


def run_worker(cases, hashseed, np_seed, history):
    with tempfile.NamedTemporaryFile('w', suffix='.json', delete=False, dir='/var/tmp') as f:
        json.dump({'cases': cases, 'np_seed': np_seed, 'history': history}, f)
        path = f.name
    env = dict(os.environ, PYTHONHASHSEED=str(hashseed), VERIF_REPO=REPO, PYTHONPATH=REPO)
    return path, subprocess.Popen([sys.executable, WORKER, path], env=env, stdout=subprocess.PIPE, stderr=subprocess.PIPE, text=True)


def compare(cases, settings):
    procs = [run_worker(cases, *s) for s in settings]
    outs = []
    for path, p in procs:
        so, se = p.communicate(timeout=3000)
        os.remove(path)
        line = [l for l in so.splitlines() if l.startswith('C09JSON')]
        if not line:
            raise RuntimeError('C09 worker failed: ' + se[-800:])
        outs.append(json.loads(line[0][7:]))
    viol = []
    for i, case in enumerate(cases):
        digs = [o[i]['digest'] for o in outs]
        if len(set(digs)) > 1:
            k = next(j for j in range(len(digs)) if digs[j] != digs[0])
            viol.append({'site': 'C09:%s:differs' % case['name'], 'case': case, 'settings': [list(settings[0]), list(settings[k])],
                         'observed': 'output digests %s vs %s under (PYTHONHASHSEED, numpy seed, earlier calls) = %s vs %s'
                                     % (digs[0][:12], digs[k][:12], settings[0], settings[k]),
                         'expected': 'bit-identical outputs for the same random.seed'})
        elif not all(o[i]['advanced'] for o in outs):
            viol.append({'site': 'C09:%s:not-advanced' % case['name'], 'case': case, 'settings': [list(settings[0])],
                         'observed': "Python's random state is unchanged after the call",
                         'expected': 'the call consumes draws, so the next call draws different parameters'})
    return viol


def run(seed=0, tier='quick', hints=None, broken=False):
    rng = random.Random(seed * 15485863 + 9)
    cases = cases_for(rng, tier if not broken else 'thorough')
    settings = [(0, 1, 0), (1, 2, 2), (7, 3, 0)] if tier == 'quick' else [(0, 1, 0), (1, 2, 2), (2, 99, 0), (5, 3, 1), (11, 4, 3), (123, 5, 0)]
    viol = compare(cases, settings)
    return {'violations': viol, 'info': {'evaluations': len(cases) * len(settings), 'distinct': len(cases),
                                         'processes': len(settings),
                                         'what': 'digest of all outputs across PYTHONHASHSEED x numpy global seed x call history'}}


def replay(v):
    return compare([v['case']], [tuple(s) for s in v['settings']] + [(3, 77, 1)])
