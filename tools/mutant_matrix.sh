#!/bin/bash
# applies every seeded change in turn and runs the check of its property (quick tier); restores /repo each time
cd /repo || exit 1
if [ -n "$(git status --porcelain)" ]; then echo "repo not clean"; exit 2; fi
out=/verif/work/mutant_matrix.txt; : > $out
for d in ${@:-$(ls -d /verif/seeded/C[0-9][0-9]* | xargs -n1 basename)}; do
  id=${d:0:3}
  if ! git apply --check /verif/seeded/$d/patch.diff 2>/dev/null; then echo "$d PATCH-DOES-NOT-APPLY" | tee -a $out; continue; fi
  git apply /verif/seeded/$d/patch.diff
  r=$(/verif/check $id ${TIER:-quick} 2>&1 | grep -v conda)
  nv=$(echo "$r" | grep -c "^VIOLATION")
  nf=$(echo "$r" | grep "^VIOLATION" | grep -c "no-failing-input-found")
  sm=$(echo "$r" | grep "tier=" | sed 's/.*obligations=\([0-9]*\) discharged=\([0-9]*\).*/obligations=\1 discharged=\2/')
  echo "$d violations=$nv without-input=$nf $sm" | tee -a $out
  git checkout -- .
done
cd /verif && tools/build.sh > /dev/null 2>&1
