"""Per-property configuration of the check driver."""
import os
import sys

sys.path.insert(0, os.path.join(os.path.dirname(os.path.abspath(__file__)), '..', 'harness'))

COMMON_TRUSTED = [
    'Coq 8.16.1 kernel (coqc); vm_compute is used for the correspondence evaluation and closed-term examples; no native_compute',
    'translator/py2coq.py (Python ast -> Gallina, fail-closed) -- validated by the correspondence run, not verified',
    'floats modelled as exact rationals (Q); IEEE rounding not modelled; comparison tolerance 1e-9 relative',
    'no Axiom/Parameter/Admitted anywhere in /verif/coq (tools/audit.sh greps for them)',
]


def corr_fn(tag, functions, n_quick, n_thorough):
    def run(tier, seed):
        import run_corr
        n = n_quick if tier == 'quick' else n_thorough
        return run_corr.correspond(tag, functions, n, seed)
    return run


LATTICE_FUNCS = ['bbox_vflip', 'bbox_hflip', 'bbox_zflip', 'bbox_flip', 'bbox_transpose', 'bbox_rot90',
                 'keypoint_vflip', 'keypoint_hflip', 'keypoint_zflip', 'keypoint_flip', 'keypoint_transpose',
                 'keypoint_rot90', 'angle_to_2pi_range']

PROPS = {
    'C17': {
        'requires': LATTICE_FUNCS,
        'corr': corr_fn('C17', LATTICE_FUNCS, 40, 1500),
        'search': 'C17',
        'trusted_base': ['box/keypoint maps are the regenerated Gallina definitions of geometric/functional.py; '
                         'the voxel maps (numpy slicing / rot90 / transpose / pad) are checked on the implementation '
                         'by the search oracle only in this round'],
        'assumptions': ['keypoint angles are in [0, 2*pi) (what convert_keypoint_to_dicaugment produces)',
                        'pi is any positive rational in the theorems (only pi_pos is used)'],
        'level_text': 'Group laws (involutions, k then 4-k quarter turns, four turns, commutation, all-axes flip = three '
                      'flips) are theorems over the Gallina definitions regenerated from geometric/functional.py on every '
                      'run, for all boxes, keypoints (position, angle mod 2pi, scale), planes, factors and frame sizes; '
                      'voxel-level laws and pad+inverse-crop are exercised on the implementation by the search oracle.',
        'level_note': 'Trusted: Coq kernel, the translator (validated by the vm_compute correspondence on every run), '
                      'exact-rational model of floats. Voxel maps are not yet inside the proof for this property.',
    },
}



def corr_multi(*fns):
    """merge several correspondence runs into one summary"""
    def run(tier, seed):
        out = None
        for f in fns:
            r = f(tier, seed)
            if out is None:
                out = dict(r)
                continue
            for k in ('cases', 'distinct_cases', 'n_disagreements'):
                out[k] = out.get(k, 0) + r.get(k, 0)
            for k in ('disagreements', 'coq_errors', 'missing_functions', 'samples', 'functions'):
                out[k] = list(out.get(k, []) or []) + list(r.get(k, []) or [])
            rk = dict(out.get('result_kinds', {}))
            for kk, vv in r.get('result_kinds', {}).items():
                rk[kk] = rk.get(kk, 0) + vv
            out['result_kinds'] = rk
        return out
    return run


def corr_framework(n_quick, n_thorough):
    def run(tier, seed):
        import corr_framework as C
        return C.run(seed, n_quick if tier == 'quick' else n_thorough)
    return run


CONV_FUNCS = ['normalize_bbox', 'denormalize_bbox', 'convert_bbox_to_dicaugment', 'convert_bbox_from_dicaugment',
              'check_bbox', 'convert_keypoint_to_dicaugment', 'convert_keypoint_from_dicaugment', 'check_keypoint',
              'angle_to_2pi_range', 'convert_bboxes_to_dicaugment', 'convert_bboxes_from_dicaugment',
              'convert_keypoints_to_dicaugment', 'convert_keypoints_from_dicaugment']

PROPS['C10'] = {
    'requires': CONV_FUNCS,
    'corr': corr_multi(corr_fn('C10', CONV_FUNCS, 40, 1500), corr_framework(150, 4000)),
    'search': 'C10',
    'trusted_base': ['coq/model/Framework.v is hand-written; tied to composition.py / BasicTransform.__call__ by '
                     'the recorded-draw correspondence (harness/corr_framework.py)',
                     'tuples of different lengths (keypoint formats) are modelled padded with zeros'],
    'assumptions': ['valid = accepted by the input conversion (check_bbox / check_keypoint pass)',
                    'input angle in [0, 360) degrees resp. [0, 2*pi) radians'],
    'level_text': 'Round-trip identity of the box (3 formats) and keypoint (6 formats x 2 angle units) conversions is '
                  'proved over the Gallina definitions regenerated from the source, for every frame size and every '
                  'real-valued valid annotation; "no leaf fired => data returned unchanged" is proved for every '
                  'operator tree, draw list and leaf semantics on the scheduling model. The pre/post-processing glue '
                  'around an empty pipeline is exercised on the implementation by the search oracle.',
    'level_note': 'Trusted: Coq kernel, translator, hand-written Framework model (validated by correspondence on '
                  'recorded draws), exact-rational floats. Bit-identity of arrays is an implementation-side check.',
}

NOT_CLAIMED = {}
