"""C13 failing-input search: (a) every class x documented configuration under ReplayCompose: the
record replayed on the same inputs -- under another random / numpy seed -- returns bit-identical
outputs; replayed on another volume of the same shape it applies the same voxel map; (b) operator
trees over recording leaves: the leaves applied by the replay are the leaves that fired, in the same
order; (c) the record marks a leaf applied iff it fired and an operator iff one of its children is."""
import copy
import random

import numpy as np

import implrun as R
import corr_framework as CF
from ctor_args import CTOR, configurations

A = R.A
DICOM = {'PixelSpacing': (0.7, 0.4), 'RescaleIntercept': -1024.0, 'RescaleSlope': 1.0, 'ConvolutionKernel': 'STANDARD',
         'XRayTubeCurrent': 160}
LATTICE = {'VerticalFlip', 'HorizontalFlip', 'SliceFlip', 'Flip', 'Transpose', 'RandomRotate90', 'RandomCrop', 'CenterCrop',
           'Crop', 'RandomCropFromBorders', 'PadIfNeeded'}


def detuple(v):
    if isinstance(v, list):
        return tuple(detuple(x) for x in v)
    if isinstance(v, dict):
        return {k: detuple(x) for k, x in v.items()}
    return v


def jsonable(v):
    if isinstance(v, (tuple, list)):
        return [jsonable(x) for x in v]
    if isinstance(v, dict):
        return {k: jsonable(x) for k, x in v.items()}
    return v


def same(a, b):
    if isinstance(a, np.ndarray):
        return isinstance(b, np.ndarray) and a.dtype == b.dtype and a.shape == b.shape and np.array_equal(a, b, equal_nan=a.dtype.kind == 'f')
    if isinstance(a, dict):
        return isinstance(b, dict) and set(a) == set(b) and all(same(a[k], b[k]) for k in a)
    if isinstance(a, (list, tuple)):
        return len(a) == len(b) and all(same(x, y) for x, y in zip(a, b))
    if isinstance(a, float) and isinstance(b, float):
        return a == b or (a != a and b != b)
    return a == b


def check_class(case, viol):
    name = case['name']
    kw = {k: (detuple(v) if k != 'axes' else v) for k, v in case['kw'].items()}
    spec = CTOR[name]
    shape = tuple(case['shape'])
    H, W, D = shape
    rs = np.random.RandomState(case['seed'] % 100000)
    kind = spec.get('image', 'uint8')
    if kind == 'float':
        img = rs.rand(*shape).astype(np.float32)
    elif kind == 'int16':
        img = rs.randint(-500, 1500, shape).astype(np.int16)
    else:
        img = rs.randint(0, 255, shape).astype(np.uint8)
    data = dict(image=img, mask=rs.randint(0, 4, shape).astype(np.uint8), dicom=copy.deepcopy(DICOM))
    ckw = {}
    if name not in ('CoarseDropout', 'GridDropout'):
        data['bboxes'] = [(1.0, 1.0, 1.0, W - 2.0, H - 2.0, D - 2.0, 'a'), (2.0, 1.5, 0.5, 5.0, 4.5, 3.5, 'b')]
        ckw['bbox_params'] = A.BboxParams('pascal_voc_3d')
    if name not in ('BBoxSafeRandomCrop', 'RandomSizedBBoxSafeCrop', 'GridDropout'):
        data['keypoints'] = [(float(rs.randint(0, W)), float(rs.randint(0, H)), float(rs.randint(0, D)), 0.3, 1.5) for _ in range(8)]
        ckw['keypoint_params'] = A.KeypointParams('xyzas', angle_in_degrees=False)
    if 'cropping_bbox' in spec.get('needs', []):
        data[kw.get('cropping_box_key', 'cropping_bbox')] = (2, 2, 1, W - 2, H - 2, D - 1)
    try:
        pipe = A.ReplayCompose([getattr(A, name)(p=1.0, **kw)], **ckw)
        random.seed(case['seed'])
        np.random.seed(1)
        res = pipe(**copy.deepcopy(data))
    except Exception:  # noqa -- whether the configuration runs is C08's question
        return 'raises'
    record = res['replay']
    for k in range(2):
        random.seed(case['seed'] + 7919 * (k + 1))
        np.random.seed(50 + k)
        try:
            res2 = A.ReplayCompose.replay(copy.deepcopy(record) if k else record, **copy.deepcopy(data))
        except Exception as e:  # noqa
            viol.append({'site': 'C13:%s:replay-raises' % name, 'kind': 'class', 'case': jsonable(case),
                         'observed': '%s: %s' % (type(e).__name__, str(e)[:160]), 'expected': 'the recorded outputs'})
            return 'bad'
        for key in data:
            if not same(res[key], res2[key]):
                viol.append({'site': 'C13:%s:replay-differs' % name, 'kind': 'class', 'case': jsonable(case), 'target': key,
                             'observed': '%s differs between the recorded call and its replay' % key,
                             'expected': 'bit-identical outputs'})
                return 'bad'
    if name in LATTICE and not any(k in kw for k in ('border_mode', 'value', 'mask_value')):
        lab = R.labelled(shape, 'int32')
        pipe = A.ReplayCompose([getattr(A, name)(p=1.0, **kw)])
        random.seed(case['seed'])
        r1 = pipe(image=lab, mask=lab.copy())
        random.seed(4242)
        r2 = A.ReplayCompose.replay(r1['replay'], image=(lab * 3).astype('int32'), mask=lab.copy())
        if r2['image'].shape != r1['image'].shape or not np.array_equal(r2['image'], r1['image'] * 3):
            viol.append({'site': 'C13:%s:other-volume' % name, 'kind': 'class', 'case': jsonable(case),
                         'observed': 'a different voxel map on the second volume', 'expected': 'the recorded voxel map'})
            return 'bad'
    return 'ok'


def has_someof(t):
    return t['k'] == 'SomeOf' or any(has_someof(k) for k in t.get('kids', []))


def leaf_ids(t):
    return [t['id']] if t['k'] == 'leaf' else [i for k in t['kids'] for i in leaf_ids(k)]


def check_flags(tree, rec, fired):
    """leaf applied iff fired; operator applied iff any child applied; returns error text or None"""
    if tree['k'] == 'leaf':
        return None if bool(rec['applied']) == (tree['id'] in fired) else 'leaf %d applied=%s but fired=%s' % (
            tree['id'], rec['applied'], tree['id'] in fired)
    kids = rec.get('transforms', [])
    if len(kids) != len(tree['kids']):
        return 'record has %d children for %d' % (len(kids), len(tree['kids']))
    for t, r in zip(tree['kids'], kids):
        e = check_flags(t, r, fired)
        if e:
            return e
    if bool(rec['applied']) != any(bool(r['applied']) for r in kids):
        return '%s applied=%s but children %s' % (tree['k'], rec['applied'], [r['applied'] for r in kids])
    return None


def conv(o):
    if isinstance(o, CF.Fr):
        return float(o)
    if isinstance(o, dict):
        return {k: conv(v) for k, v in o.items()}
    if isinstance(o, (list, tuple)):
        return [conv(x) for x in o]
    return o


def check_tree(case, viol):
    top = case['tree']
    img = np.zeros((2, 3, 4), np.uint8)
    pipe = A.ReplayCompose([CF.build(k) for k in top['kids']], p=float(top['p']))
    del CF.TRACE[:]
    random.seed(case['seed'])
    res = pipe(image=img)
    fired = list(CF.TRACE)
    e = check_flags(top, res['replay'], fired)
    if e:
        viol.append({'site': 'C13:tree:applied-flags', 'kind': 'tree', 'case': conv(case), 'observed': e,
                     'expected': 'leaf applied iff it fired; operator applied iff a child is'})
        return
    del CF.TRACE[:]
    random.seed(case['seed'] + 1)
    try:
        A.ReplayCompose.replay(res['replay'], image=img)
    except Exception as ex:  # noqa
        viol.append({'site': 'C13:tree:replay-raises', 'kind': 'tree', 'case': conv(case),
                     'observed': '%s: %s' % (type(ex).__name__, str(ex)[:160]), 'expected': 'replay runs'})
        return
    replayed = list(CF.TRACE)
    if replayed != fired:
        site = 'C13:SomeOf:order-or-multiplicity' if has_someof(top) else 'C13:tree:replay-differs'
        viol.append({'site': site, 'kind': 'tree', 'case': conv(case), 'observed': 'replay applied leaves %s' % replayed,
                     'expected': 'the recorded application %s' % fired})


def check_pad_random(case, viol):
    """PadIfNeeded(position='random'): the position is drawn in update_params, outside the record"""
    img = R.labelled((4, 5, 3), 'int32')
    pipe = A.ReplayCompose([A.PadIfNeeded(min_height=9, min_width=9, min_depth=8, position='random', p=1.0)])
    random.seed(case['seed'])
    res = pipe(image=img)
    for k in range(4):
        random.seed(case['seed'] + 100 + k)
        r2 = A.ReplayCompose.replay(res['replay'], image=img)
        if not np.array_equal(r2['image'], res['image']):
            viol.append({'site': 'C13:not-recorded:PadIfNeeded', 'kind': 'padrandom', 'case': case,
                         'observed': 'replay pads at another random position', 'expected': 'the recorded position'})
            return


def gen_params_case(rng):
    """annotation parameters with pairwise different non-default settings, boxes / keypoints around the thresholds"""
    shape = rng.sample([10, 12, 14, 16], 3)
    H, W, D = shape
    ths = rng.sample([1.5, 2.0, 2.5, 3.0, 3.5, 4.0, 5.0], 3)
    bp = {'format': rng.choice(['pascal_voc_3d', 'coco_3d']), 'min_width': ths[0], 'min_height': ths[1], 'min_depth': ths[2],
          'min_planar_area': rng.choice([0.0, 4.0, 9.0]), 'min_volume': rng.choice([0.0, 10.0, 30.0]),
          'min_area_visibility': rng.choice([0.0, 0.3, 0.6]), 'min_volume_visibility': rng.choice([0.0, 0.2, 0.5]),
          'check_each_transform': rng.random() < 0.5, 'label_fields': ['lab']}
    kp = {'format': rng.choice(['xyz', 'xyzas', 'xyzsa', 'zyx']), 'remove_invisible': rng.random() < 0.6,
          'angle_in_degrees': rng.random() < 0.5, 'check_each_transform': rng.random() < 0.5, 'label_fields': ['ids']}
    boxes = []
    for i in range(14):
        x1, y1, z1 = rng.uniform(0, W - 1.2), rng.uniform(0, H - 1.2), rng.uniform(0, D - 1.2)
        ext = [rng.choice([1.0, 2.0, 2.2, 2.7, 3.2, 3.7, 4.5, 6.0]) for _ in range(3)]
        boxes.append([x1, y1, z1, min(x1 + ext[0], W), min(y1 + ext[1], H), min(z1 + ext[2], D)])
    kps = [[rng.uniform(0, W - 0.01), rng.uniform(0, H - 0.01), rng.uniform(0, D - 0.01), rng.uniform(0, 6.2), rng.uniform(0.5, 2)] for _ in range(8)]
    x1, y1, z1 = rng.randint(0, 3), rng.randint(0, 3), rng.randint(0, 3)
    win = [x1, y1, z1, rng.randint(W - 4, W), rng.randint(H - 4, H), rng.randint(D - 4, D)]
    # idle: a record in which no transform fired -- the replay must still do what the recorded call did around the
    # transforms (annotation filtering, format conversion, label fields)
    return {'shape': shape, 'bbox_params': bp, 'keypoint_params': kp, 'boxes': boxes, 'kps': kps, 'window': win,
            'seed': rng.randint(0, 10 ** 6), 'idle': rng.random() < 0.3}


def check_params(case, viol):
    """the record stores the annotation parameters; replaying on the same inputs must filter, convert and label alike"""
    shape = tuple(case['shape'])
    bp, kp = dict(case['bbox_params']), dict(case['keypoint_params'])
    w = case['window']
    img = R.labelled(shape, 'int32')

    def fmt_box(b):
        return (b[0], b[1], b[2], b[3] - b[0], b[4] - b[1], b[5] - b[2]) if bp['format'] == 'coco_3d' else tuple(b)

    def fmt_kp(k):
        x, y, z, a, s = k
        if kp['angle_in_degrees']:
            a = a * 180.0 / np.pi
        return {'xyz': (x, y, z), 'zyx': (z, y, x), 'xyzas': (x, y, z, a, s), 'xyzsa': (x, y, z, s, a)}[kp['format']]
    data = dict(image=img, bboxes=[fmt_box(b) for b in case['boxes']], lab=list(range(len(case['boxes']))),
                keypoints=[fmt_kp(k) for k in case['kps']], ids=['k%d' % i for i in range(len(case['kps']))],
                image2=(img * 2).astype('int32'), mask2=img.copy())
    tf = [A.Crop(x_min=w[0], y_min=w[1], z_min=w[2], x_max=w[3], y_max=w[4], z_max=w[5], p=1.0), A.HorizontalFlip(p=0.5)]
    if case.get('idle'):
        tf = [A.OneOf([A.HorizontalFlip(p=1.0), A.Transpose(p=1.0)], p=0.0), A.SliceFlip(p=0.0)]
    try:
        pipe = A.ReplayCompose(tf, bbox_params=A.BboxParams(**bp), keypoint_params=A.KeypointParams(**kp),
                               additional_targets={'image2': 'image', 'mask2': 'mask'})
        random.seed(case['seed'])
        res = pipe(**copy.deepcopy(data))
    except Exception:  # noqa -- C08's question
        return 'raises'
    random.seed(case['seed'] + 17)
    try:
        res2 = A.ReplayCompose.replay(res['replay'], **copy.deepcopy(data))
    except Exception as e:  # noqa
        viol.append({'site': 'C13:params:replay-raises', 'kind': 'params', 'case': jsonable(case),
                     'observed': '%s: %s' % (type(e).__name__, str(e)[:160]), 'expected': 'the recorded outputs'})
        return 'bad'
    for key in data:
        if not same(res[key], res2[key]):
            viol.append({'site': 'C13:params:replay-differs', 'kind': 'params', 'case': jsonable(case), 'target': key,
                         'observed': '%s: %s' % (key, str(res2[key])[:200]), 'expected': 'as recorded: %s' % str(res[key])[:200]})
            return 'bad'
    return 'ok'


def run(seed=0, tier='quick', hints=None, broken=False):
    rng = random.Random(seed * 86028121 + 13)
    viol, evals, outcomes, seen = [], 0, {}, set()
    for name in sorted(CTOR):
        cfgs = configurations(name)
        # every documented configuration, also in the quick tier (a sample of three missed a swapped pair of arguments)
        for kw in cfgs:
            if name == 'PadIfNeeded' and kw.get('position') == 'random':
                continue            # covered by check_pad_random (known finding)
            case = {'name': name, 'kw': jsonable(kw), 'shape': [12, 10, 8], 'seed': rng.randint(0, 10 ** 6)}
            o = check_class(case, viol)
            outcomes[o] = outcomes.get(o, 0) + 1
            evals += 1
            seen.add((name, repr(sorted(kw))))
    n = 150 if tier == 'quick' else 3000
    for i in range(n):
        counter = [0]
        top = {'k': 'Compose', 'p': rng.choice(CF.PS + [1, 1, 1]), 'kids': [CF.gen_tree(rng, 3, counter) for _ in range(rng.randint(1, 3))]}
        check_tree({'tree': top, 'seed': rng.randint(0, 1 << 30)}, viol)
        evals += 1
    check_pad_random({'seed': rng.randint(0, 10 ** 6)}, viol)
    evals += 1
    for i in range((40 if tier == 'quick' else 800) * (3 if broken else 1)):
        o = check_params(gen_params_case(rng), viol)
        outcomes['params-' + o] = outcomes.get('params-' + o, 0) + 1
        evals += 1
    return {'violations': viol, 'info': {'evaluations': evals, 'distinct': len(seen) + n, 'class_outcomes': outcomes,
                                         'what': 'record -> replay (other seed / numpy state / volume) per class and per operator tree'}}


def replay(v):
    out = []
    if v.get('kind') == 'class':
        check_class(v['case'], out)
    elif v.get('kind') == 'params':
        check_params(v['case'], out)
    elif v.get('kind') == 'tree':
        c = v['case']

        def back(t):
            t = dict(t)
            t['p'] = CF.Fr(t['p']).limit_denominator(64)
            if 'kids' in t:
                t['kids'] = [back(k) for k in t['kids']]
            return t
        check_tree({'tree': back(c['tree']), 'seed': c['seed']}, out)
    else:
        check_pad_random(v['case'], out)
    return out
