(* CropPad.v -- CropAndPad image / mask paths (generated: crop, pad, optional resize back). *)
From Coq Require Import ZArith QArith List Bool String Lia.
Import ListNotations.
From DV.lib Require Import PyNum PyRt.
From DV.model Require Import Arrays NpRt.
From DV.gen Require Import Gen_geom_arrays Gen_crops_functional Gen_cls_crops_dicom.
From DV.proofs Require Import Tac Values Resample BoxSafe.
Open Scope Z_scope.

Ltac cp_split :=
  repeat match goal with
  | H : bind _ _ = Ok _ |- _ => apply bind_ok in H; let x := fresh "x" in let Hx := fresh "Hx" in destruct H as (x & Hx & H)
  | H : Ok _ = Ok _ |- _ => inversion H; subst; clear H
  | H : match ?o with Some _ => _ | None => _ end = Ok _ |- _ => destruct o as [[[[[[? ?] ?] ?] ?] ?]|]; cbn [fst snd] in H
  | H : (if ?c then _ else _) = Ok _ |- _ => destruct c
  end.

Ltac cp_chain :=
  repeat match goal with
  | H : crop ?a _ _ _ _ _ _ = Ok ?b, F : fills_in ?P ?a |- _ =>
      pose proof (fills_crop P a _ _ _ _ _ _ b F H); clear H
  | H : pad_with_params ?a _ _ _ _ _ _ _ _ = Ok ?b, F : fills_in ?P ?a |- _ =>
      pose proof (fills_pad_with_params P a _ _ _ _ _ _ _ _ b F H); clear H
  | H : resize ?a _ _ _ 0 = Ok ?b, F : fills_in ?P ?a |- _ =>
      pose proof (resize_nearest_copies_voxels P a _ _ _ b F H); clear H
  end.

(* with nearest interpolation every voxel of the result is an input voxel or the pad value *)
Lemma fills_crop_and_pad P v cp pp val r c s mode keep v' :
  fills_in P v -> crop_and_pad v cp pp val r c s 0 mode keep = Ok v' -> fills_in (fun q => P q \/ q = val) v'.
Proof.
  intros Hf E. unfold crop_and_pad in E. cp_split; cp_chain;
  first [ assumption | eapply fills_weaken; [|eassumption]; cbn; intros; tauto ].
Qed.

(* the mask path of the class: only input voxels and the MASK pad value, whatever order the image uses *)
Theorem CropAndPad_mask_values P keep pm v cp pp pv pvm rr rc rs ip c r s v' :
  fills_in P v -> CropAndPad_apply_to_mask keep pm v cp pp pv pvm rr rc rs ip c r s = Ok v' ->
  fills_in (fun q => P q \/ q = pvm) v'.
Proof. intros Hf E. unfold CropAndPad_apply_to_mask in E. eapply fills_crop_and_pad; eassumption. Qed.

(* ---- the shape of the result depends on the window, the pad amounts and keep_size only:
        not on the fill value, not on the interpolation order ---- *)
Open Scope Q_scope.
Lemma zoom_len_exact' (n t : Z) : n <> 0%Z -> zoom_len n (inject_Z t / inject_Z n) = t.
Proof.
  intros Hn. unfold zoom_len.
  assert (N : ~ inject_Z n == 0).
  { intros E. apply Hn. apply inject_Z_injective. exact E. }
  assert (E : inject_Z n * (inject_Z t / inject_Z n) == inject_Z t) by (field; exact N).
  rewrite (Dicom.py_round_comp _ _ E). apply Dicom.py_round_inject.
Qed.
Open Scope Z_scope.

Lemma divq_ok_inv a b q : divq a b = Ok q -> ~ (b == 0)%Q.
Proof. unfold divq. destruct (Qeq_bool_spec b 0); [discriminate|auto]. Qed.

Lemma resize_ok_shape v h w d o v' : resize v h w d o = Ok v' -> vshape v' = (h, w, d).
Proof.
  unfold resize. destruct (vshape v) as [[H W] D] eqn:Sh.
  destruct ((h =? H) && (w =? W) && (d =? D)) eqn:E.
  - apply andb_true_iff in E. destruct E as [E E3]. apply andb_true_iff in E. destruct E as [E1 E2].
    apply Z.eqb_eq in E1, E2, E3. subst. intros X. inversion X; subst. exact Sh.
  - unfold _resize. rewrite Sh. intros X. res_inv.
    repeat match goal with Hd : divq _ (inject_Z ?n) = Ok _ |- _ =>
      let N := fresh "N" in pose proof (divq_ok_inv _ _ _ Hd) as N;
      rewrite divq_ok in Hd by exact N; inversion Hd; subst; clear Hd end.
    unfold v_zoom. rewrite Sh. cbn.
    assert (NZ : forall n, ~ (inject_Z n == 0)%Q -> n <> 0%Z) by (intros n Hn ->; apply Hn; reflexivity).
    rewrite !zoom_len_exact' by (apply NZ; assumption). reflexivity.
Qed.

Lemma crop_ok_shape v x1 y1 z1 x2 y2 z2 v' : crop v x1 y1 z1 x2 y2 z2 = Ok v' -> vshape v' = (y2 - y1, x2 - x1, z2 - z1).
Proof.
  unfold crop. destruct (vshape v) as [[H W] D] eqn:Sh.
  match goal with |- (if ?c then _ else _) = _ -> _ => destruct c eqn:A end; [discriminate|].
  match goal with |- (if ?c then _ else _) = _ -> _ => destruct c eqn:B end; [discriminate|].
  intros X. inversion X; subst. clear X.
  repeat (apply orb_false_iff in A; destruct A as [A ?]).
  repeat (apply orb_false_iff in B; destruct B as [B ?]).
  repeat match goal with
  | Hc : (_ <=? _) = false |- _ => apply Z.leb_gt in Hc
  | Hc : (_ <? _) = false |- _ => apply Z.ltb_ge in Hc
  | Hc : (_ >? _) = false |- _ => rewrite Z.gtb_ltb in Hc; apply Z.ltb_ge in Hc
  end.
  unfold v_slice3. rewrite Sh. cbn [fst snd].
  rewrite (BoxSafe.slice_in_range' H y1 y2), (BoxSafe.slice_in_range' W x1 x2), (BoxSafe.slice_in_range' D z1 z2) by lia.
  reflexivity.
Qed.

Lemma pad_ok_shape v t b l r f k mode val v' : pad_with_params v t b l r f k mode val = Ok v' ->
  vshape v' = (let '(H, W, D) := vshape v in (H + t + b, W + l + r, D + f + k)).
Proof.
  unfold pad_with_params, _pad. intros X. res_inv.
  destruct (vshape v) as [[H W] D] eqn:Sh.
  match goal with Hm : _ = Ok ?m |- _ => destruct (negb (streq m "constant")) end;
  match goal with Hp : np_pad _ _ _ _ = Ok _ |- _ => unfold np_pad in Hp;
    destruct (_ || _); [discriminate|]; destruct (np_padmode _); [|discriminate]; inversion Hp; subst end;
  unfold v_pad; rewrite Sh; reflexivity.
Qed.

Definition any_nonzero (t : Z * Z * Z * Z * Z * Z) : bool :=
  let '(a, b, c, d, e, f) := t in
  negb (a =? 0) || negb (b =? 0) || negb (c =? 0) || negb (d =? 0) || negb (e =? 0) || negb (f =? 0).
Definition cp_shape (sh : shape3) cp pp (r c s : Z) (keep : bool) : shape3 :=
  let sh1 := match cp with
             | Some (x1, y1, z1, x2, y2, z2) => if any_nonzero (x1, y1, z1, x2, y2, z2) then (y2 - y1, x2 - x1, z2 - z1) else sh
             | None => sh end in
  let sh2 := match pp with
             | Some (t, b, l, rt, f, k) => if any_nonzero (t, b, l, rt, f, k) then (let '(H, W, D) := sh1 in (H + t + b, W + l + rt, D + f + k)) else sh1
             | None => sh1 end in
  if keep then (r, c, s) else sh2.

Theorem crop_and_pad_shape v cp pp val r c s ip mode keep v' :
  crop_and_pad v cp pp val r c s ip mode keep = Ok v' -> vshape v' = cp_shape (vshape v) cp pp r c s keep.
Proof.
  intros E. unfold crop_and_pad in E. unfold cp_shape, any_nonzero.
  apply bind_ok in E. destruct E as (v1 & E1 & E). apply bind_ok in E. destruct E as (v2 & E2 & E).
  apply bind_ok in E. destruct E as (v3 & E3 & E). inversion E; subst; clear E.
  assert (S1 : vshape v1 = match cp with
             | Some (x1, y1, z1, x2, y2, z2) => if any_nonzero (x1, y1, z1, x2, y2, z2) then (y2 - y1, x2 - x1, z2 - z1) else vshape v
             | None => vshape v end).
  { destruct cp as [[[[[[x1 y1] z1] x2] y2] z2]|]; [|inversion E1; reflexivity].
    unfold any_nonzero. apply bind_ok in E1. destruct E1 as (a & Ea & E1). inversion E1; subst; clear E1.
    match type of Ea with (if ?cnd then _ else _) = _ => destruct cnd end.
    - apply bind_ok in Ea. destruct Ea as (a' & Ea & X). inversion X; subst. apply crop_ok_shape in Ea. exact Ea.
    - inversion Ea; reflexivity. }
  assert (S2 : vshape v2 = match pp with
             | Some (t, b, l, rt, f, k) => if any_nonzero (t, b, l, rt, f, k) then (let '(H, W, D) := vshape v1 in (H + t + b, W + l + rt, D + f + k)) else vshape v1
             | None => vshape v1 end).
  { destruct pp as [[[[[[t b] l] rt] f] k]|]; [|inversion E2; reflexivity].
    unfold any_nonzero. apply bind_ok in E2. destruct E2 as (a & Ea & E2). inversion E2; subst; clear E2.
    match type of Ea with (if ?cnd then _ else _) = _ => destruct cnd end.
    - apply bind_ok in Ea. destruct Ea as (a' & Ea & X). inversion X; subst. apply pad_ok_shape in Ea. exact Ea.
    - inversion Ea; reflexivity. }
  destruct keep.
  - apply bind_ok in E3. destruct E3 as (a & Ea & X). inversion X; subst. apply resize_ok_shape in Ea. exact Ea.
  - inversion E3; subst. rewrite S2, S1. unfold any_nonzero. reflexivity.
Qed.

(* image and mask of CropAndPad come back with one shape, whatever fill values and image order *)
Theorem CropAndPad_image_and_mask_same_shape keep pm v cp pp pv pvm rr rc rs ip c r s vi vm :
  CropAndPad_apply keep pm v cp pp pv pvm rr rc rs ip c r s = Ok vi ->
  CropAndPad_apply_to_mask keep pm v cp pp pv pvm rr rc rs ip c r s = Ok vm ->
  vshape vi = vshape vm.
Proof.
  unfold CropAndPad_apply, CropAndPad_apply_to_mask. intros A B.
  rewrite (crop_and_pad_shape _ _ _ _ _ _ _ _ _ _ _ A), (crop_and_pad_shape _ _ _ _ _ _ _ _ _ _ _ B). reflexivity.
Qed.

(* ---- CropAndPad._prevent_zero (generated): crop amounts that would remove a whole axis are cut back by exactly
        |remaining| + 1 voxels.  For all non-negative amounts the result is non-negative, not larger than requested,
        leaves at least one voxel on every axis (exactly one where the request left none), and is the request itself
        wherever that already leaves a voxel ---- *)
Lemma priv_prevent_zero_spec pc pcm px v1 v2 m :
  0 <= v1 -> 0 <= v2 -> m <= 0 -> 1 - m <= v1 + v2 ->
  let '(a, b) := CropAndPadS_priv_prevent_zero pc pcm px v1 v2 m in
  0 <= a <= v1 /\ 0 <= b <= v2 /\ a + b = v1 + v2 - (1 - m).
Proof.
  intros P1 P2 Pm S. unfold CropAndPadS_priv_prevent_zero. cbv zeta.
  rewrite (Z.abs_neq m) by lia.
  destruct (Z.ltb_spec (((- m + 1) / 2) + ((- m + 1) / 2)) (- m + 1)) as [A|A];
  destruct (Z.gtb_spec ((- m + 1) / 2 + 1) v1) as [B|B]; destruct (Z.gtb_spec ((- m + 1) / 2) v1) as [B'|B'];
  destruct (Z.gtb_spec ((- m + 1) / 2) v2) as [C|C]; cbn [fst snd]; repeat split; lia.
Qed.

Theorem prevent_zero_leaves_a_voxel pc pcm px t b l r c f H W D :
  0 <= t -> 0 <= b -> 0 <= l -> 0 <= r -> 0 <= c -> 0 <= f -> 1 <= H -> 1 <= W -> 1 <= D ->
  let '(t', b', l', r', c', f') := CropAndPadS_prevent_zero pc pcm px (t, b, l, r, c, f) H W D in
  0 <= t' <= t /\ 0 <= b' <= b /\ 0 <= l' <= l /\ 0 <= r' <= r /\ 0 <= c' <= c /\ 0 <= f' <= f /\
  1 <= H - (t' + b') /\ 1 <= W - (l' + r') /\ 1 <= D - (c' + f') /\
  (1 <= H - (t + b) -> t' = t /\ b' = b) /\ (1 <= W - (l + r) -> l' = l /\ r' = r) /\ (1 <= D - (c + f) -> c' = c /\ f' = f) /\
  (H - (t + b) < 1 -> H - (t' + b') = 1) /\ (W - (l + r) < 1 -> W - (l' + r') = 1) /\ (D - (c + f) < 1 -> D - (c' + f') = 1).
Proof.
  intros. unfold CropAndPadS_prevent_zero. cbv zeta.
  destruct (Z.ltb_spec (H - (t + b)) 1) as [A|A];
  [pose proof (priv_prevent_zero_spec pc pcm px t b (H - (t + b))) as S1;
   destruct (CropAndPadS_priv_prevent_zero pc pcm px t b (H - (t + b))) as [t1 b1]|];
  (destruct (Z.ltb_spec (W - (l + r)) 1) as [B|B];
   [pose proof (priv_prevent_zero_spec pc pcm px l r (W - (l + r))) as S2;
    destruct (CropAndPadS_priv_prevent_zero pc pcm px l r (W - (l + r))) as [l1 r1]|]);
  (destruct (Z.ltb_spec (D - (c + f)) 1) as [C|C];
   [pose proof (priv_prevent_zero_spec pc pcm px c f (D - (c + f))) as S3;
    destruct (CropAndPadS_priv_prevent_zero pc pcm px c f (D - (c + f))) as [c1 f1]|]);
  lia.
Qed.
