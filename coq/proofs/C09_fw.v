(* C09_fw.v -- the scheduling model reads its entropy as a PREFIX of the draw stream:
   what a call returns is a function of the tree, the data and that prefix; the next call
   continues with the unread rest, and a top-level Compose call always reads at least one draw. *)
From Coq Require Import List QArith Bool Arith Lia.
Import ListNotations.
From DV.model Require Import Framework.
From DV.proofs Require Import Fw.
Open Scope Q_scope.

Section Lemmas.
Variable data : Type.
Variable sem : nat -> data -> data.
Notation run := (run data sem).
Notation state := (state data).

Definition suffix (ds ds' : list draw) : Prop := exists pre, ds = pre ++ ds'.
Lemma suffix_refl ds : suffix ds ds. Proof. exists []. reflexivity. Qed.
Lemma suffix_trans a b c : suffix a b -> suffix b c -> suffix a c.
Proof. intros [p ->] [q ->]. exists (p ++ q). rewrite app_assoc. reflexivity. Qed.
Lemma suffix_cons x a b : suffix a b -> suffix (x :: a) b.
Proof. intros [p ->]. exists (x :: p). reflexivity. Qed.

Definition reads_prefix (f : data -> list draw -> option state) : Prop :=
  forall d ds d' tr ds', f d ds = Some (d', tr, ds') -> suffix ds ds'.

Lemma then_prefix (r : option state) k ds d tr ds' :
  (forall d1 tr1 ds1, r = Some (d1, tr1, ds1) -> suffix ds ds1) -> reads_prefix k ->
  then_ data r k = Some (d, tr, ds') -> suffix ds ds'.
Proof.
  intros Hr Hk H. apply then_some in H. destruct H as (d1 & tr1 & ds1 & tr2 & E & F & _).
  eapply suffix_trans; [eapply Hr; exact E | eapply Hk; exact F].
Qed.

Lemma fire_always_prefix ls : reads_prefix (fire_always data sem ls).
Proof.
  induction ls as [|k r IH]; intros d ds d' tr ds' H; cbn in H.
  - inversion H; subst. apply suffix_refl.
  - destruct k; try discriminate. destruct ds as [|[u|l] ds0]; try discriminate.
    apply suffix_cons. destruct (fire_always data sem r (sem id d) ds0) as [[[d2 tr2] ds2]|] eqn:E; [|discriminate].
    inversion H; subst. eapply IH; exact E.
Qed.

Section Helpers.
Variable rk : node -> bool -> data -> list draw -> option state.

Lemma seq_with_prefix l : (forall k, In k l -> forall f, reads_prefix (rk k f)) -> reads_prefix (seq_with data rk l).
Proof.
  induction l as [|k tl IHl]; intros Hk d ds d' tr ds' H; cbn in H.
  - inversion H; subst. apply suffix_refl.
  - eapply then_prefix; [| |exact H].
    + intros d1 tr1 ds1 E. eapply (Hk k (or_introl eq_refl)); exact E.
    + apply IHl. intros k' Hin. apply Hk. right. exact Hin.
Qed.

Lemma pick_with_prefix l : (forall k, In k l -> forall f, reads_prefix (rk k f)) ->
  forall i, reads_prefix (pick_with data rk l i).
Proof.
  induction l as [|k tl IHl]; intros Hk i d ds d' tr ds' H; cbn in H.
  - destruct i; discriminate.
  - destruct i as [|j].
    + eapply (Hk k (or_introl eq_refl)); exact H.
    + eapply IHl; [|exact H]. intros k' Hin. apply Hk. right. exact Hin.
Qed.

Lemma picks_with_prefix l : (forall k, In k l -> forall f, reads_prefix (rk k f)) ->
  forall idx, reads_prefix (picks_with data rk l idx).
Proof.
  intros Hk. induction idx as [|i tl IHi]; intros d ds d' tr ds' H; cbn in H.
  - inversion H; subst. apply suffix_refl.
  - eapply then_prefix; [| exact IHi | exact H].
    intros d1 tr1 ds1 E. eapply pick_with_prefix; [exact Hk | exact E].
Qed.
End Helpers.

Theorem run_reads_prefix : forall t force, reads_prefix (run t force).
Proof.
  induction t as [id p a | p kids IH | p kids IH | p n r kids IH | p kids IH | p kids IH] using node_ind';
  intros force d ds d' tr ds' H; cbn in H;
  try (assert (IH' : forall k, In k kids -> forall f, reads_prefix ((fun k f d ds => run k f d ds) k f))
        by (rewrite Forall_forall in IH; intros k Hin f; exact (IH k Hin f)); clear IH).
  - destruct ds as [|[u|l] ds0]; try discriminate.
    destruct (Qltb u p || a || force); inversion H; subst; apply suffix_cons, suffix_refl.
  - destruct force.
    + eapply seq_with_prefix; [exact IH' | exact H].
    + destruct ds as [|[u|l] ds0]; try discriminate. apply suffix_cons.
      destruct (Qltb u p).
      * eapply seq_with_prefix; [exact IH' | exact H].
      * eapply fire_always_prefix; exact H.
  - destruct kids as [|k0 tl]; [inversion H; subst; apply suffix_refl|].
    destruct force.
    + destruct ds as [|[u|[|i [|]]] ds1]; try discriminate. apply suffix_cons.
      eapply pick_with_prefix; [exact IH' | exact H].
    + destruct ds as [|[u|l] ds0]; try discriminate. apply suffix_cons.
      destruct (Qltb u p); [|inversion H; subst; apply suffix_refl].
      destruct ds0 as [|[u'|[|i [|]]] ds1]; try discriminate. apply suffix_cons.
      eapply pick_with_prefix; [exact IH' | exact H].
  - destruct kids as [|k0 tl]; [inversion H; subst; apply suffix_refl|].
    destruct force.
    + destruct ds as [|[u|idx] ds1]; try discriminate. apply suffix_cons.
      destruct (Nat.eqb (length idx) n); [|discriminate].
      eapply picks_with_prefix; [exact IH' | exact H].
    + destruct ds as [|[u|l] ds0]; try discriminate. apply suffix_cons.
      destruct (Qltb u p); [|inversion H; subst; apply suffix_refl].
      destruct ds0 as [|[u'|idx] ds1]; try discriminate. apply suffix_cons.
      destruct (Nat.eqb (length idx) n); [|discriminate].
      eapply picks_with_prefix; [exact IH' | exact H].
  - destruct ds as [|[u|l] ds0]; try discriminate. apply suffix_cons.
    destruct (Qltb u p); eapply pick_with_prefix; try exact IH'; exact H.
  - destruct kids as [|k tl]; [inversion H; subst; apply suffix_refl|].
    eapply then_prefix; [| |exact H].
    + intros d1 tr1 ds1 E. eapply (IH' k (or_introl eq_refl)); exact E.
    + apply seq_with_prefix. intros k' Hin. apply IH'. right. exact Hin.
Qed.

(* a pipeline call (Compose is never forced at top level) reads at least the Compose decision *)
Theorem compose_call_advances p kids d ds d' tr ds' :
  run (Comp p kids) false d ds = Some (d', tr, ds') -> exists u pre, ds = DU u :: pre ++ ds'.
Proof.
  intros H. pose proof (run_reads_prefix _ _ _ _ _ _ _ H) as S.
  cbn in H. destruct ds as [|[u|l] ds0]; try discriminate.
  exists u.
  assert (S0 : suffix ds0 ds').
  { destruct (Qltb u p).
    - eapply seq_with_prefix; [|exact H]. intros k _ f. apply run_reads_prefix.
    - eapply fire_always_prefix; exact H. }
  destruct S0 as [pre ->]. exists pre. reflexivity.
Qed.

(* the result depends on the consumed prefix only: extra unread draws never matter *)
Theorem unread_draws_irrelevant : forall t force d ds d' tr ds',
  run t force d ds = Some (d', tr, ds') -> exists pre, ds = pre ++ ds' /\ (length ds' <= length ds)%nat.
Proof.
  intros. destruct (run_reads_prefix _ _ _ _ _ _ _ H) as [pre E]. exists pre. split; [exact E|].
  subst. rewrite app_length. lia.
Qed.

End Lemmas.
