(* C10 -- A pipeline that does not fire is the identity.
   (1) format conversion round trips (generated from core/bbox_utils.py, core/keypoints_utils.py);
   (2) the scheduling layer returns the data it was given when no leaf fires (Framework model,
       tied to core/composition.py + transforms_interface.py by the recorded-draw correspondence). *)
From DV.lib Require Import PyNum PyRt Angle.
From DV.gen Require Import Gen_bbox_utils Gen_keypoints_utils.
From DV.model Require Import Framework.
From DV.proofs Require Import C10_box C10_kp Fw.
From DV.gen Require Import Gen_bbox_proc.
From DV.proofs Require Import C04_filter C04_sound C10_filter.
Open Scope Q_scope.

Theorem C10_bbox_roundtrip : forall fmt b r c s n,
  In fmt box_formats ->
  convert_bbox_to_dicaugment b fmt r c s true = Ok n ->
  exists b', convert_bbox_from_dicaugment n fmt r c s true = Ok b' /\ box_eq b' b.
Proof. exact bbox_roundtrip. Qed.
Print Assumptions C10_bbox_roundtrip.

Theorem C10_keypoint_roundtrip : forall fmt k r c s cv deg n,
  In fmt kp_formats ->
  angle_in_unit deg (fmt_angle fmt k) ->
  convert_keypoint_to_dicaugment k fmt r c s cv deg = Ok n ->
  exists k', convert_keypoint_from_dicaugment n fmt r c s cv deg = Ok k' /\
             kp_prefix_eq (fmt_arity fmt) k' k.
Proof. exact kp_roundtrip. Qed.
Print Assumptions C10_keypoint_roundtrip.

(* for every operator tree, every draw list and every leaf semantics: if no leaf fired,
   the data (image, mask, header, internal annotations) is the very value that was passed in *)
Theorem C10_nofire_identity : forall (data : Type) (sem : nat -> data -> data) t force d ds d' ds',
  run data sem t force d ds = Some (d', [], ds') -> d' = d.
Proof. intros data sem t. exact (nofire_identity data sem t). Qed.
Print Assumptions C10_nofire_identity.

(* the processor hands its configured format, validity flag and angle unit to both directions *)
From DV.gen Require Import Gen_keypoints_proc Gen_bbox_proc.
Theorem C10_keypoint_processor_wiring : forall deg fmt rem data r c s,
  KeypointsProcessor_convert_to_dicaugment deg fmt rem data r c s =
    convert_keypoints_to_dicaugment data fmt r c s rem deg /\
  KeypointsProcessor_convert_from_dicaugment deg fmt rem data r c s =
    convert_keypoints_from_dicaugment data fmt r c s rem deg.
Proof. intros. split; reflexivity. Qed.
Print Assumptions C10_keypoint_processor_wiring.

Theorem C10_bbox_processor_wiring : forall fmt data r c s,
  BboxProcessor_convert_to_dicaugment fmt data r c s = convert_bboxes_to_dicaugment data fmt r c s true /\
  BboxProcessor_convert_from_dicaugment fmt data r c s = convert_bboxes_from_dicaugment data fmt r c s true.
Proof. intros. split; reflexivity. Qed.
Print Assumptions C10_bbox_processor_wiring.

(* the filter runs after every call, also when nothing fired: boxes inside the frame that meet the configured
   thresholds (each compared with its OWN quantity: [keepb]) all come back, in order, with unchanged coordinates *)
Theorem C10_boxes_meeting_the_thresholds_pass_the_filter : forall t r c s l,
  (0 < r)%Z -> (0 < c)%Z -> (0 < s)%Z ->
  Forall proper_box l -> Forall in_unit l -> Forall (fun b => keepb t b r c s = true) l ->
  exists out,
    BboxProcessor_filter (t_area_vis t) (t_d t) (t_h t) (t_area t) (t_vol t) (t_vol_vis t) (t_w t) l r c s = Ok out /\
    Forall2 box_eq out l.
Proof. exact processor_filter_keeps_all. Qed.
Print Assumptions C10_boxes_meeting_the_thresholds_pass_the_filter.
