"""C05 failing-input search: every returned box / keypoint carries exactly the labels (declared
label fields and inline trailing fields) of the input annotation it derives from; label lists
have the length and order of the returned annotations; survivors keep their input order."""
import random

import numpy as np

import implrun as R
import spatial as S

A = R.A


def label_value(rng, i, f):
    return rng.choice([i * 10 + f, 'lab_%d_%d' % (i, f), (i, f), None if rng.random() < 0.1 else float(i) + 0.5 * f,
                       ('t', i), 'x'])


def gen_case(rng):
    H, W, D = rng.sample([6, 8, 10, 12], 3)
    n = rng.randint(0, 6)
    boxes, kps = [], []
    for i in range(n):
        x1, y1, z1 = rng.randint(0, W - 2), rng.randint(0, H - 2), rng.randint(0, D - 2)
        boxes.append((float(x1), float(y1), float(z1), float(rng.randint(x1 + 1, W)), float(rng.randint(y1 + 1, H)),
                      float(rng.randint(z1 + 1, D))))
        kps.append((float(rng.randint(0, W - 1)), float(rng.randint(0, H - 1)), float(rng.randint(0, D - 1))))
    kb, kk = rng.randint(0, 3), rng.randint(0, 2)
    inline_b = rng.randint(0 if kb else 1, 2)
    inline_k = rng.randint(0, 2)
    case = {'shape': [H, W, D], 'n': n, 'boxes': boxes, 'kps': kps, 'seed': R.pick_seed(rng),
            'box_fields': {'bf%d' % f: [label_value(rng, i, f) for i in range(n)] for f in range(kb)},
            'kp_fields': {'kf%d' % f: [label_value(rng, i, 5 + f) for i in range(n)] for f in range(kk)},
            'inline_b': [[('ib', i, j) for j in range(inline_b)] for i in range(n)],
            'inline_k': [[('ik', i, j) for j in range(inline_k)] for i in range(n)],
            'each': rng.random() < 0.5, 'additional': rng.random() < 0.3,
            'via': rng.choice(['direct', 'direct', 'direct', 'from_dict', 'from_dict', 'replay']),
            'bbox_format': rng.choice(['pascal_voc_3d', 'pascal_voc_3d', 'coco_3d', 'yolo_3d', 'dicaugment_3d']),
            'kp_format': rng.choice(['xyz', 'xyz', 'zyx', 'xyza', 'xyzs', 'xyzas', 'xyzsa'])}
    # a window that keeps most annotations and drops some (a small window leaves nothing to compare)
    x1, y1, z1 = rng.randint(0, W // 3), rng.randint(0, H // 3), rng.randint(0, D // 3)
    case['pipeline'] = [S.L('Crop', x_min=x1, y_min=y1, z_min=z1, x_max=rng.randint(W - W // 3, W),
                            y_max=rng.randint(H - H // 3, H), z_max=rng.randint(D - D // 3, D))]
    if rng.random() < 0.6:
        case['pipeline'].append(rng.choice([S.L('HorizontalFlip'), S.L('Transpose'), S.L('NoOp'),
                                            S.L('CoarseDropout', max_holes=2, max_height=1, max_width=1, max_depth=1)]))
    if rng.random() < 0.25:
        # keypoints removed from the MIDDLE of the list by a dropout with large holes (boxes are not supported there)
        case['pipeline'] = [S.L('CoarseDropout', max_holes=3, min_holes=2, max_height=max(2, H // 2), max_width=max(2, W // 2),
                                max_depth=max(2, D // 2), min_height=2, min_width=2, min_depth=2)]
    return case


def same_list(a, b):
    """list equality that tolerates entries with no plain truth value (arrays returned in place of labels)"""
    try:
        a, b = list(a), list(b)
        return len(a) == len(b) and all(type(x) is type(y) and bool(x == y) for x, y in zip(a, b))
    except Exception:  # noqa
        return False


def check(case, viol):
    shape = tuple(case['shape'])
    n = case['n']
    bfields, kfields = list(case['box_fields']), list(case['kp_fields'])
    # the geometry's own identity is smuggled in as the LAST inline field so that survivors can be matched
    bfmt, kfmt = case.get('bbox_format', 'pascal_voc_3d'), case.get('kp_format', 'xyz')
    H_, W_, D_ = shape

    def box_in(b):
        x1, y1, z1, x2, y2, z2 = b
        if bfmt == 'coco_3d':
            return (x1, y1, z1, x2 - x1, y2 - y1, z2 - z1)
        if bfmt == 'yolo_3d':
            return ((x1 + x2) / 2 / W_, (y1 + y2) / 2 / H_, (z1 + z2) / 2 / D_, (x2 - x1) / W_, (y2 - y1) / H_, (z2 - z1) / D_)
        if bfmt == 'dicaugment_3d':
            return (x1 / W_, y1 / H_, z1 / D_, x2 / W_, y2 / H_, z2 / D_)
        return tuple(b)

    def kp_in(k):
        x, y, z = k
        return {'xyz': (x, y, z), 'zyx': (z, y, x), 'xyza': (x, y, z, 0.3), 'xyzs': (x, y, z, 1.5),
                'xyzas': (x, y, z, 0.3, 1.5), 'xyzsa': (x, y, z, 1.5, 0.3)}[kfmt]
    klen = len(kp_in((0.0, 0.0, 0.0)))
    boxes = [box_in(b) + tuple(case['inline_b'][i]) + (('id', i),) for i, b in enumerate(case['boxes'])]
    kps = [kp_in(k) + tuple(case['inline_k'][i]) + (('id', i),) for i, k in enumerate(case['kps'])]
    add = {'bboxes2': 'bboxes', 'keypoints2': 'keypoints'} if case['additional'] else None
    specs = case['pipeline']
    if add and (bfields or kfields):
        # declared label fields are shared by the primary and the additional targets (known finding when the targets
        # lose different annotations): exercised with pipelines that drop nothing, where every target keeps its length,
        # every label list must come back as given and every item must keep its own inline fields
        specs = [sp for sp in specs if sp['cls'] in ('HorizontalFlip', 'Transpose', 'NoOp')] or [S.L('HorizontalFlip')]
        case = dict(case, pipeline=specs)
    pipe = A.Compose([R.make_node(s) for s in specs],
                     bbox_params=A.BboxParams(bfmt, label_fields=bfields or None,
                                              check_each_transform=case['each']),
                     keypoint_params=A.KeypointParams(kfmt, label_fields=kfields or None,
                                                      check_each_transform=case['each']),
                     additional_targets=add)
    use_boxes = all(sp['cls'] != 'CoarseDropout' for sp in case['pipeline'])   # CoarseDropout: boxes unsupported (README)
    data = dict(image=np.zeros(shape, np.uint8), keypoints=kps)
    if use_boxes:
        data['bboxes'] = boxes
    else:
        bfields = []
        pipe = A.Compose([R.make_node(sp) for sp in case['pipeline']],
                         keypoint_params=A.KeypointParams(kfmt, label_fields=kfields or None,
                                                          check_each_transform=case['each']),
                         additional_targets={'keypoints2': 'keypoints'} if add else None)
    for f in bfields:
        data[f] = list(case['box_fields'][f])
    for f in kfields:
        data[f] = list(case['kp_fields'][f])
    if add:
        if use_boxes:
            data['bboxes2'] = list(reversed(boxes))
        data['keypoints2'] = list(reversed(kps))
    R.seed(case['seed'])
    try:
        via = case.get('via', 'direct')
        if via == 'from_dict':
            # the pipeline rebuilt from its own serialised form (what save / load hand back)
            pipe = A.from_dict(A.to_dict(pipe))
            res = pipe(**data)
        elif via == 'replay':
            # ... or the recorded augmentation replayed on the same annotations
            rp = A.ReplayCompose(pipe.transforms, bbox_params=pipe.processors['bboxes'].params if 'bboxes' in pipe.processors else None,
                                 keypoint_params=pipe.processors['keypoints'].params if 'keypoints' in pipe.processors else None,
                                 additional_targets=add if (use_boxes or not add) else {'keypoints2': 'keypoints'})
            import copy as _copy
            first = rp(**_copy.deepcopy(data))
            res = A.ReplayCompose.replay(first['replay'], **_copy.deepcopy(data))
        else:
            res = pipe(**data)
    except Exception as e:  # noqa
        viol.append({'site': 'C05:raises', 'case': case, 'observed': '%s: %s' % (type(e).__name__, e),
                     'expected': 'no exception'})
        return
    bad = []

    def verify(key, fields, fieldvals, inline, geom_len):
        out = res[key]
        if any(not (isinstance(a[-1], tuple) and len(a[-1]) == 2 and a[-1][0] == 'id') for a in out):
            bad.append((key, 'annotation without its last inline field: %s' % (out[:2],), 'every inline field returned'))
            return
        ids = [a[-1][1] for a in out]
        if ids != sorted(ids) and not key.endswith('2'):
            bad.append((key, 'order %s' % ids, 'input order'))
        if key.endswith('2') and ids != sorted(ids, reverse=True):
            bad.append((key, 'order %s' % ids, 'input order'))
        for a, i in zip(out, ids):
            if tuple(a[geom_len:-1]) != tuple(inline[i]):
                bad.append((key, 'inline fields %s' % (a[geom_len:],), 'those of annotation %d' % i))
        for f in fields:
            vals = res[f]
            exp = [fieldvals[f][i] for i in ids]
            if not same_list(vals, exp):
                bad.append((f, vals, exp))
        # the identity carried in the last inline field is itself a trailing field: where the geometry map is a plain
        # shift (Crop / NoOp / dropout only), the annotation's own coordinates say which input it is
        if key.startswith('keypoints') and all(sp['cls'] in ('Crop', 'NoOp', 'CoarseDropout') for sp in case['pipeline']):
            ox = sum(sp['args'].get('x_min', 0) for sp in case['pipeline'] if sp['cls'] == 'Crop')
            oy = sum(sp['args'].get('y_min', 0) for sp in case['pipeline'] if sp['cls'] == 'Crop')
            oz = sum(sp['args'].get('z_min', 0) for sp in case['pipeline'] if sp['cls'] == 'Crop')
            for a, i in zip(out, ids):
                g = (a[2], a[1], a[0]) if kfmt == 'zyx' else (a[0], a[1], a[2])
                k0 = case['kps'][i]
                if any(abs(float(gv) - (kv - o)) > 1e-9 for gv, kv, o in zip(g, k0, (ox, oy, oz))):
                    bad.append((key, 'annotation at %s carries the fields of input annotation %d, which lies at %s' % (tuple(map(float, g)), i, (k0[0] - ox, k0[1] - oy, k0[2] - oz)),
                                'each annotation keeps its own fields'))
                    break
    if use_boxes:
        verify('bboxes', bfields, case['box_fields'], case['inline_b'], 6)
    verify('keypoints', kfields, case['kp_fields'], case['inline_k'], klen)
    if 'bboxes2' in data:
        verify('bboxes2', [], {}, case['inline_b'], 6)
    if 'keypoints2' in data:
        verify('keypoints2', [], {}, case['inline_k'], klen)
    for key, obs, exp in bad[:3]:
        viol.append({'site': 'C05:%s' % ('labels' if key not in ('bboxes', 'keypoints', 'bboxes2', 'keypoints2') else key),
                     'case': case, 'observed': str(obs), 'expected': str(exp)})


def check_additional_with_fields(viol):
    """known limitation: one label list shared by the primary and additional box targets"""
    pipe = A.Compose([A.NoOp(p=1)], bbox_params=A.BboxParams('pascal_voc_3d', label_fields=['cls']),
                     additional_targets={'bboxes2': 'bboxes'})
    img = np.zeros((8, 8, 8), np.uint8)
    try:
        r = pipe(image=img, bboxes=[(0, 0, 0, 2, 2, 2), (1, 1, 1, 3, 3, 3)], bboxes2=[(0, 0, 0, 4, 4, 4)],
                 cls=['a', 'b'])
        obs = 'returned cls=%s' % (r['cls'],)
        ok = r['cls'] == ['a', 'b'] and len(r['bboxes2']) == 1
    except Exception as e:  # noqa
        obs, ok = '%s' % type(e).__name__, False
    if not ok:
        viol.append({'site': 'C05:additional-target+label_fields', 'case': {'fixed': 'additional bbox target with label_fields'},
                     'observed': obs, 'expected': 'labels of each target kept apart'})


def run(seed=0, tier='quick', hints=None, broken=False):
    rng = random.Random(seed * 7919 + 5)
    n = 150 if tier == 'quick' else 5000
    if broken:
        n *= 3
    viol, seen = [], set()
    for _ in range(n):
        case = gen_case(rng)
        check(case, viol)
        seen.add((case['n'], len(case['box_fields']), len(case['kp_fields']), case['each'], case['additional'],
                  tuple(s['cls'] for s in case['pipeline'])))
    check_additional_with_fields(viol)
    return {'violations': viol, 'info': {'evaluations': n + 1, 'distinct': len(seen),
                                         'what': 'crop pipelines dropping annotations from the middle x label fields of mixed types x inline fields x additional targets'}}


def replay(v):
    viol = []
    if v['case'].get('fixed'):
        check_additional_with_fields(viol)
    else:
        check(v['case'], viol)
    return bool(viol)
