"""C10 failing-input search: pipelines in which nothing fires must return their inputs
(arrays and header bit-identical, annotations within 1e-9 relative), in every annotation
format, both angle units, non-cubic frames."""
import copy
import math
import random

import numpy as np

import implrun as R

A = R.A
BOX_FORMATS = ['coco_3d', 'pascal_voc_3d', 'yolo_3d', 'dicaugment_3d']
KP_FORMATS = ['xyz', 'zyx', 'xyza', 'xyzs', 'xyzas', 'xyzsa']


def L(cls, **args):
    return {'cls': cls, 'args': args, 'pin': None}


def nofire_pipelines(rng):
    leaves0 = [L('HorizontalFlip', p=0.0), L('VerticalFlip', p=0.0), L('Transpose', p=0.0),
               L('RandomRotate90', p=0.0), L('Blur', p=0.0), L('RandomScale', p=0.0),
               L('ShiftScaleRotate', p=0.0), L('InvertImg', p=0.0)]
    out = [('empty', [], {}), ('NoOp', [L('NoOp', p=1.0)], {}),
           ('p0-leaves', rng.sample(leaves0, 3), {}),
           ('skipped-compose', [L('HorizontalFlip', p=1.0), L('Transpose', p=1.0)], {'p': 0.0}),
           ('oneof-p0', [{'op': 'OneOf', 'children': [L('HorizontalFlip', p=0.5), L('Blur', p=0.5)], 'args': {'p': 0.0}}], {}),
           ('someof-p0', [{'op': 'SomeOf', 'children': [L('HorizontalFlip', p=0.5), L('Blur', p=0.5)],
                           'args': {'p': 0.0, 'n': 2}}], {}),
           ('sequential-p0-leaves', [{'op': 'Sequential', 'children': [L('SliceFlip', p=0.0), L('Flip', p=0.0)],
                                      'args': {'p': 1.0}}], {}),
           ('nested-compose-p0', [{'op': 'Compose', 'children': [L('HorizontalFlip', p=1.0)], 'args': {'p': 0.0}}], {})]
    return out


def gen_case(rng, bf=None, boundary=False):
    dims = rng.sample([2, 3, 5, 6, 7, 9, 12, 20], 3)
    if rng.random() < 0.15:
        dims[rng.randrange(3)] = 1
    H, W, D = dims
    bf = bf or rng.choice(BOX_FORMATS)
    kf = rng.choice(KP_FORMATS)
    deg = rng.random() < 0.5
    boxes = []
    for i in range(rng.randint(2, 3) if boundary else rng.randint(0, 3)):
        def seg(n):
            a = rng.uniform(0, n * 0.7)
            b = rng.uniform(a + n * 0.05, n)
            # faces ON the frame boundary (a valid box may touch or span the frame: extent exactly 1 in the
            # normalised formats); a boundary case has the first box span the whole frame along every axis
            if boundary and (i == 0 or rng.random() < 0.5):
                a = 0.0
            if boundary and (i == 0 or rng.random() < 0.5):
                b = float(n)
            return a, b
        (x1, x2), (y1, y2), (z1, z2) = seg(W), seg(H), seg(D)
        if bf == 'pascal_voc_3d':
            b = (x1, y1, z1, x2, y2, z2)
        elif bf == 'coco_3d':
            b = (x1, y1, z1, x2 - x1, y2 - y1, z2 - z1)
        elif bf == 'yolo_3d':
            b = ((x1 + x2) / 2 / W, (y1 + y2) / 2 / H, (z1 + z2) / 2 / D, (x2 - x1) / W, (y2 - y1) / H, (z2 - z1) / D)
        else:
            b = (x1 / W, y1 / H, z1 / D, x2 / W, y2 / H, z2 / D)
        boxes.append(tuple(b) + ('b%d' % i,))
    kps = []
    for i in range(rng.randint(0, 3)):
        x, y, z = rng.uniform(0, W - 0.01), rng.uniform(0, H - 0.01), rng.uniform(0, D - 0.01)
        a = rng.uniform(0, 359.9) if deg else rng.uniform(0, 2 * math.pi - 1e-3)
        s = rng.uniform(0, 4)
        k = {'xyz': (x, y, z), 'zyx': (z, y, x), 'xyza': (x, y, z, a), 'xyzs': (x, y, z, s),
             'xyzas': (x, y, z, a, s), 'xyzsa': (x, y, z, s, a)}[kf]
        kps.append(tuple(k) + ('k%d' % i,))
    return {'shape': [H, W, D], 'bbox_format': bf, 'kp_format': kf, 'degrees': deg, 'bboxes': boxes,
            'keypoints': kps, 'channels': rng.choice([None, None, 1, 3]),
            'dtype': rng.choice(['uint8', 'int16', 'float32', 'float64'])}


def fmt_box(bf, x1, y1, z1, x2, y2, z2, W, H, D):
    if bf == 'pascal_voc_3d':
        return (x1, y1, z1, x2, y2, z2)
    if bf == 'coco_3d':
        return (x1, y1, z1, x2 - x1, y2 - y1, z2 - z1)
    if bf == 'yolo_3d':
        return ((x1 + x2) / 2 / W, (y1 + y2) / 2 / H, (z1 + z2) / 2 / D, (x2 - x1) / W, (y2 - y1) / H, (z2 - z1) / D)
    return (x1 / W, y1 / H, z1 / D, x2 / W, y2 / H, z2 / D)


THRESHOLDS = ['min_width', 'min_height', 'min_depth', 'min_planar_area', 'min_volume', 'min_area_visibility',
              'min_volume_visibility']


def threshold_case(rng, bf, thr):
    """boxes that all MEET the one configured threshold `thr` (so a non-firing pipeline must return them all) but
    would fail it if it were compared with another axis / another quantity: long along the threshold's own axis,
    short (down to sub-voxel) along the other two; for the area / volume thresholds a sub-voxel depth makes the
    volume smaller than the planar area and a depth above one voxel larger."""
    long_axis = {'min_width': 0, 'min_height': 1, 'min_depth': 2}.get(thr, rng.randrange(3))
    dims = [rng.choice([5, 6, 7, 9]) for _ in range(3)]     # W, H, D
    dims[long_axis] = rng.choice([20, 24, 31])
    W, H, D = dims
    boxes, ext = [], []
    for i in range(rng.randint(2, 3)):
        e = [rng.uniform(0.5, 3.0) for _ in range(3)]
        e[long_axis] = rng.uniform(10.0, 18.0)
        if thr in ('min_planar_area', 'min_volume'):
            e[2] = rng.choice([rng.uniform(0.3, 0.8), rng.uniform(1.5, 4.0)])
        lo = [rng.uniform(0, n - x) for n, x in zip(dims, e)]
        boxes.append(tuple(fmt_box(bf, lo[0], lo[1], lo[2], lo[0] + e[0], lo[1] + e[1], lo[2] + e[2], W, H, D)) + ('b%d' % i,))
        ext.append(e)
    if thr in ('min_width', 'min_height', 'min_depth'):
        val = min(e[long_axis] for e in ext) - 0.5
    elif thr == 'min_planar_area':
        val = 0.9 * min(e[0] * e[1] for e in ext)
    elif thr == 'min_volume':
        val = 0.9 * min(e[0] * e[1] * e[2] for e in ext)
    else:
        val = 0.99
    return {'shape': [H, W, D], 'bbox_format': bf, 'kp_format': 'xyz', 'degrees': False, 'bboxes': boxes,
            'keypoints': [], 'channels': None, 'dtype': 'uint8', 'bbox_kw': {thr: val}}


def run_case(name, specs, ckw, case):
    shape = tuple(case['shape']) + ((case['channels'],) if case['channels'] else ())
    rs = np.random.RandomState(1)
    img = (rs.rand(*shape) if case['dtype'].startswith('float') else rs.randint(0, 200, shape)).astype(case['dtype'])
    mask = rs.randint(0, 5, tuple(case['shape'])).astype('int32')
    dicom = {'PixelSpacing': (0.7, 0.4), 'RescaleIntercept': -1024.0, 'RescaleSlope': 1.0,
             'ConvolutionKernel': 'STANDARD', 'XRayTubeCurrent': 160}
    pipe = R.build(specs, bbox_format=case['bbox_format'], kp_format=case['kp_format'], bbox_kw=case.get('bbox_kw'),
                   kp_kw={'angle_in_degrees': case['degrees']}, compose_kw=ckw)
    res = pipe(image=img.copy(), mask=mask.copy(), bboxes=[tuple(b) for b in case['bboxes']],
               keypoints=[tuple(k) for k in case['keypoints']], dicom=copy.deepcopy(dicom))
    bad = []
    if not (res['image'].dtype == img.dtype and np.array_equal(res['image'], img)):
        bad.append(('image', 'changed', 'bit-identical'))
    if not (res['mask'].dtype == mask.dtype and np.array_equal(res['mask'], mask)):
        bad.append(('mask', 'changed', 'bit-identical'))
    if res['dicom'] != dicom:
        bad.append(('dicom', res['dicom'], dicom))
    for key in ('bboxes', 'keypoints'):
        a, b = res[key], case[key]
        ok = len(a) == len(b) and all(
            len(x) == len(y) and R.seq_close(x[:-1], y[:-1]) and x[-1] == y[-1] for x, y in zip(a, b))
        if not ok:
            bad.append((key, [list(x) for x in a], [list(x) for x in b]))
    return bad


def check_one(name, specs, ckw, case, viol):
    try:
        bad = run_case(name, specs, ckw, case)
    except Exception as e:  # noqa
        bad = [('raises', '%s: %s' % (type(e).__name__, e), 'no exception')]
    for target, obs, exp in bad:
        site = 'C10:%s:%s' % (target, case['kp_format'] + ('/deg' if case['degrees'] else '/rad')
                               if target == 'keypoints' else case['bbox_format'] if target == 'bboxes' else name)
        viol.append({'site': site, 'name': name, 'pipeline': specs, 'compose_kw': ckw, 'case': case,
                     'observed': obs, 'expected': exp})


def run(seed=0, tier='quick', hints=None, broken=False):
    rng = random.Random(seed * 7919 + 10)
    n = 25 if tier == 'quick' else 600
    if broken:
        n *= 3
    viol = []
    evals = 0
    seen = set()
    for _ in range(n):
        case = gen_case(rng)
        for name, specs, ckw in nofire_pipelines(rng):
            check_one(name, specs, ckw, case, viol)
            evals += 1
            seen.add((name, case['bbox_format'], case['kp_format'], case['degrees'], tuple(case['shape'])))
    # boxes touching / spanning the frame, in every format
    for rep in range(1 if tier == 'quick' else 20):
        for bf in BOX_FORMATS:
            case = gen_case(rng, bf=bf, boundary=True)
            for name, specs, ckw in nofire_pipelines(rng)[:3]:
                check_one(name + '-boundary-boxes', specs, ckw, case, viol)
                evals += 1
            seen.add(('boundary', bf, tuple(case['shape'])))
    # every BboxParams threshold, one at a time, at a value ALL the boxes meet (nothing fires, so nothing may be
    # dropped either): each threshold must be compared with its own quantity
    for rep in range(1 if tier == 'quick' else 10):
        for bf in BOX_FORMATS:
            for thr in THRESHOLDS:
                case = threshold_case(rng, bf, thr)
                pipes = nofire_pipelines(rng)
                for name, specs, ckw in [pipes[0], pipes[2 + (evals % 2)]]:
                    check_one(name + '-threshold-' + thr, specs, ckw, case, viol)
                    evals += 1
                seen.add(('threshold', bf, thr))
    return {'violations': viol, 'info': {'evaluations': evals, 'distinct': len(seen),
                                         'what': 'non-firing pipelines x annotation formats x angle units x non-cubic frames; every BboxParams threshold x box format at a value all boxes meet'}}


def replay(v):
    viol = []
    check_one(v['name'], v['pipeline'], v['compose_kw'], v['case'], viol)
    return bool(viol)
