#!/usr/bin/env python3
"""check.py -- decide one property of /repo's current working tree.

  check.py Cnn [--tier quick|thorough] [--replay FILE]

Steps: regenerate the model from the source (translator), rebuild the property's
proof closure with coqc, print the assumptions of every property theorem, run
the correspondence between model and implementation, run the property's
failing-input search on the implementation, match what was found against
known_findings.json, write evidence/Cnn.json, print VIOLATION / KNOWN-FINDING
lines, exit 1 iff a VIOLATION line was printed.
"""
import hashlib
import importlib
import json
import os
import re
import subprocess
import sys
import time

VERIF = os.path.abspath(os.path.join(os.path.dirname(__file__), '..'))
sys.path.insert(0, os.path.join(VERIF, 'harness'))
sys.path.insert(0, os.path.join(VERIF, 'tools'))
REPO = os.environ.get('VERIF_REPO', '/repo')
os.environ['VERIF_REPO'] = REPO
os.environ.setdefault('PYTHONHASHSEED', '0')
sys.path.insert(0, REPO)

import props as PROPS  # noqa: E402


def sh(cmd, **kw):
    return subprocess.run(cmd, stdout=subprocess.PIPE, stderr=subprocess.STDOUT, text=True, **kw)


def enclosing_lemma(path, line):
    name = None
    try:
        with open(path) as f:
            for i, l in enumerate(f, 1):
                m = re.match(r'\s*(Lemma|Theorem|Example|Corollary|Definition|Fixpoint)\s+([A-Za-z0-9_\']+)', l)
                if m:
                    name = m.group(2)
                if i >= line:
                    break
    except OSError:
        pass
    return name


def parse_build_errors(out):
    errs = []
    for m in re.finditer(r'File "\./([^"]+)", line (\d+), characters [\d-]+:\s*\n(Error:.*?)(?=\n\n|\nmake|\Z)', out, re.S):
        path, line, msg = m.group(1), int(m.group(2)), m.group(3)
        errs.append({'file': path, 'line': line,
                     'lemma': enclosing_lemma(os.path.join(VERIF, 'coq', path), line),
                     'message': ' '.join(msg.split())[:300]})
    return errs


def theorems_in(path):
    out = []
    try:
        for l in open(path):
            m = re.match(r'\s*(Theorem|Lemma)\s+([A-Za-z0-9_\']+)', l)
            if m:
                out.append(m.group(2))
    except OSError:
        pass
    return out


def assumptions_of(prop):
    """compile props/<prop>.v once more on its own and parse Print Assumptions"""
    cmd = ['timeout', '900', 'coqc', '-Q', 'lib', 'DV.lib', '-Q', 'gen', 'DV.gen', '-Q', 'model', 'DV.model',
           '-Q', 'proofs', 'DV.proofs', '-Q', 'props', 'DV.props', 'props/%s.v' % prop]
    r = sh(cmd, cwd=os.path.join(VERIF, 'coq'))
    closed = len(re.findall(r'Closed under the global context', r.stdout))
    axioms = sorted(set(re.findall(r'^([A-Za-z0-9_.\']+)\s*:', r.stdout, re.M)))
    return {'cmd': ' '.join(cmd[2:]), 'ok': r.returncode == 0, 'closed': closed, 'axioms': axioms,
            'tail': r.stdout[-1500:] if r.returncode != 0 else ''}


def load_known():
    p = os.path.join(VERIF, 'known_findings.json')
    if os.path.exists(p):
        return json.load(open(p))
    return {'open': [], 'fixed': []}


def write_replay(prop, payload):
    os.makedirs(os.path.join(VERIF, 'replays'), exist_ok=True)
    h = hashlib.sha256(json.dumps(payload, sort_keys=True, default=str).encode()).hexdigest()[:12]
    path = os.path.join(VERIF, 'replays', '%s-%s.json' % (prop, h))
    with open(path, 'w') as f:
        json.dump(payload, f, indent=1, default=str)
    return path


def main():
    args = sys.argv[1:]
    if not args:
        print(__doc__)
        return 2
    prop = args[0]
    tier = os.environ.get('VERIF_TIER', 'quick')
    replay = None
    i = 1
    while i < len(args):
        if args[i] == '--tier':
            tier = args[i + 1]
            i += 2
        elif args[i] == '--replay':
            replay = args[i + 1]
            i += 2
        elif args[i] in ('quick', 'thorough'):
            tier = args[i]
            i += 1
        else:
            i += 1
    if tier not in ('quick', 'thorough'):
        tier = 'quick'
    seed = int(os.environ.get('VERIF_SEED', '0') or 0)
    cfg = PROPS.PROPS[prop]
    t0 = time.time()

    if replay:
        payload = json.load(open(replay))
        mod = importlib.import_module('search.' + payload.get('search_module', prop))
        if payload.get('case') is None:
            print('replay file names a broken obligation, no concrete input: %s' % payload.get('broken'))
            return 1
        still = mod.replay(payload['case'])
        print('replay: property %s %s on this input' % (prop, 'FAILS' if still else 'holds'))
        return 1 if still else 0

    # ---- 1. regenerate + build
    targets = ['props/%s.vo' % prop] + ['findings/%s.vo' % f for f in cfg.get('finding_refuted', [])]
    b = sh([os.path.join(VERIF, 'tools', 'build.sh')] + targets)
    build_out = b.stdout
    build_errors = parse_build_errors(build_out)
    build_ok = b.returncode == 0 and not build_errors and 'Error' not in build_out
    man = {}
    try:
        man = json.load(open(os.path.join(VERIF, 'coq/gen/manifest.json')))
    except Exception:
        pass
    # translation errors count for a property only when they concern a function the property's theorems are about
    # (a property without generated functions is not touched by a function that stopped translating elsewhere;
    # a missing definition that a proof needs shows up as a broken proof obligation anyway)
    terrs = [e for e in man.get('errors', []) if e.get('function') in cfg.get('requires', [])]
    try:
        cman = json.load(open(os.path.join(VERIF, 'coq/gen/classtab_manifest.json')))
        terrs += cman.get('errors', [])
    except Exception:
        pass
    # findings whose full-strength lemma is expected NOT to check while the finding is open
    holds_state = {}
    for fh in cfg.get('finding_holds', []):
        r = sh([os.path.join(VERIF, 'tools', 'build.sh'), 'findings/%s.vo' % fh])
        holds_state[fh] = (r.returncode == 0 and 'Error' not in r.stdout)

    theorems = theorems_in(os.path.join(VERIF, 'coq', 'props', prop + '.v'))
    asm = assumptions_of(prop) if build_ok else {'cmd': '', 'ok': False, 'closed': 0, 'axioms': [], 'tail': ''}
    broken = []
    for e in build_errors:
        broken.append('proof obligation %s (%s:%d): %s' % (e['lemma'], e['file'], e['line'], e['message']))
    if not build_ok and not build_errors:
        broken.append('build of %s failed: %s' % (targets, build_out[-400:]))
    for e in terrs:
        broken.append('translation of %s (%s): %s' % (e.get('function'), e.get('file'), e.get('error')))

    # ---- 2. correspondence model <-> implementation
    corr_summary = None
    if cfg.get('corr'):
        corr_summary = cfg['corr'](tier, seed)
        if corr_summary.get('n_disagreements', 0) or corr_summary.get('coq_errors') or corr_summary.get('missing_functions'):
            for d in corr_summary.get('disagreements', [])[:5]:
                broken.append('correspondence disagreement: %s' % json.dumps(d, default=str)[:400])
            for d in corr_summary.get('coq_errors', [])[:2]:
                broken.append('correspondence run failed: %s' % str(d)[-300:])
            for d in corr_summary.get('missing_functions', []):
                broken.append('correspondence: function %s is not in the generated model' % d)

    # ---- 3. failing-input search on the implementation
    found = []
    search_info = {}
    if cfg.get('search'):
        mod = importlib.import_module('search.' + cfg['search'])
        hints = [d for d in (corr_summary or {}).get('disagreements', [])]
        import implrun
        try:
            res = mod.run(seed=seed, tier=tier, hints=hints, broken=bool(broken))
        except Exception as e:  # noqa -- the library failed in a place where the oracle did not expect it to (construction,
            # a helper): the property is not shown to hold; reported without a concrete input
            import traceback
            tb = traceback.format_exc().strip().splitlines()
            broken.append('search on the implementation stopped with %s: %s (%s)' % (type(e).__name__, str(e)[:200], ' | '.join(tb[-4:-1])[:300]))
            res = {'violations': [], 'info': {'evaluations': 0, 'what': 'search stopped by an exception'}}
        implrun.restore_random()          # an extreme case seed reroutes random.*: undo after the search
        found = res['violations']
        search_info = res.get('info', {})

    # ---- 4. known findings
    known = load_known()
    open_k = [k for k in known.get('open', []) if k['property'] == prop]
    lines = []
    n_viol = 0
    matched_known = set()
    new_found = []
    for v in found:
        k = next((k for k in open_k if k['site'] == v.get('site')), None)
        if k is not None:
            matched_known.add(k['id'])
        else:
            new_found.append(v)
    for k in open_k:
        if k['id'] in matched_known or k.get('static'):
            # static findings (e.g. a missing persisted argument) are re-established by the class table
            if k.get('static') and k['id'] not in matched_known:
                continue
            lines.append('KNOWN-FINDING: property=%s %s' % (prop, k['what_fails']))
    # one VIOLATION line per distinct site
    seen_sites = set()
    for v in new_found:
        if v.get('site') in seen_sites:
            continue
        seen_sites.add(v.get('site'))
        if n_viol >= 25:
            continue        # a defect in shared plumbing shows at every class: 25 replay files say enough (all sites are in the evidence)
        path = write_replay(prop, {'property': prop, 'search_module': cfg['search'], 'case': v,
                                   'broken': broken[:5], 'how_to_replay': './check %s --replay <this file>' % prop})
        lines.append('VIOLATION property=%s replay=%s' % (prop, path))
        n_viol += 1
    if broken and not new_found:
        # a broken obligation explained entirely by open known findings is not a new violation
        unexplained = [bmsg for bmsg in broken if not any(
            (k.get('lemma') and k['lemma'] in bmsg) for k in open_k)]
        if unexplained:
            path = write_replay(prop, {'property': prop, 'search_module': cfg.get('search'), 'case': None,
                                       'broken': unexplained[:10],
                                       'note': 'the property is no longer shown to hold: the obligations above do not '
                                               'check against the current source; the search found no failing input'})
            lines.append('VIOLATION property=%s replay=%s no-failing-input-found' % (prop, path))
            n_viol += 1

    # ---- 5. evidence
    n_obl = len(theorems) + len(cfg.get('finding_refuted', []))
    discharged = n_obl if build_ok else 0
    samples = []
    if corr_summary:
        samples += corr_summary.get('samples', [])[:2]
    samples += [{'theorem': t} for t in theorems[:3]]
    ev = {
        'property_id': prop, 'tier': tier, 'seed': seed, 'level': 'proof',
        'coverage': {
            'obligations': max(n_obl, 1), 'discharged': discharged if build_ok else 0,
            'checker_cmd': 'tools/build.sh %s  &&  %s' % (' '.join(targets), asm['cmd']),
            'trusted_base': cfg.get('trusted_base', []) + PROPS.COMMON_TRUSTED +
                            ['Print Assumptions: %d theorem(s) closed under the global context; axioms listed: %s'
                             % (asm['closed'], ', '.join(asm['axioms']) or 'none')],
            'theorems': theorems,
            'broken_obligations': broken,
            'translation': {'modules': [{k: m[k] for k in ('file', 'sha256')} for m in man.get('modules', [])],
                            'errors': man.get('errors', [])},
            'correspondence': {k: v for k, v in (corr_summary or {}).items() if k not in ('samples',)},
            'search': search_info,
            'evaluations': (corr_summary or {}).get('cases', 0) + search_info.get('evaluations', 0),
            'distinct_nontrivial': (corr_summary or {}).get('distinct_cases', 0) + search_info.get('distinct', 0),
            'rule': 'correspondence cases: (function, argument tuple) pairs drawn from structured generators '
                    '(harness/gen.py), distinct = distinct pairs; search: inputs on which the property oracle was '
                    'evaluated against the implementation, distinct = distinct (site, input) pairs',
            'samples': samples or [{'note': 'no samples'}],
            'known_findings_open': [k['id'] for k in open_k],
            'finding_lemmas': holds_state,
        },
        'assumptions': cfg.get('assumptions', []),
        'wall_s': round(time.time() - t0, 2),
        'violations': n_viol,
    }
    if not ev['coverage']['discharged']:
        # nothing could be discharged on this tree (broken build): keep the record valid for the
        # exploration-style keys and say so explicitly
        ev['coverage']['discharged_none'] = True
        del ev['coverage']['discharged']
    os.makedirs(os.path.join(VERIF, 'evidence'), exist_ok=True)
    with open(os.path.join(VERIF, 'evidence', prop + '.json'), 'w') as f:
        json.dump(ev, f, indent=1, default=str)
    for l in lines:
        print(l)
    print('%s tier=%s seed=%d obligations=%d discharged=%d corr_cases=%s search_evals=%s violations=%d wall=%.1fs'
          % (prop, tier, seed, n_obl, ev['coverage'].get('discharged', 0), (corr_summary or {}).get('cases'),
             search_info.get('evaluations'), n_viol, time.time() - t0))
    return 1 if n_viol else 0


if __name__ == '__main__':
    sys.exit(main())
