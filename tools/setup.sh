#!/bin/bash
# Build the whole framework from files on disk (offline): regenerate the model from
# /repo, build every Coq file.  Exit status 0 even when a proof does not check --
# each property's check reports that itself.
cd "$(dirname "$0")/.."
mkdir -p work evidence replays coq/gen coq/cases
tools/build.sh > work/setup.log 2>&1
tail -3 work/setup.log
exit 0
