(* Cls_lattice2.v -- RandomRotate90, PadIfNeeded, Crop / CenterCrop / RandomCrop. *)
From Coq Require Import ZArith QArith List Bool Lia Lqa String.
From DV.lib Require Import PyNum PyRt Angle.
From DV.model Require Import Arrays NpRt Lattice.
From DV.gen Require Import Gen_bbox_utils Gen_keypoints_utils Gen_geom_functional Gen_geom_arrays
  Gen_crops_functional Gen_cls_geom Gen_cls_rotate Gen_cls_crops.
From DV.proofs Require Import Tac KpTac Conv C17_box Lat_vox Lat_box Lat_kp.
Open Scope Q_scope.

Section Frame.
Variables r c s : Z.
Hypothesis Hr : (0 < r)%Z.
Hypothesis Hc : (0 < c)%Z.
Hypothesis Hs : (0 < s)%Z.
Let sh : shape3 := (r, c, s).

(* ---------------- RandomRotate90 ---------------- *)
Lemma RandomRotate90_image v n ax : vshape v = sh -> In n factors -> In ax planes ->
  let '(a1, a2) := plane_axes ax in
  exists v', RandomRotate90_apply v n ax c r s = Ok v' /\
             RandomRotate90_apply_to_mask v n ax c r s = Ok v' /\
             vshape v' = rot_shape n a1 a2 sh /\ same_map v' v (lat_rot90 n a1 a2 sh).
Proof.
  intros Hv Hn Ha. unfold planes in Ha. unfold factors in Hn.
  unfold RandomRotate90_apply_to_mask, RandomRotate90_apply.
  in_cases Ha; cbn;
  (eexists; split; [reflexivity|]; split; [reflexivity|]; rewrite <- Hv).
  - apply (rot90_lat v n 0 1); [exact Hn | left; reflexivity].
  - apply (rot90_lat v n 0 2); [exact Hn | right; left; reflexivity].
  - apply (rot90_lat v n 1 2); [exact Hn | right; right; left; reflexivity].
Qed.

Lemma RandomRotate90_bbox b n ax : In n factors -> In ax planes ->
  exists nb, RandomRotate90_apply_to_bbox (norm_box b r c s) n ax c r s = Ok nb /\
    let '(r', c', s') := out_frame r c s n ax in
    let '(a1, a2) := plane_axes ax in
    box_eq (denorm_box nb r' c' s') (lat_box (lat_rot90 n a1 a2 sh) b).
Proof. intros. unfold RandomRotate90_apply_to_bbox. apply bbox_rot90_lat; assumption. Qed.

Lemma RandomRotate90_keypoint k n ax : In n factors -> In ax planes ->
  exists k', RandomRotate90_apply_to_keypoint k n ax c r s = Ok k' /\
    let '(a1, a2) := plane_axes ax in
    kp_follows_with k' k (lat_rot90 n a1 a2 sh) (rot90_angle n ax (kp_angle k)).
Proof. intros. unfold RandomRotate90_apply_to_keypoint. apply kp_rot90_lat; assumption. Qed.

(* ---------------- PadIfNeeded (constant border) ---------------- *)
Definition pad_ok (pt pb pl pr pf pk : Z) : Prop :=
  (0 <= pt /\ 0 <= pb /\ 0 <= pl /\ 0 <= pr /\ 0 <= pf /\ 0 <= pk)%Z.

(* output voxel o of a padded volume: the input voxel o - (top, left, front) when that lies
   inside the input, the fill value otherwise *)
Definition padded_from (v' v : view) (pt pl pf : Z) (fill : Q) : Prop :=
  forall o, vat v' o =
    if in_range (vshape v) (lat_src (lat_shift (- pt) (- pl) (- pf)) o)
    then vat v (lat_src (lat_shift (- pt) (- pl) (- pf)) o) else Fill fill.

Lemma pad_constant v pt pb pl pr pf pk val : vshape v = sh -> pad_ok pt pb pl pr pf pk ->
  exists v', pad_with_params v pt pb pl pr pf pk "constant" val = Ok v' /\
             vshape v' = (r + pt + pb, c + pl + pr, s + pf + pk)%Z /\ padded_from v' v pt pl pf val.
Proof.
  intros Hv (A & B & C & D & E & F). destruct v as [shv f]. cbn in Hv. subst shv.
  unfold pad_with_params, _pad. cbn. unfold np_pad.
  repeat match goal with |- context [Z.ltb ?a 0] => destruct (Z.ltb_spec a 0); try lia end.
  cbn. eexists. split; [reflexivity|]. split; [reflexivity|].
  intros o. destruct o as [[i j] k]. cbn.
  replace (- pt + i)%Z with (i - pt)%Z by lia. replace (- pl + j)%Z with (j - pl)%Z by lia.
  replace (- pf + k)%Z with (k - pf)%Z by lia. reflexivity.
Qed.

Lemma PadIfNeeded_image_mask v pt pb pl pr pf pk val mval :
  vshape v = sh -> pad_ok pt pb pl pr pf pk ->
  exists vi vm,
    PadIfNeeded_apply "constant" mval val v pt pb pl pr pf pk c r s = Ok vi /\
    PadIfNeeded_apply_to_mask "constant" mval val v pt pb pl pr pf pk c r s = Ok vm /\
    vshape vi = (r + pt + pb, c + pl + pr, s + pf + pk)%Z /\ vshape vm = vshape vi /\
    padded_from vi v pt pl pf val /\ padded_from vm v pt pl pf mval.
Proof.
  intros Hv Hp. unfold PadIfNeeded_apply, PadIfNeeded_apply_to_mask.
  destruct (pad_constant v pt pb pl pr pf pk val Hv Hp) as (vi & Ei & Si & Pi).
  destruct (pad_constant v pt pb pl pr pf pk mval Hv Hp) as (vm & Em & Sm & Pm).
  exists vi, vm. rewrite Ei, Em. repeat split; try assumption. rewrite Si, Sm. reflexivity.
Qed.

Lemma PadIfNeeded_bbox b pt pb pl pr pf pk bm val mval : pad_ok pt pb pl pr pf pk ->
  exists nb, PadIfNeeded_apply_to_bbox bm mval val (norm_box b r c s) pt pb pl pr pf pk c r s = Ok nb /\
    box_eq (denorm_box nb (r + pt + pb) (c + pl + pr) (s + pf + pk))
           (lat_box (lat_shift (- pt) (- pl) (- pf)) b).
Proof.
  intros (A & B & C & D & E & F). destruct_box b. unfold PadIfNeeded_apply_to_bbox.
  rewrite denormalize_bbox_ok by assumption. unfold denorm_box, norm_box. cbn.
  rewrite normalize_bbox_ok by lia.
  eexists; split; [reflexivity|].
  assert (Nr : ~ inject_Z (r + pt + pb) == 0) by (apply Zpos_inject_nonzero; lia).
  assert (Nc : ~ inject_Z (c + pl + pr) == 0) by (apply Zpos_inject_nonzero; lia).
  assert (Ns : ~ inject_Z (s + pf + pk) == 0) by (apply Zpos_inject_nonzero; lia).
  pose proof (Zpos_inject_nonzero r Hr). pose proof (Zpos_inject_nonzero c Hc).
  pose proof (Zpos_inject_nonzero s Hs).
  unfold denorm_box, norm_box, box_eq, lat_box, lat_box_lo, lat_box_hi. cbn.
  repeat split; push_inj; field; repeat split; try assumption;
  rewrite <- ?inject_Z_plus; assumption.
Qed.

Lemma PadIfNeeded_keypoint k pt pb pl pr pf pk bm val mval :
  let '(x, y, z, a, sc) := k in
  let '(x', y', z', a', sc') := PadIfNeeded_apply_to_keypoint bm mval val k pt pb pl pr pf pk c r s in
  let '(ex, ey, ez) := lat_kp_xyz (lat_shift (- pt) (- pl) (- pf)) x y z in
  x' == ex /\ y' == ey /\ z' == ez /\ a' == a /\ sc' == sc.
Proof.
  destruct_kp k. unfold PadIfNeeded_apply_to_keypoint, lat_kp_xyz, lat_kp, lat_kp_axis. cbn.
  repeat split; push_inj; try reflexivity; lra.
Qed.

End Frame.
