"""Documented constructor domains of the exported transforms, transcribed from the docstrings:
for each class the required arguments (sized for small test volumes) and, per argument,
alternative documented values (non-default; scalar and range forms, int and float, every
plane / mode / position choice).  Used by the C08 / C13 / C14 searches and by the class-table
validation."""

MODES = ['reflect', 'nearest', 'mirror', 'wrap']
PLANES = ['xy', 'yz', 'xz']
POSITIONS = ['front_top_left', 'front_top_right', 'front_bottom_left', 'front_bottom_right', 'back_top_left',
             'back_top_right', 'back_bottom_left', 'back_bottom_right', 'random']

# volumes used with these configurations are about 12 x 10 x 8
CTOR = {
    'BBoxSafeRandomCrop': dict(base={}, alts={'erosion_rate': [0.2, 0.5]}, needs=['bboxes']),
    'Blur': dict(base={}, alts={'blur_limit': [3, (3, 5)], 'by_slice': [True], 'mode': MODES, 'cval': [3, 0.5]}),
    'CenterCrop': dict(base={'height': 5, 'width': 4, 'depth': 3}, alts={'height': [1, 12], 'width': [10], 'depth': [8]}),
    'CoarseDropout': dict(base={'max_holes': 3, 'max_height': 3, 'max_width': 2, 'max_depth': 2},
                          alts={'max_holes': [1], 'min_holes': [1, 2], 'min_height': [1], 'min_width': [1],
                                'min_depth': [1], 'fill_value': [7, 1.5], 'mask_fill_value': [3],
                                '_combo_float': [dict(max_height=0.3, max_width=0.25, max_depth=0.4, min_height=0.1,
                                                      min_width=0.1, min_depth=0.1)]}),
    'Crop': dict(base={'x_min': 1, 'y_min': 2, 'z_min': 0, 'x_max': 7, 'y_max': 9, 'z_max': 5},
                 alts={'x_min': [0], 'y_min': [0], 'z_min': [2], 'x_max': [10], 'y_max': [12], 'z_max': [8]}),
    'CropAndPad': dict(base={'px': 2}, alts={'px': [-1, (-2, 3), (1, 0, -1, 2, 0, 1), ((0, 2), 1, [-1, 0, 1], 0, 1, 0)],
                                              '_combo_percent': [dict(px=None, percent=0.1), dict(px=None, percent=-0.1),
                                                                 dict(px=None, percent=(-0.2, 0.3)),
                                                                 dict(px=None, percent=(0.1, 0.0, -0.1, 0.2, 0.0, 0.1))],
                                              'pad_mode': MODES, 'pad_cval': [5, (1, 4), (0.5, 2.5), [1, 2, 3]],
                                              'pad_cval_mask': [2, (1, 3)], 'keep_size': [False],
                                              'sample_independently': [False], 'interpolation': [0, 2, 3, 4, 5]}),
    'Downscale': dict(base={}, alts={'scale_min': [0.1], 'scale_max': [0.5, 0.9],
                                     'interpolation': [0, 1, {'downscale': 0, 'upscale': 1}],
                                     '_combo': [dict(scale_min=0.3, scale_max=0.6)]}),
    'Equalize': dict(base={}, alts={'range': [255, (10, 200)]}, image='uint8'),
    'Flip': dict(base={}, alts={}),
    'FromFloat': dict(base={}, alts={'dtype': ['uint8', 'uint16', 'int32', 'float32'], 'min_value': [0.0], 'max_value': [100.0]},
                      image='float'),
    'GaussNoise': dict(base={}, alts={'var_limit': [20.0, (5.0, 30.0), 5], 'mean': [3, -2.5], 'apply_to_channel_idx': [0, 1],
                                      'per_channel': [False]}),
    'GaussianBlur': dict(base={}, alts={'blur_limit': [3, (3, 5), 0], 'sigma_limit': [1.5, (0.5, 2)], 'by_slice': [True],
                                        'mode': MODES, 'cval': [2]}),
    'GridDropout': dict(base={}, alts={'ratio': [0.3, 1.0], 'holes_number_x': [2], 'holes_number_y': [3], 'holes_number_z': [2],
                                       'shift_x': [1], 'shift_y': [2], 'shift_z': [1], 'random_offset': [True],
                                       'fill_value': [5], 'mask_fill_value': [2],
                                       '_combo_unit': [dict(unit_size_min=2, unit_size_max=4), dict(unit_size_min=3, unit_size_max=3),
                                                       dict(unit_size_min=3, unit_size_max=8, shift_x=4, shift_y=4, shift_z=4, ratio=0.5)]}),
    'HorizontalFlip': dict(base={}, alts={}),
    'InvertImg': dict(base={}, alts={}),
    'LongestMaxSize': dict(base={'max_size': 9}, alts={'max_size': [16, [8, 14]], 'interpolation': [0, 2, 3]}),
    'MedianBlur': dict(base={}, alts={'blur_limit': [3, (3, 5)], 'by_slice': [True], 'mode': MODES, 'cval': [4]}),
    'NPSNoise': dict(base={}, alts={'magnitude': [(10, 20), 100, (5, 5)], 'sample_tube_current': [True]}, needs=['dicom'],
                     image='int16'),
    'NoOp': dict(base={}, alts={}),
    'Normalize': dict(base={}, alts={'mean': [10.0, (1.0,)], 'std': [2.0, (3.0,)]}),
    'PadIfNeeded': dict(base={'min_height': 14, 'min_width': 13, 'min_depth': 11},
                        alts={'position': POSITIONS, 'border_mode': MODES, 'value': [3, 1.5], 'mask_value': [2],
                              'min_height': [5], 'min_width': [10], 'min_depth': [20],
                              '_combo_div': [dict(min_height=None, min_width=None, min_depth=None, pad_height_divisor=5,
                                                  pad_width_divisor=4, pad_depth_divisor=3),
                                             dict(min_height=None, pad_height_divisor=7)],
                              # random position with an axis that needs no padding (frame 12 x 10 x 8), and with none at all
                              '_combo_random': [dict(min_height=12, min_width=13, min_depth=8, position='random'),
                                                dict(min_height=6, min_width=5, min_depth=4, position='random'),
                                                dict(min_height=None, min_width=None, min_depth=None, pad_height_divisor=4,
                                                     pad_width_divisor=5, pad_depth_divisor=3, position='random')]}),
    'PixelDropout': dict(base={}, alts={'dropout_prob': [0.3, 1.0], 'per_channel': [True], 'drop_value': [5, None, 0.5],
                                        'mask_drop_value': [3]}),
    'Posterize': dict(base={}, alts={'num_bits': [4, (2, 6), 1]}, image='uint8'),
    'RandomBrightnessContrast': dict(base={}, alts={'max_brightness': [200, 1.5], 'brightness_limit': [0.5, (-0.1, 0.3)],
                                                    'contrast_limit': [0.4, (0.0, 0.5)]}),
    'RandomCrop': dict(base={'height': 5, 'width': 4, 'depth': 3}, alts={'height': [12, 1], 'width': [10], 'depth': [8, 1]}),
    'RandomCropFromBorders': dict(base={}, alts={'crop_left': [0.3], 'crop_right': [0.4], 'crop_top': [0.25],
                                                 'crop_bottom': [0.45], 'crop_close': [0.3], 'crop_far': [0.2]}),
    'RandomCropNearBBox': dict(base={}, alts={'max_part_shift': [0.2, (0.1, 0.5, 0.3), 0],
                                              'cropping_box_key': ['my_box']}, needs=['cropping_bbox']),
    'RandomGamma': dict(base={}, alts={'gamma_limit': [(50, 150), 120, (100, 100)]}),
    'RandomRotate90': dict(base={}, alts={'axes': ['yz', 'xz', ['xy', 'yz'], ('xz', 'yz', 'xy')]}),
    'RandomScale': dict(base={}, alts={'scale_limit': [0.3, (-0.2, 0.5)], 'interpolation': [0, 3]}),
    'RandomSizedBBoxSafeCrop': dict(base={'height': 6, 'width': 7, 'depth': 5},
                                    alts={'erosion_rate': [0.3], 'interpolation': [0, 2], 'height': [12], 'depth': [9]},
                                    needs=['bboxes']),
    'RandomSizedCrop': dict(base={'min_max_height': (4, 7), 'height': 6, 'width': 7, 'depth': 5},
                            alts={'w2h_ratio': [0.8, 1.2], 'd2h_ratio': [0.7, 1.1], 'interpolation': [0, 3],
                                  'min_max_height': [(3, 3), (1, 8)]}),
    'RescaleSlopeIntercept': dict(base={}, alts={}, needs=['dicom'], image='int16'),
    'Resize': dict(base={'height': 7, 'width': 9, 'depth': 5}, alts={'interpolation': [0, 2, 5], 'height': [12, 1], 'depth': [8, 16]}),
    'Rotate': dict(base={}, alts={'limit': [30, (10, 40), 0.5], 'axes': ['yz', 'xz', ['xy', 'xz']], 'interpolation': [0, 3],
                                  'border_mode': MODES, 'value': [5], 'mask_value': [2], 'rotate_method': ['ellipse'],
                                  'crop_to_border': [True]}),
    'SetPixelSpacing': dict(base={}, alts={'space_x': [0.5, 2.0], 'space_y': [0.4], 'interpolation': [0, 3]}, needs=['dicom']),
    'Sharpen': dict(base={}, alts={'alpha': [0.3, (0.1, 0.9)], 'lightness': [0.7, (0.2, 1.5)], 'mode': MODES, 'cval': [3]}),
    'ShiftScaleRotate': dict(base={}, alts={'shift_limit': [0.2, (-0.1, 0.3)], 'scale_limit': [0.3, (-0.2, 0.1)],
                                            'rotate_limit': [20, (-10, 30), 12.5], 'axes': ['yz', 'xz', ['xy', 'yz', 'xz']],
                                            'interpolation': [0, 3], 'border_mode': MODES, 'crop_to_border': [True],
                                            'value': [4], 'mask_value': [2], 'shift_limit_x': [0.1, (0.0, 0.2)],
                                            'shift_limit_y': [0.15], 'shift_limit_z': [(-0.2, 0.0)],
                                            'rotate_method': ['ellipse']}),
    'SliceFlip': dict(base={}, alts={}),
    'SmallestMaxSize': dict(base={'max_size': 9}, alts={'max_size': [5, [6, 11]], 'interpolation': [0, 2]}),
    'ToFloat': dict(base={}, alts={'min_value': [0.0, -10], 'max_value': [255.0, 1000]}),
    'Transpose': dict(base={}, alts={}),
    'UnsharpMask': dict(base={}, alts={'blur_limit': [5, (3, 5)], 'sigma_limit': [1.0, (0.5, 1.5)], 'alpha': [0.7, (0.1, 0.4)],
                                       'threshold': [0.2], 'mode': MODES, 'cval': [2]}),
    'VerticalFlip': dict(base={}, alts={}),
}


# documented configurations that address the channels of the image: (number of channels the image must have, kwargs)
CHANNEL_CONFIGS = {
    'Posterize': [(3, {'num_bits': [3, 8, 5]}), (3, {'num_bits': [[3, 4], [8, 8], [2, 6]]}), (3, {'num_bits': [1, 7, 0]})],
}


def channel_configurations(name):
    return [(ch, dict(CTOR[name]['base'], **kw)) for ch, kw in CHANNEL_CONFIGS.get(name, [])]


def configurations(name, include_default=True):
    """list of kwargs dicts: the base configuration and one per alternative value"""
    spec = CTOR[name]
    out = []
    if include_default:
        out.append(dict(spec['base']))
    for arg, vals in spec['alts'].items():
        for v in vals:
            kw = dict(spec['base'])
            if arg.startswith('_combo'):
                kw.update(v)
            else:
                kw[arg] = v
            out.append(kw)
    return out
