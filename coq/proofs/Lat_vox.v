(* Lat_vox.v -- the generated image paths (numpy view model) realise the documented
   lattice descriptors: for EVERY input view v (so also after any earlier transform),
   every output voxel o:  vat (T v) o = vat v (lat_src (lat_T (vshape v)) o). *)
From Coq Require Import ZArith QArith List Bool Lia String.
From DV.lib Require Import PyNum PyRt.
From DV.model Require Import Arrays NpRt Lattice.
From DV.gen Require Import Gen_geom_arrays Gen_crops_functional Gen_dropout_functional.
From DV.proofs Require Import Tac.
Open Scope Z_scope.

Ltac destruct_view v :=
  let sh := fresh "sh" in let f := fresh "f" in destruct v as [sh f];
  let h := fresh "h" in let w := fresh "w" in let d := fresh "d" in destruct sh as [[h w] d].
Ltac destruct_idx o :=
  let i := fresh "i" in let j := fresh "j" in let k := fresh "k" in destruct o as [[i j] k].

Ltac vox_solve := cbn; try reflexivity; repeat (f_equal; try lia); try reflexivity.

Definition same_map (v' v : view) (l : lat) : Prop :=
  forall o, vat v' o = vat v (lat_src l o).

Lemma vflip_lat v : vshape (vflip v) = vshape v /\ same_map (vflip v) v (lat_flip 0 (vshape v)).
Proof.
  destruct_view v. split; [reflexivity|]. intros o. destruct_idx o. vox_solve.
Qed.
Lemma hflip_lat v : vshape (hflip v) = vshape v /\ same_map (hflip v) v (lat_flip 1 (vshape v)).
Proof.
  destruct_view v. split; [reflexivity|]. intros o. destruct_idx o. vox_solve.
Qed.
Lemma zflip_lat v : vshape (zflip v) = vshape v /\ same_map (zflip v) v (lat_flip 2 (vshape v)).
Proof.
  destruct_view v. split; [reflexivity|]. intros o. destruct_idx o. vox_solve.
Qed.

Definition lat_flipcode (d : Z) (sh : shape3) : lat :=
  if d =? 0 then lat_flip 0 sh else if d =? 1 then lat_flip 1 sh
  else if d =? 2 then lat_flip 2 sh else lat_flip_all sh.

Lemma random_flip_lat v d : In d [-1; 0; 1; 2] ->
  exists v', random_flip v d = Ok v' /\ vshape v' = vshape v /\ same_map v' v (lat_flipcode d (vshape v)).
Proof.
  intros H. destruct_view v. in_cases H; cbn; eexists; (split; [reflexivity|]); (split; [reflexivity|]);
  intros o; destruct_idx o; vox_solve.
Qed.

Lemma transpose_lat v :
  vshape (transpose v) = (let '(h, w, d) := vshape v in (w, h, d)) /\ same_map (transpose v) v lat_transpose.
Proof.
  destruct_view v. split; [reflexivity|]. intros o. destruct_idx o. vox_solve.
Qed.

Definition rot_shape (k : Z) (a1 a2 : nat) (sh : shape3) : shape3 :=
  if Z.even k then sh else setax a2 (getax a1 sh) (setax a1 (getax a2 sh) sh).

Lemma rot90_lat v k a1 a2 : In k [0; 1; 2; 3] -> In (a1, a2) [(0, 1); (0, 2); (1, 2)]%nat ->
  vshape (rot90 v k (Z.of_nat a1, Z.of_nat a2)) = rot_shape k a1 a2 (vshape v) /\
  same_map (rot90 v k (Z.of_nat a1, Z.of_nat a2)) v (lat_rot90 k a1 a2 (vshape v)).
Proof.
  intros Hk Ha. destruct_view v.
  destruct Ha as [Ha|[Ha|[Ha|[]]]]; inversion Ha; subst; clear Ha;
  in_cases Hk; (split; [reflexivity|]); intros o; destruct_idx o; vox_solve.
Qed.

(* ---- windows ---- *)
Lemma slice_in n lo hi : 0 <= lo -> lo <= hi -> hi <= n ->
  slice_start_len n (Some lo) (Some hi) = (lo, hi - lo).
Proof.
  intros A B C. unfold slice_start_len, slice_bound.
  destruct (Z.ltb_spec lo 0); [lia|]. destruct (Z.ltb_spec hi 0); [lia|].
  f_equal; lia.
Qed.

Definition window_ok (sh : shape3) (x1 y1 z1 x2 y2 z2 : Z) : Prop :=
  let '(h, w, d) := sh in
  0 <= x1 /\ x1 < x2 /\ x2 <= w /\ 0 <= y1 /\ y1 < y2 /\ y2 <= h /\ 0 <= z1 /\ z1 < z2 /\ z2 <= d.

Lemma crop_lat v x1 y1 z1 x2 y2 z2 : window_ok (vshape v) x1 y1 z1 x2 y2 z2 ->
  exists v', crop v x1 y1 z1 x2 y2 z2 = Ok v' /\
             vshape v' = (y2 - y1, x2 - x1, z2 - z1) /\ same_map v' v (lat_shift y1 x1 z1).
Proof.
  destruct_view v. cbn. intros (A1 & A2 & A3 & B1 & B2 & B3 & C1 & C2 & C3).
  unfold crop. cbn.
  repeat match goal with |- context [Z.leb ?a ?b] => destruct (Z.leb_spec a b); try lia end.
  repeat match goal with |- context [Z.ltb ?a ?b] => destruct (Z.ltb_spec a b); try lia end.
  repeat match goal with |- context [Z.gtb ?a ?b] => rewrite (Z.gtb_ltb a b); destruct (Z.ltb_spec b a); try lia end.
  cbn. eexists. split; [reflexivity|]. split.
  - cbn. repeat (f_equal; try lia).
  - intros o. destruct_idx o. cbn. repeat (f_equal; try lia).
Qed.
