(* Angle.v -- reasoning about angles modulo 2*pi.
   [norm] is what angle_to_2pi_range computes; [cong] is equality modulo 2*pi.
   Setoid rewriting with [cong_norm] strips nested normalisations inside an
   outer [norm]. *)
From DV.lib Require Import PyNum.
From Coq Require Import Lqa Lia Morphisms Setoid.
Open Scope Q_scope.

Definition M : Q := 2 * pi.
Lemma M_pos : 0 < M.  Proof. unfold M. pose proof pi_pos. lra. Qed.
Definition norm (x : Q) : Q := Qmodpos x M.
Definition cong (x y : Q) : Prop := exists k : Z, x == y + inject_Z k * M.

Global Instance cong_equiv : Equivalence cong.
Proof.
  split.
  - intros x. exists 0%Z. unfold inject_Z. ring.
  - intros x y [k E]. exists (- k)%Z. rewrite E, inject_Z_opp. ring.
  - intros x y z [k E] [l F]. exists (k + l)%Z. rewrite E, F, inject_Z_plus. ring.
Qed.
Global Instance cong_proper : Proper (Qeq ==> Qeq ==> iff) cong.
Proof.
  intros x x' E y y' F. unfold cong. split; intros [k H]; exists k.
  - rewrite <- E, <- F. exact H.
  - rewrite E, F. exact H.
Qed.
Global Instance Qeq_cong : subrelation Qeq cong.
Proof. intros x y E. exists 0%Z. rewrite E. unfold inject_Z. ring. Qed.
Global Instance Qplus_cong : Proper (cong ==> cong ==> cong) Qplus.
Proof. intros x x' [k E] y y' [l F]. exists (k + l)%Z. rewrite E, F, inject_Z_plus. ring. Qed.
Global Instance Qopp_cong : Proper (cong ==> cong) Qopp.
Proof. intros x x' [k E]. exists (- k)%Z. rewrite E, inject_Z_opp. ring. Qed.
Global Instance Qminus_cong : Proper (cong ==> cong ==> cong) Qminus.
Proof. intros x x' E y y' F. unfold Qminus. rewrite E, F. reflexivity. Qed.
Global Instance norm_cong : Proper (cong ==> Qeq) norm.
Proof.
  intros x y [k E]. unfold norm. rewrite (Qmodpos_compat _ _ M E).
  apply Qmodpos_shift. exact M_pos.
Qed.
Global Instance norm_proper : Proper (Qeq ==> Qeq) norm.
Proof. intros x y E. apply Qmodpos_compat. exact E. Qed.

Lemma cong_norm b : cong (norm b) b.
Proof.
  unfold norm, Qmodpos. exists (- Qfloor (b / M))%Z. rewrite inject_Z_opp. ring.
Qed.
Lemma norm_range a : 0 <= norm a /\ norm a < M.
Proof. apply Qmodpos_range. exact M_pos. Qed.
Lemma norm_id a : 0 <= a -> a < M -> norm a == a.
Proof. apply Qmodpos_id. Qed.
Lemma norm_close x a (k : Z) : x == a + inject_Z k * M -> 0 <= a -> a < M -> norm x == a.
Proof. intros. apply (Qmodpos_eq_shift x a M k M_pos); assumption. Qed.

(* flatten every normalisation nested inside an outer one *)
Ltac norm_flat :=
  repeat match goal with
  | |- context [norm ?x] =>
      match x with context [norm ?y] => rewrite (cong_norm y) end
  end.
Ltac norm_close k :=
  apply (norm_close _ _ k); [unfold M, inject_Z; first [ring | (field; fail) | lra] | lra | lra].
Ltac norm_close_any :=
  first [ norm_close 0%Z | norm_close 1%Z | norm_close (-1)%Z | norm_close 2%Z | norm_close (-2)%Z ].

(* goals [cong X Y]: strip every normalisation, then give the multiple of 2*pi *)
Ltac cong_flat :=
  repeat match goal with |- context [norm ?y] => rewrite (cong_norm y) end.
Ltac cong_close k := exists k; unfold M, inject_Z; first [ring | (field; fail)].
Ltac cong_close_any :=
  first [ cong_close 0%Z | cong_close 1%Z | cong_close (-1)%Z | cong_close 2%Z | cong_close (-2)%Z ].
Ltac ang_eq :=
  match goal with
  | |- norm _ == norm _ => apply norm_cong; cong_flat; cong_close_any
  | |- norm _ == _ => norm_flat; norm_close_any
  end.
