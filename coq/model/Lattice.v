(* Lattice.v -- lattice descriptors: a signed axis permutation with integer offsets.
   One descriptor determines (i) where every output voxel comes from, (ii) the map on
   box faces (cell [i, i+1) convention) and (iii) the map on keypoint coordinates (voxel
   centre convention).  "The box / keypoint path follows the voxel path" is then a
   statement about ONE object. Array axes: 0 = rows (y), 1 = cols (x), 2 = slices (z). *)
From Coq Require Import ZArith QArith List Bool Lia Qminmax.
From DV.lib Require Import PyNum.
From DV.model Require Import Arrays.
Open Scope Z_scope.

Record lat := mkLat {
  lperm : nat -> nat;     (* output axis a reads input axis (lperm a) *)
  lneg  : nat -> bool;    (* ... reversed? *)
  loff  : nat -> Z        (* in = off + o   or   in = off - o  (when reversed) *)
}.

Definition lat_comp (l : lat) (a : nat) (oa : Z) : Z :=
  if lneg l a then loff l a - oa else loff l a + oa.

(* source voxel of output voxel o *)
Definition lat_src (l : lat) (o : idx) : idx :=
  let '(o0, o1, o2) := o in
  setax (lperm l 2) (lat_comp l 2 o2)
    (setax (lperm l 1) (lat_comp l 1 o1)
       (setax (lperm l 0) (lat_comp l 0 o0) (0, 0, 0))).

(* ---- induced maps on real coordinates, in array axis order (p0, p1, p2) = (y, x, z) ---- *)
Open Scope Q_scope.
Definition pt : Type := (Q * Q * Q)%type.
Definition getq (a : nat) (p : pt) : Q :=
  let '(x, y, z) := p in match a with O => x | S O => y | _ => z end.

(* keypoint coordinate (voxel-centre convention): forward map input -> output *)
Definition lat_kp_axis (l : lat) (a : nat) (p : pt) : Q :=
  let x := getq (lperm l a) p in
  if lneg l a then inject_Z (loff l a) - x else x - inject_Z (loff l a).
Definition lat_kp (l : lat) (p : pt) : pt := (lat_kp_axis l 0 p, lat_kp_axis l 1 p, lat_kp_axis l 2 p).

(* box faces (cell convention): a reversed axis sends face f to off + 1 - f and swaps min/max *)
Definition lat_box_lo (l : lat) (a : nat) (lo hi : pt) : Q :=
  if lneg l a then inject_Z (loff l a) + 1 - getq (lperm l a) hi
  else getq (lperm l a) lo - inject_Z (loff l a).
Definition lat_box_hi (l : lat) (a : nat) (lo hi : pt) : Q :=
  if lneg l a then inject_Z (loff l a) + 1 - getq (lperm l a) lo
  else getq (lperm l a) hi - inject_Z (loff l a).

(* boxes are (x_min, y_min, z_min, x_max, y_max, z_max) in pixels: x = axis 1, y = axis 0 *)
Definition lat_box (l : lat) (b : box) : box :=
  let '(x1, y1, z1, x2, y2, z2) := b in
  let lo := (y1, x1, z1) in let hi := (y2, x2, z2) in
  (lat_box_lo l 1 lo hi, lat_box_lo l 0 lo hi, lat_box_lo l 2 lo hi,
   lat_box_hi l 1 lo hi, lat_box_hi l 0 lo hi, lat_box_hi l 2 lo hi).

(* keypoints are (x, y, z, angle, scale): position part *)
Definition lat_kp_xyz (l : lat) (x y z : Q) : Q * Q * Q :=
  let '(y', x', z') := lat_kp l (y, x, z) in (x', y', z').

(* ---- the documented descriptors (specification side of C07) ---- *)
Open Scope Z_scope.
Definition idp (a : nat) : nat := a.
Definition lat_flip (ax : nat) (sh : shape3) : lat :=
  mkLat idp (fun a => Nat.eqb a ax) (fun a => if Nat.eqb a ax then getax ax sh - 1 else 0).
Definition lat_flip_all (sh : shape3) : lat :=
  mkLat idp (fun _ => true) (fun a => getax a sh - 1).
Definition lat_transpose : lat := mkLat (swap_perm 0 1) (fun _ => false) (fun _ => 0).
(* one quarter turn in the plane of array axes (a1, a2): out axis a1 reads input axis a2 reversed *)
Definition lat_rot90_1 (a1 a2 : nat) (sh : shape3) : lat :=
  mkLat (swap_perm a1 a2) (fun a => Nat.eqb a a1)
        (fun a => if Nat.eqb a a1 then getax a2 sh - 1 else 0).
Definition lat_rot90_2 (a1 a2 : nat) (sh : shape3) : lat :=
  mkLat idp (fun a => Nat.eqb a a1 || Nat.eqb a a2)
        (fun a => if Nat.eqb a a1 || Nat.eqb a a2 then getax a sh - 1 else 0).
Definition lat_rot90_3 (a1 a2 : nat) (sh : shape3) : lat :=
  mkLat (swap_perm a1 a2) (fun a => Nat.eqb a a2)
        (fun a => if Nat.eqb a a2 then getax a1 sh - 1 else 0).
Definition lat_id : lat := mkLat idp (fun _ => false) (fun _ => 0).
Definition lat_rot90 (k : Z) (a1 a2 : nat) (sh : shape3) : lat :=
  let k4 := k mod 4 in
  if k4 =? 0 then lat_id else if k4 =? 1 then lat_rot90_1 a1 a2 sh
  else if k4 =? 2 then lat_rot90_2 a1 a2 sh else lat_rot90_3 a1 a2 sh.
(* window starting at (y0, x0, z0): out voxel o reads o + start; pad by (top, left, front): o - pad *)
Definition lat_shift (s0 s1 s2 : Z) : lat :=
  mkLat idp (fun _ => false) (fun a => match a with O => s0 | S O => s1 | _ => s2 end).

Definition plane_axes (ax : string) : nat * nat :=
  if streq ax "xy" then (0, 1)%nat else if streq ax "yz" then (0, 2)%nat else (1, 2)%nat.
