#!/bin/bash
# usage: mutant_matrix_seeds.sh "<seeds>" [ids...] : like mutant_matrix.sh, but every seeded change is checked under each seed
# (a change that is caught under one seed only is caught by luck: the generator must visit the relevant corner systematically)
seeds=${1:-"1 2"}; shift
cd /repo || exit 1
if [ -n "$(git status --porcelain)" ]; then echo "repo not clean"; exit 2; fi
out=/verif/work/mutant_matrix_seeds.txt; : > $out
for d in ${@:-$(ls -d /verif/seeded/C[0-9][0-9]* | xargs -n1 basename)}; do
  id=${d:0:3}
  if ! git apply --check /verif/seeded/$d/patch.diff 2>/dev/null; then echo "$d PATCH-DOES-NOT-APPLY" | tee -a $out; continue; fi
  git apply /verif/seeded/$d/patch.diff
  line="$d"
  for s in $seeds; do
    r=$(VERIF_SEED=$s /verif/check $id ${TIER:-quick} 2>&1 | grep -v conda)
    nv=$(echo "$r" | grep -c "^VIOLATION")
    nf=$(echo "$r" | grep "^VIOLATION" | grep -c "no-failing-input-found")
    line="$line seed$s:viol=$nv,noinput=$nf"
  done
  echo "$line" | tee -a $out
  git checkout -- .
done
cd /verif && tools/build.sh > /dev/null 2>&1
