"""worker of the C09 search: runs the given cases in THIS process (its own PYTHONHASHSEED, numpy
global state and call history) and prints one digest per case"""
import copy
import hashlib
import json
import os
import random
import sys

sys.path.insert(0, os.path.dirname(os.path.abspath(__file__)))
import numpy as np
import implrun as R
from ctor_args import CTOR

A = R.A
DICOM = {'PixelSpacing': (0.7, 0.4), 'RescaleIntercept': -1024.0, 'RescaleSlope': 1.0, 'ConvolutionKernel': 'STANDARD',
         'XRayTubeCurrent': 160}


def detuple(v):
    if isinstance(v, list):
        return tuple(detuple(x) for x in v)
    if isinstance(v, dict):
        if set(v) == {'__list__'}:
            return [detuple(x) for x in v['__list__']]      # a value that is to reach the constructor as a LIST
        return {k: detuple(x) for k, x in v.items()}
    return v


def make(spec):
    if 'children' in spec:
        kids = [make(c) for c in spec['children']]
        if spec['op'] == 'OneOrOther':
            return A.OneOrOther(transforms=kids, **spec.get('args', {}))
        return getattr(A, spec['op'])(kids, **spec.get('args', {}))
    kw = {k: (detuple(v) if k != 'axes' else v) for k, v in spec['args'].items()}
    return getattr(A, spec['cls'])(**kw)


def inputs(case):
    shape = tuple(case['shape'])
    rs = np.random.RandomState(case['data_seed'])
    kind = case.get('image', 'uint8')
    full = shape + ((case['channels'],) if case.get('channels') else ())
    if kind == 'float':
        img = rs.rand(*full).astype(np.float32)
    elif kind == 'int16':
        img = rs.randint(-500, 1500, full).astype(np.int16)
    else:
        img = rs.randint(0, 255, full).astype(np.uint8)
    H, W, D = shape
    data = dict(image=img, mask=rs.randint(0, 4, shape).astype(np.uint8),
                masks=[rs.randint(0, 4, shape).astype(np.uint8)], dicom=copy.deepcopy(DICOM))
    hv = case.get('header_variant', 0)
    if hv:
        data['dicom']['PixelSpacing'] = (0.7 + 0.15 * hv, 0.4 + 0.1 * hv)
        data['dicom']['XRayTubeCurrent'] = 160 + 40 * hv
        data['dicom']['RescaleIntercept'] = -1024.0 + 24 * hv
    data['bboxes'] = [(1.0, 1.0, 1.0, W - 2.0, H - 2.0, D - 2.0, 'a'), (2.0, 1.5, 0.5, 5.0, 4.5, 3.5, 'b')]
    data['keypoints'] = [(float(rs.randint(0, W)), float(rs.randint(0, H)), float(rs.randint(0, D)), 0.3, 1.5)
                         for _ in range(12)]
    for k in case.get('extra', {}):
        data[k] = tuple(case['extra'][k])
    return data


def canon(v, h):
    if isinstance(v, np.ndarray):
        h.update(str(v.dtype).encode() + str(v.shape).encode() + np.ascontiguousarray(v).tobytes())
    elif isinstance(v, dict):
        for k in sorted(v):
            if k == 'replay':
                continue
            h.update(str(k).encode())
            canon(v[k], h)
    elif isinstance(v, (list, tuple)):
        h.update(b'[')
        for x in v:
            canon(x, h)
        h.update(b']')
    elif isinstance(v, (float, np.floating)):
        h.update(float(v).hex().encode())
    else:
        h.update(repr(v).encode())


def main():
    cfg = json.load(open(sys.argv[1]))
    out = []
    for case in cfg['cases']:
        try:
            def build(drop=()):
                kw = {}
                if 'bboxes' not in drop:
                    kw['bbox_params'] = A.BboxParams('pascal_voc_3d')
                if 'keypoints' not in drop:
                    kw['keypoint_params'] = A.KeypointParams('xyzas', angle_in_degrees=False, remove_invisible=True)
                return A.Compose([make(s) for s in case['pipeline']], **kw)
            # which target set does this pipeline accept?  (decided on a throw-away object, so that the object under
            # test has seen nothing but the history calls below)
            drop = None
            # the trial runs on a volume of ANOTHER shape first (process-level state keyed by the shape is then left
            # untouched for the calls that count); transforms whose arguments need the real shape fall back to it
            for trial_case in (dict(case, shape=[9, 7, 6], header_variant=5), case):
                for cand in ((), ('keypoints',), ('bboxes',), ('keypoints', 'bboxes')):
                    try:
                        random.seed(999)
                        ti = inputs(trial_case)
                        if trial_case is not case:
                            ti['bboxes'] = [(1.0, 1.0, 1.0, 5.0, 5.0, 4.0, 'a')]
                            ti['keypoints'] = [k for k in ti['keypoints'] if k[0] < 7 and k[1] < 9 and k[2] < 6][:4] or [(1.0, 1.0, 1.0, 0.3, 1.5)]
                            for kx in case.get('extra', {}):
                                ti[kx] = (1, 1, 1, 5, 6, 4)
                        build(cand)(**{k: v for k, v in ti.items() if k not in cand})
                        drop = cand
                        break
                    except NotImplementedError:
                        continue
                    except Exception:  # noqa -- does not run on the small volume: decide on the real one
                        drop = None
                        break
                if drop is not None:
                    break
            if drop is None:
                drop = ()
            pipe = build(drop)
            for hcall in range(cfg['history']):
                random.seed(1000 + hcall)
                # earlier calls on OTHER scans: other voxels, other header values (a cache keyed by too little shows here)
                hc = dict(case, data_seed=case['data_seed'] + 17 + hcall, header_variant=1 + hcall)
                try:
                    pipe(**{k: v for k, v in inputs(hc).items() if k not in drop})
                except Exception:  # noqa
                    pass
            np.random.seed(cfg['np_seed'])
            data = {k: v for k, v in inputs(case).items() if k not in drop}
            random.seed(case['seed'])
            st0 = random.getstate()
            res = pipe(**data)
            advanced = random.getstate() != st0
            h = hashlib.sha1()
            canon(res, h)
            out.append({'digest': h.hexdigest(), 'advanced': advanced})
        except Exception as e:  # noqa
            out.append({'digest': 'raise:' + type(e).__name__, 'advanced': True})
    print('C09JSON' + json.dumps(out))


if __name__ == '__main__':
    main()
