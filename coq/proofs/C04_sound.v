(* C04_sound.v -- boxes kept by the filter are valid: inside [0,1]^6, strictly positive
   extents, accepted by check_bbox (so postprocess cannot raise on them). *)
From Coq Require Import ZArith QArith List Bool Lia Lqa.
From DV.lib Require Import PyNum PyRt.
From DV.gen Require Import Gen_bbox_utils.
From DV.proofs Require Import Tac Conv C04_filter.
Open Scope Q_scope.

Definition in_unit (b : box) : Prop :=
  let '(x1, y1, z1, x2, y2, z2) := b in
  0 <= x1 <= 1 /\ 0 <= y1 <= 1 /\ 0 <= z1 <= 1 /\ 0 <= x2 <= 1 /\ 0 <= y2 <= 1 /\ 0 <= z2 <= 1.

Lemma clip01_in_unit b : in_unit (clip01 b).
Proof.
  destruct_box b. unfold clip01, in_unit. cbn.
  repeat split; apply clip_range; lra.
Qed.

Section Frame.
Variables r c s : Z.
Hypothesis Hr : (0 < r)%Z.
Hypothesis Hc : (0 < c)%Z.
Hypothesis Hs : (0 < s)%Z.

Lemma kept_proper t b : proper_box b -> keepb t b r c s = true -> proper_box (clip01 b).
Proof.
  destruct_box b. intros (A & B & C) K. unfold keepb in K.
  repeat (apply andb_prop in K; destruct K as [K ?]).
  unfold clip01 in *. cbn in *. unfold vol_of, ext in K. cbn in K.
  destruct (Qne_bool_spec ((clip x2 0 1 - clip x1 0 1) * inject_Z c * ((clip y2 0 1 - clip y1 0 1) * inject_Z r) *
                            ((clip z2 0 1 - clip z1 0 1) * inject_Z s)) 0) as [NZ|]; [|discriminate].
  pose proof (clip_mono x1 x2 (Qlt_le_weak _ _ A)). pose proof (clip_mono y1 y2 (Qlt_le_weak _ _ B)).
  pose proof (clip_mono z1 z2 (Qlt_le_weak _ _ C)).
  repeat split.
  - destruct (Qeq_dec (clip x1 0 1) (clip x2 0 1)) as [E|E]; [|lra]. exfalso. apply NZ. rewrite E. ring.
  - destruct (Qeq_dec (clip y1 0 1) (clip y2 0 1)) as [E|E]; [|lra]. exfalso. apply NZ. rewrite E. ring.
  - destruct (Qeq_dec (clip z1 0 1) (clip z2 0 1)) as [E|E]; [|lra]. exfalso. apply NZ. rewrite E. ring.
Qed.

Lemma valid_passes_check b : in_unit b -> proper_box b -> check_bbox b = Ok tt.
Proof.
  destruct_box b. intros (X1 & Y1 & Z1 & X2 & Y2 & Z2) (A & B & C). unfold check_bbox. cbn.
  repeat match goal with
  | |- context [Qle_bool 0 ?v] => destruct (Qle_bool_spec 0 v); [|lra]
  | |- context [Qle_bool ?v 1] => destruct (Qle_bool_spec v 1); [|lra]
  end. cbn.
  destruct (Qle_bool_spec x2 x1); [lra|]. destruct (Qle_bool_spec y2 y1); [lra|].
  destruct (Qle_bool_spec z2 z1); [lra|]. reflexivity.
Qed.

(* every box returned by the filter: where it comes from and what it satisfies *)
Theorem filter_bboxes_sound t l out : Forall proper_box l ->
  filter_bboxes l r c s (t_area_vis t) (t_vol_vis t) (t_area t) (t_vol t) (t_w t) (t_h t) (t_d t) = Ok out ->
  forall b', In b' out ->
    exists b, In b l /\ b' = clip01 b /\ keepb t b r c s = true /\
              in_unit b' /\ proper_box b' /\ check_bbox b' = Ok tt.
Proof.
  intros Hl E b' Hin. rewrite (filter_bboxes_spec r c s Hr Hc Hs t l Hl) in E. inversion E; subst out.
  apply in_flat_map in Hin. destruct Hin as (b & Hb & Hk). unfold keep_list in Hk.
  destruct (keepb t b r c s) eqn:K; [|destruct Hk]. destruct Hk as [<-|[]].
  rewrite Forall_forall in Hl. pose proof (Hl b Hb) as Pb.
  exists b. repeat split; try assumption; try reflexivity.
  - apply clip01_in_unit.
  - apply (kept_proper t b Pb K).
  - apply valid_passes_check; [apply clip01_in_unit | apply (kept_proper t b Pb K)].
Qed.

(* a box inside the frame with default thresholds is returned unchanged (up to ==) *)
Lemma clip01_id b : in_unit b -> box_eq (clip01 b) b.
Proof.
  destruct_box b. intros (X1 & Y1 & Z1 & X2 & Y2 & Z2). unfold clip01, box_eq. cbn.
  repeat split; apply clip_id; lra.
Qed.

End Frame.
