(* C18 -- Pixel-level transforms compute their documented formulas in range.
   Hand-written voxel-level model (model/Pixel.v) of the clip-to-dtype wrapper, the dtype range
   tables and the point-wise formulas, validated on every run against the implementation on
   one-voxel arrays of every dtype incl. the extremes (harness/corr_pixel.py).
   Partial: float32 rounding, SciPy's filters and spline zoom are outside the model; agreement with the
   formulas on whole volumes, flips and permutations is explored by the search. *)
From Coq Require Import ZArith QArith Qround List Bool Permutation.
Import ListNotations.
From DV.lib Require Import PyNum.
From DV.model Require Import Pixel.
From DV.proofs Require Import C18_pixel.
Open Scope Q_scope.

(* whatever a @clipped formula computes, the returned value lies in the dtype's nominal range: saturation, no wrap *)
Theorem C18_clipped_formulas_stay_in_range : forall f d v, lo d <= clipped f d v /\ clipped f d v <= hi d.
Proof. exact clipped_in_range. Qed.
Print Assumptions C18_clipped_formulas_stay_in_range.

Theorem C18_noise_and_brightness_in_range :
  (forall d v g, lo d <= gauss_noise_vox d v g <= hi d) /\
  (forall d v alpha beta maxb, lo d <= brightness_contrast_vox d v alpha beta maxb <= hi d).
Proof. split; intros; apply clipped_in_range. Qed.
Print Assumptions C18_noise_and_brightness_in_range.

Theorem C18_invert_is_an_involution_on_the_range :
  (forall d v, is_int d = true -> (Qfloor (lo d) <= v <= Qfloor (hi d))%Z ->
     invert_int d (invert_int d v) = v /\ (Qfloor (lo d) <= invert_int d v <= Qfloor (hi d))%Z) /\
  (forall v, invert_float F32 (invert_float F32 v) == v /\ (0 <= v <= 1 -> 0 <= invert_float F32 v <= 1)).
Proof. split; [exact invert_int_involutive | exact invert_float32_involutive]. Qed.
Print Assumptions C18_invert_is_an_involution_on_the_range.

Theorem C18_from_float_inverts_to_float : forall d (z : Z), is_int d = true -> lo d <= inject_Z z <= hi d ->
  from_float_vox d (to_float_vox d (inject_Z z)) == inject_Z z /\ 0 <= to_float_vox d (inject_Z z) <= 1.
Proof. exact from_to_float. Qed.
Print Assumptions C18_from_float_inverts_to_float.

Theorem C18_sharpen_kernel_weights : forall a l, qsum (sharpen_kernel a l) == 1 - a + a * l.
Proof. exact sharpen_kernel_sum. Qed.
Print Assumptions C18_sharpen_kernel_weights.

Theorem C18_pointwise_transforms_commute_with_voxel_permutations :
  forall (f : Q -> Q) (l l' : list Q), Permutation l l' -> Permutation (map f l) (map f l').
Proof. exact pointwise_commutes_with_permutations. Qed.
Print Assumptions C18_pointwise_transforms_commute_with_voxel_permutations.

(* non-vacuity: saturation at the extremes instead of wrap-around *)
Example C18_saturates :
  gauss_noise_vox U8 250 (107 # 10) == 255 /\ gauss_noise_vox I16 (inject_Z (-32768)) (-(107 # 10)) == inject_Z (-32768) /\
  invert_int I16 (-32768) = 32767%Z.
Proof. vm_compute. repeat split; reflexivity. Qed.

(* the parameter samplers (regenerated from get_params): for every configured range and every draw, the contrast
   factor is 1 + c with c within contrast_limit, the brightness offset lies within brightness_limit, gamma within
   gamma_limit / 100 and the Downscale factor within [scale_min, scale_max] *)
From DV.lib Require Import PyRt.
From DV.gen Require Import Gen_cls_pixel_samplers.
From DV.proofs Require Import PixSamplers.
Theorem C18_samplers_draw_from_their_own_limits :
  (forall b1 b2 c1 c2 d1 d2 alpha beta, b1 <= b2 -> c1 <= c2 ->
     RandomBrightnessContrastS_get_params (b1, b2) (c1, c2) d1 d2 = Ok (alpha, beta) ->
     (1 + c1 <= alpha /\ alpha <= 1 + c2) /\ (b1 <= beta /\ beta <= b2)) /\
  (forall g1 g2 d1 gamma, g1 <= g2 -> RandomGammaS_get_params (g1, g2) d1 = Ok gamma -> g1 / 100 <= gamma /\ gamma <= g2 / 100) /\
  (forall smax smin d1 s, smin <= smax -> DownscaleS_get_params smax smin d1 = Ok s -> smin <= s /\ s <= smax).
Proof.
  split; [exact RandomBrightnessContrast_params|]. split; [exact RandomGamma_params | exact Downscale_params].
Qed.
Print Assumptions C18_samplers_draw_from_their_own_limits.
