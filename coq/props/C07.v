(* C07 -- Each spatial transform realises its documented voxel map and size.
   The image paths are the Gallina definitions generated from apply(...) over the NumPy view
   model (model/Arrays.v, validated voxel-by-voxel against NumPy on every run); the documented
   maps are the descriptors of model/Lattice.v. Statements hold for EVERY input view, hence for
   every shape (non-cubic, extents of 1). *)
From Coq Require Import ZArith QArith List Bool String.
From DV.lib Require Import PyNum PyRt.
From DV.model Require Import Arrays NpRt Lattice.
From DV.gen Require Import Gen_geom_arrays Gen_crops_functional Gen_cls_geom Gen_cls_rotate.
From DV.proofs Require Import C17_box Lat_vox Cls_lattice2 CropWin.
Open Scope Z_scope.

Theorem C07_flips_reverse_their_own_axis : forall v,
  (vshape (vflip v) = vshape v /\ same_map (vflip v) v (lat_flip 0 (vshape v))) /\
  (vshape (hflip v) = vshape v /\ same_map (hflip v) v (lat_flip 1 (vshape v))) /\
  (vshape (zflip v) = vshape v /\ same_map (zflip v) v (lat_flip 2 (vshape v))).
Proof. intros. repeat split; first [apply vflip_lat | apply hflip_lat | apply zflip_lat]. Qed.
Print Assumptions C07_flips_reverse_their_own_axis.

Theorem C07_flip_codes : forall v d, In d [-1; 0; 1; 2] ->
  exists v', random_flip v d = Ok v' /\ vshape v' = vshape v /\ same_map v' v (lat_flipcode d (vshape v)).
Proof. exact random_flip_lat. Qed.
Print Assumptions C07_flip_codes.

Theorem C07_transpose_swaps_rows_and_columns : forall v,
  vshape (transpose v) = (let '(h, w, d) := vshape v in (w, h, d)) /\ same_map (transpose v) v lat_transpose.
Proof. exact transpose_lat. Qed.
Print Assumptions C07_transpose_swaps_rows_and_columns.

Theorem C07_rot90_is_k_quarter_turns : forall v k a1 a2,
  In k [0; 1; 2; 3] -> In (a1, a2) [(0, 1); (0, 2); (1, 2)]%nat ->
  vshape (rot90 v k (Z.of_nat a1, Z.of_nat a2)) = rot_shape k a1 a2 (vshape v) /\
  same_map (rot90 v k (Z.of_nat a1, Z.of_nat a2)) v (lat_rot90 k a1 a2 (vshape v)).
Proof. exact rot90_lat. Qed.
Print Assumptions C07_rot90_is_k_quarter_turns.

Theorem C07_RandomRotate90_class : forall r c s v n ax, vshape v = (r, c, s) -> In n factors -> In ax planes ->
  let '(a1, a2) := plane_axes ax in
  exists v', RandomRotate90_apply v n ax c r s = Ok v' /\ RandomRotate90_apply_to_mask v n ax c r s = Ok v' /\
             vshape v' = rot_shape n a1 a2 (r, c, s) /\ same_map v' v (lat_rot90 n a1 a2 (r, c, s)).
Proof. intros r c s v n ax. apply RandomRotate90_image. Qed.
Print Assumptions C07_RandomRotate90_class.

Theorem C07_crop_returns_the_requested_window : forall v x1 y1 z1 x2 y2 z2,
  window_ok (vshape v) x1 y1 z1 x2 y2 z2 ->
  exists v', crop v x1 y1 z1 x2 y2 z2 = Ok v' /\
             vshape v' = (y2 - y1, x2 - x1, z2 - z1) /\ same_map v' v (lat_shift y1 x1 z1).
Proof. exact crop_lat. Qed.
Print Assumptions C07_crop_returns_the_requested_window.

Open Scope Q_scope.
Theorem C07_random_crop_window_inside : forall h w d ch cw cd hs ws ds,
  (0 < ch <= h)%Z -> (0 < cw <= w)%Z -> (0 < cd <= d)%Z ->
  0 <= hs < 1 -> 0 <= ws < 1 -> 0 <= ds < 1 ->
  let '(x1, y1, z1, x2, y2, z2) := get_random_crop_coords h w d ch cw cd hs ws ds in
  (0 <= x1 /\ x2 = x1 + cw /\ x2 <= w /\ 0 <= y1 /\ y2 = y1 + ch /\ y2 <= h /\
   0 <= z1 /\ z2 = z1 + cd /\ z2 <= d)%Z.
Proof. exact random_crop_window. Qed.
Print Assumptions C07_random_crop_window_inside.

Theorem C07_center_crop_window : forall h w d ch cw cd,
  (0 < ch <= h)%Z -> (0 < cw <= w)%Z -> (0 < cd <= d)%Z ->
  let '(x1, y1, z1, x2, y2, z2) := get_center_crop_coords h w d ch cw cd in
  (x1 = (w - cw) / 2 /\ x2 = x1 + cw /\ 0 <= x1 /\ x2 <= w /\
   y1 = (h - ch) / 2 /\ y2 = y1 + ch /\ 0 <= y1 /\ y2 <= h /\
   z1 = (d - cd) / 2 /\ z2 = z1 + cd /\ 0 <= z1 /\ z2 <= d)%Z.
Proof. exact center_crop_window. Qed.
Print Assumptions C07_center_crop_window.

Theorem C07_pad_keeps_the_original_voxels : forall r c s v pt pb pl pr pf pk val,
  vshape v = (r, c, s) -> pad_ok pt pb pl pr pf pk ->
  exists v', pad_with_params v pt pb pl pr pf pk "constant" val = Ok v' /\
             vshape v' = (r + pt + pb, c + pl + pr, s + pf + pk)%Z /\ padded_from v' v pt pl pf val.
Proof. intros r c s v pt pb pl pr pf pk val. apply pad_constant. Qed.
Print Assumptions C07_pad_keeps_the_original_voxels.

(* PadIfNeeded.update_params (generated, including the position helper): for every volume size,
   every documented configuration (per axis either a minimum or a positive divisor), every position
   name and every value of the three random draws: all six pad amounts are non-negative and each
   padded extent is max(extent, minimum), respectively the next multiple of the divisor. *)
From DV.proofs Require Import PadParams.
Open Scope Z_scope.
Theorem C07_PadIfNeeded_sizes : forall mnd mnh mnw dvd dvh dvw pos rows cols slices d1 d2 d3 pt pb pl pr pf pk,
  cfg_ok mnh dvh -> cfg_ok mnw dvw -> cfg_ok mnd dvd ->
  PadIfNeededS_update_params mnd mnh mnw dvd dvh dvw pos rows cols slices d1 d2 d3 = Ok (pt, pb, pl, pr, pf, pk) ->
  axis_ok rows mnh dvh pt pb /\ axis_ok cols mnw dvw pl pr /\ axis_ok slices mnd dvd pf pk.
Proof. exact pad_params_ok. Qed.
Print Assumptions C07_PadIfNeeded_sizes.

(* F.resize / Resize: the requested shape exactly, for every interpolation order and every input shape
   (SciPy zoom is modelled by its output-extent rule int(round(n * z)) and, for order 0, its source index;
   validated voxel by voxel against scipy.ndimage.zoom on every run) *)
From DV.proofs Require Import Resample.
From DV.gen Require Import Gen_cls_resize.
Theorem C07_resize_returns_the_requested_shape : forall v H W D h w d order,
  vshape v = (H, W, D) -> (0 < H)%Z -> (0 < W)%Z -> (0 < D)%Z ->
  exists v', resize v h w d order = Ok v' /\ vshape v' = (h, w, d).
Proof. exact resize_shape. Qed.
Print Assumptions C07_resize_returns_the_requested_shape.

Theorem C07_longest_side_becomes_max_size : forall v m ip H W D vi,
  vshape v = (H, W, D) -> (0 < H)%Z -> (0 < W)%Z -> (0 < D)%Z ->
  LongestMaxSize_apply v m ip W H D = Ok vi ->
  let '(h', w', d') := vshape vi in
  let M := Z.max (Z.max H W) D in
  (H = M -> h' = m) /\ (W = M -> w' = m) /\ (D = M -> d' = m).
Proof. exact longest_side_becomes_max_size. Qed.
Print Assumptions C07_longest_side_becomes_max_size.

(* RandomSizedCrop, the sized box-safe crop and keep_size: exactly the promised shape, and with nearest
   interpolation (the mask path) no voxel that was not in the input (no fill voxels) *)
From DV.proofs Require Import Values SizedCrop CropPad BorderCrop.
From DV.gen Require Import Gen_cls_crops_dicom Gen_cls_crops.
Theorem C07_sized_crops_return_the_promised_shape :
  (forall v H W D ch cw cd hs ws sh sw sd ip c r s,
     vshape v = (H, W, D) -> (0 < ch <= H)%Z -> (0 < cw <= W)%Z -> (0 < cd <= D)%Z -> 0 <= hs < 1 -> 0 <= ws < 1 ->
     exists v', RandomSizedCrop_apply sd sh sw v hs ws ch cw cd ip c r s = Ok v' /\ vshape v' = (sh, sw, sd) /\
       (ip = 0%Z -> forall P, fills_in P v -> fills_in P v')) /\
  (forall v H W D ch cw cd hs ws ds sh sw sd ip c r s,
     vshape v = (H, W, D) -> (0 < ch <= H)%Z -> (0 < cw <= W)%Z -> (0 < cd <= D)%Z -> 0 <= hs < 1 -> 0 <= ws < 1 -> 0 <= ds < 1 ->
     exists v', RandomSizedBBoxSafeCrop_apply sd sh sw v hs ws ds ch cw cd ip c r s = Ok v' /\ vshape v' = (sh, sw, sd) /\
       (ip = 0%Z -> forall P, fills_in P v -> fills_in P v')).
Proof. split; [exact RandomSizedCrop_image | exact RandomSizedBBoxSafeCrop_image]. Qed.
Print Assumptions C07_sized_crops_return_the_promised_shape.

Theorem C07_keep_size_returns_the_input_shape : forall pm v cp pp pv pvm rr rc rs ip c r s v',
  CropAndPad_apply true pm v cp pp pv pvm rr rc rs ip c r s = Ok v' -> vshape v' = (r, c, s).
Proof.
  intros pm v cp pp pv pvm rr rc rs ip c r s v' A. unfold CropAndPad_apply in A.
  rewrite (crop_and_pad_shape _ _ _ _ _ _ _ _ _ _ _ A). reflexivity.
Qed.
Print Assumptions C07_keep_size_returns_the_input_shape.

Theorem C07_RandomSizedCrop_sampler_meets_the_hypotheses : forall d2h lo hi w2h d1 d2 d3 hs ws ch cw cd,
  RandomSizedCropS_get_params d2h (lo, hi) w2h d1 d2 d3 = Ok (hs, ws, ch, cw, cd) ->
  (lo <= ch <= hi)%Z /\ 0 <= hs < 1 /\ 0 <= ws < 1 /\
  cw = py_int (inject_Z ch * w2h) /\ cd = py_int (inject_Z ch * d2h).
Proof. exact RandomSizedCrop_params. Qed.
Print Assumptions C07_RandomSizedCrop_sampler_meets_the_hypotheses.

(* RandomCropFromBorders: for every volume, every six fractions and every six draws, each face of the sampled window
   lies in the band its OWN fraction documents (near faces within the first crop_left / crop_top / crop_close part
   of the extent, far faces at or beyond 1 - crop_right / crop_bottom / crop_far of it) and the window is a
   non-empty window of the frame *)
Theorem C07_RandomCropFromBorders_faces_stay_in_their_documented_bands :
  forall bottom close far left right top v H W D d1 d2 d3 d4 d5 d6 x1 x2 y1 y2 z1 z2,
  vshape v = (H, W, D) ->
  RandomCropFromBordersS_get_params_dependent_on_targets bottom close far left right top v d1 d2 d3 d4 d5 d6
    = Ok (x1, x2, y1, y2, z1, z2) ->
  ((0 <= x1 <= py_int (left * inject_Z W) /\ Z.max (x1 + 1) (py_int ((1 - right) * inject_Z W)) <= x2 <= W) /\
   (0 <= y1 <= py_int (top * inject_Z H) /\ Z.max (y1 + 1) (py_int ((1 - bottom) * inject_Z H)) <= y2 <= H) /\
   (0 <= z1 <= py_int (close * inject_Z D) /\ Z.max (z1 + 1) (py_int ((1 - far) * inject_Z D)) <= z2 <= D))%Z.
Proof. exact RandomCropFromBorders_faces_in_their_bands. Qed.
Print Assumptions C07_RandomCropFromBorders_faces_stay_in_their_documented_bands.

(* the rotation classes draw their parameters from their OWN documented ranges, for every configuration and every
   draw: a quarter-turn factor in 0..3, the angle within `limit` / `rotate_limit`, scale and the three shifts within
   their own limits, and the plane the configured one (or a member of the configured list) *)
From DV.proofs Require Import RotSamplers.
Theorem C07_rotation_samplers_draw_from_their_own_limits :
  ((forall axes d1 k ax, RandomRotate90S_get_params axes d1 = Ok (k, ax) -> (0 <= k <= 3)%Z /\ ax = axes) /\
   (forall axes d1 d2 k ax, RandomRotate90L_get_params axes d1 d2 = Ok (k, ax) -> (0 <= k <= 3)%Z /\ In ax axes) /\
   (forall axes lo hi d1 a ax, lo <= hi ->
      RotateS_get_params_dependent_on_targets axes (lo, hi) d1 = Ok (a, ax) -> (lo <= a /\ a <= hi) /\ ax = axes) /\
   (forall axes lo hi d1 d2 a ax, lo <= hi ->
      RotateL_get_params_dependent_on_targets axes (lo, hi) d1 d2 = Ok (a, ax) -> (lo <= a /\ a <= hi) /\ In ax axes) /\
   (forall axes r1 r2 s1 s2 x1 x2 y1 y2 z1 z2 d1 d2 d3 d4 d5 d6 a s dx dy dz ax,
      r1 <= r2 -> s1 <= s2 -> x1 <= x2 -> y1 <= y2 -> z1 <= z2 ->
      ShiftScaleRotateS_get_params axes (r1, r2) (s1, s2) (x1, x2) (y1, y2) (z1, z2) d1 d2 d3 d4 d5 d6 = Ok (a, s, dx, dy, dz, ax) ->
      (r1 <= a /\ a <= r2) /\ (s1 <= s /\ s <= s2) /\ (x1 <= dx /\ dx <= x2) /\ (y1 <= dy /\ dy <= y2) /\
      (z1 <= dz /\ dz <= z2) /\ In ax axes))%Q.
Proof.
  split; [exact RandomRotate90_params_one_plane|].
  split; [exact RandomRotate90_params_plane_list|].
  split; [exact Rotate_params_one_plane|].
  split; [exact Rotate_params_plane_list|].
  exact ShiftScaleRotate_params.
Qed.
Print Assumptions C07_rotation_samplers_draw_from_their_own_limits.

From DV.gen Require Import Gen_cls_resize_samplers.
From DV.proofs Require Import PixSamplers.
Theorem C07_RandomScale_factor_within_its_limit : forall lo hi d1 s,
  lo <= hi -> RandomScaleS_get_params (lo, hi) d1 = Ok s -> lo <= s /\ s <= hi.
Proof. exact RandomScale_params. Qed.
Print Assumptions C07_RandomScale_factor_within_its_limit.

(* CropAndPad never crops an axis away ("This transformation will never crop images below a height or width of 1"):
   for ALL non-negative crop amounts the amounts that reach the crop are non-negative, not larger than requested,
   leave at least one voxel per axis -- exactly one where the request left none -- and are the requested ones
   whenever those already leave a voxel *)
Theorem C07_CropAndPad_leaves_a_voxel_on_every_axis : forall pc pcm px t b l r c f H W D,
  (0 <= t)%Z -> (0 <= b)%Z -> (0 <= l)%Z -> (0 <= r)%Z -> (0 <= c)%Z -> (0 <= f)%Z -> (1 <= H)%Z -> (1 <= W)%Z -> (1 <= D)%Z ->
  let '(t', b', l', r', c', f') := CropAndPadS_prevent_zero pc pcm px (t, b, l, r, c, f) H W D in
  (0 <= t' <= t /\ 0 <= b' <= b /\ 0 <= l' <= l /\ 0 <= r' <= r /\ 0 <= c' <= c /\ 0 <= f' <= f /\
   1 <= H - (t' + b') /\ 1 <= W - (l' + r') /\ 1 <= D - (c' + f') /\
   (1 <= H - (t + b) -> t' = t /\ b' = b) /\ (1 <= W - (l + r) -> l' = l /\ r' = r) /\ (1 <= D - (c + f) -> c' = c /\ f' = f) /\
   (H - (t + b) < 1 -> H - (t' + b') = 1) /\ (W - (l + r) < 1 -> W - (l' + r') = 1) /\ (D - (c + f) < 1 -> D - (c' + f') = 1))%Z.
Proof. exact prevent_zero_leaves_a_voxel. Qed.
Print Assumptions C07_CropAndPad_leaves_a_voxel_on_every_axis.
