(* Dropout.v -- CoarseDropout / GridDropout / PixelDropout: region exactness, hole sampling limits,
   keypoint membership.  All functions are regenerated from the source. *)
From Coq Require Import ZArith QArith Qround List Bool String Lia Lqa.
Import ListNotations.
From DV.lib Require Import PyNum PyRt.
From DV.model Require Import Arrays NpRt.
From DV.gen Require Import Gen_dropout_functional Gen_pixel_dropout Gen_cls_coarse Gen_cls_grid Gen_cls_pixeldropout.
From DV.proofs Require Import Tac PadParams.
Open Scope Z_scope.

Definition hole : Type := (Z * Z * Z * Z * Z * Z)%type.
Definition hole_in (sh : shape3) (h : hole) : Prop :=
  let '(x1, y1, z1, x2, y2, z2) := h in let '(H, W, D) := sh in
  0 <= x1 <= x2 /\ x2 <= W /\ 0 <= y1 <= y2 /\ y2 <= H /\ 0 <= z1 <= z2 /\ z2 <= D.
(* half-open on all three axes *)
Definition in_hole (o : idx) (h : hole) : bool :=
  let '(x1, y1, z1, x2, y2, z2) := h in let '(i, j, k) := o in
  (y1 <=? i) && (i <? y2) && (x1 <=? j) && (j <? x2) && (z1 <=? k) && (k <? z2).

Lemma slice_in_range n a b : 0 <= a <= b -> b <= n -> slice_start_len n (Some a) (Some b) = (a, b - a).
Proof.
  intros H1 H2. unfold slice_start_len, slice_bound.
  destruct (Z.ltb_spec a 0); [lia|]. destruct (Z.ltb_spec b 0); [lia|].
  f_equal; lia.
Qed.

Lemma store_hole v x1 y1 z1 x2 y2 z2 fill :
  hole_in (vshape v) (x1, y1, z1, x2, y2, z2) ->
  let v' := v_store3 (Some y1, Some y2) (Some x1, Some x2) (Some z1, Some z2) fill v in
  vshape v' = vshape v /\
  forall o, vat v' o = if in_hole o (x1, y1, z1, x2, y2, z2) then Fill fill else vat v o.
Proof.
  unfold hole_in. destruct (vshape v) as [[H W] D] eqn:S. intros (A & B & C & E & F & G).
  unfold v_store3. rewrite S. cbn [fst snd].
  rewrite (slice_in_range H y1 y2), (slice_in_range W x1 x2), (slice_in_range D z1 z2) by lia.
  cbn. split; [reflexivity|]. intros [[i j] k]. cbn.
  replace (y1 + (y2 - y1)) with y2 by lia. replace (x1 + (x2 - x1)) with x2 by lia.
  replace (z1 + (z2 - z1)) with z2 by lia. reflexivity.
Qed.

Theorem cutout_exact holes : forall v fill, Forall (hole_in (vshape v)) holes ->
  vshape (cutout v holes fill) = vshape v /\
  forall o, vat (cutout v holes fill) o = if existsb (in_hole o) holes then Fill fill else vat v o.
Proof.
  unfold cutout. cbn zeta.
  induction holes as [|[[[[[x1 y1] z1] x2] y2] z2] tl IH]; intros v fill Hh; cbn [fold_left existsb].
  - split; reflexivity.
  - inversion Hh as [|? ? Hh1 Hh2]; subst.
    destruct (store_hole v x1 y1 z1 x2 y2 z2 fill Hh1) as [S1 V1].
    set (v' := v_store3 (Some y1, Some y2) (Some x1, Some x2) (Some z1, Some z2) fill v) in *.
    assert (Hh2' : Forall (hole_in (vshape v')) tl) by (rewrite S1; exact Hh2).
    destruct (IH v' fill Hh2') as [S2 V2]. split; [rewrite S2; exact S1|].
    intros o. rewrite V2, V1.
    destruct (in_hole o (x1, y1, z1, x2, y2, z2)); cbn; destruct (existsb (in_hole o) tl); reflexivity.
Qed.

(* ---- PixelDropout: np.where on the drop mask ---- *)
Lemma pixel_dropout_exact img m value :
  vshape (pixel_dropout img m value) = vshape img /\
  forall o, exists q, (q == value)%Q /\
    vat (pixel_dropout img m value) o = if m o then Fill q else vat img o.
Proof.
  unfold pixel_dropout. cbn zeta. split.
  - destruct (true && Qeq_bool value 0); reflexivity.
  - intros o. destruct (Qeq_bool value 0) eqn:E; cbn.
    + apply Qeq_bool_iff in E. exists 0%Q. split; [symmetry; exact E|]. destruct (m o); reflexivity.
    + exists value. split; [reflexivity|]. destruct (m o); reflexivity.
Qed.

Lemma PixelDropout_mask_same_mask mdv img m dv c r s :
  match mdv with
  | None => PixelDropout_apply_to_mask mdv img m dv c r s = img
  | Some q => PixelDropout_apply_to_mask mdv img m dv c r s = pixel_dropout img m q
  end.
Proof. destruct mdv; reflexivity. Qed.

(* ---- keypoints: removed iff inside some hole, half-open on all three axes ---- *)
Open Scope Q_scope.
Definition kp_inside (kp : Q * Q * Q * Q * Q) (h : hole) : Prop :=
  let '(x1, y1, z1, x2, y2, z2) := h in let '(x, y, z, a, s) := kp in
  inject_Z x1 <= x /\ x < inject_Z x2 /\ inject_Z y1 <= y /\ y < inject_Z y2 /\ inject_Z z1 <= z /\ z < inject_Z z2.

Lemma keypoint_in_hole_spec kp h : CoarseDropoutK_keypoint_in_hole kp h = true <-> kp_inside kp h.
Proof.
  destruct h as [[[[[x1 y1] z1] x2] y2] z2]. destruct kp as [[[[x y] z] a] s].
  unfold CoarseDropoutK_keypoint_in_hole, kp_inside.
  rewrite !andb_true_iff.
  repeat match goal with
  | |- context [Qle_bool ?a ?b = true] => rewrite (Qle_bool_iff a b)
  end.
  assert (L : forall a b, Qlt_bool a b = true <-> a < b).
  { intros a0 b0. destruct (Qlt_bool_spec a0 b0); split; intros; try lra; try discriminate; reflexivity. }
  rewrite !L. tauto.
Qed.

Theorem keypoints_removed_iff kps holes kp :
  In kp (CoarseDropoutK_apply_to_keypoints kps holes) <->
  In kp kps /\ forall h, In h holes -> ~ kp_inside kp h.
Proof.
  unfold CoarseDropoutK_apply_to_keypoints. cbn zeta. rewrite filter_In.
  split; intros [A B]; split; try exact A.
  - intros h Hh Hin. apply negb_true_iff in B.
    assert (existsb (fun v_hole => CoarseDropoutK_keypoint_in_hole kp v_hole) holes = true).
    { apply existsb_exists. exists h. split; [exact Hh | apply keypoint_in_hole_spec; exact Hin]. }
    congruence.
  - apply negb_true_iff. destruct (existsb _ holes) eqn:E; [|reflexivity].
    apply existsb_exists in E. destruct E as (h & Hh & Hin). apply keypoint_in_hole_spec in Hin.
    exfalso. exact (B h Hh Hin).
Qed.

(* survivors keep their order and values: the result is a filter of the input list *)
Lemma keypoints_order kps holes : exists f, CoarseDropoutK_apply_to_keypoints kps holes = filter f kps.
Proof. eexists. reflexivity. Qed.

(* ---- hole sampling ---- *)
Open Scope Z_scope.

Lemma draw_uniform_ok a b u v : (a <= b)%Q -> draw_uniform a b u = Ok v -> (a <= v /\ v <= b)%Q.
Proof.
  intros Hab. unfold draw_uniform.
  destruct (Qle_bool 0 u) eqn:E1; cbn; [|discriminate]. destruct (Qlt_bool_spec u 1) as [E2|E2]; [|discriminate].
  apply Qle_bool_iff in E1. intros E. inversion E; subst.
  assert (0 <= (b - a) * u)%Q by (apply Qmult_le_0_compat; lra).
  assert ((b - a) * u <= (b - a) * 1)%Q.
  { rewrite !(Qmult_comm (b - a)). apply Qmult_le_compat_r; lra. }
  lra.
Qed.

Lemma CoarseDropout_count_I mxd mxh mxn mxw mnd mnh mnn mnw img d n :
  CoarseDropoutI_get_params_dependent_on_targets_count mxd mxh mxn mxw mnd mnh mnn mnw img d = Ok n -> mnn <= n <= mxn.
Proof.
  unfold CoarseDropoutI_get_params_dependent_on_targets_count. cbn zeta. destruct (vshape img) as [[H W] D].
  intros E. apply draw_int_ok in E. lia.
Qed.
Lemma CoarseDropout_count_F mxd mxh mxn mxw mnd mnh mnn mnw img d n :
  CoarseDropoutF_get_params_dependent_on_targets_count mxd mxh mxn mxw mnd mnh mnn mnw img d = Ok n -> mnn <= n <= mxn.
Proof.
  unfold CoarseDropoutF_get_params_dependent_on_targets_count. cbn zeta. destruct (vshape img) as [[H W] D].
  intros E. apply draw_int_ok in E. lia.
Qed.

(* integer sizes: every hole lies inside the frame and has its extents within the configured limits,
   for every value of the six draws (a draw outside its range is rejected by the draw model) *)
Theorem CoarseDropout_hole_I mxd mxh mxn mxw mnd mnh mnn mnw img d1 d2 d3 d4 d5 d6 x1 y1 z1 x2 y2 z2 :
  0 < mnh -> 0 < mnw -> 0 < mnd ->
  CoarseDropoutI_get_params_dependent_on_targets_body mxd mxh mxn mxw mnd mnh mnn mnw img d1 d2 d3 d4 d5 d6
    = Ok (x1, y1, z1, x2, y2, z2) ->
  hole_in (vshape img) (x1, y1, z1, x2, y2, z2) /\
  mnh <= y2 - y1 <= mxh /\ mnw <= x2 - x1 <= mxw /\ mnd <= z2 - z1 <= mxd.
Proof.
  intros Ph Pw Pd. unfold CoarseDropoutI_get_params_dependent_on_targets_body. cbn zeta.
  destruct (vshape img) as [[H W] D] eqn:S. intros E. res_inv.
  repeat match goal with Hd : draw_int _ _ _ = Ok _ |- _ => apply draw_int_ok in Hd; destruct Hd as [-> ?] end.
  try match goal with Hk : Ok _ = Ok _ |- _ => inversion Hk; subst end.
  unfold hole_in. repeat split; lia.
Qed.

(* fractional sizes: extent = int(frame extent * u) with u in [min, max] *)
Lemma py_int_frac n u : 0 <= n -> (0 <= u)%Q ->
  0 <= py_int (inject_Z n * u) /\ (inject_Z (py_int (inject_Z n * u)) <= inject_Z n * u)%Q.
Proof.
  intros Hn Hu.
  assert (A : (0 <= inject_Z n * u)%Q).
  { apply Qmult_le_0_compat; [|exact Hu]. change 0%Q with (inject_Z 0). rewrite <- Zle_Qle. exact Hn. }
  destruct (py_int_nonneg _ A) as [L U]. pose proof (py_int_nonneg_ge0 _ A). split; [assumption|exact L].
Qed.

Theorem CoarseDropout_hole_F mxd mxh mxn mxw mnd mnh mnn mnw img d1 d2 d3 d4 d5 d6 x1 y1 z1 x2 y2 z2 :
  (0 <= mnh <= mxh)%Q -> (0 <= mnw <= mxw)%Q -> (0 <= mnd <= mxd)%Q ->
  let '(H, W, D) := vshape img in 0 <= H -> 0 <= W -> 0 <= D ->
  CoarseDropoutF_get_params_dependent_on_targets_body mxd mxh mxn mxw mnd mnh mnn mnw img d1 d2 d3 d4 d5 d6
    = Ok (x1, y1, z1, x2, y2, z2) ->
  hole_in (H, W, D) (x1, y1, z1, x2, y2, z2) /\
  (inject_Z (y2 - y1) <= inject_Z H * mxh /\ inject_Z (x2 - x1) <= inject_Z W * mxw /\
   inject_Z (z2 - z1) <= inject_Z D * mxd)%Q.
Proof.
  intros Ph Pw Pd. unfold CoarseDropoutF_get_params_dependent_on_targets_body. cbn zeta.
  destruct (vshape img) as [[H W] D] eqn:S. intros HH HW HD E. res_inv.
  repeat match goal with Hd : draw_int _ _ _ = Ok _ |- _ => apply draw_int_ok in Hd; destruct Hd as [-> ?] end.
  repeat match goal with
  | Hu : draw_uniform ?a ?b _ = Ok _ |- _ => apply (draw_uniform_ok a b) in Hu; [|lra]
  end.
  try match goal with Hk : Ok _ = Ok _ |- _ => inversion Hk; subst end.
  repeat match goal with
  | Hu : (?a <= ?v /\ ?v <= ?b)%Q |- _ =>
      match goal with
      | |- context [py_int (inject_Z ?n * v)] =>
          let F := fresh "F" in
          assert (F : 0 <= py_int (inject_Z n * v) /\ (inject_Z (py_int (inject_Z n * v)) <= inject_Z n * v)%Q)
            by (apply py_int_frac; [assumption | lra]);
          let G := fresh "G" in
          assert (G : (inject_Z n * v <= inject_Z n * b)%Q)
            by (rewrite !(Qmult_comm (inject_Z n)); apply Qmult_le_compat_r;
                [lra | change 0%Q with (inject_Z 0); rewrite <- Zle_Qle; assumption]);
          generalize dependent (py_int (inject_Z n * v)); intros
      end
  end.
  unfold hole_in. repeat split; try lia;
  match goal with |- (inject_Z (?a + ?p - ?a) <= _)%Q => replace (a + p - a) with p by lia end; lra.
Qed.
