(* C18_pixel.v -- range, involution and round-trip facts of the voxel-level model. *)
From Coq Require Import ZArith QArith Qround List Bool Lia Lqa Permutation.
Import ListNotations.
From DV.lib Require Import PyNum.
From DV.model Require Import Pixel.
Open Scope Q_scope.

Lemma lo_le_hi d : lo d <= hi d.
Proof.
  destruct d; compute; discriminate.
Qed.

Lemma lo_hi_integral d : is_int d = true -> exists a b, lo d = inject_Z a /\ hi d = inject_Z b.
Proof. destruct d; intros E; try discriminate; eexists _, _; split; reflexivity. Qed.

(* the wrapper never leaves the dtype's nominal range, whatever the wrapped function returns: no wrap-around *)
Theorem clip_to_in_range d q : lo d <= clip_to d q /\ clip_to d q <= hi d.
Proof.
  unfold clip_to, cast. destruct (clip_range q (lo d) (hi d) (lo_le_hi d)) as [L H].
  destruct (is_int d) eqn:I; [|split; assumption].
  destruct (lo_hi_integral d I) as (a & b & Ea & Eb). rewrite Ea, Eb in *.
  set (c := clip q (inject_Z a) (inject_Z b)) in *.
  rewrite <- !Zle_Qle. unfold py_int.
  destruct (Qle_bool_spec 0 c) as [P|P].
  - split.
    + apply Qfloor_resp_le in L. rewrite Qfloor_Z in L. exact L.
    + apply Qfloor_resp_le in H. rewrite Qfloor_Z in H. exact H.
  - split.
    + apply Qceiling_resp_le in L. rewrite Qceiling_Z in L. exact L.
    + apply Qceiling_resp_le in H. rewrite Qceiling_Z in H. exact H.
Qed.

Theorem clipped_in_range f d v : lo d <= clipped f d v /\ clipped f d v <= hi d.
Proof. apply clip_to_in_range. Qed.

(* invert: an involution that maps the nominal range onto itself *)
Ltac Zify.zify_post_hook ::= Z.to_euclidean_division_equations.
Lemma inv_u8 v : (0 <= v <= 255)%Z -> ((255 - (v + 0) mod 256) mod 256 = 255 - v)%Z.
Proof. intros. lia. Qed.
Lemma inv_u16 v : (0 <= v <= 65535)%Z -> ((65535 - (v + 0) mod 65536) mod 65536 = 65535 - v)%Z.
Proof. intros. lia. Qed.
Lemma inv_i16 v : (-32768 <= v <= 32767)%Z ->
  ((32767 - ((v + -32768 + 32768) mod 65536 - 32768) + 32768) mod 65536 - 32768 = -1 - v)%Z.
Proof. intros. lia. Qed.
Lemma inv_i32 v : (-2147483648 <= v <= 2147483647)%Z ->
  ((2147483647 - ((v + -2147483648 + 2147483648) mod 4294967296 - 2147483648) + 2147483648) mod 4294967296 - 2147483648 = -1 - v)%Z.
Proof. intros. lia. Qed.

Definition invert_spec (d : dtype) (v : Z) : Z :=
  match d with U8 => 255 - v | U16 => 65535 - v | _ => -1 - v end%Z.

Lemma invert_int_spec d v : is_int d = true -> (Qfloor (lo d) <= v <= Qfloor (hi d))%Z -> invert_int d v = invert_spec d v.
Proof.
  intros I R. destruct d; try discriminate; unfold invert_int, wrap, invert_spec, lo, hi in *;
  rewrite ?Qfloor_Z in *;
  change (Qfloor 255) with 255%Z in *; change (Qfloor 65535) with 65535%Z in *;
  change (Qfloor 32767) with 32767%Z in *; change (Qfloor 2147483647) with 2147483647%Z in *;
  change (Qfloor 0) with 0%Z in *.
  - apply inv_u8; exact R.
  - apply inv_u16; exact R.
  - apply inv_i16; exact R.
  - apply inv_i32; exact R.
Qed.

Theorem invert_int_involutive d v : is_int d = true -> (Qfloor (lo d) <= v <= Qfloor (hi d))%Z ->
  invert_int d (invert_int d v) = v /\ (Qfloor (lo d) <= invert_int d v <= Qfloor (hi d))%Z.
Proof.
  intros I R. rewrite (invert_int_spec d v I R).
  assert (R' : (Qfloor (lo d) <= invert_spec d v <= Qfloor (hi d))%Z).
  { destruct d; try discriminate; unfold invert_spec, lo, hi in *; rewrite ?Qfloor_Z in *;
    change (Qfloor 255) with 255%Z in *; change (Qfloor 65535) with 65535%Z in *;
    change (Qfloor 32767) with 32767%Z in *; change (Qfloor 2147483647) with 2147483647%Z in *;
    change (Qfloor 0) with 0%Z in *; lia. }
  split; [|exact R'].
  rewrite (invert_int_spec d _ I R'). destruct d; try discriminate; unfold invert_spec; lia.
Qed.

Theorem invert_float32_involutive v : invert_float F32 (invert_float F32 v) == v /\
  (0 <= v <= 1 -> 0 <= invert_float F32 v <= 1).
Proof. unfold invert_float, lo, hi. split; [ring | intros; lra]. Qed.

(* to_float / from_float: exact inverses on the integers of the range (float32 rounding aside) *)
Theorem from_to_float d (z : Z) : is_int d = true -> lo d <= inject_Z z <= hi d ->
  from_float_vox d (to_float_vox d (inject_Z z)) == inject_Z z /\
  0 <= to_float_vox d (inject_Z z) <= 1.
Proof.
  intros I [L H]. unfold from_float_vox, to_float_vox, cast. rewrite I.
  assert (P : 0 < hi d - lo d) by (destruct d; try discriminate; compute; reflexivity).
  assert (E : (inject_Z z - lo d) / (hi d - lo d) * (hi d - lo d) + lo d == inject_Z z) by (field; lra).
  split.
  -     assert (py_int ((inject_Z z - lo d) / (hi d - lo d) * (hi d - lo d) + lo d) = z) as ->; [|reflexivity].
    unfold py_int. rewrite (Qfloor_comp _ _ E), (Qceiling_comp _ _ E), Qfloor_Z, Qceiling_Z.
    destruct (Qle_bool 0 _); reflexivity.
  - split.
    + apply Qle_shift_div_l; [exact P | lra].
    + apply Qle_shift_div_r; [exact P | lra].
Qed.

(* Sharpen kernel: the weights sum to 1 - alpha + alpha * lightness (so lightness 1 preserves the mean) *)
Theorem sharpen_kernel_sum a l : qsum (sharpen_kernel a l) == 1 - a + a * l.
Proof. unfold sharpen_kernel, qsum. cbn. ring. Qed.

(* point-wise transforms commute with every rearrangement of the voxels *)
Theorem pointwise_commutes_with_permutations (f : Q -> Q) (l l' : list Q) :
  Permutation l l' -> Permutation (map f l) (map f l').
Proof. apply Permutation_map. Qed.
Theorem pointwise_is_indexwise (f : Q -> Q) (l : list Q) (i : nat) (dflt : Q) :
  nth i (map f l) (f dflt) = f (nth i l dflt).
Proof. apply map_nth. Qed.
