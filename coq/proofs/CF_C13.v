(* class-table facts used by C13; proved by computation over the regenerated tables *)
From Coq Require Import List String Bool.
Import ListNotations.
From DV.gen Require Import Gen_classtab.
From DV.proofs Require Import ClassFacts.
Open Scope string_scope.

Lemma draws_inside_partial :
  forallb (fun c => draws_inside_ok c || mem (c_name c) c13_known) class_table = true.
Proof. vm_compute. reflexivity. Qed.
