(* Arrays.v -- executable model of the NumPy array primitives the library uses on volumes.

   A volume is modelled by WHERE each output voxel comes from: a [view] is an output
   shape (rows, cols, slices) and a map from output index to either an index of the
   ORIGINAL input volume or a fill value.  The primitives below are the trusted NumPy
   semantics (slicing with Python's slice.indices rules, reversal, transpose, np.rot90
   exactly as numpy defines it through flip+transpose, np.pad for the five modes,
   slice assignment).  They are validated on every run by the correspondence check on
   index-labelled volumes (every voxel compared).  The channel axis is not modelled:
   every primitive here acts identically on each channel. *)
From Coq Require Import ZArith QArith List Bool Lia.
Import ListNotations.
From DV.lib Require Import PyNum.
Open Scope Z_scope.

Definition idx : Type := (Z * Z * Z)%type.
Definition shape3 : Type := (Z * Z * Z)%type.

(* Mix: a value interpolated from several input voxels (spline order >= 1): neither an input voxel nor a fill *)
Inductive cell := Src (i : idx) | Fill (v : Q) | Mix.

Record view := mkView { vshape : shape3; vat : idx -> cell }.

Definition v_id (sh : shape3) : view := mkView sh (fun i => Src i).

Definition getax (a : nat) (t : Z * Z * Z) : Z :=
  let '(x, y, z) := t in match a with O => x | S O => y | _ => z end.
Definition setax (a : nat) (v : Z) (t : Z * Z * Z) : Z * Z * Z :=
  let '(x, y, z) := t in match a with O => (v, y, z) | S O => (x, v, z) | _ => (x, y, v) end.

Definition in_range (sh : shape3) (o : idx) : bool :=
  let '(h, w, d) := sh in let '(i, j, k) := o in
  (0 <=? i) && (i <? h) && (0 <=? j) && (j <? w) && (0 <=? k) && (k <? d).

(* ---- reversal along one axis: img[::-1] on that axis ---- *)
Definition v_rev (a : nat) (v : view) : view :=
  mkView (vshape v) (fun o => vat v (setax a (getax a (vshape v) - 1 - getax a o) o)).

(* ---- ndarray.transpose(p0, p1, p2): out.shape[i] = in.shape[p i]; out[o] = in[o'], o'[p i] = o[i] ---- *)
Definition v_transpose (p0 p1 p2 : nat) (v : view) : view :=
  let sh := vshape v in
  mkView (getax p0 sh, getax p1 sh, getax p2 sh)
         (fun o => let '(o0, o1, o2) := o in
                   vat v (setax p2 o2 (setax p1 o1 (setax p0 o0 (0, 0, 0))))).

(* ---- np.rot90(m, k, axes=(a1, a2)), as numpy defines it ---- *)
Definition swap_perm (a1 a2 : nat) (i : nat) : nat :=
  if Nat.eqb i a1 then a2 else if Nat.eqb i a2 then a1 else i.
Definition v_rot90 (k : Z) (a1 a2 : nat) (v : view) : view :=
  let k4 := k mod 4 in
  let tr := v_transpose (swap_perm a1 a2 0) (swap_perm a1 a2 1) (swap_perm a1 a2 2) in
  if k4 =? 0 then v
  else if k4 =? 2 then v_rev a2 (v_rev a1 v)          (* flip(flip(m, axes[0]), axes[1]) *)
  else if k4 =? 1 then tr (v_rev a2 v)                 (* transpose(flip(m, axes[1]), axes_list) *)
  else v_rev a2 (tr v).                                (* flip(transpose(m, axes_list), axes[1]) *)

(* ---- basic slicing with step 1: Python's slice(start, stop).indices(n) ---- *)
Definition slice_bound (n : Z) (b : option Z) (dflt : Z) : Z :=
  match b with
  | None => dflt
  | Some x => let y := if x <? 0 then x + n else x in Z.max 0 (Z.min n y)
  end.
Definition slice_start_len (n : Z) (lo hi : option Z) : Z * Z :=
  let s := slice_bound n lo 0 in
  let e := slice_bound n hi n in
  (s, Z.max 0 (e - s)).

Definition pyslice : Type := (option Z * option Z)%type.
Definition v_slice3 (s0 s1 s2 : pyslice) (v : view) : view :=
  let '(h, w, d) := vshape v in
  let '(b0, l0) := slice_start_len h (fst s0) (snd s0) in
  let '(b1, l1) := slice_start_len w (fst s1) (snd s1) in
  let '(b2, l2) := slice_start_len d (fst s2) (snd s2) in
  mkView (l0, l1, l2) (fun o => let '(i, j, k) := o in vat v (i + b0, j + b1, k + b2)).

(* ---- slice assignment  img[s0, s1, s2] = value ---- *)
Definition v_store3 (s0 s1 s2 : pyslice) (value : Q) (v : view) : view :=
  let '(h, w, d) := vshape v in
  let '(b0, l0) := slice_start_len h (fst s0) (snd s0) in
  let '(b1, l1) := slice_start_len w (fst s1) (snd s1) in
  let '(b2, l2) := slice_start_len d (fst s2) (snd s2) in
  mkView (vshape v)
    (fun o => let '(i, j, k) := o in
              if (b0 <=? i) && (i <? b0 + l0) && (b1 <=? j) && (j <? b1 + l1) && (b2 <=? k) && (k <? b2 + l2)
              then Fill value else vat v o).

(* ---- np.pad ---- *)
Inductive padmode := PConstant | PEdge | PReflect | PSymmetric | PWrap.

(* source coordinate (in 0..n-1) of padded coordinate x (already shifted so that the
   original occupies 0..n-1), for the non-constant modes; n >= 1 *)
Definition pad_coord (m : padmode) (n x : Z) : Z :=
  match m with
  | PConstant => x
  | PEdge => Z.max 0 (Z.min (n - 1) x)
  | PWrap => x mod n
  | PSymmetric =>                      (* d c b a | a b c d | d c b a : period 2n *)
      let y := x mod (2 * n) in if y <? n then y else 2 * n - 1 - y
  | PReflect =>                        (* d c b | a b c d | c b a : period 2n-2 *)
      if n =? 1 then 0 else
      let y := x mod (2 * n - 2) in if y <? n then y else 2 * n - 2 - y
  end.

Definition v_pad (b0 a0 b1 a1 b2 a2 : Z) (m : padmode) (value : Q) (v : view) : view :=
  let '(h, w, d) := vshape v in
  mkView (h + b0 + a0, w + b1 + a1, d + b2 + a2)
    (fun o => let '(i, j, k) := o in
              let '(i', j', k') := (i - b0, j - b1, k - b2) in
              match m with
              | PConstant =>
                  if (0 <=? i') && (i' <? h) && (0 <=? j') && (j' <? w) && (0 <=? k') && (k' <? d)
                  then vat v (i', j', k') else Fill value
              | _ => vat v (pad_coord m h i', pad_coord m w j', pad_coord m d k')
              end).

(* ---- constant arrays and np.where with a boolean mask array (the mask is its indicator function) ---- *)
Definition bmask : Type := idx -> bool.
Definition v_full (sh : shape3) (value : Q) : view := mkView sh (fun _ => Fill value).
Definition v_where (m : bmask) (a b : view) : view :=
  mkView (vshape b) (fun o => if m o then vat a o else vat b o).
Definition idx_eqb (a b : idx) : bool :=
  let '(i, j, k) := a in let '(i', j', k') := b in (i =? i') && (j =? j') && (k =? k').
Definition mask_of_list (l : list idx) : bmask := fun o => existsb (idx_eqb o) l.

(* ---- scipy.ndimage.zoom(img, (zy, zx, zz), order): output extent int(round(n * z)) per axis (Python round,
   half to even); for order 0 output voxel o takes input voxel floor(o * (n - 1) / (n' - 1) + 1/2) (0 when n' = 1);
   for order >= 1 the values are spline mixtures (Mix).  Shapes hold for every order. ---- *)
Definition zoom_len (n : Z) (z : Q) : Z := py_round (inject_Z n * z).
Definition zoom_src (n n' o : Z) : Z :=
  if n' <=? 1 then 0 else Qfloor (inject_Z o * (inject_Z (n - 1) / inject_Z (n' - 1)) + (1 # 2)).
Definition v_zoom (zy zx zz : Q) (order : Z) (v : view) : view :=
  let '(h, w, d) := vshape v in
  let '(h', w', d') := (zoom_len h zy, zoom_len w zx, zoom_len d zz) in
  mkView (h', w', d')
    (fun o => let '(i, j, k) := o in
              if order =? 0 then vat v (zoom_src h h' i, zoom_src w w' j, zoom_src d d' k) else Mix).

(* ---- enumeration of a view for the correspondence check ---- *)
Fixpoint zrange (n : nat) (from : Z) : list Z :=
  match n with O => [] | S m => from :: zrange m (from + 1) end.
Definition all_indices (sh : shape3) : list idx :=
  let '(h, w, d) := sh in
  flat_map (fun i => flat_map (fun j => map (fun k => (i, j, k)) (zrange (Z.to_nat d) 0))
                              (zrange (Z.to_nat w) 0)) (zrange (Z.to_nat h) 0).
(* label of input voxel (i,j,k) in a C-ordered volume of shape sh0: linear index + 1 *)
Definition label_of (sh0 : shape3) (c : cell) (fill_label : Z -> Z) : Z :=
  match c with
  | Src (i, j, k) => let '(h, w, d) := sh0 in (i * w + j) * d + k + 1
  | Fill q => fill_label (Qnum q)
  | Mix => (-999)
  end.
Definition render (sh0 : shape3) (v : view) : shape3 * list Z :=
  (vshape v, map (fun o => label_of sh0 (vat v o) (fun z => z)) (all_indices (vshape v))).
