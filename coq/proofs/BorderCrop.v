(* BorderCrop.v -- RandomCropFromBorders: whatever the six draws are, each face of the sampled window lies in the
   band its own fraction documents: the near faces within the first crop_left / crop_top / crop_close part of the
   extent, the far faces at or beyond (1 - crop_right / crop_bottom / crop_far) of it, the window non-empty and
   inside the frame (so clamping_crop takes exactly that window). *)
From Coq Require Import ZArith QArith List Bool String Lia.
Import ListNotations.
From DV.lib Require Import PyNum PyRt.
From DV.model Require Import Arrays NpRt.
From DV.gen Require Import Gen_crops_functional Gen_cls_crops.
From DV.proofs Require Import Tac PadParams.
Open Scope Z_scope.

Theorem RandomCropFromBorders_faces_in_their_bands
    bottom close far left right top v H W D d1 d2 d3 d4 d5 d6 x1 x2 y1 y2 z1 z2 :
  vshape v = (H, W, D) ->
  RandomCropFromBordersS_get_params_dependent_on_targets bottom close far left right top v d1 d2 d3 d4 d5 d6
    = Ok (x1, x2, y1, y2, z1, z2) ->
  (0 <= x1 <= py_int (left * inject_Z W)%Q /\ Z.max (x1 + 1) (py_int ((1 - right) * inject_Z W)%Q) <= x2 <= W) /\
  (0 <= y1 <= py_int (top * inject_Z H)%Q /\ Z.max (y1 + 1) (py_int ((1 - bottom) * inject_Z H)%Q) <= y2 <= H) /\
  (0 <= z1 <= py_int (close * inject_Z D)%Q /\ Z.max (z1 + 1) (py_int ((1 - far) * inject_Z D)%Q) <= z2 <= D).
Proof.
  intros Sh. unfold RandomCropFromBordersS_get_params_dependent_on_targets. cbn zeta. rewrite Sh.
  intros E. res_inv.
  repeat match goal with Hd : draw_int _ _ _ = Ok _ |- _ => apply draw_int_ok in Hd; destruct Hd as [-> ?] end.
  cbn beta iota in *. repeat split; lia.
Qed.

(* the window handed to clamping_crop is then taken as it is: a non-empty window of the frame *)
Corollary RandomCropFromBorders_window_is_inside
    bottom close far left right top v H W D d1 d2 d3 d4 d5 d6 x1 x2 y1 y2 z1 z2 :
  vshape v = (H, W, D) ->
  RandomCropFromBordersS_get_params_dependent_on_targets bottom close far left right top v d1 d2 d3 d4 d5 d6
    = Ok (x1, x2, y1, y2, z1, z2) ->
  0 <= x1 < x2 /\ x2 <= W /\ 0 <= y1 < y2 /\ y2 <= H /\ 0 <= z1 < z2 /\ z2 <= D.
Proof.
  intros Sh E. destruct (RandomCropFromBorders_faces_in_their_bands _ _ _ _ _ _ _ _ _ _ _ _ _ _ _ _ _ _ _ _ _ _ Sh E)
    as ((?&?)&(?&?)&(?&?)). lia.
Qed.
