"""C19 failing-input search: box-safe crops keep every box that is at least two voxels thick, trim
each face by a bounded amount, and return an image whose shape is the frame of the returned boxes;
RandomCropNearBBox moves each face of the reference box by at most its axis' fraction of the
extent, clamps the window to the frame and expresses boxes / keypoints relative to it."""
import random

import numpy as np

import implrun as R

A = R.A


def jsonable(v):
    if isinstance(v, (tuple, list)):
        return [jsonable(x) for x in v]
    if isinstance(v, dict):
        return {k: jsonable(x) for k, x in v.items()}
    if isinstance(v, np.generic):
        return v.item()
    return v


def gen_boxes(rng, shape, n):
    H, W, D = shape
    out = []
    for i in range(n):
        def seg(m):
            lo = rng.choice([0.0, float(rng.randint(0, m - 2)), rng.uniform(0, m - 2.001)])
            hi = rng.choice([float(m), lo + 2.0, min(float(m), lo + rng.uniform(2.0, m))])
            hi = max(min(hi, float(m)), lo + 2.0)
            return lo, min(hi, float(m))
        (x1, x2), (y1, y2), (z1, z2) = seg(W), seg(H), seg(D)
        out.append((x1, y1, z1, x2, y2, z2, 'b%d' % i))
    return out


def check_safe(case):
    shape = tuple(case['shape'])
    H, W, D = shape
    er = case['erosion']
    img = R.labelled(shape, 'int32')
    kw = dict(erosion_rate=er, p=1.0)
    sized = case.get('sized')
    if sized:
        kw.update(height=sized[0], width=sized[1], depth=sized[2], interpolation=0)
    cls = A.RandomSizedBBoxSafeCrop if sized else A.BBoxSafeRandomCrop
    pipe = A.ReplayCompose([cls(**kw)], bbox_params=A.BboxParams('pascal_voc_3d', min_volume=0.0, min_planar_area=0.0))
    boxes = [tuple(b) for b in case['boxes']]
    R.seed(case['seed'])
    try:
        res = pipe(image=img, bboxes=boxes)
    except Exception as e:  # noqa
        thick = min(min(b[3] - b[0], b[4] - b[1], b[5] - b[2]) for b in boxes) * (1 - 2 * er)
        if thick < 1.0:
            return None     # the eroded union is thinner than a voxel: an empty crop is C08's question
        return ('raises', '%s: %s' % (type(e).__name__, str(e)[:140]), 'runs')
    p = res['replay']['transforms'][0]['params']
    ch, cw, cd = int(p['crop_height']), int(p['crop_width']), int(p['crop_depth'])
    out = res['image']
    want_shape = tuple(sized) if sized else (ch, cw, cd)
    if out.shape != want_shape:
        return ('image-shape', 'image %s' % (out.shape,), 'the frame of the returned boxes %s' % (want_shape,))
    # window origin from the labelled image (first voxel) when not resized
    got = [tuple(b) for b in res['bboxes']]
    gl = [b[6] for b in got]
    if gl != [b[6] for b in boxes if b[6] in gl]:
        return ('box-order', 'returned labels %s' % gl, 'input order')
    for b in boxes:
        if b[6] not in gl:
            room = min(b[3] - b[0], b[4] - b[1], b[5] - b[2]) * (1 - 2 * er)
            if room > 4.0:
                return ('box-lost', 'box %s (thinnest extent after erosion %.2f voxels) is not returned' % (b[6], room), 'every input box is returned')
            if room > 2.0:
                return ('trim-more-than-one-voxel', 'box %s (thinnest extent after erosion %.2f voxels) is lost' % (b[6], room),
                        'kept: at most 1 voxel + erosion per face is trimmed')
    boxes = [b for b in boxes if b[6] in gl]
    if not sized:
        first = int(out[0, 0, 0]) - 1
        y0, rem = divmod(first, W * D)
        x0, z0 = divmod(rem, D)
        sx = sy = sz = 1.0
    else:
        # window origin is not observable after resampling: recompute it from the recorded starts
        y0 = min(int((H - ch + 1) * p['h_start']), H - ch)
        x0 = min(int((W - cw + 1) * p['w_start']), W - cw)
        z0 = min(int((D - cd + 1) * p['d_start']), D - cd)
        sx, sy, sz = sized[1] / cw, sized[0] / ch, sized[2] / cd
    worst = None
    for b, g in zip(boxes, got):
        exp = ((b[0] - x0), (b[1] - y0), (b[2] - z0), (b[3] - x0), (b[4] - y0), (b[5] - z0))
        lim = (cw, ch, cd, cw, ch, cd)
        expc = [min(max(v, 0.0), l) for v, l in zip(exp, lim)]
        sc = (sx, sy, sz, sx, sy, sz)
        if any(abs(gv - ev * s) > 1e-6 * max(1.0, abs(ev * s)) for gv, ev, s in zip(g[:6], expc, sc)):
            return ('box-frame', 'returned box %s' % (tuple(round(float(v), 4) for v in g[:6]),),
                    'input box relative to the window (origin %s, size %s), clipped: %s' % ((x0, y0, z0), (cw, ch, cd), [round(v * s, 4) for v, s in zip(expc, sc)]))
        ext = (b[3] - b[0], b[4] - b[1], b[5] - b[2])
        trims = [max(0.0, -exp[0]), max(0.0, -exp[1]), max(0.0, -exp[2]), max(0.0, exp[3] - cw), max(0.0, exp[4] - ch), max(0.0, exp[5] - cd)]
        for a in range(6):
            over = trims[a] - er * ext[a % 3]
            if worst is None or over > worst[0]:
                worst = (over, a, trims[a], ext[a % 3], b[6])
    if worst and worst[0] >= 2.0 - 1e-9:
        return ('trim', 'box %s loses %.3f voxels on face %d (extent %.3f)' % (worst[4], worst[2], worst[1], worst[3]),
                'less than 2 voxels + erosion_rate * extent (proved bound)')
    if worst and worst[0] > 1.0 + 1e-9:
        return ('trim-more-than-one-voxel', 'box %s loses %.3f voxels on face %d (extent %.3f, erosion %.2f)' % (worst[4], worst[2], worst[1], worst[3], er),
                'at most 1 voxel + erosion_rate * extent')
    return None


def check_near(case, faces=True, check_boxes=True):
    shape = tuple(case['shape'])
    H, W, D = shape
    img = R.labelled(shape, 'int32')
    frac = case['shift']
    ref = tuple(case['ref'])
    pipe = A.ReplayCompose([A.RandomCropNearBBox(max_part_shift=tuple(frac) if isinstance(frac, list) else frac, p=1.0)],
                           bbox_params=A.BboxParams('pascal_voc_3d', min_volume=0.0, min_planar_area=0.0),
                           keypoint_params=A.KeypointParams('xyz', remove_invisible=False))
    boxes = [tuple(b) for b in case['boxes']]
    kps = [tuple(k) for k in case['kps']]
    R.seed(case['seed'])
    try:
        res = pipe(image=img, bboxes=boxes, keypoints=kps, cropping_bbox=ref)
    except Exception as e:  # noqa
        return ('raises', '%s: %s' % (type(e).__name__, str(e)[:140]), 'runs')
    p = res['replay']['transforms'][0]['params']
    f = list(frac) if isinstance(frac, (list, tuple)) else [frac] * 3
    sh = (round((ref[4] - ref[1]) * f[0]), round((ref[3] - ref[0]) * f[1]), round((ref[5] - ref[2]) * f[2]))
    for nm, lo_ref, hi_ref, s in (('x', ref[0], ref[3], sh[1]), ('y', ref[1], ref[4], sh[0]), ('z', ref[2], ref[5], sh[2])) if faces else ():
        lo, hi = p[nm + '_min'], p[nm + '_max']
        if not (max(0, lo_ref - s) <= lo <= max(0, lo_ref + s) and hi_ref - s <= hi <= hi_ref + s):
            return ('face-shift', '%s window [%d, %d] for reference [%d, %d]' % (nm, lo, hi, lo_ref, hi_ref),
                    'each face moved by at most %d voxels (its own axis fraction of the extent)' % s)
    x0, y0, z0 = p['x_min'], p['y_min'], p['z_min']
    x1, y1, z1 = min(p['x_max'], W), min(p['y_max'], H), min(p['z_max'], D)
    out = res['image']
    if min(out.shape) < 1:
        return ('empty-window', 'image %s' % (out.shape,), 'a non-empty window (the reference box lies inside the volume)')
    if not faces:
        # the window the IMAGE shows, read off the labelled voxels (not the recorded parameters)
        y0, x0, z0 = (int(v) for v in np.unravel_index(int(out[0, 0, 0]) - 1, shape))
        y1, x1, z1 = y0 + out.shape[0], x0 + out.shape[1], z0 + out.shape[2]
    if out.shape != (y1 - y0, x1 - x0, z1 - z0) or not np.array_equal(out, img[y0:y1, x0:x1, z0:z1]):
        return ('image-window', 'image %s' % (out.shape,), 'the clamped window rows %d:%d cols %d:%d slices %d:%d' % (y0, y1, x0, x1, z0, z1))
    lim = (x1 - x0, y1 - y0, z1 - z0) * 2
    gotb = {q[6]: tuple(q) for q in res['bboxes']}
    for b in boxes if check_boxes else []:
        exp = [b[0] - x0, b[1] - y0, b[2] - z0, b[3] - x0, b[4] - y0, b[5] - z0]
        exp = [min(max(v, 0.0), l) for v, l in zip(exp, lim)]
        vol = (exp[3] - exp[0]) * (exp[4] - exp[1]) * (exp[5] - exp[2])
        if b[6] not in gotb:
            if vol > 1e-9:
                return ('box-lost', 'box %s with %.4f voxels inside the window is not returned' % (b[6], vol), 'returned')
            continue
        g = gotb[b[6]]
        if any(abs(gv - ev) > 1e-6 * max(1.0, abs(ev)) for gv, ev in zip(g[:6], exp)):
            return ('box-frame', 'returned box %s' % (tuple(round(float(v), 4) for v in g[:6]),), 'relative to the clamped window: %s' % [round(v, 4) for v in exp])
    for k, g in zip(kps, [tuple(q) for q in res['keypoints']]):
        exp = (k[0] - x0, k[1] - y0, k[2] - z0)
        if any(abs(gv - ev) > 1e-9 for gv, ev in zip(g[:3], exp)):
            return ('keypoint-frame', 'returned keypoint %s' % (g[:3],), 'relative to the window: %s' % (exp,))
    return None


def gen_case(rng, kind, touch_far=False, touch_low=False):
    shape = rng.sample([8, 10, 12, 15, 20, 24, 30], 3)
    H, W, D = shape
    if kind == 'safe':
        case = {'kind': kind, 'shape': shape, 'seed': R.pick_seed(rng), 'erosion': rng.choice([0.0, 0.0, 0.1, 0.2, 0.35, 0.5]),
                'boxes': gen_boxes(rng, shape, rng.randint(1, 3))}
        if rng.random() < 0.3:
            case['sized'] = [rng.randint(4, 2 * H), rng.randint(4, 2 * W), rng.randint(4, 2 * D)]
        return case
    x1, y1, z1 = rng.randint(0, W - 3), rng.randint(0, H - 3), rng.randint(0, D - 3)
    ref = [x1, y1, z1, rng.randint(x1 + 2, W), rng.randint(y1 + 2, H), rng.randint(z1 + 2, D)]
    if touch_far:
        # a reference box that reaches the far faces of the volume: a shifted window passes them and is clamped
        ref[3:] = [W, H, D]
    if touch_low:
        # ... or starts at / next to the near faces: a window shifted outwards passes them
        ref[:3] = [rng.randint(0, 1), rng.randint(0, 1), rng.randint(0, 1)]
        ref[3:] = [max(ref[3], ref[0] + 4), max(ref[4], ref[1] + 4), max(ref[5], ref[2] + 4)]
    inside = lambda: (rng.uniform(ref[0], ref[3] - 1.0), rng.uniform(ref[1], ref[4] - 1.0), rng.uniform(ref[2], ref[5] - 1.0))
    boxes = []
    for i in range(rng.randint(1, 2)):
        a = inside()
        boxes.append((a[0], a[1], a[2], min(a[0] + rng.uniform(0.5, 4), W), min(a[1] + rng.uniform(0.5, 4), H), min(a[2] + rng.uniform(0.5, 4), D), 'b%d' % i))
    # the whole documented range [0, 1]: from 0.5 on the two faces of an axis can meet or cross
    shift = rng.choice([0.3, 0.1, 0, [0.1, 0.5, 0.3], [0.5, 0.0, 0.25], [0.0, 0.2, 0.6], 0.5, 1, [1.0, 0.75, 0.5], [0.9, 1.0, 1.0]])
    if touch_far or touch_low:
        shift = rng.choice([0.3, 0.5, [0.4, 0.5, 0.3]])
    return {'kind': kind, 'shape': shape, 'seed': R.pick_seed(rng), 'ref': ref, 'boxes': boxes,
            'kps': [inside() for _ in range(3)], 'shift': shift}


CHECK = {'safe': check_safe, 'near': check_near}


def run(seed=0, tier='quick', hints=None, broken=False):
    rng = random.Random(seed * 982451653 + 19)
    n = 150 if tier == 'quick' else 4000
    if broken:
        n *= 3
    viol, evals, seen = [], 0, set()
    for i in range(n):
        for kind in ('safe', 'near'):
            case = gen_case(rng, kind)
            bad = CHECK[kind](case)
            evals += 1
            seen.add((kind, tuple(case['shape']), case.get('erosion'), bool(case.get('sized'))))
            if bad:
                viol.append({'site': 'C19:%s:%s' % (kind, bad[0]), 'case': jsonable(case), 'observed': str(bad[1])[:300], 'expected': str(bad[2])[:300]})
    return {'violations': viol, 'info': {'evaluations': evals, 'distinct': len(seen),
                                         'what': 'returned boxes / image shape vs the recorded window; face shifts of the reference box'}}


def replay(v):
    bad = CHECK[v['case']['kind']](v['case'])
    return [{'site': 'C19:%s:%s' % (v['case']['kind'], bad[0]), 'case': v['case'], 'observed': str(bad[1]), 'expected': str(bad[2])}] if bad else []
