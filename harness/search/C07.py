"""C07 failing-input search: every spatial transform realises its documented voxel map and
size, checked against independent NumPy references on index-labelled volumes."""
import random

import numpy as np

import geom
import implrun as R
import spatial as S

AX = {'xy': (0, 1), 'yz': (0, 2), 'xz': (1, 2)}


def reference(spec, img, rng_seed):
    """(kind, payload): 'exact' array the output must equal; 'window' (size); 'pad' checks; 'shape' only"""
    c, a = spec['cls'], spec['args']
    if c == 'VerticalFlip':
        return 'exact', img[::-1]
    if c == 'HorizontalFlip':
        return 'exact', img[:, ::-1]
    if c == 'SliceFlip':
        return 'exact', img[:, :, ::-1]
    if c == 'Transpose':
        return 'exact', np.swapaxes(img, 0, 1)
    if c == 'NoOp':
        return 'exact', img
    if c == 'Flip':
        d = spec['pin']['d']
        return 'exact', {0: img[::-1], 1: img[:, ::-1], 2: img[:, :, ::-1], -1: img[::-1, ::-1, ::-1]}[d]
    if c == 'RandomRotate90':
        return 'exact', np.rot90(img, spec['pin']['factor'], AX[spec['pin']['axes']])
    if c == 'Crop':
        return 'exact', img[a['y_min']:a['y_max'], a['x_min']:a['x_max'], a['z_min']:a['z_max']]
    if c == 'CenterCrop':
        H, W, D = img.shape[:3]
        y, x, z = (H - a['height']) // 2, (W - a['width']) // 2, (D - a['depth']) // 2
        return 'exact', img[y:y + a['height'], x:x + a['width'], z:z + a['depth']]
    if c == 'RandomCrop':
        return 'window', (a['height'], a['width'], a['depth'])
    if c == 'PadIfNeeded':
        return 'pad', None
    if c in ('Resize',):
        return 'shape', (a['height'], a['width'], a['depth'])
    if c == 'LongestMaxSize':
        return 'maxside', a['max_size']
    if c == 'SmallestMaxSize':
        return 'minside', a['max_size']
    if c == 'RandomScale':
        return 'any', None
    if c == 'RandomSizedCrop':
        return 'shape', (a['height'], a['width'], a['depth'])
    if c == 'RandomCropFromBorders':
        # documented: each side is cut by a random amount below its own fraction of the extent; nothing is resized
        H, W, D = img.shape[:3]
        fr = {k: a.get(k, 0.1) for k in ('crop_left', 'crop_right', 'crop_top', 'crop_bottom', 'crop_close', 'crop_far')}
        if not any(fr.values()):
            return 'exact', img
        lo = (max(1, int((1 - fr['crop_bottom']) * H) - int(fr['crop_top'] * H)),
              max(1, int((1 - fr['crop_right']) * W) - int(fr['crop_left'] * W)),
              max(1, int((1 - fr['crop_far']) * D) - int(fr['crop_close'] * D)))
        # the far faces: at or beyond (1 - fraction) * extent (and at least one voxel after the near face)
        far = (int((1 - fr['crop_bottom']) * H), int((1 - fr['crop_right']) * W), int((1 - fr['crop_far']) * D))
        return 'subwindow', (lo, (int(fr['crop_top'] * H), int(fr['crop_left'] * W), int(fr['crop_close'] * D)), far)
    if c == 'CropAndPad' and not a.get('keep_size', True) and (isinstance(a.get('px'), (tuple, list)) or isinstance(a.get('percent'), (tuple, list))) \
            and all(isinstance(v, (int, float)) for v in (a.get('px') or a.get('percent'))):
        # documented: six entries = top, bottom, left, right, close, far; negative crops that many voxels off the
        # side, positive pads it (constant value); percent entries are fractions of the side's own extent
        H, W, D = img.shape[:3]
        amt = list(a['px']) if a.get('px') is not None else [int(v * n) for v, n in zip(a['percent'], (H, H, W, W, D, D))]
        cr = [max(-v, 0) for v in amt]
        pd = [max(v, 0) for v in amt]
        if H - cr[0] - cr[1] < 1 or W - cr[2] - cr[3] < 1 or D - cr[4] - cr[5] < 1:
            return 'any', None
        win = img[cr[0]:H - cr[1], cr[2]:W - cr[3], cr[4]:D - cr[5]]
        pads = [(pd[0], pd[1]), (pd[2], pd[3]), (pd[4], pd[5])] + [(0, 0)] * (img.ndim - 3)
        return 'exact', np.pad(win, pads, mode='constant', constant_values=a.get('pad_cval', 0))
    if c == 'CropAndPad' and a.get('keep_size', True):
        return 'preserve', None
    if c == 'CropAndPad':
        return 'any', None
    return 'preserve', None


def check(spec, case, viol):
    shape = tuple(case['shape'])
    ch = case.get('channels')
    name = spec['cls']
    img = R.labelled(shape)
    if ch:
        img = np.stack([img + 1000000 * c for c in range(ch)], -1)
    try:
        pipe = R.build([spec])
        R.seed(case['seed'])
        out = pipe(image=img.copy())['image']
    except Exception as e:  # noqa
        viol.append({'site': 'C07:%s:raises' % name, 'spec': spec, 'case': case,
                     'observed': '%s: %s' % (type(e).__name__, e), 'expected': 'no exception'})
        return
    kind, ref = reference(spec, img, case['seed'])
    bad = None
    if out.ndim != img.ndim or (ch and out.shape[-1] != ch):
        bad = ('layout %s' % (out.shape,), 'channel layout of %s preserved' % (img.shape,))
    elif kind == 'exact':
        if out.shape != ref.shape or not np.array_equal(out, ref):
            bad = ('shape %s, %s' % (out.shape, 'voxels differ' if out.shape == ref.shape else ''), 'documented voxel map, shape %s' % (ref.shape,))
    elif kind == 'window':
        o3 = out[..., 0] if out.ndim == 4 else out
        lat = geom.derive_lattice(o3, shape)
        if out.shape[:3] != tuple(ref):
            bad = ('shape %s' % (out.shape,), 'requested size %s' % (ref,))
        elif np.any(o3 <= 0):
            bad = ('fill voxels', 'window taken from inside the volume')
        elif lat is not None and (lat['perm'] != [0, 1, 2] or any(lat['sign'][a] != 1 for a in range(3) if a not in lat['ambiguous'])):
            bad = ('map %s' % lat, 'a contiguous window')
    elif kind == 'subwindow':
        o3 = out[..., 0] if out.ndim == 4 else out
        lo, max_off, far = ref
        lat = geom.derive_lattice(o3, shape)
        if any(o < l or o > n for o, l, n in zip(out.shape[:3], lo, shape)):
            bad = ('shape %s' % (out.shape,), 'each extent between %s and the input extent %s' % (lo, tuple(shape)))
        elif np.any(o3 <= 0):
            bad = ('fill voxels', 'a window of the input')
        elif lat is not None and (lat['perm'] != [0, 1, 2] or any(lat['sign'][a_] != 1 for a_ in range(3) if a_ not in lat['ambiguous'])
                                  or any(lat['off'][a_] > max_off[a_] for a_ in range(3) if a_ not in lat['ambiguous'])):
            bad = ('map %s' % lat, 'a contiguous window starting within the first %s voxels' % (max_off,))
        elif lat is not None and any(lat['off'][a_] + out.shape[a_] < min(far[a_], shape[a_]) for a_ in range(3) if a_ not in lat['ambiguous']):
            bad = ('window origin %s size %s' % (lat['off'], out.shape[:3]), 'every far face at or beyond %s of %s' % (far, tuple(shape)))
    elif kind == 'pad':
        a = spec['args']
        H, W, D = shape
        oh, ow, od = out.shape[:3]
        for n, o, mn, dv, nm in ((H, oh, a.get('min_height'), a.get('pad_height_divisor'), 'height'),
                                 (W, ow, a.get('min_width'), a.get('pad_width_divisor'), 'width'),
                                 (D, od, a.get('min_depth'), a.get('pad_depth_divisor'), 'depth')):
            if mn is not None and o != max(n, mn):
                bad = ('%s %d' % (nm, o), 'max(%d, min %d)' % (n, mn))
            if dv is not None and not (o % dv == 0 and o >= n and o - n < dv):
                bad = ('%s %d' % (nm, o), 'next multiple of %d above %d' % (dv, n))
        if bad is None:
            o3 = out[..., 0] if out.ndim == 4 else out
            pos = a.get('position', 'center')
            ph, pw, pd = oh - H, ow - W, od - D
            def off(p, lo_names, hi_names):
                if pos == 'center':
                    return p // 2 if True else 0
                return None
            nzc = np.argwhere(o3 > 0)
            if len(nzc) != H * W * D:
                bad = ('%d original voxels present' % len(nzc), '%d' % (H * W * D))
            else:
                y0, x0, z0 = nzc.min(0)
                blk = o3[y0:y0 + H, x0:x0 + W, z0:z0 + D]
                i3 = img[..., 0] if img.ndim == 4 else img
                if blk.shape != i3.shape or not np.array_equal(blk, i3):
                    bad = ('original block not intact', 'original voxels intact')
                else:
                    exp = None
                    if pos == 'center':
                        exp = (int((ph) / 2.0) if a.get('min_height') is not None else ph // 2,
                               int((pw) / 2.0) if a.get('min_width') is not None else pw // 2,
                               int((pd) / 2.0) if a.get('min_depth') is not None else pd // 2)
                    elif pos != 'random':
                        exp = (0 if 'top' in pos else ph, 0 if 'left' in pos else pw, 0 if 'front' in pos else pd)
                    if exp is not None and (int(y0), int(x0), int(z0)) != exp:
                        bad = ('original at offset %s' % ((int(y0), int(x0), int(z0)),), 'offset %s for position %s' % (exp, pos))
    elif kind == 'shape':
        if out.shape[:3] != tuple(ref):
            bad = ('shape %s' % (out.shape,), 'promised %s' % (ref,))
        elif np.any(out <= 0):
            bad = ('fill voxels', 'no fill voxels')
    elif kind == 'maxside':
        if max(out.shape[:3]) != ref or np.any(out <= 0):
            bad = ('shape %s' % (out.shape,), 'longest side %d, no fill' % ref)
    elif kind == 'minside':
        if min(out.shape[:3]) != ref or np.any(out <= 0):
            bad = ('shape %s' % (out.shape,), 'smallest side %d, no fill' % ref)
    elif kind == 'preserve':
        if out.shape != img.shape:
            bad = ('shape %s' % (out.shape,), 'shape preserved %s' % (img.shape,))
    if bad:
        viol.append({'site': 'C07:%s' % name, 'spec': spec, 'case': case, 'observed': bad[0], 'expected': bad[1]})


def configs(rng, shape):
    H, W, D = shape
    out = [S.L('VerticalFlip'), S.L('HorizontalFlip'), S.L('SliceFlip'), S.L('Transpose'), S.L('NoOp')]
    out.append(S.L('Flip', pin={'d': rng.choice([-1, 0, 1, 2])}))
    ax = rng.choice(S.PLANES)
    out.append(S.L('RandomRotate90', pin={'factor': rng.randint(0, 3), 'axes': ax}, axes=ax))
    out += [c for c in S.lattice_configs(rng, shape) if c['cls'] in ('RandomCrop', 'CenterCrop', 'Crop', 'PadIfNeeded', 'RandomCropFromBorders')]
    out.append(S.L('RandomCropFromBorders', crop_left=0.0, crop_right=0.0, crop_top=0.0, crop_bottom=0.0, crop_close=0.0, crop_far=0.0))
    out += S.resample_configs(rng, shape, interpolation=0)
    mh = rng.randint(1, min(H, W, D))
    out.append(S.L('RandomSizedCrop', min_max_height=(mh, mh), height=rng.randint(1, 9), width=rng.randint(1, 9),
                   depth=rng.randint(1, 9), interpolation=0))
    out += [S.L('CoarseDropout', max_holes=2, max_height=1, max_width=1, max_depth=1, fill_value=-1),
            S.L('GridDropout', fill_value=-1), S.L('PixelDropout', drop_value=-1),
            S.L('Rotate', limit=30, interpolation=0), S.L('ShiftScaleRotate', interpolation=0)]
    return out


def run(seed=0, tier='quick', hints=None, broken=False):
    rng = random.Random(seed * 7919 + 7)
    n = 6 if tier == 'quick' else 150
    if broken:
        n *= 4
    viol, evals, seen = [], 0, set()
    for _ in range(n):
        shape = S.random_shape(rng)
        case = {'shape': list(shape), 'seed': R.pick_seed(rng), 'channels': rng.choice([None, None, 1, 3])}
        for c in configs(rng, shape):
            check(c, case, viol)
            evals += 1
            seen.add((c['cls'], shape, case['channels']))
    # RandomCropFromBorders: one face at a time (the other five fractions zero: those faces must not move), and the
    # opposite pairing (near face large, far face small and vice versa), under end-point draws
    faces = ('crop_top', 'crop_bottom', 'crop_left', 'crop_right', 'crop_close', 'crop_far')
    for rep in range(1 if tier == 'quick' else 10):
        fcfgs = [{f: (0.5 if f == g else 0.0) for f in faces} for g in faces]
        fcfgs += [{f: (0.4 if i % 2 == par else 0.1) for i, f in enumerate(faces)} for par in (0, 1)]
        for fr in fcfgs:
            shape = tuple(rng.sample([6, 8, 10, 12, 14, 20], 3))
            for sd in [R.EXT_BASE + pat for pat in R.EXT_PATTERNS[:4]] + [rng.randint(0, 10 ** 6)]:
                case = {'shape': list(shape), 'seed': sd, 'channels': rng.choice([None, None, 1, 3])}
                check(S.L('RandomCropFromBorders', **fr), case, viol)
                evals += 1
            seen.add(('RandomCropFromBorders-face', repr(sorted(fr.items()))))
    # CropAndPad: every axis pattern once (crop / pad / mixed on one axis, others untouched) against the documented window
    for rep in range(1 if tier == 'quick' else 12):
        for c in S.crop_and_pad_sweep(rng):
            shape = tuple(rng.sample([5, 6, 7, 8, 9, 10], 3))
            case = {'shape': list(shape), 'seed': R.pick_seed(rng), 'channels': rng.choice([None, None, 1, 3])}
            check(c, case, viol)
            k = dict(c, args=dict(c['args'], keep_size=True, interpolation=0))
            check(k, case, viol)
            evals += 2
            seen.add(('CropAndPad-sweep', repr(c['args'].get('px', c['args'].get('percent')))))
    return {'violations': viol, 'info': {'evaluations': evals, 'distinct': len(seen),
                                         'what': 'documented voxel map / size per spatial transform vs NumPy reference'}}


def replay(v):
    viol = []
    check(v['spec'], v['case'], viol)
    return bool(viol)
