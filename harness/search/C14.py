"""C14 failing-input search: to_dict -> (dict | JSON text | YAML text) -> from_dict yields a
pipeline that serializes to the same document and, under the same seed and inputs, produces
bit-identical outputs; every constructor argument at non-default values; plain JSON types only."""
import copy
import json
import os
import random

import numpy as np
import yaml

import implrun as R
from ctor_args import CTOR, configurations

A = R.A


def make_inputs(name, rng_seed=0):
    spec = CTOR[name]
    rs = np.random.RandomState(rng_seed)
    kind = spec.get('image', 'uint8')
    shape = (12, 10, 8)
    if kind == 'float':
        img = rs.rand(*shape).astype(np.float32)
    elif kind == 'int16':
        img = rs.randint(-500, 1500, shape).astype(np.int16)
    else:
        img = rs.randint(0, 255, shape).astype(np.uint8)
    data = {'image': img, 'mask': rs.randint(0, 4, shape).astype(np.uint8)}
    needs = spec.get('needs', [])
    if 'dicom' in needs:
        data['dicom'] = {'PixelSpacing': (0.7, 0.4), 'RescaleIntercept': -1024, 'RescaleSlope': 1,
                         'ConvolutionKernel': 'STANDARD', 'XRayTubeCurrent': 160}
    return data, needs


def normal(doc):
    return json.loads(json.dumps(doc))


def docs_equal(a, b):
    if isinstance(a, dict) and isinstance(b, dict):
        return a.keys() == b.keys() and all(docs_equal(a[k], b[k]) for k in a)
    if isinstance(a, list) and isinstance(b, list):
        return len(a) == len(b) and all(docs_equal(x, y) for x, y in zip(a, b))
    if isinstance(a, float) or isinstance(b, float):
        try:
            return abs(a - b) <= 1e-12 * max(1.0, abs(a), abs(b))
        except TypeError:
            return False
    return a == b


def outputs_equal(r1, r2):
    if r1.keys() != r2.keys():
        return False
    for k in r1:
        a, b = r1[k], r2[k]
        if isinstance(a, np.ndarray):
            if not (isinstance(b, np.ndarray) and a.dtype == b.dtype and a.shape == b.shape and np.array_equal(a, b)):
                return False
        elif isinstance(a, list) and a and isinstance(a[0], np.ndarray):
            if not all(np.array_equal(x, y) for x, y in zip(a, b)):
                return False
        elif k in ('bboxes', 'keypoints'):
            if not (len(a) == len(b) and all(tuple(map(float, x[:3])) == tuple(map(float, y[:3])) and
                                             all(float(p) == float(q) for p, q in zip(x[3:6], y[3:6])) for x, y in zip(a, b))):
                return False
        elif a != b:
            return False
    return True


def check_pipeline(site, build, data_fn, seed, viol, case):
    try:
        pipe = build()
        doc = A.to_dict(pipe)
        text = json.dumps(doc)          # plain JSON types only
        ytext = yaml.safe_dump(doc)
    except Exception as e:  # noqa
        viol.append({'site': site + ':serialize', 'case': case, 'observed': '%s: %s' % (type(e).__name__, e),
                     'expected': 'serializable to JSON and YAML'})
        return
    import tempfile, shutil
    tmpd = tempfile.mkdtemp(prefix='c14_', dir='/var/tmp')

    def via_file(fmt):
        # the library's own file carriers (save / load), not only the dict API
        path = os.path.join(tmpd, 'pipe.' + fmt)
        A.save(pipe, path, data_format=fmt)
        return A.load(path, data_format=fmt)
    carriers = (('dict', lambda: A.from_dict(copy.deepcopy(doc))), ('json', lambda: A.from_dict(json.loads(text))),
                ('yaml', lambda: A.from_dict(yaml.safe_load(ytext))), ('json-file', lambda: via_file('json')),
                ('yaml-file', lambda: via_file('yaml')))
    try:
        return _check_carriers(site, pipe, doc, carriers, data_fn, seed, viol, case)
    finally:
        shutil.rmtree(tmpd, ignore_errors=True)


def doc_vs_objects(obj, node, path='pipeline'):
    """the serialized document against the live objects: every node records the p (and a leaf the always_apply) its
    own object was constructed with"""
    out = []
    if not isinstance(node, dict):
        return out
    if 'p' in node and hasattr(obj, 'p') and float(node['p']) != float(obj.p):
        out.append('%s: p recorded as %r, the object has %r' % (path, node['p'], obj.p))
    if 'always_apply' in node and hasattr(obj, 'always_apply') and bool(node['always_apply']) != bool(obj.always_apply):
        out.append('%s: always_apply recorded as %r, the object has %r' % (path, node['always_apply'], obj.always_apply))
    kids = getattr(obj, 'transforms', None)
    if isinstance(node.get('transforms'), list) and kids is not None and not isinstance(kids, dict):
        for i, (k, kn) in enumerate(zip(kids, node['transforms'])):
            out += doc_vs_objects(k, kn, '%s/%s[%d]' % (path, type(k).__name__, i))
    return out


def _check_carriers(site, pipe, doc, carriers, data_fn, seed, viol, case):
    bad = doc_vs_objects(pipe, doc.get('transform', {}))
    if bad:
        viol.append({'site': site + ':document-vs-arguments', 'case': case, 'carrier': 'to_dict', 'observed': bad[:3],
                     'expected': 'the arguments the objects were constructed with'})
        return
    for carrier, load_it in carriers:
        try:
            pipe2 = load_it()
            doc2 = A.to_dict(pipe2)
        except Exception as e:  # noqa
            viol.append({'site': site + ':load', 'case': case, 'carrier': carrier,
                         'observed': '%s: %s' % (type(e).__name__, e), 'expected': 'loads'})
            return
        if not docs_equal(normal(doc), normal(doc2)):
            viol.append({'site': site + ':document', 'case': case, 'carrier': carrier,
                         'observed': normal(doc2), 'expected': normal(doc)})
            return
        diff = attrs_differ(pipe, pipe2)
        if diff:
            viol.append({'site': site + ':arguments', 'case': case, 'carrier': carrier, 'observed': diff[:3],
                         'expected': 'the reloaded objects hold the constructor arguments of the original ones'})
            return
        try:
            # several seeds: one draw of a small discrete value can coincide by chance in the two pipelines
            same = True
            for sd in (seed, seed + 1, seed + 2, seed + 3):
                d1, d2 = data_fn(), data_fn()
                random.seed(sd); np.random.seed(sd)
                r1 = pipe(**d1)
                random.seed(sd); np.random.seed(sd)
                r2 = pipe2(**d2)
                if not outputs_equal(r1, r2):
                    same = False
                    seed = sd
                    break
        except Exception as e:  # noqa
            # configurations that cannot run at all are C08's business; both pipelines must agree on raising
            try:
                random.seed(seed); np.random.seed(seed)
                pipe2(**data_fn())
                viol.append({'site': site + ':behaviour', 'case': case, 'carrier': carrier,
                             'observed': 'original raises %s, reloaded runs' % type(e).__name__, 'expected': 'same'})
            except Exception:  # noqa
                pass
            return
        if not same:
            viol.append({'site': site + ':behaviour', 'case': case, 'carrier': carrier,
                         'observed': 'outputs differ under seed %d' % seed, 'expected': 'bit-identical outputs'})
            return


def long_floats(v):
    """the same value with a long decimal expansion (floats other than 0 and 1, also inside tuples / lists / dicts):
    a persisted form that rounds or re-parses its numbers loses it"""
    if isinstance(v, bool):
        return v
    if isinstance(v, float) and v not in (0.0, 1.0):
        return v * (1.0 - 1.2345e-06)
    if isinstance(v, tuple):
        return tuple(long_floats(x) for x in v)
    if isinstance(v, list):
        return [long_floats(x) for x in v]
    if isinstance(v, dict):
        return {k: long_floats(x) for k, x in v.items()}
    return v


def transform_cases(rng, names, per_class):
    for name in names:
        cfgs = configurations(name)
        rng.shuffle(cfgs)
        for i, kw in enumerate(cfgs[:per_class]):
            yield name, kw
            kl = long_floats(kw)
            if kl != kw:
                yield name, kl


def attrs_differ(a, b, path='pipeline'):
    """the live objects of the original and of the reloaded pipeline: every persisted constructor argument that is kept
    as an attribute of the same name holds the same value (floats within 1e-12 relative: un-biasing and re-biasing a
    limit may move it by one unit in the last place)"""
    def same(x, y):
        if isinstance(x, (tuple, list)) and isinstance(y, (tuple, list)):
            return len(x) == len(y) and all(same(p_, q_) for p_, q_ in zip(x, y))
        if isinstance(x, dict) and isinstance(y, dict):
            return set(x) == set(y) and all(same(x[k], y[k]) for k in x)
        if isinstance(x, float) or isinstance(y, float):
            try:
                return abs(float(x) - float(y)) <= 1e-12 * max(1.0, abs(float(x)))
            except Exception:  # noqa
                return False
        if isinstance(x, np.ndarray) or isinstance(y, np.ndarray):
            return np.array_equal(x, y)
        try:
            if bool(x == y):
                return True
        except Exception:  # noqa
            return True
        # plain objects without value equality (Downscale.Interpolation): field by field
        if type(x) is type(y) and hasattr(x, '__dict__') and not callable(x):
            return same(vars(x), vars(y))
        return False
    out = []
    kids_a, kids_b = getattr(a, 'transforms', None), getattr(b, 'transforms', None)
    if kids_a is not None and kids_b is not None and not isinstance(kids_a, dict):
        for i, (x, y) in enumerate(zip(kids_a, kids_b)):
            out += attrs_differ(x, y, '%s/%s[%d]' % (path, type(x).__name__, i))
        return out
    names = []
    for getter in (lambda: list(a.get_transform_init_args_names()), lambda: list(a.get_transform_init_args().keys()),
                   lambda: [k for k in a._to_dict().keys() if not k.startswith('__')]):
        try:
            names = sorted(set(names) | set(getter()))
        except Exception:  # noqa
            pass
    for nm in names + ['p', 'always_apply']:
        if hasattr(a, nm) and hasattr(b, nm) and not callable(getattr(a, nm)) and not same(getattr(a, nm), getattr(b, nm)):
            out.append('%s.%s: %r in the original, %r after the round trip' % (path, nm, getattr(a, nm), getattr(b, nm)))
    return out


def run(seed=0, tier='quick', hints=None, broken=False):
    rng = random.Random(seed * 7919 + 14)
    viol = []
    names = sorted(CTOR)
    per_class = 100          # every documented configuration of every class, also in the quick tier
    if broken:
        per_class = max(per_class, 12)
    evals, seen = 0, set()
    for name, kw in transform_cases(rng, names, per_class):
        data, needs = make_inputs(name)
        bp = kp = None
        extra = {}
        if 'bboxes' in needs:
            bp = A.BboxParams('pascal_voc_3d')
            extra['bboxes'] = [(1, 1, 1, 6, 7, 5, 'a'), (3, 2, 2, 8, 9, 6, 'b')]
        if 'cropping_bbox' in needs:
            extra[kw.get('cropping_box_key', 'cropping_bbox')] = (2, 2, 1, 7, 8, 6)
        case = {'class': name, 'kwargs': repr(kw)}

        # floats whose shortest repr is in exponent form or long: a carrier that re-parses text must give them back
        pval = 1.0 if rng.random() < 0.7 else rng.choice([1e-05, 5e-07, 0.30000000000000004, 0.1])
        case['p'] = pval

        def build(name=name, kw=kw, bp=bp, pval=pval):
            return A.Compose([getattr(A, name)(p=pval, **kw)], bbox_params=bp)

        def data_fn(data=data, extra=extra):
            d = {k: (v.copy() if isinstance(v, np.ndarray) else copy.deepcopy(v)) for k, v in data.items()}
            d.update(copy.deepcopy(extra))
            return d
        check_pipeline('C14:%s' % name, build, data_fn, rng.randint(0, 10 ** 6), viol, case)
        evals += 1
        seen.add((name, repr(kw)))
    # processor parameters and operators
    for i in range(14 if tier == 'quick' else 400):
        fields = ['min_planar_area', 'min_volume', 'min_area_visibility', 'min_volume_visibility', 'min_width',
                  'min_height', 'min_depth']
        vals = {f: (rng.choice([0.0, 0.25, 0.5, 2.0, 8.0, 1e-05, 3e-07]) if rng.random() < 0.5 else 0.0) for f in fields}
        if i < len(fields):
            vals = {f: 0.0 for f in fields}
            vals[fields[i]] = 0.5 if 'visibility' in fields[i] else 3.0
        fmt = rng.choice(['coco_3d', 'pascal_voc_3d', 'yolo_3d', 'dicaugment_3d'])
        each = rng.random() < 0.5
        kpk = dict(format=rng.choice(['xyz', 'xyza', 'xyzas', 'zyx']), remove_invisible=rng.random() < 0.5,
                   angle_in_degrees=rng.random() < 0.5, check_each_transform=rng.random() < 0.5,
                   label_fields=rng.choice([None, ['kl']]))
        trees = ['flat', 'oneof', 'someof', 'nested', 'oneof-always', 'someof-always', 'empty-containers']
        tree = trees[i % len(trees)] if tier == 'quick' else rng.choice(trees)
        case = {'bbox_params': dict(vals, format=fmt, check_each_transform=each), 'keypoint_params': kpk, 'tree': tree}

        def build(vals=vals, fmt=fmt, each=each, kpk=kpk, tree=tree):
            inner = [A.Crop(2, 1, 0, 9, 9, 4, p=1.0), A.HorizontalFlip(p=0.5)]
            if tree == 'oneof':
                inner = [A.OneOf([A.HorizontalFlip(p=0.3), A.VerticalFlip(p=0.7)], p=0.9), A.Crop(2, 1, 0, 9, 9, 4, p=1.0)]
            elif tree == 'someof':
                inner = [A.SomeOf([A.HorizontalFlip(p=0.3), A.VerticalFlip(p=0.7), A.SliceFlip(p=1)], n=2, replace=False, p=0.9),
                         A.Crop(2, 1, 0, 9, 9, 4, p=1.0)]
            elif tree == 'oneof-always':
                # always-apply children keep their own p: it is their selection weight inside OneOf / SomeOf
                inner = [A.OneOf([A.HorizontalFlip(always_apply=True, p=0.1), A.VerticalFlip(p=0.9), A.SliceFlip(always_apply=True, p=0.3)], p=1.0),
                         A.Crop(2, 1, 0, 9, 9, 4, p=1.0)]
            elif tree == 'someof-always':
                inner = [A.SomeOf([A.HorizontalFlip(always_apply=True, p=0.05), A.VerticalFlip(p=0.9), A.SliceFlip(p=0.5)], n=1, p=1.0),
                         A.Crop(2, 1, 0, 9, 9, 4, always_apply=True, p=0.2)]
            elif tree == 'empty-containers':
                # containers without children (an optional stage that is switched off) are nodes of the tree like any other:
                # they draw their own coin and take part in the selection of their parent
                inner = [A.Compose([], p=0.5), A.OneOf([A.Compose([]), A.HorizontalFlip(p=0.5), A.Sequential([], p=0.5)], p=1.0),
                         A.Crop(2, 1, 0, 9, 9, 4, p=1.0), A.VerticalFlip(p=0.5)]
            elif tree == 'nested':
                inner = [A.Sequential([A.OneOrOther(A.HorizontalFlip(p=1), A.Transpose(p=1), p=0.4)], p=1.0),
                         A.Compose([A.Crop(2, 1, 0, 9, 9, 4, p=1.0)], p=0.8)]
            return A.Compose(inner, bbox_params=A.BboxParams(fmt, label_fields=['bl'], check_each_transform=each, **vals),
                             keypoint_params=A.KeypointParams(**kpk), additional_targets={'mask2': 'mask'}, p=0.95)

        def data_fn(fmt=fmt, kpk=kpk):
            H, W, D = 12, 10, 8
            px = [(1.0, 1.0, 1.0, 6.0, 7.0, 5.0), (3.0, 2.0, 0.0, 8.0, 9.0, 2.0), (0.0, 0.0, 3.0, 3.0, 12.0, 8.0)]

            def conv(b):
                x1, y1, z1, x2, y2, z2 = b
                if fmt == 'coco_3d':
                    return (x1, y1, z1, x2 - x1, y2 - y1, z2 - z1)
                if fmt == 'yolo_3d':
                    return ((x1 + x2) / 2 / W, (y1 + y2) / 2 / H, (z1 + z2) / 2 / D, (x2 - x1) / W, (y2 - y1) / H, (z2 - z1) / D)
                if fmt == 'dicaugment_3d':
                    return (x1 / W, y1 / H, z1 / D, x2 / W, y2 / H, z2 / D)
                return b
            k = {'xyz': (3.0, 4.0, 2.0), 'zyx': (2.0, 4.0, 3.0), 'xyza': (3.0, 4.0, 2.0, 1.0), 'xyzas': (3.0, 4.0, 2.0, 1.0, 2.0)}[kpk['format']]
            d = dict(image=np.arange(960, dtype=np.uint8).reshape(12, 10, 8) % 251, mask=np.ones((12, 10, 8), np.uint8),
                     mask2=np.ones((12, 10, 8), np.uint8), bboxes=[conv(b) for b in px], bl=['a', 'b', 'c'],
                     keypoints=[k, k])
            if kpk['label_fields']:
                d['kl'] = [1, 2]
            return d
        check_pipeline('C14:params', build, data_fn, rng.randint(0, 10 ** 6), viol, case)
        evals += 1
        seen.add(('params', repr(case)))
    # static facts from the regenerated class table: a constructor argument that is not persisted
    import os
    try:
        man = json.load(open(os.path.join(os.path.dirname(os.path.abspath(__file__)), '..', '..', 'coq', 'gen',
                                          'classtab_manifest.json')))
        for r in man['classes']:
            if r['missing'] or '?' in r['persisted']:
                viol.append({'site': 'C14:not-persisted:%s' % r['name'], 'case': {'class': r['name']},
                             'observed': 'constructor arguments %s are not in the serialized form %s' % (r['missing'], r['persisted']),
                             'expected': 'every constructor argument persisted'})
        for d in man.get('todict', []):
            for k, a in d['pairs']:
                if a != '<expr>' and k != a:
                    viol.append({'site': 'C14:to_dict:%s.%s' % (d['class'], k), 'case': {'class': d['class']},
                                 'observed': 'key %s is written from attribute %s' % (k, a), 'expected': 'its own attribute'})
    except Exception:  # noqa
        pass
    return {'violations': viol, 'info': {'evaluations': evals, 'distinct': len(seen),
                                         'what': 'class x constructor configuration x {dict, JSON, YAML} round trips; processor parameters and operator trees'}}


def replay(v):
    if v['site'].startswith('C14:not-persisted') or v['site'].startswith('C14:to_dict'):
        return any(x['site'] == v['site'] for x in run(seed=0, tier='quick')['violations'])
    # deterministic generator: re-run the same tier-independent case list and look for the same site
    r = run(seed=0, tier='quick', broken=True)
    return any(x['site'] == v['site'] for x in r['violations'])
