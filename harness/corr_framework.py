#!/usr/bin/env python3
"""Correspondence for the scheduling model (coq/model/Framework.v): random operator trees
over recording leaves are run by the real library with every entropy read recorded;
the model is run on the same draws and must produce the same trace of fired leaves
and consume exactly the same number of draws."""
import fractions
import os
import random
import re
import subprocess
import sys
import time

sys.path.insert(0, os.path.dirname(os.path.abspath(__file__)))
import implrun as R
import numpy as np
import dicaugment as A
from dicaugment import random_utils

Fr = fractions.Fraction
VERIF = os.path.abspath(os.path.join(os.path.dirname(__file__), '..'))
TRACE = []


class Rec(A.ImageOnlyTransform):
    """user-defined recording transform"""

    def __init__(self, ident=0, always_apply=False, p=0.5):
        super().__init__(always_apply, p)
        self.ident = ident

    def apply(self, img, **params):
        TRACE.append(self.ident)
        return img

    def get_transform_init_args_names(self):
        return ('ident',)


class Recorder:
    """records every entropy read of the scheduling layer, in order"""

    def __init__(self):
        self.events = []
        self.choice_args = []
        self.inside_choice = False

    def __enter__(self):
        self.o_random, self.o_randint, self.o_choice = random.random, random.randint, random_utils.choice

        def rnd():
            v = self.o_random()
            if not self.inside_choice:
                self.events.append(('U', v))
            return v

        def rint(a, b):
            v = self.o_randint(a, b)
            if not self.inside_choice:
                self.events.append(('I', v))
            return v

        def choice(*a, **k):
            self.choice_args.append((a, dict(k)))
            self.inside_choice = True
            try:
                v = self.o_choice(*a, **k)
            finally:
                self.inside_choice = False
            idx = [int(v)] if np.ndim(v) == 0 else [int(x) for x in v]
            self.events.append(('C', idx))
            return v
        random.random, random.randint, random_utils.choice = rnd, rint, choice
        return self

    def __exit__(self, *a):
        random.random, random.randint, random_utils.choice = self.o_random, self.o_randint, self.o_choice


PS = [0, 0, Fr(1, 4), Fr(1, 2), Fr(3, 4), 1, 1]


def gen_tree(rng, depth, counter):
    r = rng.random()
    if depth == 0 or r < 0.35:
        counter[0] += 1
        return {'k': 'leaf', 'id': counter[0], 'p': rng.choice(PS), 'always': rng.random() < 0.2}
    op = rng.choice(['Compose', 'OneOf', 'SomeOf', 'OneOrOther', 'Sequential'])
    n = 2 if op == 'OneOrOther' else rng.randint(1, 3)
    kids = [gen_tree(rng, depth - 1, counter) for _ in range(n)]
    node = {'k': op, 'p': rng.choice(PS), 'kids': kids}
    if op in ('OneOf', 'SomeOf') and sum(k['p'] for k in kids) == 0:
        kids[0]['p'] = Fr(1, 2)
    if op == 'SomeOf':
        node['replace'] = rng.random() < 0.5
        nz = sum(1 for k in kids if k['p'] > 0)
        node['n'] = rng.randint(1, nz) if not node['replace'] else rng.randint(1, 4)
    return node


def build(node):
    if node['k'] == 'leaf':
        return Rec(ident=node['id'], always_apply=node['always'], p=float(node['p']))
    kids = [build(k) for k in node['kids']]
    if node['k'] == 'Compose':
        return A.Compose(kids, p=float(node['p']))
    if node['k'] == 'OneOf':
        return A.OneOf(kids, p=float(node['p']))
    if node['k'] == 'SomeOf':
        return A.SomeOf(kids, n=node['n'], replace=node['replace'], p=float(node['p']))
    if node['k'] == 'OneOrOther':
        return A.OneOrOther(transforms=kids, p=float(node['p']))
    return A.Sequential(kids, p=float(node['p']))


def q(v):
    f = Fr(v)
    return '(%d # %d)' % (f.numerator, f.denominator)


def coq_node(node):
    if node['k'] == 'leaf':
        return '(Leaf %d %s %s)' % (node['id'], q(node['p']), 'true' if node['always'] else 'false')
    kids = '[' + '; '.join(coq_node(k) for k in node['kids']) + ']'
    if node['k'] == 'Compose':
        return '(Comp %s %s)' % (q(node['p']), kids)
    if node['k'] == 'OneOf':
        return '(OneOfN %s %s)' % (q(node['p']), kids)
    if node['k'] == 'SomeOf':
        return '(SomeOfN %s %d %s %s)' % (q(node['p']), node['n'], 'true' if node['replace'] else 'false', kids)
    if node['k'] == 'OneOrOther':
        return '(OneOrOtherN %s %s)' % (q(node['p']), kids)
    return '(SeqN %s %s)' % (q(node['p']), kids)


def nat_list(l):
    return '[' + '; '.join('%d' % x for x in l) + ']%nat'


def run(seed, n):
    rng = random.Random(seed * 104729 + 5)
    img = np.zeros((2, 3, 4), np.uint8)
    cases = []
    kinds = {}
    for i in range(n):
        counter = [0]
        top = {'k': 'Compose', 'p': rng.choice(PS + [1, 1]), 'kids': [gen_tree(rng, 3, counter) for _ in range(rng.randint(1, 3))]}
        pipe = build(top)
        # half of the pipelines carry annotation parameters; the per-transform check (check_each_transform on or off) is
        # then recorded as 0 in the trace, each time Compose runs it
        topmode = rng.choice([None, None, True, False])
        extra = {}
        if topmode is not None:
            if rng.random() < 0.5:
                pipe = A.Compose(pipe.transforms, p=float(top['p']),
                                 keypoint_params=A.KeypointParams('xyz', check_each_transform=topmode))
                extra = {'keypoints': [(1.0, 1.0, 1.0)]}
            else:
                pipe = A.Compose(pipe.transforms, p=float(top['p']),
                                 bbox_params=A.BboxParams('pascal_voc_3d', check_each_transform=topmode))
                extra = {'bboxes': [(0.0, 0.0, 0.0, 2.0, 2.0, 2.0, 'a')]}
        if topmode is None and rng.random() < 0.3:
            # the recording subclass schedules exactly like Compose (its own p, its children, the always-apply leaves)
            pipe = A.ReplayCompose(pipe.transforms, p=float(top['p']))
            replayed = True
        else:
            replayed = False
        del TRACE[:]
        random.seed(rng.randint(0, 1 << 30))
        force = rng.random() < 0.15
        o_check = A.Compose._check_data_post_transform

        def rec_check(self, data):
            TRACE.append(0)
            return o_check(self, data)
        A.Compose._check_data_post_transform = rec_check
        with Recorder() as rec:
            try:
                pipe(image=img, force_apply=force, **extra)
                err = None
            except Exception as e:  # noqa
                err = type(e).__name__
            finally:
                A.Compose._check_data_post_transform = o_check
        trace = list(TRACE)
        ev = rec.events
        if err is not None or any(k == 'I' for k, _ in ev):
            kinds['skipped:' + str(err)] = kinds.get('skipped:' + str(err), 0) + 1
            continue
        wcases = []

        def walk(node, obj):
            if node['k'] in ('OneOf', 'SomeOf'):
                wcases.append('check_weights %s [%s]' % (coq_node(node), '; '.join(q(Fr(float(x))) for x in obj.transforms_ps)))
            if node['k'] != 'leaf':
                for kn, ko in zip(node['kids'], obj.transforms):
                    walk(kn, ko)
        walk(top, pipe)
        # every choice call must be given the node's normalised weights
        for a, kw in rec.choice_args:
            if 'p' not in kw or kw['p'] is None:
                wcases.append('false')
        draws = '[' + '; '.join(('DU %s' % q(v)) if k == 'U' else ('DC %s' % nat_list(v)) for k, v in ev) + ']'
        head = 'check_run' if topmode is None else 'check_run_top %s' % ('true' if topmode else 'false')
        coq = '(%s %s %s %s %s)%s' % (head, coq_node(top), 'true' if force else 'false', draws, nat_list(trace),
                                      ''.join(' && (%s)' % w for w in wcases))
        cases.append({'tree': top, 'force': force, 'events': [(k, (float(v) if k == 'U' else v)) for k, v in ev],
                      'trace': trace, 'coq': coq})
        key = 'fired=%d' % len([x for x in trace if x]) + ('' if topmode is None else ',checks=%s' % ('on' if topmode else 'off')) \
            + (',ReplayCompose' if replayed else '')
        kinds[key] = kinds.get(key, 0) + 1
    # evaluate the model
    cdir = os.path.join(VERIF, 'coq', 'cases')
    os.makedirs(cdir, exist_ok=True)
    path = os.path.join(cdir, 'fw_%d.v' % seed)
    with open(path, 'w') as f:
        f.write('From Coq Require Import List QArith Bool.\nImport ListNotations.\n'
                'From DV.model Require Import Framework FrameworkCheck.\nOpen Scope Q_scope.\n')
        f.write('Definition cases : list bool := [\n' + ';\n'.join(' ' + c['coq'] for c in cases) + '].\n')
        f.write('Eval vm_compute in (bad_idx 0 cases).\n')
    p = subprocess.run(['timeout', '900', 'coqc', '-Q', 'lib', 'DV.lib', '-Q', 'model', 'DV.model', path],
                       cwd=os.path.join(VERIF, 'coq'), stdout=subprocess.PIPE, stderr=subprocess.STDOUT, text=True)
    m = re.search(r'=\s*\[(.*?)\]', p.stdout, re.S)
    errors = []
    bad = []
    if p.returncode != 0 or m is None:
        errors.append(p.stdout[-1500:])
    else:
        bad = [int(x) for x in re.findall(r'\d+', m.group(1))]
    for ext in ('.vo', '.vok', '.vos', '.glob'):
        try:
            os.remove(path[:-2] + ext)
        except OSError:
            pass

    def js(c):
        def conv(o):
            if isinstance(o, Fr):
                return float(o)
            if isinstance(o, dict):
                return {k: conv(v) for k, v in o.items()}
            if isinstance(o, (list, tuple)):
                return [conv(x) for x in o]
            return o
        return {'tree': conv(c['tree']), 'force_apply': c['force'], 'draws': c['events'], 'fired': c['trace']}
    return {'cases': len(cases), 'distinct_cases': len({c['coq'] for c in cases}), 'result_kinds': kinds,
            'n_disagreements': len(bad), 'disagreements': [js(cases[i]) for i in bad[:10]],
            'coq_errors': errors, 'missing_functions': [], 'samples': [js(c) for c in cases[:2]]}


if __name__ == '__main__':
    import json
    print(json.dumps(run(int(sys.argv[1]), int(sys.argv[2])), indent=1)[:3000])
