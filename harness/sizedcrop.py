"""RandomSizedCrop against the voxels (oracle shared by C02 and C03): a window of the volume is cut out and resized to the
configured size with a different zoom per axis; a box / keypoint follows its voxels: (p - window origin) * zoom of its
OWN axis.  The window origin is read off the labelled output voxel (0, 0, 0) (nearest interpolation), the window size from
the recorded parameters, the zoom from output extent / window extent."""
import numpy as np

import implrun as R

A = R.A


def gen_case(rng):
    H, W, D = rng.sample([8, 10, 12, 16, 20], 3)
    ch = rng.randint(3, H)
    # non-uniform zoom: width / height of the window differs from that of the output
    w2h, d2h = rng.choice([0.5, 0.75, 1.0, 1.25]), rng.choice([0.5, 1.0, 0.75])
    while int(ch * w2h) > W or int(ch * d2h) > D or int(ch * w2h) < 1 or int(ch * d2h) < 1:
        ch -= 1
        if ch < 2:
            ch, w2h, d2h = 2, 1.0, 1.0
            break
    oh, ow, od = rng.sample([5, 7, 9, 12, 15], 3)
    boxes, kps = [], []
    for i in range(3):
        x1, y1, z1 = rng.uniform(0, W - 2), rng.uniform(0, H - 2), rng.uniform(0, D - 2)
        boxes.append((x1, y1, z1, rng.uniform(x1 + 0.5, W), rng.uniform(y1 + 0.5, H), rng.uniform(z1 + 0.5, D), 'b%d' % i))
        kps.append((rng.uniform(0, W - 1), rng.uniform(0, H - 1), rng.uniform(0, D - 1), 0.3, 1.5, 'k%d' % i))
    return {'shape': [H, W, D], 'kw': dict(min_max_height=[ch, ch], height=oh, width=ow, depth=od, w2h_ratio=w2h, d2h_ratio=d2h, interpolation=0),
            'boxes': boxes, 'kps': kps, 'seed': R.pick_seed(rng)}


def check(case, what):
    """what = 'boxes' or 'keypoints'; returns None or (kind, observed, expected)"""
    shape = tuple(case['shape'])
    H, W, D = shape
    kw = dict(case['kw'], min_max_height=tuple(case['kw']['min_max_height']))
    img = R.labelled(shape, 'int32')
    pipe = A.ReplayCompose([A.RandomSizedCrop(p=1.0, **kw)],
                           bbox_params=A.BboxParams('pascal_voc_3d', min_volume=0.0, min_planar_area=0.0),
                           keypoint_params=A.KeypointParams('xyzas', angle_in_degrees=False, remove_invisible=False))
    R.seed(case['seed'])
    try:
        res = pipe(image=img, bboxes=[tuple(b) for b in case['boxes']], keypoints=[tuple(k) for k in case['kps']])
    except Exception as e:  # noqa
        return ('raises', '%s: %s' % (type(e).__name__, str(e)[:140]), 'runs')
    out = res['image']
    p = res['replay']['transforms'][0]['params']
    cw, chh, cd = int(p['crop_width']), int(p['crop_height']), int(p['crop_depth'])
    if out.shape[:3] != (kw['height'], kw['width'], kw['depth']) or np.any(out <= 0):
        return ('image', 'shape %s, fill voxels %d' % (out.shape, int(np.sum(out <= 0))), 'the configured size, input voxels only')
    y0, x0, z0 = (int(v) for v in np.unravel_index(int(out[0, 0, 0]) - 1, shape))
    sx, sy, sz = kw['width'] / cw, kw['height'] / chh, kw['depth'] / cd
    if what == 'keypoints':
        got = {k[5]: k for k in res['keypoints']}
        for k in case['kps']:
            exp = ((k[0] - x0) * sx, (k[1] - y0) * sy, (k[2] - z0) * sz)
            g = got.get(k[5])
            if g is None:
                return ('keypoint-lost', 'keypoint %s is not returned' % k[5], 'returned (remove_invisible is off)')
            if any(abs(float(gv) - ev) > 1e-6 * max(1.0, abs(ev)) for gv, ev in zip(g[:3], exp)):
                return ('keypoint', 'keypoint %s at %s' % (k[5], tuple(round(float(v), 4) for v in g[:3])),
                        '(p - window origin %s) * per-axis zoom %s = %s' % ((x0, y0, z0), (round(sx, 4), round(sy, 4), round(sz, 4)), tuple(round(v, 4) for v in exp)))
        return None
    got = {b[6]: b for b in res['bboxes']}
    lim = (kw['width'], kw['height'], kw['depth']) * 2
    for b in case['boxes']:
        exp = [(b[0] - x0) * sx, (b[1] - y0) * sy, (b[2] - z0) * sz, (b[3] - x0) * sx, (b[4] - y0) * sy, (b[5] - z0) * sz]
        exp = [min(max(v, 0.0), l) for v, l in zip(exp, lim)]
        vol = (exp[3] - exp[0]) * (exp[4] - exp[1]) * (exp[5] - exp[2])
        g = got.get(b[6])
        if g is None:
            if vol > 1e-6:
                return ('box-lost', 'box %s with volume %.4f inside the window is not returned' % (b[6], vol), 'returned')
            continue
        if any(abs(float(gv) - ev) > 1e-6 * max(1.0, abs(ev)) for gv, ev in zip(g[:6], exp)):
            return ('box', 'box %s at %s' % (b[6], tuple(round(float(v), 4) for v in g[:6])), 'voxel hull %s' % [round(v, 4) for v in exp])
    return None
