(* class-table facts used by C01; proved by computation over the regenerated tables *)
From Coq Require Import List String Bool.
Import ListNotations.
From DV.gen Require Import Gen_classtab.
From DV.proofs Require Import ClassFacts.
Open Scope string_scope.

Lemma mask_paths_nearest : forallb mask_interp_ok class_table = true.
Proof. vm_compute. reflexivity. Qed.
