(* C08 -- Documented configurations run; malformed calls fail loudly.
   Proved: the rejection half for the entry checks.  Compose._check_args is a hand-written model
   (model/CheckArgs.v, validated on every run against the real method on generated keyword
   arguments); check_bbox / check_keypoint are regenerated from the source.
   The totality half ("every documented configuration runs on every dtype / shape / target set")
   quantifies over NumPy / SciPy / OpenCV behaviour and is explored by the sweep, not proved. *)
From Coq Require Import ZArith QArith List Bool.
Import ListNotations.
From DV.lib Require Import PyNum PyRt.
From DV.model Require Import CheckArgs.
From DV.gen Require Import Gen_bbox_utils Gen_keypoints_utils.
From DV.proofs Require Import C08_checks.

Theorem C08_mismatched_shapes_are_rejected :
  (forall hb a b, a <> b -> check_args hb true [AArr true false a; AArr true false b] = Raise ValueError) /\
  (forall hb a b, a <> b -> check_args hb true [AArr true false a; AMasks true true b] = Raise ValueError).
Proof. split; [exact mismatched_shapes_rejected | exact masks_shape_checked]. Qed.
Print Assumptions C08_mismatched_shapes_are_rejected.

Theorem C08_malformed_targets_are_rejected :
  (forall hb cs bad sh tl, check_args hb cs (AArr false bad sh :: tl) = Raise TypeError) /\
  (forall hb cs sh tl, check_args hb cs (AArr true true sh :: tl) = Raise ValueError) /\
  (forall cs tl, check_args false cs (ABoxes :: tl) = Raise ValueError).
Proof. repeat split; intros; reflexivity. Qed.
Print Assumptions C08_malformed_targets_are_rejected.

Theorem C08_well_formed_targets_of_one_shape_pass :
  forall hb cs sh n, check_args hb cs (repeat (AArr true false sh) n) = Ok tt.
Proof. exact equal_shapes_accepted. Qed.
Print Assumptions C08_well_formed_targets_of_one_shape_pass.

Open Scope Q_scope.
Theorem C08_check_bbox :
  (forall b, check_bbox b = Ok tt \/ check_bbox b = Raise ValueError) /\
  (forall b, check_bbox b = Ok tt ->
     let '(x1, y1, z1, x2, y2, z2) := b in
     near_unit x1 /\ near_unit y1 /\ near_unit z1 /\ near_unit x2 /\ near_unit y2 /\ near_unit z2 /\
     x1 < x2 /\ y1 < y2 /\ z1 < z2) /\
  (forall b, (let '(x1, y1, z1, x2, y2, z2) := b in x2 <= x1 \/ y2 <= y1 \/ z2 <= z1) -> check_bbox b = Raise ValueError).
Proof. repeat split; [exact check_bbox_total | exact check_bbox_accepts_only_valid | exact check_bbox_rejects]. Qed.
Print Assumptions C08_check_bbox.

(* the check is reached from EVERY box format: what the input conversion accepts with check_validity has passed
   check_bbox, hence (previous theorem) lies in the unit cube with positive extents *)
Theorem C08_every_box_format_is_checked : forall b fmt r c s b',
  convert_bbox_to_dicaugment b fmt r c s true = Ok b' ->
  check_bbox b' = Ok tt /\
  let '(x1, y1, z1, x2, y2, z2) := b' in
  near_unit x1 /\ near_unit y1 /\ near_unit z1 /\ near_unit x2 /\ near_unit y2 /\ near_unit z2 /\ x1 < x2 /\ y1 < y2 /\ z1 < z2.
Proof.
  intros b fmt r c s b' E. pose proof (converted_boxes_are_checked _ _ _ _ _ _ E) as C. split; [exact C|].
  exact (check_bbox_accepts_only_valid b' C).
Qed.
Print Assumptions C08_every_box_format_is_checked.

Theorem C08_check_keypoint : forall k r c s,
  let '(x, y, z, a, sc) := k in
  (check_keypoint k r c s = Ok tt <->
   0 <= x /\ x < inject_Z c /\ 0 <= y /\ y < inject_Z r /\ 0 <= z /\ z < inject_Z s /\ 0 <= a /\ a < 2 * pi) /\
  (check_keypoint k r c s = Ok tt \/ check_keypoint k r c s = Raise ValueError).
Proof. exact check_keypoint_exact. Qed.
Print Assumptions C08_check_keypoint.

(* non-vacuity: a depth-only mismatch *)
Example C08_depth_only : check_args true true [AArr true false (12, 10, 8)%Z; AArr true false (12, 10, 10)%Z] = Raise ValueError.
Proof. reflexivity. Qed.
