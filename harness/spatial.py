"""Random configurations of the spatial transforms (drawn from their documented domains)
and a runner on index-labelled volumes; shared by the C01/C02/C03/C07 searches."""
import math
import random

import numpy as np

import implrun as R
import geom

A = R.A
PLANES = ['xy', 'yz', 'xz']
POSITIONS = ['center', 'front_top_left', 'front_top_right', 'front_bottom_left', 'front_bottom_right',
             'back_top_left', 'back_top_right', 'back_bottom_left', 'back_bottom_right', 'random']


def L(cls, pin=None, **args):
    args.setdefault('p', 1.0)
    return {'cls': cls, 'args': args, 'pin': pin}


def lattice_configs(rng, shape):
    """one random configuration per lattice transform, valid for a volume of this shape"""
    H, W, D = shape
    out = [L('VerticalFlip'), L('HorizontalFlip'), L('SliceFlip'), L('Flip'), L('Transpose'), L('NoOp')]
    ax = rng.choice(PLANES + [PLANES])
    out.append(L('RandomRotate90', axes=ax))
    ch, cw, cd = rng.randint(1, H), rng.randint(1, W), rng.randint(1, D)
    out.append(L('RandomCrop', height=ch, width=cw, depth=cd))
    out.append(L('CenterCrop', height=ch, width=cw, depth=cd))
    x1, y1, z1 = rng.randint(0, W - 1), rng.randint(0, H - 1), rng.randint(0, D - 1)
    out.append(L('Crop', x_min=x1, y_min=y1, z_min=z1, x_max=rng.randint(x1 + 1, W), y_max=rng.randint(y1 + 1, H),
                 z_max=rng.randint(z1 + 1, D)))
    out.append(L('RandomCropFromBorders', crop_left=rng.choice([0.1, 0.3]), crop_right=rng.choice([0.1, 0.3]),
                 crop_top=rng.choice([0.1, 0.3]), crop_bottom=0.2, crop_close=0.2, crop_far=rng.choice([0.1, 0.3])))
    if rng.random() < 0.5:
        out.append(L('PadIfNeeded', min_height=H + rng.randint(0, 4), min_width=W + rng.randint(0, 4),
                     min_depth=D + rng.randint(0, 4), position=rng.choice(POSITIONS), value=0, mask_value=0))
    else:
        out.append(L('PadIfNeeded', min_height=None, min_width=None, min_depth=None,
                     pad_height_divisor=rng.randint(1, 5), pad_width_divisor=rng.randint(1, 5),
                     pad_depth_divisor=rng.randint(1, 5), position=rng.choice(POSITIONS), value=0, mask_value=0))
    # the random position, always present, with room to move on every axis: one set of offsets per call, shared by
    # every target
    out.append(L('PadIfNeeded', min_height=H + rng.randint(3, 6), min_width=W + rng.randint(3, 6), min_depth=D + rng.randint(3, 6),
                 position='random', value=0, mask_value=0))
    out.append(L('CropAndPad', keep_size=False, pad_cval=0, pad_cval_mask=0, **crop_and_pad_amounts(rng)))
    return out


def crop_and_pad_sweep(rng):
    """the axis patterns of CropAndPad, each once per run: for every axis crop only / pad only / crop one side and pad
    the other with the other two axes untouched, plus two all-axes mixtures; px and percent forms"""
    out = []
    for ax in range(3):
        for pat in ('crop', 'pad', 'mixed'):
            a, b = {'crop': (-rng.randint(0, 2), -rng.randint(1, 2)), 'pad': (rng.randint(0, 3), rng.randint(1, 3)),
                    'mixed': (-rng.randint(1, 2), rng.randint(1, 3))}[pat]
            if rng.random() < 0.5:
                a, b = b, a
            sides = [0] * 6
            sides[2 * ax], sides[2 * ax + 1] = a, b
            out.append({'px': tuple(sides)} if rng.random() < 0.8 else {'percent': tuple(v * 0.21 for v in sides)})
    out.append({'px': tuple(rng.choice([-2, -1, 1, 2]) for _ in range(6))})
    out.append({'px': tuple(rng.choice([-1, 0, 2]) for _ in range(6))})
    return [L('CropAndPad', keep_size=False, pad_cval=0, pad_cval_mask=0, **kw) for kw in out]


def crop_and_pad_amounts(rng):
    """px / percent of CropAndPad in all its documented forms: one number, six per-side numbers (negative = crop,
    positive = pad, zero = leave), often restricted to ONE axis (rows only / columns only / slices only) so that
    code treating an axis as an afterthought is met"""
    r = rng.random()
    if r < 0.15:
        return {'px': rng.choice([-1, 1, 2, 3])}
    if r < 0.25:
        return {'percent': rng.choice([-0.3, -0.15, 0.2, 0.4])}
    sides = [rng.choice([-2, -1, -1, 0, 1, 2, 3]) for _ in range(6)]
    if rng.random() < 0.6:
        ax = rng.randrange(3)
        sides = [v if i // 2 == ax else 0 for i, v in enumerate(sides)]
        if not any(sides):
            sides[2 * ax + rng.randrange(2)] = rng.choice([-1, 2])
    if rng.random() < 0.25:
        return {'percent': tuple(v * 0.17 for v in sides)}
    return {'px': tuple(sides)}


def dropout_configs(rng, shape):
    H, W, D = shape
    return [L('CoarseDropout', max_holes=3, max_height=max(1, H // 2), max_width=max(1, W // 2), max_depth=max(1, D // 2),
              min_holes=1, min_height=1, min_width=1, min_depth=1, fill_value=0, mask_fill_value=0),
            L('PixelDropout', dropout_prob=0.2, drop_value=0, mask_drop_value=0)]


def resample_configs(rng, shape, interpolation=0):
    H, W, D = shape
    m = min(H, W, D)
    # isotropic rescaling keeps every axis at >= 1 voxel only when round(min_extent * scale) >= 1
    lo_long = -(-max(H, W, D) * 3 // (4 * m)) + 1
    out = [L('Resize', height=rng.randint(1, 2 * H), width=rng.randint(1, 2 * W), depth=rng.randint(1, 2 * D),
             interpolation=interpolation),
           L('RandomScale', scale_limit=rng.choice([0.1, 0.3, (0.2, 0.5)]), interpolation=interpolation),
           L('LongestMaxSize', max_size=rng.randint(max(2, lo_long), 2 * max(H, W, D)), interpolation=interpolation),
           L('SmallestMaxSize', max_size=rng.randint(1, 2 * m), interpolation=interpolation)]
    # boundary configurations: some (not all) target extents already equal the input's
    keep = rng.sample([0, 1, 2], rng.randint(1, 2))
    tgt = [H, W, D]
    for a in range(3):
        if a not in keep:
            tgt[a] = max(1, tgt[a] + rng.choice([-2, -1, 1, 2, 3]))
    out.append(L('Resize', height=tgt[0], width=tgt[1], depth=tgt[2], interpolation=interpolation))
    return out


def run(specs, shape, rng_seed, boxes=None, kps=None, channels=None, extra_targets=False,
        bbox_format='pascal_voc_3d', kp_format='xyzas', kp_kw=None, bbox_kw=None, dtype='int32', via_replay=False,
        more_boxes=False, rebuilt=False):
    """runs Compose(specs) under random.seed(rng_seed) on a labelled volume; returns the result dict"""
    img = R.labelled(shape, dtype)
    mask = R.labelled(shape, dtype)
    if channels:
        img = np.stack([img + 1000000 * c * (img > 0) for c in range(channels)], axis=-1).astype(dtype)
    kw = {}
    ckw = {}
    if extra_targets:
        ckw['additional_targets'] = {'image2': 'image', 'mask2': 'mask'}
    if more_boxes and boxes is not None:
        # the same boxes once more under an additional target name: they must be treated exactly like `bboxes`
        ckw.setdefault('additional_targets', {})['bboxes2'] = 'bboxes'
    pipe = R.build(specs, bbox_format=bbox_format if boxes is not None else None,
                   kp_format=kp_format if kps is not None else None,
                   kp_kw=kp_kw if kp_kw is not None else {'angle_in_degrees': False},
                   bbox_kw=bbox_kw, compose_kw=ckw, cls='ReplayCompose' if via_replay else 'Compose')
    if rebuilt and "'pin': {" not in repr(specs) and not via_replay:
        # the pipeline as a user gets it back from a saved document: it must treat the annotations exactly alike
        pipe = A.from_dict(A.to_dict(pipe))
    data = {'image': img, 'mask': mask, 'masks': [mask.copy(), (mask * 2).astype(dtype)]}
    if extra_targets:
        data['image2'] = img.copy()
        data['mask2'] = mask.copy()
    if boxes is not None:
        data['bboxes'] = [tuple(b) for b in boxes]
        if more_boxes:
            data['bboxes2'] = [tuple(b) for b in boxes]
    if kps is not None:
        data['keypoints'] = [tuple(k) for k in kps]
    R.seed(rng_seed)
    np.random.seed(rng_seed % (2 ** 31))
    if via_replay:
        # record, then feed the record back with the same inputs under another seed: the replayed run is returned
        import copy as _copy
        first = pipe(**_copy.deepcopy(data))
        R.seed((rng_seed if rng_seed < R.EXT_BASE else 0) + 12345)
        out = A.ReplayCompose.replay(first['replay'], **data)
        R.restore_random()
        return out
    return pipe(**data)


def random_boxes(rng, shape, n=3):
    H, W, D = shape
    out = []
    for i in range(rng.randint(1, n)):
        def seg(m):
            a = rng.uniform(0, max(m - 0.3, 0.05))
            b = rng.uniform(a + 0.2, m) if a + 0.2 < m else float(m)
            if rng.random() < 0.3:
                a, b = float(int(a)), float(max(int(b), int(a) + 1))
            return a, min(b, float(m))
        (x1, x2), (y1, y2), (z1, z2) = seg(W), seg(H), seg(D)
        out.append((x1, y1, z1, x2, y2, z2, 'b%d' % i))
    return out


def random_kps(rng, shape, n=4):
    H, W, D = shape
    out = []
    for i in range(rng.randint(1, n)):
        if rng.random() < 0.4:
            x, y, z = float(rng.randint(0, W - 1)), float(rng.randint(0, H - 1)), float(rng.randint(0, D - 1))
        else:
            x, y, z = rng.uniform(0, W - 0.01), rng.uniform(0, H - 0.01), rng.uniform(0, D - 0.01)
        out.append((x, y, z, rng.uniform(0, 2 * math.pi - 0.01), rng.uniform(0.5, 3), 'k%d' % i))
    return out


def random_shape(rng):
    dims = rng.sample([2, 3, 4, 5, 6, 7, 8, 10], 3)
    if rng.random() < 0.12:
        dims[rng.randrange(3)] = 1
    return tuple(dims)
