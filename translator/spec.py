"""What the numeric back end translates, and the types of the parameters.

Types: Z (Python int), Q (Python float), box (6 floats), kp (5 floats), c6 (6 ints),
str, bool, boxes/kps (lists).  A function listed here is *required*: if it
disappears, changes its parameter list or leaves the supported subset, the
translator records an error and every proof depending on it breaks.
"""

RCS = [('rows', 'Z'), ('cols', 'Z'), ('slices', 'Z')]


def F(name, params, ret=None, **kw):
    d = dict(name=name, params=params, ret=ret)
    d.update(kw)
    return d


def C(name, bases=(), self_attrs=None, **kw):
    d = dict(name=name, bases=list(bases), self_attrs=self_attrs or {})
    d.update(kw)
    return d


GEOM_REQ = ['Gen_keypoints_utils', 'Gen_bbox_utils', 'Gen_geom_functional', 'Gen_geom_arrays',
            'Gen_dropout_functional', 'Gen_crops_functional', 'Gen_dicom_functional']


def class_modules():
    return [
        dict(file='dicaugment/augmentations/geometric/transforms.py', coq_module='Gen_cls_geom', requires=GEOM_REQ,
             classes=[
                 C('VerticalFlip'), C('HorizontalFlip'), C('SliceFlip'), C('Flip'), C('Transpose',
                                                                                  methods=['apply', 'apply_to_mask', 'apply_to_bbox', 'apply_to_keypoint']),
                 C('PadIfNeeded', self_attrs={'border_mode': 'str', 'value': 'Q', 'mask_value': 'Q'}),
                 C('PadIfNeeded', methods=[], coq_prefix='PadIfNeededS',
                   self_attrs={'min_height': 'opt:Z', 'min_width': 'opt:Z', 'min_depth': 'opt:Z',
                               'pad_height_divisor': 'opt:Z', 'pad_width_divisor': 'opt:Z', 'pad_depth_divisor': 'opt:Z',
                               'position': 'str'},
                   samplers={'update_params': [('tgt_rows', 'Z'), ('tgt_cols', 'Z'), ('tgt_slices', 'Z')],
                             '__update_position_params': [('h_top', 'Z'), ('h_bottom', 'Z'), ('w_left', 'Z'),
                                                          ('w_right', 'Z'), ('d_front', 'Z'), ('d_back', 'Z')]}),
                 C('Flip', methods=[], coq_prefix='FlipS', samplers={'get_params': []}),
             ]),
        dict(file='dicaugment/augmentations/geometric/rotate.py', coq_module='Gen_cls_rotate', requires=GEOM_REQ,
             classes=[C('RandomRotate90')]),
        dict(file='dicaugment/augmentations/crops/transforms.py', coq_module='Gen_cls_crops', requires=GEOM_REQ,
             classes=[
                 C('RandomCrop', self_attrs={'height': 'Z', 'width': 'Z', 'depth': 'Z'}),
                 C('CenterCrop', self_attrs={'height': 'Z', 'width': 'Z', 'depth': 'Z'}),
                 C('Crop', self_attrs={'x_min': 'Z', 'y_min': 'Z', 'z_min': 'Z', 'x_max': 'Z', 'y_max': 'Z',
                                       'z_max': 'Z'}),
                 C('RandomCropFromBorders'),
                 C('RandomCropNearBBox'),
                 C('BBoxSafeRandomCrop', methods=['apply', 'apply_to_bbox']),
                 C('RandomCrop', methods=[], coq_prefix='RandomCropS', samplers={'get_params': []}),
                 C('RandomCropFromBorders', methods=[], coq_prefix='RandomCropFromBordersS',
                   self_attrs={'crop_left': 'Q', 'crop_right': 'Q', 'crop_top': 'Q', 'crop_bottom': 'Q',
                               'crop_close': 'Q', 'crop_far': 'Q'},
                   samplers={'get_params_dependent_on_targets': [('tgt_image', 'arr')]}),
                 C('BBoxSafeRandomCrop', methods=[], coq_prefix='BBoxSafeRandomCropS', self_attrs={'erosion_rate': 'Q'},
                   samplers={'get_params_dependent_on_targets': [('tgt_image', 'arr'), ('tgt_bboxes', 'boxes')]}),
                 C('RandomCropNearBBox', methods=[], coq_prefix='RandomCropNearBBoxS',
                   self_attrs={'max_part_shift': 'tuple:Q,Q,Q'},
                   samplers={'get_params_dependent_on_targets': [('tgt_cropping_bbox_key', 'c6')]}),
             ]),
        dict(file='dicaugment/augmentations/geometric/resize.py', coq_module='Gen_cls_resize',
             requires=GEOM_REQ,
             classes=[C('RandomScale', methods=['apply', 'apply_to_mask', 'apply_to_dicom', 'apply_to_keypoint']),
                      C('LongestMaxSize', methods=['apply_to_dicom', 'apply_to_keypoint']),
                      C('SmallestMaxSize', methods=['apply_to_dicom', 'apply_to_keypoint']),
                      C('Resize', methods=['apply', 'apply_to_mask', 'apply_to_dicom', 'apply_to_keypoint'],
                        self_attrs={'height': 'Z', 'width': 'Z', 'depth': 'Z'})]),
        dict(file='dicaugment/augmentations/geometric/transforms.py', coq_module='Gen_cls_geom_dicom',
             requires=GEOM_REQ,
             classes=[C('ShiftScaleRotate', methods=['apply_to_dicom']),
                      C('Transpose', methods=['apply_to_dicom'], coq_prefix='TransposeD')]),
        dict(file='dicaugment/augmentations/dicom/transforms.py', coq_module='Gen_cls_dicom',
             requires=GEOM_REQ,
             classes=[C('SetPixelSpacing', methods=['apply_to_dicom', 'apply_to_keypoint']),
                      C('SetPixelSpacing', methods=[], coq_prefix='SetPixelSpacingS',
                        self_attrs={'space_x': 'Q', 'space_y': 'Q'},
                        samplers={'get_params_dependent_on_targets': [('tgt_dicom', 'hdr')]}),
                      C('RescaleSlopeIntercept', methods=['apply_to_dicom']),
                      C('RescaleSlopeIntercept', methods=[], coq_prefix='RescaleSlopeInterceptS',
                        samplers={'get_params_dependent_on_targets': [('tgt_dicom', 'hdr')]})]),
        dict(file='dicaugment/augmentations/crops/transforms.py', coq_module='Gen_cls_crops_dicom',
             requires=GEOM_REQ,
             classes=[C('RandomSizedCrop', methods=['apply_to_dicom'], self_attrs={'height': 'Z', 'width': 'Z'}),
                      C('RandomSizedBBoxSafeCrop', methods=['apply_to_dicom'], self_attrs={'height': 'Z', 'width': 'Z'}),
                      C('CropAndPad', methods=['apply_to_dicom'], self_attrs={'keep_size': 'bool'})]),
        dict(file='dicaugment/augmentations/transforms.py', coq_module='Gen_cls_pixeldropout',
             requires=GEOM_REQ + ['Gen_pixel_dropout'],
             classes=[C('PixelDropout', methods=['apply', 'apply_to_mask'], self_attrs={'mask_drop_value': 'opt:Q'})]),
        dict(file='dicaugment/core/transforms_interface.py', coq_module='Gen_cls_iface', requires=GEOM_REQ,
             classes=[C('DualTransform', methods=['apply_to_dicom'])]),
        dict(file='dicaugment/augmentations/dropout/coarse_dropout.py', coq_module='Gen_cls_coarse',
             requires=GEOM_REQ,
             classes=[C('CoarseDropout', methods=['apply', 'apply_to_mask']),
                      C('CoarseDropout', methods=[], coq_prefix='CoarseDropoutK',
                        samplers={'_keypoint_in_hole': [('keypoint', 'kp'), ('hole', 'c6')],
                                  'apply_to_keypoints': [('keypoints', 'kps'), ('holes', 'holes')]}),
                      # hole sampling, integer-size specialisation (sizes in voxels) and fractional specialisation
                      C('CoarseDropout', methods=[], coq_prefix='CoarseDropoutI',
                        self_attrs={'min_holes': 'Z', 'max_holes': 'Z', 'min_height': 'Z', 'max_height': 'Z',
                                    'min_width': 'Z', 'max_width': 'Z', 'min_depth': 'Z', 'max_depth': 'Z'},
                        loop_samplers={'get_params_dependent_on_targets': [('tgt_image', 'arr')]}),
                      C('CoarseDropout', methods=[], coq_prefix='CoarseDropoutF',
                        self_attrs={'min_holes': 'Z', 'max_holes': 'Z', 'min_height': 'Q', 'max_height': 'Q',
                                    'min_width': 'Q', 'max_width': 'Q', 'min_depth': 'Q', 'max_depth': 'Q'},
                        loop_samplers={'get_params_dependent_on_targets': [('tgt_image', 'arr')]})]),
        dict(file='dicaugment/augmentations/dropout/grid_dropout.py', coq_module='Gen_cls_grid',
             requires=GEOM_REQ,
             classes=[C('GridDropout', methods=['apply', 'apply_to_mask'],
                        self_attrs={'fill_value': 'Q', 'mask_fill_value': 'opt:Q'}),
                      C('GridDropout', methods=[], coq_prefix='GridDropoutS',
                        self_attrs={'ratio': 'Q', 'unit_size_min': 'opt:Z', 'unit_size_max': 'opt:Z',
                                    'holes_number_x': 'opt:Z', 'holes_number_y': 'opt:Z', 'holes_number_z': 'opt:Z',
                                    'shift_x': 'opt:Z', 'shift_y': 'opt:Z', 'shift_z': 'opt:Z', 'random_offset': 'bool'},
                        loop_samplers={'get_params_dependent_on_targets': [('tgt_image', 'arr')]})]),
    ]


def modules():
    return base_modules() + class_modules()


def base_modules():
    return [
        dict(file='dicaugment/core/keypoints_utils.py', coq_module='Gen_keypoints_utils', requires=[],
             functions=[
                 F('angle_to_2pi_range', [('angle', 'Q')]),
                 F('check_keypoint', [('kp', 'kp')] + RCS, ret='tuple:'),
                 F('filter_keypoints', [('keypoints', 'kps')] + RCS + [('remove_invisible', 'bool')]),
                 F('convert_keypoint_to_dicaugment',
                   [('keypoint', 'kp'), ('source_format', 'str')] + RCS +
                   [('check_validity', 'bool'), ('angle_in_degrees', 'bool')]),
                 F('convert_keypoint_from_dicaugment',
                   [('keypoint', 'kp'), ('target_format', 'str')] + RCS +
                   [('check_validity', 'bool'), ('angle_in_degrees', 'bool')]),
             ]),
        dict(file='dicaugment/core/keypoints_utils.py', coq_module='Gen_keypoints_proc',
             requires=['Gen_keypoints_utils'],
             functions=[
                 F('check_keypoints', [('keypoints', 'kps')] + RCS, ret='tuple:'),
                 F('convert_keypoints_to_dicaugment',
                   [('keypoints', 'kps'), ('source_format', 'str')] + RCS +
                   [('check_validity', 'bool'), ('angle_in_degrees', 'bool')]),
                 F('convert_keypoints_from_dicaugment',
                   [('keypoints', 'kps'), ('target_format', 'str')] + RCS +
                   [('check_validity', 'bool'), ('angle_in_degrees', 'bool')]),
                 F('filter', [('data', 'kps')] + RCS, cls='KeypointsProcessor',
                   self_attrs={'params_remove_invisible': 'bool'}),
                 F('check', [('data', 'kps')] + RCS, cls='KeypointsProcessor', ret='tuple:'),
                 F('convert_from_dicaugment', [('data', 'kps')] + RCS, cls='KeypointsProcessor',
                   self_attrs={'params_format': 'str', 'params_remove_invisible': 'bool',
                               'params_angle_in_degrees': 'bool'}),
                 F('convert_to_dicaugment', [('data', 'kps')] + RCS, cls='KeypointsProcessor',
                   self_attrs={'params_format': 'str', 'params_remove_invisible': 'bool',
                               'params_angle_in_degrees': 'bool'}),
             ]),
        dict(file='dicaugment/core/bbox_utils.py', coq_module='Gen_bbox_utils', requires=[],
             functions=[
                 F('normalize_bbox', [('bbox', 'box')] + RCS),
                 F('denormalize_bbox', [('bbox', 'box')] + RCS),
                 F('calculate_bbox_area_volume', [('bbox', 'box')] + RCS),
                 F('check_bbox', [('bbox', 'box')], ret='tuple:'),
                 F('convert_bbox_to_dicaugment',
                   [('bbox', 'box'), ('source_format', 'str')] + RCS + [('check_validity', 'bool')]),
                 F('convert_bbox_from_dicaugment',
                   [('bbox', 'box'), ('target_format', 'str')] + RCS + [('check_validity', 'bool')]),
                 F('filter_bboxes', [('bboxes', 'boxes')] + RCS +
                   [('min_area_visibility', 'Q'), ('min_volume_visibility', 'Q'), ('min_planar_area', 'Q'),
                    ('min_volume', 'Q'), ('min_width', 'Q'), ('min_height', 'Q'), ('min_depth', 'Q')]),
                 F('union_of_bboxes', [('height', 'Z'), ('width', 'Z'), ('depth', 'Z'), ('bboxes', 'boxes'),
                                       ('erosion_rate', 'Q')]),
             ]),
        dict(file='dicaugment/core/bbox_utils.py', coq_module='Gen_bbox_proc', requires=['Gen_bbox_utils'],
             functions=[
                 F('check_bboxes', [('bboxes', 'boxes')], ret='tuple:'),
                 F('convert_bboxes_to_dicaugment',
                   [('bboxes', 'boxes'), ('source_format', 'str')] + RCS + [('check_validity', 'bool')]),
                 F('convert_bboxes_from_dicaugment',
                   [('bboxes', 'boxes'), ('target_format', 'str')] + RCS + [('check_validity', 'bool')]),
                 F('filter', [('data', 'boxes')] + RCS, cls='BboxProcessor',
                   self_attrs={'params_min_planar_area': 'Q', 'params_min_volume': 'Q',
                               'params_min_area_visibility': 'Q', 'params_min_volume_visibility': 'Q',
                               'params_min_width': 'Q', 'params_min_height': 'Q', 'params_min_depth': 'Q'}),
                 F('check', [('data', 'boxes')] + RCS, cls='BboxProcessor', ret='tuple:'),
                 F('convert_from_dicaugment', [('data', 'boxes')] + RCS, cls='BboxProcessor',
                   self_attrs={'params_format': 'str'}),
                 F('convert_to_dicaugment', [('data', 'boxes')] + RCS, cls='BboxProcessor',
                   self_attrs={'params_format': 'str'}),
             ]),
        dict(file='dicaugment/augmentations/geometric/functional.py', coq_module='Gen_geom_functional',
             requires=['Gen_keypoints_utils', 'Gen_bbox_utils'],
             functions=[
                 F('bbox_rot90', [('bbox', 'box'), ('factor', 'Z'), ('axes', 'str')] + RCS),
                 F('keypoint_rot90', [('keypoint', 'kp'), ('factor', 'Z'), ('axes', 'str')] + RCS),
                 F('keypoint_scale', [('keypoint', 'kp'), ('scale_x', 'Q'), ('scale_y', 'Q'), ('scale_z', 'Q')]),
                 F('bbox_vflip', [('bbox', 'box')] + RCS),
                 F('bbox_hflip', [('bbox', 'box')] + RCS),
                 F('bbox_zflip', [('bbox', 'box')] + RCS),
                 F('bbox_flip', [('bbox', 'box'), ('d', 'Z')] + RCS),
                 F('bbox_transpose', [('bbox', 'box'), ('axis', 'Z')] + RCS),
                 F('keypoint_vflip', [('keypoint', 'kp')] + RCS),
                 F('keypoint_hflip', [('keypoint', 'kp')] + RCS),
                 F('keypoint_zflip', [('keypoint', 'kp')] + RCS),
                 F('keypoint_flip', [('keypoint', 'kp'), ('d', 'Z')] + RCS),
                 F('keypoint_transpose', [('keypoint', 'kp')]),
             ]),
        dict(file='dicaugment/augmentations/geometric/functional.py', coq_module='Gen_geom_arrays',
             requires=['Gen_keypoints_utils', 'Gen_bbox_utils', 'Gen_geom_functional'],
             functions=[
                 F('vflip', [('img', 'arr')]),
                 F('hflip', [('img', 'arr')]),
                 F('zflip', [('img', 'arr')]),
                 F('random_flip', [('img', 'arr'), ('d', 'Z')]),
                 F('transpose', [('img', 'arr')]),
                 F('rot90', [('img', 'arr'), ('factor', 'Z'), ('axes', 'tuple:Z,Z')]),
                 F('_pad', [('img', 'arr'), ('pad_width', 'padw'), ('border_mode', 'str'), ('value', 'Q')]),
                 F('pad_with_params', [('img', 'arr'), ('h_pad_top', 'Z'), ('h_pad_bottom', 'Z'), ('w_pad_left', 'Z'),
                                       ('w_pad_right', 'Z'), ('d_pad_front', 'Z'), ('d_pad_back', 'Z'),
                                       ('border_mode', 'str'), ('value', 'Q')]),
                 F('pad', [('img', 'arr'), ('min_height', 'Z'), ('min_width', 'Z'), ('min_depth', 'Z'),
                           ('border_mode', 'str'), ('value', 'Q')]),
                 F('_resize', [('img', 'arr'), ('dsize', 'tuple:Z,Z,Z'), ('interpolation', 'Z')]),
                 F('resize', [('img', 'arr'), ('height', 'Z'), ('width', 'Z'), ('depth', 'Z'), ('interpolation', 'Z')]),
                 F('scale', [('img', 'arr'), ('scale', 'Q'), ('interpolation', 'Z')]),
             ]),
        dict(file='dicaugment/augmentations/dropout/functional.py', coq_module='Gen_dropout_functional', requires=[],
             functions=[
                 F('cutout', [('img', 'arr'), ('holes', 'holes'), ('fill_value', 'Q')]),
             ]),
        dict(file='dicaugment/augmentations/dicom/functional.py', coq_module='Gen_dicom_functional', requires=[],
             functions=[
                 F('dicom_scale', [('dicom', 'hdr'), ('scale_x', 'Q'), ('scale_y', 'Q')]),
                 F('transpose_dicom', [('dicom', 'hdr')]),
                 F('reset_dicom_slope_intercept', [('dicom', 'hdr')]),
                 # one voxel of the image (the function is element-wise): img is a float here
                 F('rescale_slope_intercept', [('img', 'Q'), ('slope', 'Q'), ('intercept', 'Q')]),
             ]),
        dict(file='dicaugment/augmentations/functional.py', coq_module='Gen_pixel_dropout', requires=[],
             functions=[F('pixel_dropout', [('image', 'arr'), ('drop_mask', 'bmask'), ('drop_value', 'Q')])]),
        dict(file='dicaugment/augmentations/crops/functional.py', coq_module='Gen_crops_functional',
             requires=['Gen_keypoints_utils', 'Gen_bbox_utils', 'Gen_geom_functional'],
             functions=[
                 F('get_random_crop_coords',
                   [('height', 'Z'), ('width', 'Z'), ('depth', 'Z'), ('crop_height', 'Z'), ('crop_width', 'Z'),
                    ('crop_depth', 'Z'), ('h_start', 'Q'), ('w_start', 'Q'), ('d_start', 'Q')]),
                 F('crop_bbox_by_coords',
                   [('bbox', 'box'), ('crop_coords', 'c6'), ('crop_height', 'Z'), ('crop_width', 'Z'),
                    ('crop_depth', 'Z')] + RCS),
                 F('bbox_random_crop',
                   [('bbox', 'box'), ('crop_height', 'Z'), ('crop_width', 'Z'), ('crop_depth', 'Z'),
                    ('h_start', 'Q'), ('w_start', 'Q'), ('d_start', 'Q')] + RCS),
                 F('crop_keypoint_by_coords', [('keypoint', 'kp'), ('crop_coords', 'c6')]),
                 F('keypoint_random_crop',
                   [('keypoint', 'kp'), ('crop_height', 'Z'), ('crop_width', 'Z'), ('crop_depth', 'Z'),
                    ('h_start', 'Q'), ('w_start', 'Q'), ('d_start', 'Q')] + RCS),
                 F('get_center_crop_coords',
                   [('height', 'Z'), ('width', 'Z'), ('depth', 'Z'), ('crop_height', 'Z'), ('crop_width', 'Z'),
                    ('crop_depth', 'Z')]),
                 F('bbox_center_crop',
                   [('bbox', 'box'), ('crop_height', 'Z'), ('crop_width', 'Z'), ('crop_depth', 'Z')] + RCS),
                 F('keypoint_center_crop',
                   [('keypoint', 'kp'), ('crop_height', 'Z'), ('crop_width', 'Z'), ('crop_depth', 'Z')] + RCS),
                 F('bbox_crop',
                   [('bbox', 'box'), ('x_min', 'Z'), ('y_min', 'Z'), ('z_min', 'Z'), ('x_max', 'Z'),
                    ('y_max', 'Z'), ('z_max', 'Z')] + RCS),
                 F('random_crop', [('img', 'arr'), ('crop_height', 'Z'), ('crop_width', 'Z'), ('crop_depth', 'Z'),
                                   ('h_start', 'Q'), ('w_start', 'Q'), ('d_start', 'Q')]),
                 F('center_crop', [('img', 'arr'), ('crop_height', 'Z'), ('crop_width', 'Z'), ('crop_depth', 'Z')]),
                 F('crop', [('img', 'arr'), ('x_min', 'Z'), ('y_min', 'Z'), ('z_min', 'Z'), ('x_max', 'Z'),
                            ('y_max', 'Z'), ('z_max', 'Z')]),
                 F('clamping_crop', [('img', 'arr'), ('x_min', 'Z'), ('y_min', 'Z'), ('z_min', 'Z'), ('x_max', 'Z'),
                                     ('y_max', 'Z'), ('z_max', 'Z')]),
                 F('crop_and_pad_bbox',
                   [('bbox', 'box'), ('crop_params', 'optc6'), ('pad_params', 'optc6')] + RCS +
                   [('result_rows', 'Z'), ('result_cols', 'Z'), ('result_slices', 'Z')]),
                 F('crop_and_pad_keypoint',
                   [('keypoint', 'kp'), ('crop_params', 'optc6'), ('pad_params', 'optc6')] + RCS +
                   [('result_rows', 'Z'), ('result_cols', 'Z'), ('result_slices', 'Z'), ('keep_size', 'bool')]),
             ]),
    ]
