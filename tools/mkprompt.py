# builds /tmp/mut/prompt_<id>.txt for fresh sub-agents from tools/seed_prompt_template.txt (copy it to /tmp/mut/prompt_C10d.txt first),
# the property text and the one-line descriptions of the earlier seeded changes; the scratch worktrees are made with
#   git -C /repo worktree add --detach /tmp/mut/<id> HEAD      (and removed with git worktree remove --force afterwards)
import json,sys,glob,os,re
props={json.loads(l)['id']:json.loads(l) for l in open('/verif/properties.jsonl')}
tmpl=open('/tmp/mut/prompt_C10d.txt').read()
for nid in sys.argv[1:]:
    pid=nid[:3]; p=props[pid]
    earlier=[]
    for d in sorted(glob.glob('/verif/seeded/%s*/meta.json'%pid)):
        earlier.append(json.load(open(d))['change'])
    s=tmpl.replace('C10d',nid)
    a=s.index('  Title:'); b=s.index('Task: make a small')
    q=p['quantifier']['text']
    s=s[:a]+'  Title: %s\n  Statement: %s\n  Quantified over: %s\n\n'%(p['title'],p['statement'],q)+s[b:]
    a=s.index('Other engineers have already produced'); b=s.index('Pick a DIFFERENT')
    s=s[:a]+'Other engineers have already produced changes for this property: '+'; '.join(earlier)+'. '+s[b:]
    open('/tmp/mut/prompt_%s.txt'%nid,'w').write(s)
    print(nid,len(earlier))
