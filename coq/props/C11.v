(* C11 -- Caller's data is never modified.
   The ownership analysis of translator/classtab.py reads every function of the package: a
   parameter is borrowed (caller-owned) until it is rebound to a fresh value; in-place operators,
   subscript / attribute stores, in-place methods (sort, append, update, fill, ...), del and out=
   on a borrowed name are flagged.  The table of flags is regenerated on every run; the theorem says
   it is empty, over all analysed functions.  (Partial: syntactic over-approximation, see DESIGN.) *)
From Coq Require Import List String Bool Arith.
Import ListNotations.
From DV.gen Require Import Gen_classtab Gen_dropout_functional.
From DV.proofs Require Import ClassFacts CF_C11.

Theorem C11_no_function_writes_into_a_borrowed_value : no_mutation = true.
Proof. exact no_mutation_ok. Qed.
Print Assumptions C11_no_function_writes_into_a_borrowed_value.

Theorem C11_analysis_covers_the_package : Nat.leb 500 functions_analysed = true.
Proof. vm_compute. reflexivity. Qed.
Print Assumptions C11_analysis_covers_the_package.

(* the generated cutout (translated only if the source copies the image before the slice stores)
   leaves the view it was given untouched: the result is a NEW view; trivially true of a functional
   model, stated to pin the dependency on the fail-closed translation *)
Theorem C11_cutout_is_translated_with_its_copy : forall v holes fill, exists v', cutout v holes fill = v'.
Proof. intros. eexists. reflexivity. Qed.
Print Assumptions C11_cutout_is_translated_with_its_copy.
