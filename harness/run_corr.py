#!/usr/bin/env python3
"""usage: run_corr.py TAG N SEED fn1 fn2 ...   -> JSON summary on stdout"""
import json
import os
import random
import sys

sys.path.insert(0, os.path.dirname(os.path.abspath(__file__)))
import corr
import corr_gen


def correspond(tag, fnames, n, seed, jobs=8, extra_cases=None):
    man, fns = corr.load_manifest()
    missing = [f for f in fnames if f not in fns]
    rng = random.Random(seed)
    cases = list(extra_cases or [])
    present = [f for f in fnames if f in fns]
    for i in range(n):
        for fn in present:
            cases.append(corr.Case(fn, corr_gen.gen_args(rng, fns[fn])))
    cases = corr.run_impl(fns, cases)
    mods = sorted({fns[f]['coq_module'] for f in present})
    order = ['Gen_keypoints_utils', 'Gen_bbox_utils', 'Gen_geom_functional', 'Gen_crops_functional']
    mods = [m for m in order if m in mods] + [m for m in mods if m not in order]
    bad, zde, errors = corr.run_coq(tag, cases, mods, jobs=jobs)
    kinds = {}
    for c in cases:
        kinds[c.kind] = kinds.get(c.kind, 0) + 1
    distinct = len({(c.fn, repr(c.args)) for c in cases})
    return {
        'functions': present, 'missing_functions': missing, 'cases': len(cases), 'distinct_cases': distinct,
        'result_kinds': kinds, 'disagreements': [corr.describe(cases[i], fns) for i in bad][:20],
        'n_disagreements': len(bad), 'coq_errors': errors,
        'model_zero_division_where_numpy_gives_nonfinite': len(zde),
        'samples': [corr.describe(c, fns) for c in cases[:3]],
    }


if __name__ == '__main__':
    tag, n, seed = sys.argv[1], int(sys.argv[2]), int(sys.argv[3])
    print(json.dumps(correspond(tag, sys.argv[4:], n, seed), indent=1, default=str))
