(* class-table facts used by C11; proved by computation over the regenerated tables *)
From Coq Require Import List String Bool.
Import ListNotations.
From DV.gen Require Import Gen_classtab.
From DV.proofs Require Import ClassFacts.
Open Scope string_scope.

Lemma no_mutation_ok : no_mutation = true.
Proof. vm_compute. reflexivity. Qed.
