(* C02 -- Bounding boxes follow the voxels they enclose (lattice transforms: exactly).
   For each class the box path (generated from apply_to_bbox with the parameter binding of
   apply_with_params) and the image path (generated from apply over the NumPy view model)
   are tied to ONE lattice descriptor:  voxels:  vat (T v) o = vat v (lat_src l o)
                                         boxes :  denorm_out (T_bbox (norm_in b)) == lat_box l b.
   Clipping to the frame is C04's filter. *)
From Coq Require Import ZArith QArith List Bool String.
From DV.lib Require Import PyNum PyRt.
From DV.model Require Import Arrays Lattice.
From DV.gen Require Import Gen_bbox_utils Gen_geom_functional Gen_crops_functional Gen_cls_geom Gen_cls_rotate.
From DV.proofs Require Import Conv C17_box Lat_vox Lat_box Lat_kp Cls_lattice Cls_lattice2.
Open Scope Q_scope.

Theorem C02_normalisation_roundtrip : forall b r c s, (0 < r)%Z -> (0 < c)%Z -> (0 < s)%Z ->
  box_eq (denorm_box (norm_box b r c s) r c s) b /\ box_eq (norm_box (denorm_box b r c s) r c s) b.
Proof. intros. split; [apply denorm_norm | apply norm_denorm]; assumption. Qed.
Print Assumptions C02_normalisation_roundtrip.

Theorem C02_VerticalFlip : forall r c s, (0 < r)%Z -> (0 < c)%Z -> (0 < s)%Z ->
  follows4 r c s (fun v => VerticalFlip_apply v c r s) (fun v => VerticalFlip_apply_to_mask v c r s)
    (fun b => VerticalFlip_apply_to_bbox b c r s) (fun k => VerticalFlip_apply_to_keypoint k c r s)
    (lat_flip 0 (r, c, s)) (r, c, s).
Proof. exact VerticalFlip_follows. Qed.
Print Assumptions C02_VerticalFlip.

Theorem C02_HorizontalFlip : forall r c s, (0 < r)%Z -> (0 < c)%Z -> (0 < s)%Z ->
  follows4 r c s (fun v => HorizontalFlip_apply v c r s) (fun v => HorizontalFlip_apply_to_mask v c r s)
    (fun b => HorizontalFlip_apply_to_bbox b c r s) (fun k => HorizontalFlip_apply_to_keypoint k c r s)
    (lat_flip 1 (r, c, s)) (r, c, s).
Proof. exact HorizontalFlip_follows. Qed.
Print Assumptions C02_HorizontalFlip.

Theorem C02_SliceFlip : forall r c s, (0 < r)%Z -> (0 < c)%Z -> (0 < s)%Z ->
  follows4 r c s (fun v => SliceFlip_apply v c r s) (fun v => SliceFlip_apply_to_mask v c r s)
    (fun b => SliceFlip_apply_to_bbox b c r s) (fun k => SliceFlip_apply_to_keypoint k c r s)
    (lat_flip 2 (r, c, s)) (r, c, s).
Proof. exact SliceFlip_follows. Qed.
Print Assumptions C02_SliceFlip.

Theorem C02_Flip : forall r c s d, (0 < r)%Z -> (0 < c)%Z -> (0 < s)%Z -> In d flipcodes ->
  (forall v, vshape v = (r, c, s) -> exists v', Flip_apply v d c r s = Ok v' /\ vshape v' = (r, c, s) /\
                                      same_map v' v (Lat_vox.lat_flipcode d (r, c, s))) /\
  (forall b, exists nb, Flip_apply_to_bbox (norm_box b r c s) d c r s = Ok nb /\
                        box_eq (denorm_box nb r c s) (lat_box (Lat_vox.lat_flipcode d (r, c, s)) b)).
Proof.
  intros r c s d Hr Hc Hs Hd. destruct (Flip_follows r c s Hr Hc Hs d Hd) as (A & _ & B & _). split; assumption.
Qed.
Print Assumptions C02_Flip.

Theorem C02_Transpose : forall r c s, (0 < r)%Z -> (0 < c)%Z -> (0 < s)%Z ->
  (forall v, vshape v = (r, c, s) -> vshape (Transpose_apply v c r s) = (c, r, s) /\
                                     same_map (Transpose_apply v c r s) v lat_transpose) /\
  (forall b, exists nb, Transpose_apply_to_bbox (norm_box b r c s) c r s = Ok nb /\
                        box_eq (denorm_box nb c r s) (lat_box lat_transpose b)).
Proof.
  intros r c s Hr Hc Hs. destruct (Transpose_follows r c s Hr Hc Hs) as (A & _ & B & _). split; assumption.
Qed.
Print Assumptions C02_Transpose.

Theorem C02_RandomRotate90 : forall r c s n ax, (0 < r)%Z -> (0 < c)%Z -> (0 < s)%Z -> In n factors -> In ax planes ->
  (forall v, vshape v = (r, c, s) ->
     let '(a1, a2) := plane_axes ax in
     exists v', RandomRotate90_apply v n ax c r s = Ok v' /\ RandomRotate90_apply_to_mask v n ax c r s = Ok v' /\
                vshape v' = rot_shape n a1 a2 (r, c, s) /\ same_map v' v (lat_rot90 n a1 a2 (r, c, s))) /\
  (forall b, exists nb, RandomRotate90_apply_to_bbox (norm_box b r c s) n ax c r s = Ok nb /\
     let '(r', c', s') := out_frame r c s n ax in
     let '(a1, a2) := plane_axes ax in
     box_eq (denorm_box nb r' c' s') (lat_box (lat_rot90 n a1 a2 (r, c, s)) b)).
Proof.
  intros r c s n ax Hr Hc Hs Hn Ha. split.
  - intros v Hv. apply (RandomRotate90_image r c s v n ax Hv Hn Ha).
  - intros b. apply RandomRotate90_bbox; assumption.
Qed.
Print Assumptions C02_RandomRotate90.

Theorem C02_PadIfNeeded : forall r c s pt pb pl pr pf pk bm val mval b,
  (0 < r)%Z -> (0 < c)%Z -> (0 < s)%Z -> pad_ok pt pb pl pr pf pk ->
  (forall v, vshape v = (r, c, s) ->
     exists vi vm,
       PadIfNeeded_apply "constant" mval val v pt pb pl pr pf pk c r s = Ok vi /\
       PadIfNeeded_apply_to_mask "constant" mval val v pt pb pl pr pf pk c r s = Ok vm /\
       vshape vi = (r + pt + pb, c + pl + pr, s + pf + pk)%Z /\ vshape vm = vshape vi /\
       padded_from vi v pt pl pf val /\ padded_from vm v pt pl pf mval) /\
  (exists nb, PadIfNeeded_apply_to_bbox bm mval val (norm_box b r c s) pt pb pl pr pf pk c r s = Ok nb /\
     box_eq (denorm_box nb (r + pt + pb) (c + pl + pr) (s + pf + pk))
            (lat_box (lat_shift (- pt) (- pl) (- pf)) b)).
Proof.
  intros. split.
  - intros v Hv. apply PadIfNeeded_image_mask; assumption.
  - apply PadIfNeeded_bbox; assumption.
Qed.
Print Assumptions C02_PadIfNeeded.

Theorem C02_crop_window : forall r c s b x1 y1 z1 x2 y2 z2,
  (0 < r)%Z -> (0 < c)%Z -> (0 < s)%Z -> (x1 < x2)%Z -> (y1 < y2)%Z -> (z1 < z2)%Z ->
  exists nb, bbox_crop (norm_box b r c s) x1 y1 z1 x2 y2 z2 r c s = Ok nb /\
    box_eq (denorm_box nb (y2 - y1) (x2 - x1) (z2 - z1)) (lat_box (lat_shift y1 x1 z1) b).
Proof. intros. apply bbox_crop_lat; assumption. Qed.
Print Assumptions C02_crop_window.

(* RandomSizedCrop: the box is cut by exactly the window the image path cuts (d_start = 0 on every path) *)
From DV.proofs Require Import SizedCrop.
From DV.gen Require Import Gen_cls_crops_dicom.
Theorem C02_RandomSizedCrop_box_uses_the_image_window : forall sd sh sw b hs ws ch cw cd ip c r s,
  RandomSizedCrop_apply_to_bbox sd sh sw b hs ws ch cw cd ip c r s =
  crop_bbox_by_coords b (get_random_crop_coords r c s ch cw cd hs ws 0) ch cw cd r c s.
Proof. exact RandomSizedCrop_bbox_uses_the_image_window. Qed.
Print Assumptions C02_RandomSizedCrop_box_uses_the_image_window.

(* every named parameter of a target path (apply, apply_to_mask, apply_to_bbox, apply_to_keypoint, ...) of every
   transform class is one the class's parameter methods put into the shared parameter dictionary, so no box path can
   silently fall back to a default plane / offset / factor while the image follows the drawn one; the one formal
   that is never supplied, RandomSizedCrop's d_start, is unsupplied for every target alike (regenerated table) *)
From DV.gen Require Import Gen_classtab.
From DV.proofs Require Import ClassFacts CF_C01.
Theorem C02_every_parameter_a_target_path_names_is_supplied : forallb param_row_ok param_table = true.
Proof. exact target_path_parameters_are_supplied. Qed.
Print Assumptions C02_every_parameter_a_target_path_names_is_supplied.

(* CropAndPad's box path (regenerated `crop_and_pad_bbox`): for every box, every crop window and every pad amounts
   the box is moved by BOTH shifts of the image path -- minus the crop origin when something is cropped, plus the
   near-side pad when something is padded -- and expressed in the result frame *)
From DV.gen Require Import Gen_crops_functional.
From DV.proofs Require Import CropPadBox.
Theorem C02_CropAndPad_box_gets_the_crop_and_the_pad_shift : forall b cp pp r c s rr rc rs,
  (0 < r)%Z -> (0 < c)%Z -> (0 < s)%Z -> (0 < rr)%Z -> (0 < rc)%Z -> (0 < rs)%Z ->
  crop_and_pad_bbox b cp pp r c s rr rc rs = Ok (moved_box b cp pp r c s rr rc rs).
Proof. exact crop_and_pad_bbox_spec. Qed.
Print Assumptions C02_CropAndPad_box_gets_the_crop_and_the_pad_shift.

(* the crop CLASSES hand their window and the frame to bbox_crop in the right slots: for Crop and for
   RandomCropFromBorders (whose image path cuts [y1,y2) x [x1,x2) x [z1,z2)) the returned box, read in the cropped frame,
   is the input box shifted by the window origin -- for every frame (rows, cols, slices pairwise different included),
   every window and every real box *)
From DV.gen Require Import Gen_cls_crops.
Theorem C02_crop_classes_cut_the_box_by_the_image_window : forall r c s b x1 y1 z1 x2 y2 z2,
  (0 < r)%Z -> (0 < c)%Z -> (0 < s)%Z -> (x1 < x2)%Z -> (y1 < y2)%Z -> (z1 < z2)%Z ->
  (exists nb, Crop_apply_to_bbox x2 x1 y2 y1 z2 z1 (norm_box b r c s) c r s = Ok nb /\
     box_eq (denorm_box nb (y2 - y1) (x2 - x1) (z2 - z1)) (lat_box (lat_shift y1 x1 z1) b)) /\
  (exists nb, RandomCropFromBorders_apply_to_bbox (norm_box b r c s) x1 x2 y1 y2 z1 z2 c r s = Ok nb /\
     box_eq (denorm_box nb (y2 - y1) (x2 - x1) (z2 - z1)) (lat_box (lat_shift y1 x1 z1) b)).
Proof.
  intros. unfold Crop_apply_to_bbox, RandomCropFromBorders_apply_to_bbox. cbv beta iota.
  split; apply bbox_crop_lat; assumption.
Qed.
Print Assumptions C02_crop_classes_cut_the_box_by_the_image_window.
