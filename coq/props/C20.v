(* C20 -- Dropout transforms alter only the declared regions.
   Everything below is regenerated from the source: F.cutout, F.pixel_dropout, the image and mask
   paths of CoarseDropout / GridDropout / PixelDropout, the keypoint membership test and filter,
   and the hole samplers (the loop `for _ in range(count): ...; holes.append(h)` is emitted as a count
   function and a per-iteration function; int- and float-sized configurations are two
   specialisations selected by the isinstance tests of the source). *)
From Coq Require Import ZArith QArith List Bool String.
Import ListNotations.
From DV.lib Require Import PyNum PyRt.
From DV.model Require Import Arrays NpRt.
From DV.gen Require Import Gen_dropout_functional Gen_pixel_dropout Gen_cls_coarse Gen_cls_grid Gen_cls_pixeldropout.
From DV.proofs Require Import Dropout GridHoles.
Open Scope Z_scope.

(* holes inside the frame: exactly the voxels of the holes are set to the fill value, all others are
   the input voxels; shape unchanged *)
Theorem C20_cutout_is_exact : forall holes v fill, Forall (hole_in (vshape v)) holes ->
  vshape (cutout v holes fill) = vshape v /\
  forall o, vat (cutout v holes fill) o = if existsb (in_hole o) holes then Fill fill else vat v o.
Proof. exact cutout_exact. Qed.
Print Assumptions C20_cutout_is_exact.

(* image and mask paths: the same holes; without a mask fill value the mask is returned untouched *)
Theorem C20_mask_holes_coincide_with_image_holes :
  (forall v holes fv mf c r s, CoarseDropout_apply v holes fv (Some mf) c r s = cutout v holes fv /\
                               CoarseDropout_apply_to_mask v holes fv (Some mf) c r s = cutout v holes mf) /\
  (forall v holes fv c r s, CoarseDropout_apply_to_mask v holes fv None c r s = v) /\
  (forall sfv smf v holes fv mfv c r s,
     GridDropout_apply sfv smf v holes fv mfv c r s = cutout v holes sfv /\
     GridDropout_apply_to_mask sfv smf v holes fv mfv c r s = match smf with Some m => cutout v holes m | None => v end).
Proof. repeat split; intros; try reflexivity; destruct smf; reflexivity. Qed.
Print Assumptions C20_mask_holes_coincide_with_image_holes.

Theorem C20_coarse_holes_respect_limits_int :
  (forall mxd mxh mxn mxw mnd mnh mnn mnw img d n,
     CoarseDropoutI_get_params_dependent_on_targets_count mxd mxh mxn mxw mnd mnh mnn mnw img d = Ok n -> mnn <= n <= mxn) /\
  (forall mxd mxh mxn mxw mnd mnh mnn mnw img d1 d2 d3 d4 d5 d6 x1 y1 z1 x2 y2 z2,
     0 < mnh -> 0 < mnw -> 0 < mnd ->
     CoarseDropoutI_get_params_dependent_on_targets_body mxd mxh mxn mxw mnd mnh mnn mnw img d1 d2 d3 d4 d5 d6
       = Ok (x1, y1, z1, x2, y2, z2) ->
     hole_in (vshape img) (x1, y1, z1, x2, y2, z2) /\
     mnh <= y2 - y1 <= mxh /\ mnw <= x2 - x1 <= mxw /\ mnd <= z2 - z1 <= mxd).
Proof. split; [exact CoarseDropout_count_I | exact CoarseDropout_hole_I]. Qed.
Print Assumptions C20_coarse_holes_respect_limits_int.

Theorem C20_coarse_holes_respect_limits_fractional :
  forall mxd mxh mxn mxw mnd mnh mnn mnw img d1 d2 d3 d4 d5 d6 x1 y1 z1 x2 y2 z2,
  (0 <= mnh <= mxh)%Q -> (0 <= mnw <= mxw)%Q -> (0 <= mnd <= mxd)%Q ->
  let '(H, W, D) := vshape img in 0 <= H -> 0 <= W -> 0 <= D ->
  CoarseDropoutF_get_params_dependent_on_targets_body mxd mxh mxn mxw mnd mnh mnn mnw img d1 d2 d3 d4 d5 d6
    = Ok (x1, y1, z1, x2, y2, z2) ->
  hole_in (H, W, D) (x1, y1, z1, x2, y2, z2) /\
  (inject_Z (y2 - y1) <= inject_Z H * mxh /\ inject_Z (x2 - x1) <= inject_Z W * mxw /\
   inject_Z (z2 - z1) <= inject_Z D * mxd)%Q.
Proof. exact CoarseDropout_hole_F. Qed.
Print Assumptions C20_coarse_holes_respect_limits_fractional.

Theorem C20_grid_holes_lie_inside_the_frame :
  (forall hx hy hz ro ratio sx sy sz umax umin img i j k du dx dy dz Hh W D x1 y1 z1 x2 y2 z2,
     vshape img = (Hh, W, D) -> 0 <= Hh -> 0 <= W -> 0 <= D -> 0 <= i -> 0 <= j -> 0 <= k ->
     GridDropoutS_get_params_dependent_on_targets_body hx hy hz ro ratio sx sy sz umax umin img i j k du dx dy dz
       = Ok (x1, y1, z1, x2, y2, z2) ->
     hole_in (Hh, W, D) (x1, y1, z1, x2, y2, z2)) /\
  (forall hx hy hz ro ratio sx sy sz a b img i j k du dx dy dz Hh W D x1 y1 z1 x2 y2 z2,
     vshape img = (Hh, W, D) -> a <> 0 -> b <> 0 ->
     GridDropoutS_get_params_dependent_on_targets_body hx hy hz ro ratio sx sy sz (Some b) (Some a) img i j k du dx dy dz
       = Ok (x1, y1, z1, x2, y2, z2) ->
     x2 - x1 <= b - 1 /\ y2 - y1 <= b - 1 /\ z2 - z1 <= b - 1).
Proof. split; [exact grid_hole_in_frame | exact grid_hole_below_unit_max]. Qed.
Print Assumptions C20_grid_holes_lie_inside_the_frame.

(* the grid repeats over the whole frame: extent // unit + 1 layers along EACH axis with that axis' own extent and
   unit; a configured holes_number is exceeded along its axis *)
Theorem C20_grid_repeats_over_the_whole_frame :
  (forall hx hy hz ro ratio sx sy sz img du dx dy dz Hh W D nx ny nz,
     vshape img = (Hh, W, D) ->
     GridDropoutS_get_params_dependent_on_targets_count (Some hx) (Some hy) (Some hz) ro ratio sx sy sz None None img du dx dy dz
       = Ok (nx, ny, nz) ->
     nx = W / (W / hx) + 1 /\ ny = Hh / (Hh / hy) + 1 /\ nz = D / (D / hz) + 1 /\ hx < nx /\ hy < ny /\ hz < nz) /\
  (forall hx hy hz ro ratio sx sy sz a b img du dx dy dz Hh W D nx ny nz,
     vshape img = (Hh, W, D) -> a <> 0 -> b <> 0 ->
     GridDropoutS_get_params_dependent_on_targets_count hx hy hz ro ratio sx sy sz (Some b) (Some a) img du dx dy dz
       = Ok (nx, ny, nz) ->
     a <= du <= b /\ nx = W / du + 1 /\ ny = Hh / du + 1 /\ nz = D / du + 1).
Proof. split; [exact grid_count_holes_number | exact grid_count_unit_size]. Qed.
Print Assumptions C20_grid_repeats_over_the_whole_frame.

(* a keypoint is removed iff it lies inside some hole, half-open on all three axes; survivors keep
   their order and values *)
Theorem C20_keypoint_removed_iff_inside_a_hole : forall kps holes kp,
  In kp (CoarseDropoutK_apply_to_keypoints kps holes) <->
  In kp kps /\ forall h, In h holes -> ~ kp_inside kp h.
Proof. exact keypoints_removed_iff. Qed.
Print Assumptions C20_keypoint_removed_iff_inside_a_hole.

Theorem C20_pixel_dropout_is_exact :
  (forall img m value,
     vshape (pixel_dropout img m value) = vshape img /\
     forall o, exists q, (q == value)%Q /\ vat (pixel_dropout img m value) o = if m o then Fill q else vat img o) /\
  (forall mdv img m dv c r s,
     match mdv with
     | None => PixelDropout_apply_to_mask mdv img m dv c r s = img
     | Some q => PixelDropout_apply_to_mask mdv img m dv c r s = pixel_dropout img m q
     end).
Proof. split; [exact pixel_dropout_exact | exact PixelDropout_mask_same_mask]. Qed.
Print Assumptions C20_pixel_dropout_is_exact.

(* non-vacuity: boundary membership (a keypoint ON the far face stays, on the near face goes) *)
Example C20_boundary :
  CoarseDropoutK_apply_to_keypoints [(2, 3, 1, 0, 1)%Q; (4, 3, 1, 0, 1)%Q; (3, 3, 3, 0, 1)%Q] [(2, 1, 0, 4, 5, 3)]
  = [(4, 3, 1, 0, 1)%Q; (3, 3, 3, 0, 1)%Q].
Proof. vm_compute. reflexivity. Qed.
