#!/usr/bin/env python3
"""Writes /verif/MANIFEST.json from tools/props.py (claimed checks) and properties.jsonl."""
import json
import os
import sys

VERIF = os.path.abspath(os.path.join(os.path.dirname(__file__), '..'))
sys.path.insert(0, os.path.join(VERIF, 'tools'))
import props as P  # noqa

ids = [json.loads(l)['id'] for l in open(os.path.join(VERIF, 'properties.jsonl'))]
checks = []
for pid in ids:
    if pid not in P.PROPS:
        continue
    c = P.PROPS[pid]
    checks.append({
        'property_id': pid,
        'quick_cmd': './check %s --tier quick' % pid,
        'thorough_cmd': './check %s --tier thorough' % pid,
        'evidence_file': 'evidence/%s.json' % pid,
        'replay_cmd_template': './check %s --replay {path}' % pid,
        'engine': 'coq-proof',
        'level_claimed': {'category': 'proof', 'text': c['level_text'], 'design_ref': 'DESIGN.md section 5 (%s)' % pid},
        'level_note': c['level_note'],
        'technique': c.get('technique', 'machine-checked proof in Coq 8.16.1 over a model regenerated from the source '
                                        '(translator) + correspondence check model vs implementation'),
    })
na = [{'property_id': pid, 'reason': P.NOT_CLAIMED.get(pid, 'check not built yet in this round (design in DESIGN.md section 5)')}
      for pid in ids if pid not in P.PROPS]
man = {
    'version': 1,
    'setup_cmd': 'tools/setup.sh',
    'hooks': {
        'guard': 'DICAUGMENT_VERIF',
        'enable': 'no source hooks are needed: all observation is done from the harness process (PYTHONPATH=/repo); '
                  'the guard name is reserved and unused',
        'baseline_off_cmd': 'cd /repo && /venv/bin/python -m pytest -ra -q -p no:cacheprovider --timeout=900 '
                            '--continue-on-collection-errors',
        'source_commits': [],
        'add_only': True,
    },
    'engines': [{'name': 'coq-proof', 'path': 'tools/check.py', 'serves_properties': [c['property_id'] for c in checks],
                 'kind_free_text': 'Python-ast -> Gallina translator, Coq 8.16.1 proofs, vm_compute correspondence, '
                                   'implementation-side failing-input search'}],
    'checks': checks,
    'not_applicable': na,
    'notes': 'Every check regenerates coq/gen from /repo (VERIF_REPO overrides), rebuilds the proof closure, runs the '
             'correspondence and the failing-input search, and rewrites evidence/<id>.json. See DESIGN.md.',
}
json.dump(man, open(os.path.join(VERIF, 'MANIFEST.json'), 'w'), indent=1)
print('MANIFEST.json: %d checks, %d not claimed' % (len(checks), len(na)))
