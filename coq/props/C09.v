(* C09 -- Same seed, same result.
   (1) Every function of the package that reads entropy or exposes an iteration order reads it
       from Python's random module or from a NumPy generator seeded from it -- never from
       numpy's global generator, the OS, the clock, or the iteration order of a set; object
       identity (id()) is used for the replay key only.  Decided over the table regenerated from
       the whole package source on every run.
   (2) In the scheduling model (validated against recorded draws on every run) a call reads a
       PREFIX of the draw stream and nothing else: the result is a function of (tree, data,
       prefix); a pipeline call always consumes at least one draw, so a second call without
       reseeding continues with different draws. *)
From Coq Require Import List QArith Bool String Arith.
Import ListNotations.
From DV.gen Require Import Gen_classtab.
From DV.model Require Import Framework.
From DV.proofs Require Import ClassFacts CF_C09 C09_fw.
Open Scope list_scope.

Theorem C09_entropy_only_from_python_random :
  forallb (fun r => entropy_row_ok r && identity_row_ok r) entropy_table = true.
Proof. exact entropy_ok. Qed.
Print Assumptions C09_entropy_only_from_python_random.

Theorem C09_a_call_reads_a_prefix_of_the_draw_stream :
  forall (data : Type) (sem : nat -> data -> data) t force d ds d' tr ds',
  run data sem t force d ds = Some (d', tr, ds') -> exists pre, ds = pre ++ ds' /\ (List.length ds' <= List.length ds)%nat.
Proof. exact unread_draws_irrelevant. Qed.
Print Assumptions C09_a_call_reads_a_prefix_of_the_draw_stream.

Theorem C09_a_pipeline_call_advances_the_stream :
  forall (data : Type) (sem : nat -> data -> data) p kids d ds d' tr ds',
  run data sem (Comp p kids) false d ds = Some (d', tr, ds') -> exists u pre, ds = DU u :: pre ++ ds'.
Proof. exact compose_call_advances. Qed.
Print Assumptions C09_a_pipeline_call_advances_the_stream.

(* non-vacuity: the table has rows, and a concrete run consumes draws *)
Example C09_table_has_rows : Nat.leb 20 (List.length entropy_table) = true.
Proof. vm_compute. reflexivity. Qed.
Example C09_concrete_run :
  run nat (fun id d => (id + d)%nat) (Comp 1 [Leaf 1 (1#2) false; Leaf 2 (1#2) false]) false 0%nat
      [DU (1#4); DU (1#4); DU (3#4); DU (1#8)]
  = Some (1%nat, [1%nat], [DU (1#8)]).
Proof. vm_compute. reflexivity. Qed.
