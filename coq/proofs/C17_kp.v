(* C17 -- group laws of the lattice keypoint maps incl. angle and scale (generated code). *)
From DV.lib Require Import PyNum PyRt Angle.
From DV.gen Require Import Gen_keypoints_utils Gen_geom_functional.
From DV.proofs Require Import Tac KpTac C17_box.
From Coq Require Import Lqa Lia.
Open Scope Q_scope.

Definition angle_ok (k : kp) : Prop := let '(_, _, _, a, _) := k in 0 <= a /\ a < M.

Ltac mod_flat := to_norm; norm_flat.
Ltac mod_close_any := norm_close_any.
Ltac mod_close k := norm_close k.

Section Frame.
Variables r c s : Z.

Lemma kp_vflip_invol k : angle_ok k -> kp_eq (keypoint_vflip (keypoint_vflip k r c s) r c s) k.
Proof.
  destruct_kp k. intros [A0 A1]. unfold keypoint_vflip, keypoint_vflip_raw. cbn.
  to_norm. repeat split; try lra. mod_flat. mod_close 0%Z.
Qed.

Lemma kp_hflip_invol k : angle_ok k -> kp_eq (keypoint_hflip (keypoint_hflip k r c s) r c s) k.
Proof.
  destruct_kp k. intros [A0 A1]. unfold keypoint_hflip, keypoint_hflip_raw. cbn.
  to_norm. repeat split; try lra. mod_flat. mod_close 0%Z.
Qed.

Lemma kp_zflip_invol k : angle_ok k -> kp_eq (keypoint_zflip (keypoint_zflip k r c s) r c s) k.
Proof.
  destruct_kp k. intros [A0 A1]. unfold keypoint_zflip, keypoint_zflip_raw. cbn.
  to_norm. repeat split; try lra. mod_flat. mod_close 0%Z.
Qed.

Lemma kp_flips_commute k :
  kp_eq (keypoint_vflip (keypoint_hflip k r c s) r c s) (keypoint_hflip (keypoint_vflip k r c s) r c s) /\
  kp_eq (keypoint_vflip (keypoint_zflip k r c s) r c s) (keypoint_zflip (keypoint_vflip k r c s) r c s) /\
  kp_eq (keypoint_hflip (keypoint_zflip k r c s) r c s) (keypoint_zflip (keypoint_hflip k r c s) r c s).
Proof.
  destruct_kp k.
  unfold keypoint_vflip, keypoint_vflip_raw, keypoint_hflip, keypoint_hflip_raw,
         keypoint_zflip, keypoint_zflip_raw. cbn. to_norm.
  repeat split; try lra; ang_eq.
Qed.

Definition res_kp_eq (a b : res kp) : Prop :=
  match a, b with Ok x, Ok y => kp_eq x y | Raise e, Raise e' => e = e' | _, _ => False end.

Lemma kp_flip_invol k d : In d flipcodes -> angle_ok k ->
  res_kp_eq (do k1 <- keypoint_flip k d r c s; keypoint_flip k1 d r c s) (Ok k).
Proof.
  intros H. destruct_kp k. intros [A0 A1]. unfold flipcodes in H. in_cases H;
  unfold keypoint_flip, keypoint_vflip, keypoint_vflip_raw, keypoint_hflip, keypoint_hflip_raw,
         keypoint_zflip, keypoint_zflip_raw; cbn; to_norm; repeat split; try lra;
  mod_flat; mod_close_any.
Qed.

Lemma kp_flip_all k :
  res_kp_eq (keypoint_flip k (-1) r c s)
            (Ok (keypoint_zflip (keypoint_vflip (keypoint_hflip k r c s) r c s) r c s)).
Proof.
  destruct_kp k.
  unfold keypoint_flip, keypoint_vflip, keypoint_vflip_raw, keypoint_hflip, keypoint_hflip_raw,
         keypoint_zflip, keypoint_zflip_raw. cbn. repeat split; reflexivity.
Qed.

Lemma kp_transpose_invol k : angle_ok k -> kp_eq (keypoint_transpose (keypoint_transpose k)) k.
Proof.
  destruct_kp k. intros [A0 A1]. unfold M in A1. unfold keypoint_transpose. cbn.
  pose proof pi_pos as P.
  div2.
  repeat match goal with
  | |- context [Qle_bool ?a ?b] => destruct (Qle_bool_spec a b)
  end; repeat split; lra.
Qed.

End Frame.

(* quarter turns: the frame is r x c x s before and (after an odd number of turns) permuted *)
Definition rot_frame (ax : string) (k : Z) (f : Z * Z * Z) : Z * Z * Z :=
  let '(r, c, s) := f in
  if Z.even k then f
  else if streq ax "xy" then (c, r, s) else if streq ax "yz" then (s, c, r) else (r, s, c).

Definition kp_rot90_in (f : Z * Z * Z) (k : kp) (n : Z) (ax : string) : res kp :=
  let '(r, c, s) := f in keypoint_rot90 k n ax r c s.

Lemma kp_rot90_inverse f k n ax : In n factors -> In ax planes -> angle_ok k ->
  res_kp_eq (do k1 <- kp_rot90_in f k n ax; kp_rot90_in (rot_frame ax n f) k1 ((4 - n) mod 4) ax) (Ok k).
Proof.
  intros Hn Ha. destruct f as [[r c] s]. destruct_kp k. intros [A0 A1].
  unfold factors in Hn. unfold planes in Ha.
  in_cases Hn; in_cases Ha;
  unfold kp_rot90_in, rot_frame, keypoint_rot90, keypoint_rot90_raw; cbn; to_norm;
  repeat split; try lra; mod_flat;
  mod_close_any.
Qed.

Lemma kp_rot90_four f k ax : In ax planes -> angle_ok k ->
  res_kp_eq (do k1 <- kp_rot90_in f k 1 ax;
             do k2 <- kp_rot90_in (rot_frame ax 1 f) k1 1 ax;
             do k3 <- kp_rot90_in f k2 1 ax;
             kp_rot90_in (rot_frame ax 1 f) k3 1 ax) (Ok k).
Proof.
  intros Ha. destruct f as [[r c] s]. destruct_kp k. intros [A0 A1]. unfold planes in Ha.
  in_cases Ha;
  unfold kp_rot90_in, rot_frame, keypoint_rot90, keypoint_rot90_raw; cbn; to_norm;
  repeat split; try lra; mod_flat;
  mod_close_any.
Qed.

(* ---- relations BETWEEN the keypoint maps (dihedral group of the xy plane), angle and scale included ---- *)
Section Dihedral.
Variables r c s : Z.

(* a quarter turn = transpose, then the vertical flip in the transposed frame (rows = c) *)
Lemma kp_rot90_is_transpose_vflip k : angle_ok k ->
  res_kp_eq (keypoint_rot90 k 1 "xy" r c s) (Ok (keypoint_vflip (keypoint_transpose k) c r s)).
Proof.
  destruct_kp k. intros [A0 A1]. unfold M in A1. pose proof pi_pos as P.
  unfold keypoint_rot90, keypoint_rot90_raw, keypoint_vflip, keypoint_vflip_raw, keypoint_transpose. cbn.
  destruct (Qle_bool_spec ka (pi / 2)); to_norm; repeat split; try lra; ang_eq.
Qed.

(* three quarter turns = transpose, then the horizontal flip in the transposed frame (cols = r) *)
Lemma kp_rot270_is_transpose_hflip k : angle_ok k ->
  res_kp_eq (keypoint_rot90 k 3 "xy" r c s) (Ok (keypoint_hflip (keypoint_transpose k) c r s)).
Proof.
  destruct_kp k. intros [A0 A1]. unfold M in A1. pose proof pi_pos as P.
  unfold keypoint_rot90, keypoint_rot90_raw, keypoint_hflip, keypoint_hflip_raw, keypoint_transpose. cbn.
  destruct (Qle_bool_spec ka (pi / 2)); to_norm; repeat split; try lra; ang_eq.
Qed.

(* a half turn of the xy plane = both flips of that plane *)
Lemma kp_rot180_is_two_flips k :
  res_kp_eq (keypoint_rot90 k 2 "xy" r c s) (Ok (keypoint_vflip (keypoint_hflip k r c s) r c s)).
Proof.
  destruct_kp k.
  unfold keypoint_rot90, keypoint_rot90_raw, keypoint_vflip, keypoint_vflip_raw, keypoint_hflip, keypoint_hflip_raw. cbn.
  to_norm; repeat split; try lra; ang_eq.
Qed.

(* conjugating k quarter turns of the xy plane by the vertical flip gives 4-k quarter turns *)
Lemma kp_vflip_conjugates_rot90 k n : In n factors ->
  res_kp_eq (do k1 <- keypoint_rot90 (keypoint_vflip k r c s) n "xy" r c s;
             Ok (let '(r1, c1, s1) := rot_frame "xy" n (r, c, s) in keypoint_vflip k1 r1 c1 s1))
            (keypoint_rot90 k ((4 - n) mod 4) "xy" r c s).
Proof.
  intros Hn. destruct_kp k. unfold factors in Hn.
  in_cases Hn;
  unfold rot_frame, keypoint_rot90, keypoint_rot90_raw, keypoint_vflip, keypoint_vflip_raw; cbn; to_norm;
  repeat split; try lra; ang_eq.
Qed.

(* the flip along z commutes with the quarter turns of the xy plane *)
Lemma kp_zflip_commutes_rot90_xy k n : In n factors ->
  res_kp_eq (do k1 <- keypoint_rot90 k n "xy" r c s; Ok (keypoint_zflip k1 r c s))
            (keypoint_rot90 (keypoint_zflip k r c s) n "xy" r c s).
Proof.
  intros Hn. destruct_kp k. unfold factors in Hn.
  in_cases Hn;
  unfold keypoint_rot90, keypoint_rot90_raw, keypoint_zflip, keypoint_zflip_raw; cbn; to_norm;
  repeat split; try lra; ang_eq.
Qed.

(* factor n is n single quarter turns (each in the frame the previous one left) *)
Lemma kp_rot90_two f k ax : In ax planes ->
  res_kp_eq (do k1 <- kp_rot90_in f k 1 ax; kp_rot90_in (rot_frame ax 1 f) k1 1 ax) (kp_rot90_in f k 2 ax).
Proof.
  intros Ha. destruct f as [[r0 c0] s0]. destruct_kp k. unfold planes in Ha.
  in_cases Ha;
  unfold kp_rot90_in, rot_frame, keypoint_rot90, keypoint_rot90_raw; cbn; to_norm;
  repeat split; try lra; ang_eq.
Qed.
Lemma kp_rot90_three f k ax : In ax planes ->
  res_kp_eq (do k1 <- kp_rot90_in f k 2 ax; kp_rot90_in f k1 1 ax) (kp_rot90_in f k 3 ax).
Proof.
  intros Ha. destruct f as [[r0 c0] s0]. destruct_kp k. unfold planes in Ha.
  in_cases Ha;
  unfold kp_rot90_in, rot_frame, keypoint_rot90, keypoint_rot90_raw; cbn; to_norm;
  repeat split; try lra; ang_eq.
Qed.
End Dihedral.

(* non-vacuity: a concrete keypoint meeting the hypotheses *)
Example angle_ok_example : angle_ok (3, 4, 5, 1, 2).
Proof. unfold angle_ok, M. pose proof pi_pos. split; [lra|]. 
  assert (3 < pi) by (unfold Qlt; vm_compute; reflexivity). lra. Qed.
