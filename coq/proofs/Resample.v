(* Resample.v -- the SciPy-zoom based functionals over the view model (model/Arrays.v v_zoom: output
   extent int(round(n * z)); order 0 copies input voxels, higher orders produce mixtures). *)
From Coq Require Import ZArith QArith Qround List Bool Lia Lqa.
From DV.lib Require Import PyNum PyRt.
From DV.model Require Import Arrays NpRt.
From DV.gen Require Import Gen_geom_arrays Gen_cls_resize.
From DV.proofs Require Import Tac Values Dicom C18_pixel.
Open Scope Q_scope.

Lemma zoom_len_exact (n t : Z) : (0 < n)%Z -> zoom_len n (inject_Z t / inject_Z n) = t.
Proof.
  intros Hn. unfold zoom_len.
  assert (E : inject_Z n * (inject_Z t / inject_Z n) == inject_Z t) by (field; apply inject_pos; exact Hn).
  rewrite (py_round_comp _ _ E). apply py_round_inject.
Qed.

(* F.resize returns exactly the requested shape, for every interpolation order *)
Theorem resize_shape v H W D h w d order : vshape v = (H, W, D) -> (0 < H)%Z -> (0 < W)%Z -> (0 < D)%Z ->
  exists v', resize v h w d order = Ok v' /\ vshape v' = (h, w, d).
Proof.
  intros Sh PH PW PD. unfold resize. rewrite Sh.
  destruct ((h =? H)%Z && (w =? W)%Z && (d =? D)%Z) eqn:E.
  - apply andb_true_iff in E. destruct E as [E E3]. apply andb_true_iff in E. destruct E as [E1 E2].
    apply Z.eqb_eq in E1, E2, E3. subst. exists v. split; [reflexivity | exact Sh].
  - unfold _resize. rewrite Sh. rewrite !divq_ok by (apply inject_pos; assumption). cbn.
    eexists. split; [reflexivity|]. unfold v_zoom. rewrite Sh. cbn.
    rewrite !zoom_len_exact by assumption. reflexivity.
Qed.

(* with order 0 every voxel of the result is an input voxel (no mixture), whatever the target size *)
Lemma fills_zoom0 P zy zx zz v : fills_in P v -> fills_in P (v_zoom zy zx zz 0 v).
Proof.
  intros Hf. unfold v_zoom. destruct (vshape v) as [[h w] d]. intros [[i j] k]. cbn. apply Hf.
Qed.

Theorem resize_nearest_copies_voxels P v h w d v' : fills_in P v -> resize v h w d 0 = Ok v' -> fills_in P v'.
Proof.
  intros Hf. unfold resize. destruct (vshape v) as [[H W] D] eqn:Sh.
  destruct (_ && _); [intros E; inversion E; subst; exact Hf|].
  unfold _resize. rewrite Sh. intros E. res_inv. apply fills_zoom0. exact Hf.
Qed.

(* and a spline order >= 1 does blend: the model marks every voxel of a resized volume as a mixture *)
Lemma zoom_blends zy zx zz order v o : order <> 0%Z -> vat (v_zoom zy zx zz order v) o = Mix.
Proof.
  intros N. unfold v_zoom. destruct (vshape v) as [[h w] d]. destruct o as [[i j] k]. cbn.
  destruct (Z.eqb_spec order 0); [contradiction | reflexivity].
Qed.

(* ---- classes ---- *)
Theorem Resize_image_and_mask sd sh sw v ip c r s H W D : vshape v = (H, W, D) -> (0 < H)%Z -> (0 < W)%Z -> (0 < D)%Z ->
  exists vi vm, Resize_apply sd sh sw v ip c r s = Ok vi /\ Resize_apply_to_mask sd sh sw v ip c r s = Ok vm /\
    vshape vi = (sh, sw, sd) /\ vshape vm = (sh, sw, sd) /\
    forall P, fills_in P v -> fills_in P vm.
Proof.
  intros Sh PH PW PD. unfold Resize_apply_to_mask, Resize_apply.
  destruct (resize_shape v H W D sh sw sd ip Sh PH PW PD) as (vi & Ei & Si).
  destruct (resize_shape v H W D sh sw sd 0 Sh PH PW PD) as (vm & Em & Sm).
  exists vi, vm. repeat split; try assumption.
  intros P Hf. eapply resize_nearest_copies_voxels; eassumption.
Qed.

Theorem RandomScale_image_and_mask v sc ip c r s :
  vshape (RandomScale_apply v sc ip c r s) = vshape (RandomScale_apply_to_mask v sc ip c r s) /\
  (let '(H, W, D) := vshape v in vshape (RandomScale_apply v sc ip c r s) = (zoom_len H sc, zoom_len W sc, zoom_len D sc)) /\
  forall P, fills_in P v -> fills_in P (RandomScale_apply_to_mask v sc ip c r s).
Proof.
  unfold RandomScale_apply_to_mask, RandomScale_apply, scale. cbn zeta. unfold v_zoom.
  destruct (vshape v) as [[H W] D] eqn:Sh. cbn. repeat split.
  intros P Hf. pose proof (fills_zoom0 P sc sc sc v Hf) as Z0. unfold v_zoom in Z0. rewrite Sh in Z0. exact Z0.
Qed.

(* ---- Longest / SmallestMaxSize: the image is zoomed by max_size / extreme extent (not at all when that is 1),
   and the header hook uses the very same factor ---- *)
Definition zoomed (f : Q) (ip : Z) (v : view) : view := if Qne_bool f 1 then v_zoom f f f ip v else v.

Lemma LongestMaxSize_image v m ip H W D : vshape v = (H, W, D) -> (0 < H)%Z -> (0 < W)%Z -> (0 < D)%Z ->
  LongestMaxSize_apply v m ip W H D = Ok (zoomed (inject_Z m / inject_Z (Z.max (Z.max H W) D)) ip v).
Proof.
  intros Sh PH PW PD. unfold LongestMaxSize_apply, longest_max_size, _func_max_size_max. rewrite Sh.
  replace (Z.max (Z.max W H) D) with (Z.max (Z.max H W) D) by lia.
  rewrite divq_ok by (apply inject_pos; lia). cbn. unfold zoomed, scale.
  destruct (Qne_bool _ 1); reflexivity.
Qed.

Lemma SmallestMaxSize_image v m ip H W D : vshape v = (H, W, D) -> (0 < H)%Z -> (0 < W)%Z -> (0 < D)%Z ->
  SmallestMaxSize_apply v m ip W H D = Ok (zoomed (inject_Z m / inject_Z (Z.min (Z.min H W) D)) ip v).
Proof.
  intros Sh PH PW PD. unfold SmallestMaxSize_apply, smallest_max_size, _func_max_size_min. rewrite Sh.
  replace (Z.min (Z.min W H) D) with (Z.min (Z.min H W) D) by lia.
  rewrite divq_ok by (apply inject_pos; lia). cbn. unfold zoomed, scale.
  destruct (Qne_bool _ 1); reflexivity.
Qed.

Theorem max_size_image_and_header_share_the_factor v d m ip H W D :
  vshape v = (H, W, D) -> (0 < H)%Z -> (0 < W)%Z -> (0 < D)%Z ->
  (let f := inject_Z m / inject_Z (Z.max (Z.max H W) D) in
   LongestMaxSize_apply v m ip W H D = Ok (zoomed f ip v) /\
   exists d', LongestMaxSize_apply_to_dicom d m ip W H D = Ok d' /\
     h_spacing d' = (fst (h_spacing d) * f, snd (h_spacing d) * f) /\ same_but_spacing d' d) /\
  (let f := inject_Z m / inject_Z (Z.min (Z.min H W) D) in
   SmallestMaxSize_apply v m ip W H D = Ok (zoomed f ip v) /\
   exists d', SmallestMaxSize_apply_to_dicom d m ip W H D = Ok d' /\
     h_spacing d' = (fst (h_spacing d) * f, snd (h_spacing d) * f) /\ same_but_spacing d' d).
Proof.
  intros Sh PH PW PD. split; cbn zeta; split.
  - apply LongestMaxSize_image; assumption.
  - exact (LongestMaxSize_dicom d m ip W H D PH PW PD).
  - apply SmallestMaxSize_image; assumption.
  - exact (SmallestMaxSize_dicom d m ip W H D PH PW PD).
Qed.

(* the extreme side of the result is exactly max_size *)
Lemma Qne_bool_false_eq a b : Qne_bool a b = false -> a == b.
Proof. unfold Qne_bool. intros E. apply negb_false_iff in E. apply Qeq_bool_iff. exact E. Qed.

Theorem longest_side_becomes_max_size v m ip H W D vi :
  vshape v = (H, W, D) -> (0 < H)%Z -> (0 < W)%Z -> (0 < D)%Z ->
  LongestMaxSize_apply v m ip W H D = Ok vi ->
  let '(h', w', d') := vshape vi in
  let M := Z.max (Z.max H W) D in
  (H = M -> h' = m) /\ (W = M -> w' = m) /\ (D = M -> d' = m).
Proof.
  intros Sh PH PW PD E. rewrite (LongestMaxSize_image v m ip H W D Sh PH PW PD) in E. inversion E; subst. clear E.
  unfold zoomed. set (M := Z.max (Z.max H W) D).
  destruct (Qne_bool (inject_Z m / inject_Z M) 1) eqn:N.
  - unfold v_zoom. rewrite Sh. cbn. repeat split; intros EM; rewrite <- EM; apply zoom_len_exact; lia.
  - apply Qne_bool_false_eq in N.
    assert (PM : (0 < M)%Z) by (unfold M; lia).
    assert (Em : m = M).
    { assert (inject_Z m == inject_Z M).
      { rewrite <- (Qmult_1_l (inject_Z M)), <- N. field. apply inject_pos. exact PM. }
      apply inject_Z_injective. assumption. }
    rewrite Sh. cbn. repeat split; intros; lia.
Qed.
