(* TopCheck.v -- the per-transform check of the top-level pipeline object (model/Framework.v, run_top):
   switching the check on changes nothing in what the items do (same data, same draws, same fired leaves), and
   exactly one check follows EACH item of the pipeline, whatever kind of item it is (a transform or a container). *)
From Coq Require Import List QArith Bool Arith Lia.
Import ListNotations.
From DV.model Require Import Framework.

Section Top.
Variable data : Type.
Variable sem : nat -> data -> data.
Notation state := (state data).
Notation then_ := (then_ data).

Lemma then_nil (r : option state) : then_ r (fun d ds => Some (d, [], ds)) = r.
Proof. destruct r as [[[d tr] ds]|]; cbn; [rewrite app_nil_r|]; reflexivity. Qed.

Lemma top_seq_off rk kids : forall d ds, top_seq data false rk kids d ds = seq_with data rk kids d ds.
Proof.
  induction kids as [|k tl IH]; intros d ds; cbn; [reflexivity|].
  unfold mark. rewrite then_nil. destruct (rk k false d ds) as [[[d1 t1] ds1]|]; cbn; [|reflexivity].
  rewrite IH. reflexivity.
Qed.

Lemma fire_always_top_off ls : forall d ds, fire_always_top data sem false ls d ds = fire_always data sem ls d ds.
Proof.
  induction ls as [|k tl IH]; intros d ds; cbn; [reflexivity|].
  destruct k; try reflexivity. destruct ds as [|[u|l] ds']; try reflexivity. cbn. rewrite IH. reflexivity.
Qed.

(* with the check switched off the top-level pipeline is the plain Compose schedule *)
Theorem run_top_off p kids force d ds :
  run_top data sem false p kids force d ds = run data sem (Comp p kids) force d ds.
Proof.
  unfold run_top. cbn [run]. destruct force.
  - apply top_seq_off.
  - destruct ds as [|[u|l] ds']; try reflexivity. destruct (Qltb u p).
    + apply top_seq_off.
    + apply fire_always_top_off.
Qed.

(* the items run one after the other; [trs] holds each item's own trace *)
Inductive items_run (rk : node -> bool -> data -> list draw -> option state)
  : list node -> data -> list draw -> list (list nat) -> data -> list draw -> Prop :=
| IR_nil d ds : items_run rk [] d ds [] d ds
| IR_cons k tl d ds d1 t1 ds1 trs d2 ds2 :
    rk k false d ds = Some (d1, t1, ds1) -> items_run rk tl d1 ds1 trs d2 ds2 ->
    items_run rk (k :: tl) d ds (t1 :: trs) d2 ds2.

Lemma items_run_length rk kids d ds trs d' ds' : items_run rk kids d ds trs d' ds' -> length trs = length kids.
Proof. induction 1; cbn; congruence. Qed.

(* the trace of the checked pipeline: every item's own trace followed by one mark -- one check per item *)
Theorem top_seq_marks chk rk kids : forall d ds d' tr ds',
  top_seq data chk rk kids d ds = Some (d', tr, ds') ->
  exists trs, items_run rk kids d ds trs d' ds' /\ tr = concat (map (fun t => t ++ mark chk) trs).
Proof.
  induction kids as [|k tl IH]; intros d ds d' tr ds'; cbn.
  - intros E. inversion E; subst. exists []. split; [constructor | reflexivity].
  - destruct (rk k false d ds) as [[[d1 t1] ds1]|] eqn:Ek; cbn; [|discriminate].
    destruct (top_seq data chk rk tl d1 ds1) as [[[d2 t2] ds2]|] eqn:Et; [|discriminate].
    intros E. inversion E; subst. destruct (IH _ _ _ _ _ Et) as (trs & Hr & ->).
    exists (t1 :: trs). split; [econstructor; eassumption | reflexivity].
Qed.

(* the same items, the same data and draws, with or without the check *)
Corollary top_seq_same_items rk kids d ds d' tr ds' :
  top_seq data true rk kids d ds = Some (d', tr, ds') ->
  exists trs, seq_with data rk kids d ds = Some (d', concat trs, ds') /\ length trs = length kids /\
              tr = concat (map (fun t => t ++ [O]) trs).
Proof.
  intros E. destruct (top_seq_marks _ _ _ _ _ _ _ _ E) as (trs & Hr & ->).
  exists trs. split; [|split; [eapply items_run_length; eassumption | reflexivity]].
  clear E. induction Hr as [|k tl d ds d1 t1 ds1 trs d2 ds2 Hk Hr IH]; cbn; [reflexivity|].
  rewrite Hk. cbn. rewrite IH. reflexivity.
Qed.

End Top.

(* non-vacuity: a pipeline of a transform, a container and a transform, per-transform check on: three marks,
   one after each item, the container's included *)
Example three_items_three_checks :
  run_top unit (fun _ d => d) true 1 [Leaf 1 1 false; SeqN 1 [Leaf 2 1 false; Leaf 3 1 false]; Leaf 4 1 false] true tt
          [DU 0; DU 0; DU 0; DU 0]
  = Some (tt, [1; 0; 2; 3; 0; 4; 0]%nat, []).
Proof. vm_compute. reflexivity. Qed.
