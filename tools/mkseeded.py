#!/usr/bin/env python3
"""copies the confirmed seeded changes from work/incoming into /verif/seeded/<id>/ and writes meta.json"""
import json, os, shutil, sys
V = '/verif'
NEEDS = {
 'C01': ('PadIfNeeded.apply_to_mask swaps pad_front/pad_back', 'PadIfNeeded with an asymmetric depth padding (odd total or a front_*/back_* position) and a mask / masks / mask-typed additional target'),
 'C02': ('PadIfNeeded.apply_to_bbox adds pad_back instead of pad_front to z_max', 'PadIfNeeded with pad_front != pad_back and bounding boxes'),
 'C03': ('crop_and_pad_keypoint rescales only when rows or cols changed (depth dropped from the guard); second sub-agent change, the first one became harmless after fix 9b7fb4c (kept under seeded/harmless)', 'CropAndPad(keep_size=True) whose crop / pad amounts are non-zero along z only, with keypoints'),
 'C04': ('filter_bboxes denormalises with (cols, rows) swapped', 'non-square frame (rows != cols) and min_area / min_planar_area thresholds or visibility close to the limit'),
 'C05': ('remove_label_fields_from_data returns early when every box was dropped', 'label_fields set and a transform after which no box / keypoint survives'),
 'C06': ('ShiftScaleRotate.apply_to_mask passes crop_to_border / INTER_NEAREST in swapped positions', 'ShiftScaleRotate with a mask whose ids are sparse (interpolation order 1 mixes ids)'),
 'C07': ('F.resize early return compares only height and width', 'Resize/RandomSizedCrop/... to a target whose height and width equal the input and whose depth differs'),
 'C08': ('Compose._check_args compares shape[:2] only', 'image and mask that differ in depth only, is_check_shapes=True'),
 'C09': ('ShiftScaleRotate axes normalised through set()', 'list of >= 2 planes and comparison across processes with different PYTHONHASHSEED'),
 'C10': ('KeypointsProcessor.convert_from_dicaugment drops angle_in_degrees', 'KeypointParams(angle_in_degrees=False) with an angle-carrying format'),
 'C11': ('F.normalize skips the astype copy for float64 images and then works in place (second sub-agent change; the first one no longer applied after fix bc67c26 rewrote rescale_slope_intercept)', 'Normalize (or F.normalize) on a float64 image, any layout; non-default or image-derived mean / std'),
 'C12': ('CoarseDropout._keypoint_in_hole rounds keypoint coordinates', 'keypoint with fractional coordinates within 0.5 voxel of a hole face'),
 'C13': ('BaseCompose.get_dict_with_id records "p"; replay restores it', 'ReplayCompose with nested OneOf/Compose with p<1 replayed on new data'),
 'C14': ('BboxParams._to_dict writes min_volume_visibility from min_area_visibility', 'serialised pipeline with bbox_params min_volume_visibility != min_area_visibility'),
 'C15': ('SomeOf draws min(n, len(transforms)) children', 'SomeOf(n > number of children, replace=True)'),
 'C16': ('SmallestMaxSize.apply_to_dicom takes min over (height, width) only', 'volume whose smallest extent is the depth, dicom target'),
 'C17': ('keypoint_rot90 yz factor 3 uses slices instead of rows', 'RandomRotate90(axes="yz") factor 3 on a volume with rows != slices and keypoints'),
 'C18': ('F.downscale 4-D branch upsamples with the down interpolation', 'Downscale on an H x W x D x C image with different down / up interpolation'),
 'C19': ('union_of_bboxes erodes z with the height', 'BBoxSafeRandomCrop / RandomSizedBBoxSafeCrop with erosion_rate > 0 on boxes whose height differs from their depth'),
 'C20': ('CoarseDropout draws x1 from the height range', 'CoarseDropout on a volume with rows != cols'),
 # ---- second wave (fresh sub-agents told to stay away from the first change of the property) ----
 'C01b': ('CropAndPad.apply_to_mask passes (cols, rows, slices) as the frame to resize back to', 'CropAndPad(keep_size=True) with a non-zero amount, a mask-type target, rows != cols'),
 'C02b': ('CropAndPad.get_params_dependent_on_targets drops the depth from the "nothing cropped" test', 'CropAndPad that crops only the close / far faces (px 6-tuple or a small percent on a deep volume), boxes'),
 'C06b': ('RandomSizedBBoxSafeCrop.apply resizes with self.interpolation instead of the interpolation keyword', 'RandomSizedBBoxSafeCrop with image order >= 1, a crop that is actually resized, a mask with >= 3 labels'),
 'C07b': ('PadIfNeeded random position: d_back = w_pad - d_front', 'PadIfNeeded(position="random") with different total pads along width and depth'),
 'C12b': ('GaussNoise(per_channel=False) expands the noise only when the image has more than one channel', 'GaussNoise(per_channel=False) on an H x W x D x 1 image'),
 'C13b': ('BboxParams._to_dict writes min_depth from min_height', 'ReplayCompose with bbox_params whose min_depth != min_height and a box between the two thresholds'),
 'C14b': ('Compose._to_dict writes is_check_shapes from is_check_args', 'top-level Compose(is_check_shapes=False) serialised and reloaded, or any nested Compose'),
 'C15b': ('OneOrOther forwards force_apply to its second child instead of forcing it', 'OneOrOther whose second child has p < 1, second branch drawn'),
 'C16b': ('CropAndPad.apply_to_dicom passes the row factor as scale_x and the column factor as scale_y', 'CropAndPad(keep_size=True) with different row and column factors, dicom target'),
 'C18b': ('unsharp_mask compares |residual| >= threshold', 'UnsharpMask(threshold=0.0) on a volume with flat regions thicker than the kernel radius'),
 'C19b': ('RandomCropNearBBox.apply_to_bbox clamps x_max with rows and y_max with cols', 'RandomCropNearBBox on a frame with rows != cols whose shifted window passes min(rows, cols)'),
 'C04b': ('filter_bboxes tests the clipped planar area, not the clipped volume, for emptiness', 'a box wholly outside the frame along z only, zero volume / depth thresholds, check_each_transform=False'),
 'C05b': ('convert_keypoint_to_dicaugment slices the xyza tail from index 5', 'KeypointParams(format="xyza") with a label field or an inline trailing field'),
 'C08b': ('convert_bbox_to_dicaugment runs check_bbox only for the formats it normalises (yolo skipped)', 'yolo_3d box whose centre and size are in (0, 1] but which extends past a frame face'),
 'C09b': ('PixelDropout draws the float drop value from np.random instead of the seeded state', 'PixelDropout(drop_value=None) on a float image, numpy global state differing between runs'),
 'C10b': ('DataProcessor.postprocess unpacks the image shape as (cols, rows, slices)', 'Compose with pixel-format boxes or keypoints on a frame with rows != cols, no transform firing'),
 'C17b': ('PadIfNeeded.apply_to_bbox shifts z_max by pad_back (same edit as C02, produced independently for C17)', 'PadIfNeeded with pad_front != pad_back followed by the inverse Crop, boxes'),
 # ---- third wave (told about both earlier changes; asked for less obvious places) ----
 'C01c': ('Compose.get_dict_with_id no longer records additional_targets', 'ReplayCompose with additional_targets, replay() called with the aliased targets'),
 'C03c': ('filter_keypoints drops x > cols - 1 (last-voxel band) instead of x >= cols', 'keypoint with a fractional coordinate inside the last voxel of an axis, remove_invisible=True'),
 'C06c': ('DualTransform.apply_to_masks calls self.apply with nearest interpolation instead of self.apply_to_mask', 'the masks=[...] target with Rotate / ShiftScaleRotate / PadIfNeeded / CropAndPad / dropouts (own apply_to_mask skipped)'),
 'C11c': ('dicom_scale multiplies np.asarray(dicom["PixelSpacing"]) in place', 'header whose PixelSpacing is a float64 ndarray, any transform that rescales the spacing'),
 'C14c': ('serialization.load reads JSON files with yaml.safe_load', 'save / load with data_format="json" and a float whose repr is exponent form without a dot (1e-05)'),
 'C16c': ('RandomRotate90.apply_to_dicom swaps the spacing only for abs(factor) == 1', 'RandomRotate90 in the xy plane drawing factor 3, anisotropic PixelSpacing'),
 'C02c': ('bbox_rotate unpacks the enlarged frame of crop_to_border as (cols, rows, slices)', 'Rotate(crop_to_border=True) in the xy plane on a frame with rows != cols, boxes away from the centre'),
 'C07c': ('CropAndPad.get_params_dependent_on_targets drops the depth from the "nothing cropped" test (same edit as C02b, produced independently for C07)', 'CropAndPad that crops only the close / far faces'),
 'C12c': ('add_noise_nps builds the noise field with shape (width, height)', 'NPSNoise on a volume with rows != cols (raises; silently wrong shape when one of them is 1)'),
 'C13c': ('ReplayCompose.replay returns its inputs unprocessed when the record says nothing was applied', 'a record in which no transform fired, with bbox / keypoint params that filter or convert the annotations'),
 'C18c': ('F.convolve calls ndimage.correlate', 'Blur with an even kernel size, or F.convolve with a kernel that is not point-symmetric'),
 'C20c': ('BasicTransform.update_params forwards interpolation / fill_value / mask_fill_value only when not None', 'CoarseDropout(mask_fill_value=None) with a mask: the keyword default 0 fills the mask holes'),
 'C04c': ('BboxProcessor.filter passes min_height as min_depth', 'BboxParams with min_depth != min_height and a box whose clipped depth lies between the two'),
 'C09c': ('add_noise_nps memoises the resampled noise spectrum per (kernel, height, width), ignoring the pixel spacing', 'NPSNoise after an earlier call in the same process with the same kernel and slice size but another PixelSpacing'),
 'C10c': ('filter_keypoints drops x > cols - 1 (same edit as C03c, produced independently for C10)', 'no transform firing, a keypoint with a fractional coordinate inside the last voxel'),
 'C15c': ('get_always_apply looks only at the direct children of a nested operator', 'a skipped Compose with an always_apply leaf two or more operators deep'),
 'C17c': ('bbox_crop passes (crop_width, crop_height) where (crop_height, crop_width) is expected', 'Crop (also after PadIfNeeded: the inverse crop) with a window whose height != width, boxes'),
 'C19c': ('BBoxSafeRandomCrop d_start tests bw >= 1.0 instead of bd >= 1.0', 'boxes whose union spans the full width but not the full depth (or the reverse: NaN), erosion_rate = 0'),
 # ---- fourth wave (told about all earlier changes; pointed at other classes, branches, helpers, samplers) ----
 'C01d': ('RandomSizedBBoxSafeCrop.apply resizes with self.interpolation (same edit as C06b, produced independently for C01)', 'RandomSizedBBoxSafeCrop with image order >= 1 and a multi-label mask'),
 'C02d': ('bbox_random_crop passes (cols, rows) to get_random_crop_coords', 'RandomCrop / RandomSizedCrop / box-safe crops with boxes on a frame with rows != cols'),
 'C03d': ('keypoint_shift_scale_rotate scales the shift by the input extents instead of the output frame', 'ShiftScaleRotate(crop_to_border=True) with a non-zero shift and an enlarged frame, keypoints'),
 'C05d': ('DataProcessor.postprocess strips the label fields before the final filter', 'label_fields with check_each_transform=False and an annotation removed by the final filter'),
 'C06d': ('CropAndPad.apply_to_mask passes its interpolation argument instead of INTER_NEAREST', 'CropAndPad(keep_size=True) with image order >= 1 and a multi-label mask'),
 'C07d': ('clamping_crop unpacks the shape as (w, h, d)', 'RandomCropNearBBox / RandomCropFromBorders on a frame with rows < cols'),
 'C08d': ('downscale (4-D branch) takes the inverse depth factor from the down-scaled width', 'Downscale on a non-cubic H x W x D x C image'),
 'C11d': ('_brightness_contrast_adjust skips the float32 copy for float64 images', 'RandomBrightnessContrast on a float64 image'),
 'C13d': ('Downscale._to_dict writes the two interpolation orders swapped', 'Downscale with different down / up orders inside a ReplayCompose (also to_dict / save / load)'),
 'C14d': ('CropAndPad._get_pad_value treats only a tuple of two as an interval', 'CropAndPad(pad_cval=(a, b)) after a JSON / YAML round trip (tuple becomes list)'),
 'C16d': ('SetPixelSpacing.apply_to_dicom writes (space_x, space_y) into the (row, column) spacing', 'SetPixelSpacing with space_x != space_y'),
 'C19d': ('RandomCropNearBBox pairs box axis i with max_part_shift[i] (x with the height fraction)', 'RandomCropNearBBox with a max_part_shift tuple whose first two entries differ'),
 'C04d': ('Compose._check_data_post_transform unpacks the shape as (cols, rows, slices)', 'min_width / min_height thresholds on a frame with rows != cols, check_each_transform=True'),
 'C09d': ('GaussNoise(apply_to_channel_idx) draws its noise from np.random.normal', 'GaussNoise(apply_to_channel_idx=k) on an H x W x D x C image, numpy global state differing between runs'),
 'C12d': ('PixelDropout.apply_to_mask squeezes every singleton axis of the drop mask', 'PixelDropout(mask_drop_value set) on an HWDC image with an HWD mask and a width or depth of 1'),
 'C15d': ('BasicTransform.__init__ stores p = 1.0 when always_apply is set', 'OneOf / SomeOf with a child built with always_apply=True and p != 1 (selection weights)'),
 'C18d': ('median_blur no longer forwards cval', 'MedianBlur(mode="constant", cval != 0): voxels near a face'),
 'C20d': ('CoarseDropout.__init__ defaults min_depth to max_height', 'CoarseDropout with only the max sizes given and max_depth > max_height'),
 'C10d': ('convert_bboxes_from_dicaugment passes (cols, rows) to the per-box conversion', 'pixel-format boxes through Compose on a frame with rows != cols, no transform firing'),
 'C17d': ('random_flip(d=-1) uses np.flip(img) over every axis, channels included', 'Flip with code -1 on an H x W x D x C image whose channels differ'),
 # ---- fifth wave ----
 'C01e': ('Rotate.apply_to_mask no longer passes crop_to_border', 'Rotate(crop_to_border=True) with a mask-type target'),
 'C02e': ('bbox_shift_scale_rotate sizes the crop_to_border frame without the scale', 'ShiftScaleRotate(crop_to_border=True) with a scale different from 1, boxes'),
 'C12e': ('downscale (4-D branch) takes the inverse depth factor from the down-scaled width (same edit as C08d, produced independently for C12)', 'Downscale on a non-cubic H x W x D x C image'),
 'C13e': ('fill_applied marks a container applied from its direct children only; OneOf replays only when marked applied', 'ReplayCompose -> OneOf -> Sequential / Compose -> leaf'),
 'C14e': ('Downscale._to_dict writes the upscale order from the downscale order', 'Downscale with different down / up orders, serialised'),
 'C18e': ('GaussNoise tests `if self.apply_to_channel_idx:` (falsy for channel 0)', 'GaussNoise(apply_to_channel_idx=0) on a multi-channel image'),
 # ---- sixth wave ----
 'C03e': ('keypoint_rot90 yz factor 3 mirrors against slices instead of rows', 'RandomRotate90(axes="yz") factor 3 on a volume with rows != slices, keypoints'),
 'C05e': ('CoarseDropout.apply_to_keypoints re-attaches the trailing fields by output position', 'CoarseDropout dropping a keypoint that precedes a survivor, keypoints with label fields or inline fields'),
 'C06e': ('SetPixelSpacing.apply uses `interpolation or self.interpolation` (0 is falsy)', 'SetPixelSpacing with image order >= 1 and a multi-label mask'),
 'C07e': ('RandomRotate90 maps "xz" to axes (2, 1)', 'RandomRotate90(axes="xz") with an odd factor: image rotated the other way'),
 'C16e': ('_BaseRandomSizedCrop.apply_to_dicom passes the row factor as scale_x', 'RandomSizedCrop with different row and column factors, dicom target'),
 'C20e': ('PixelDropout.apply_to_mask tests `if not self.mask_drop_value`', 'PixelDropout(mask_drop_value=0) with a mask'),
 'C04e': ('calculate_bbox_area_volume returns the planar area as the volume when slices == 1', 'boxes on a single-slice frame: wholly outside along z, or min_volume / min_volume_visibility set'),
 'C08e': ('PadIfNeeded random position draws with randrange(0, pad) instead of randint(0, pad)', 'PadIfNeeded(position="random") when an axis needs no padding'),
 'C09e': ('GridDropout writes the clamped shift back onto the instance', 'GridDropout with a random unit size and a large shift, called on the same object after a call that drew a smaller unit'),
 'C11e': ('GaussNoise.apply writes the noisy channel into the caller\'s image when apply_to_channel_idx is set', 'GaussNoise(apply_to_channel_idx=k) on an H x W x D x C image'),
 'C15e': ('Compose.__call__ tests `force_apply is True`', 'a Compose with p < 1 forced with force_apply=1 (documented as "bool or int")'),
 'C19e': ('clamping_crop unpacks the shape as (w, h, d) (same edit as C07d, produced independently for C19)', 'RandomCropNearBBox on a frame with rows != cols'),
 'C01f': ('ShiftScaleRotate.apply_to_mask names its plane formal `axis`; get_params supplies `axes`, so masks always turn in xy', 'ShiftScaleRotate(axes="yz" / "xz") with a non-zero angle and a mask-type target'),
 'C03f': ('BasicTransform.apply_with_params calls update_params once per target instead of once per call', 'PadIfNeeded(position="random") with keypoints on an axis that gets padded'),
 'C05f': ('DataProcessor.add_label_fields_to_data joins the label fields to the default target only (removal still strips every target)', 'declared label_fields together with an additional bboxes / keypoints target'),
 'C07f': ('RandomCropFromBorders draws z_max from (1 - crop_close) * depth instead of (1 - crop_far) * depth', 'RandomCropFromBorders with crop_close != crop_far'),
 'C08f': ('NPSNoise samples the tube-current magnitude with random.randint instead of random.uniform', 'NPSNoise(sample_tube_current=True) on a header whose XRayTubeCurrent is a float'),
 'C10e': ('the yolo_3d validity check rejects a normalised extent of exactly 1.0', 'a yolo_3d box that spans the whole frame along an axis, pipeline not firing'),
 'C11f': ('cutout fills the holes into the array it is given; every call site copies except CoarseDropout.apply_to_mask', 'CoarseDropout(mask_fill_value=v) with a mask / masks target'),
 'C13f': ('Compose.get_dict_with_id no longer records additional_targets (same edit as C01c, produced independently for C13)', 'ReplayCompose with additional targets, replayed with those targets'),
 'C17e': ('keypoint_transpose maps angles above 90 degrees with 3*pi/2 - a instead of 5*pi/2 - a', 'Transpose (twice) on keypoints with an angle field above 180 degrees'),
 'C18f': ('_brightness_contrast_adjust clips to max_brightness only when beta != 0', 'RandomBrightnessContrast(max_brightness=m, brightness_limit=0) with contrast > 1'),
 'C20b': ('GridDropout loops k over range(height // unit_depth + 1)', 'GridDropout on a volume whose depth exceeds its height by a grid unit or more'),
}
detected = json.load(open(os.path.join(V, 'seeded', 'detected.json'))) if os.path.exists(os.path.join(V, 'seeded', 'detected.json')) else {}
for pid, (what, needs) in sorted(NEEDS.items()):
    src = os.path.join(V, 'work', 'incoming', pid)
    dst = os.path.join(V, 'seeded', pid)
    os.makedirs(dst, exist_ok=True)
    if os.path.isdir(src):
        patch = 'patch_rebased.diff' if os.path.exists(os.path.join(src, 'patch_rebased.diff')) else 'patch.diff'
        shutil.copy(os.path.join(src, patch), os.path.join(dst, 'patch.diff'))
        shutil.copy(os.path.join(src, 'demo.py'), os.path.join(dst, 'demo.py'))
        if os.path.exists(os.path.join(src, 'notes.md')):
            shutil.copy(os.path.join(src, 'notes.md'), os.path.join(dst, 'notes.md'))
    conf = os.path.join(V, 'work', 'confirm', pid + '.txt')
    confirm = open(conf).read().splitlines() if os.path.exists(conf) else []
    meta = {
        'property': pid[:3], 'change': what, 'needs_to_manifest': needs,
        'produced_by': 'fresh sub-agent given only the property text and a scratch worktree',
        'what_i_ran': ['git worktree add (scratch, outside /repo and /verif) at /repo HEAD',
                       'PYTHONPATH=<worktree> python demo.py            -> exit 0 without the change',
                       'git apply patch.diff; python demo.py             -> exit 1 with the change',
                       'python -m pytest -q (whole suite) with the change -> failing set identical to the baseline (tools/baseline_failed.txt)',
                       'git -C /repo apply seeded/%s/patch.diff; /verif/check %s quick; git -C /repo checkout -- .' % (pid, pid[:3])],
        'confirmation_log_tail': confirm[-3:],
        'detected_by': detected.get(pid, 'not yet run'),
    }
    json.dump(meta, open(os.path.join(dst, 'meta.json'), 'w'), indent=1)
print('seeded:', sorted(os.listdir(os.path.join(V, 'seeded'))))
