#!/usr/bin/env python3
"""Validation of translator/classtab.py against run-time introspection of the real classes:
constructor parameters, persisted keys, target tables and targets_as_params."""
import inspect
import json
import os
import sys

sys.path.insert(0, os.path.dirname(os.path.abspath(__file__)))
import implrun as R
from ctor_args import CTOR

A = R.A
VERIF = os.path.abspath(os.path.join(os.path.dirname(__file__), '..'))


def run():
    man = json.load(open(os.path.join(VERIF, 'coq/gen/classtab_manifest.json')))
    rows = {r['name']: r for r in man['classes']}
    from dicaugment.core.transforms_interface import BasicTransform
    exported = sorted(n for n in dir(A) if inspect.isclass(getattr(A, n)) and issubclass(getattr(A, n), BasicTransform)
                      and n not in ('BasicTransform', 'DualTransform', 'ImageOnlyTransform'))
    dis = []
    for n in exported:
        if n not in rows:
            dis.append({'class': n, 'what': 'exported class missing from the class table'})
            continue
        if n not in CTOR:
            dis.append({'class': n, 'what': 'exported class has no documented-domain entry (harness/ctor_args.py)'})
            continue
        cls = getattr(A, n)
        r = rows[n]
        sig = [p for p in inspect.signature(cls.__init__).parameters if p not in ('self', 'always_apply', 'p')]
        if sig != r['init']:
            dis.append({'class': n, 'what': 'constructor parameters', 'runtime': sig, 'table': r['init']})
        try:
            obj = cls(**CTOR[n]['base'])
        except Exception as e:  # noqa
            dis.append({'class': n, 'what': 'cannot construct with the base configuration: %s' % e})
            continue
        keys = [k for k in obj._to_dict() if k not in ('__class_fullname__', 'always_apply', 'p')]
        if sorted(keys) != sorted(set(r['persisted'])):
            dis.append({'class': n, 'what': 'persisted keys', 'runtime': sorted(keys), 'table': sorted(r['persisted'])})
        tg = sorted(obj.targets.keys())
        if tg != sorted(r['targets']):
            dis.append({'class': n, 'what': 'targets', 'runtime': tg, 'table': sorted(r['targets'])})
    for n in rows:
        if n not in exported and not n.startswith('_'):
            pass
    return {'cases': len(exported) * 3, 'distinct_cases': len(exported) * 3, 'n_disagreements': len(dis),
            'disagreements': dis[:10], 'coq_errors': [], 'missing_functions': [], 'result_kinds': {'classes': len(exported)},
            'samples': [{'class': exported[0], 'table_row': rows.get(exported[0])}]}


if __name__ == '__main__':
    print(json.dumps(run(), indent=1)[:3000])
