"""Structured input generators for the correspondence runs.  Every random choice
derives from one random.Random(seed) so disagreements replay exactly."""
import fractions
import random

Fr = fractions.Fraction
PLANES = ['xy', 'yz', 'xz']
BOX_FORMATS = ['coco_3d', 'pascal_voc_3d', 'yolo_3d']
KP_FORMATS = ['xyz', 'zyx', 'xyza', 'xyzs', 'xyzas', 'xyzsa']


def dyadic(rng, lo, hi, bits=4):
    """a rational k/2^bits in [lo, hi] -- exactly representable, so float arithmetic on
    it is exact for the short formulas under test"""
    d = 1 << bits
    return Fr(rng.randint(int(lo * d), int(hi * d)), d)


def anyfloat(rng, lo, hi):
    return Fr(rng.uniform(lo, hi))


def size(rng, malformed=False):
    if malformed and rng.random() < 0.5:
        return rng.choice([0, -1, -3])
    return rng.choice([1, 2, 3, 4, 5, 6, 7, 8, 9, 10, 16, 33, 100])


def norm_box(rng, valid=True):
    """normalised box; valid: inside [0,1] with positive extent"""
    def seg():
        a, b = sorted([dyadic(rng, 0, 1, 5), dyadic(rng, 0, 1, 5)])
        if a == b:
            if b < 1:
                b += Fr(1, 32)
            else:
                a -= Fr(1, 32)
        return a, b
    (x1, x2), (y1, y2), (z1, z2) = seg(), seg(), seg()
    b = [x1, y1, z1, x2, y2, z2]
    if not valid:
        k = rng.choice(['out1', 'out2', 'out3', 'zero', 'neg', 'far', 'tiny'])
        axes = rng.sample([0, 1, 2], {'out1': 1, 'out2': 2, 'out3': 3}.get(k, 1))
        for a in axes:
            if k.startswith('out'):
                side = rng.random() < 0.5
                if side:
                    b[a + 3] += dyadic(rng, 0, 1, 4)
                else:
                    b[a] -= dyadic(rng, 0, 1, 4)
            elif k == 'zero':
                b[a + 3] = b[a]
            elif k == 'neg':
                b[a], b[a + 3] = b[a + 3], b[a]
            elif k == 'far':
                sh = rng.choice([-2, 2])
                b[a] += sh
                b[a + 3] += sh
            elif k == 'tiny':
                b[a + 3] = b[a] + Fr(1, 1 << 20)
    return tuple(b)


def keypoint(rng, rows, cols, slices, valid=True, two_pi=Fr(884279719003555, 140737488355328)):
    def coord(n):
        n = max(n, 1)
        r = rng.random()
        if r < 0.25:
            return Fr(rng.randint(0, n - 1))       # on a voxel centre / integer face
        if r < 0.3 and not valid:
            return Fr(rng.choice([-1, n, n + 2]))
        if not valid and r < 0.4:
            return dyadic(rng, -2, n + 2, 3)
        return min(dyadic(rng, 0, n, 3), Fr(n) - Fr(1, 8))
    a = Fr(rng.randint(0, 15), 16) * two_pi if rng.random() < 0.8 else dyadic(rng, 0, 6, 4)
    if not valid and rng.random() < 0.3:
        a = dyadic(rng, -8, 12, 3)
    s = dyadic(rng, 0, 8, 3)
    return (coord(cols), coord(rows), coord(slices), a, s)


def coords6(rng, rows, cols, slices):
    def win(n):
        n = max(n, 1)
        a = rng.randint(0, n - 1)
        b = rng.randint(a + 1, n)
        return a, b
    (x1, x2), (y1, y2), (z1, z2) = win(cols), win(rows), win(slices)
    return (x1, y1, z1, x2, y2, z2)
