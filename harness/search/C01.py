"""C01 failing-input search: image, mask, masks and additional image/mask targets come back
with the same H, W, D; for lattice pipelines each mask voxel is the very voxel the image path
copied (or the mask fill where the image path filled); for resampling with nearest
interpolation the mask source voxel is within one step of the image's."""
import random

import numpy as np

import geom
import implrun as R
import spatial as S


def check(name, specs, case, viol, lattice=True):
    shape = tuple(case['shape'])
    ch = case.get('channels')
    try:
        res = S.run(specs, shape, case['seed'], channels=ch, extra_targets=True, via_replay=bool(case.get('via_replay')))
    except Exception as e:  # noqa
        viol.append({'site': 'C01:%s:raises' % name, 'name': name, 'pipeline': specs, 'case': case, 'lattice': lattice,
                     'observed': '%s: %s' % (type(e).__name__, e), 'expected': 'no exception'})
        return
    img = res['image']
    img0 = img[..., 0] if img.ndim == 4 else img
    bad = None
    targets = {'mask': res['mask'], 'masks[0]': res['masks'][0], 'mask2': res['mask2']}
    for k, m in list(targets.items()) + [('image2', res['image2']), ('masks[1]', res['masks'][1])]:
        if m.shape[:3] != img.shape[:3]:
            bad = (k, 'shape %s' % (m.shape,), 'shape %s' % (img.shape[:3],))
    if ch and img.ndim != 4:
        bad = ('image', 'ndim %d' % img.ndim, 'channel axis kept')
    if bad is None and lattice:
        for k, m in targets.items():
            if m.ndim != 3 or not np.array_equal(m, img0):
                n = int(np.sum(m != img0)) if m.shape == img0.shape else -1
                bad = (k, '%d voxels differ from the voxel the image path copied' % n, 'identical voxel map')
                break
        if bad is None and not np.array_equal(res['masks'][1], img0 * 2):
            bad = ('masks[1]', 'differs', 'same map as mask')
    if bad is None and not lattice:
        m = res['mask']
        h, w, d = shape
        a, b = img0.astype(np.int64), m.astype(np.int64)
        both = (a > 0) & (b > 0)
        ia = np.stack(np.unravel_index((a - 1).clip(0), shape), -1)
        ib = np.stack(np.unravel_index((b - 1).clip(0), shape), -1)
        dist = np.abs(ia - ib).max(-1)
        if np.any(dist[both] > 1) or np.any((a > 0) != (b > 0)):
            bad = ('mask', 'max source distance %d' % int(dist[both].max() if both.any() else 0), '<= 1 step')
    if bad:
        viol.append({'site': 'C01:%s:%s' % (name, bad[0]), 'name': name, 'pipeline': specs, 'case': case,
                     'lattice': lattice, 'observed': bad[1], 'expected': bad[2]})


def check_blend(case, viol):
    """resampling classes with an image order >= 1: every mask-type target keeps the image's shape and holds input mask
    values only (mask ids are multiples of 97: a blend of two of them is not)"""
    import copy
    A = R.A
    shape = tuple(case['shape'])
    H, W, D = shape
    lab = R.labelled(shape, 'int32')
    mask = (lab * 97).astype('int32')
    data = dict(image=lab.astype('float32') / float(lab.max()), mask=mask, masks=[mask.copy(), mask.copy()], mask2=mask.copy())
    ckw = {'additional_targets': {'mask2': 'mask'}}
    if case['needs'] == 'bboxes':
        data['bboxes'] = [(1.0, 1.0, 1.0, W - 1.0, H - 1.0, D - 1.0, 'a')]
        ckw['bbox_params'] = A.BboxParams('pascal_voc_3d')
    if case['needs'] == 'dicom':
        data['dicom'] = {'PixelSpacing': (0.7, 0.4), 'RescaleIntercept': -1024.0, 'RescaleSlope': 1.0,
                         'ConvolutionKernel': 'STANDARD', 'XRayTubeCurrent': 160}
    try:
        pipe = A.Compose([getattr(A, case['cls'])(p=1.0, **case['args'])], **ckw)
        R.seed(case['seed'])
        res = pipe(**copy.deepcopy(data))
    except Exception:  # noqa -- C08's question
        return
    img = res['image']
    for k, m in (('mask', res['mask']), ('masks[0]', res['masks'][0]), ('masks[1]', res['masks'][1]), ('mask2', res['mask2'])):
        if m.shape[:3] != img.shape[:3]:
            viol.append({'site': 'C01:%s:%s' % (case['cls'], k), 'kind': 'blend', 'case': case, 'observed': 'shape %s' % (m.shape,),
                         'expected': 'the image shape %s' % (img.shape[:3],)})
            return
        bad = np.asarray(m).astype(np.int64) % 97 != 0
        if m.dtype != mask.dtype or bad.any():
            viol.append({'site': 'C01:%s:%s' % (case['cls'], k), 'kind': 'blend', 'case': case,
                         'observed': 'dtype %s, %d voxels hold values that are no input mask value, e.g. %s' % (m.dtype, int(bad.sum()), np.asarray(m)[bad][:4].tolist()),
                         'expected': 'the value of an input mask voxel (or the fill value) in every voxel'})
            return


def blend_cases(rng):
    out = []
    for order in (1, 3):
        shape = rng.sample([8, 9, 10, 12], 3)
        H, W, D = shape
        t = [rng.randint(5, 14), rng.randint(5, 14), rng.randint(5, 14)]
        cfgs = [('Resize', dict(height=t[0], width=t[1], depth=t[2]), None),
                ('RandomScale', dict(scale_limit=(0.2, 0.4)), None),
                ('LongestMaxSize', dict(max_size=max(shape) + 3), None),
                ('SmallestMaxSize', dict(max_size=min(shape) + 2), None),
                ('RandomSizedCrop', dict(min_max_height=(H // 2, H - 1), height=t[0], width=t[1], depth=t[2], w2h_ratio=0.5, d2h_ratio=0.5), None),
                ('RandomSizedBBoxSafeCrop', dict(height=t[0], width=t[1], depth=t[2]), 'bboxes'),
                ('Rotate', dict(limit=(20, 40), border_mode='constant', value=0, mask_value=0), None),
                ('ShiftScaleRotate', dict(border_mode='constant', value=0, mask_value=0), None),
                ('Rotate', dict(limit=(20, 40), border_mode='constant', value=0, mask_value=0, crop_to_border=True, axes=rng.choice(['xy', 'yz', 'xz'])), None),
                ('ShiftScaleRotate', dict(border_mode='constant', value=0, mask_value=0, crop_to_border=True, scale_limit=(0.2, 0.4)), None),
                ('CropAndPad', dict(px=(-1, 2, 1, -2, 1, 1), keep_size=True, pad_cval=0, pad_cval_mask=0), None),
                ('SetPixelSpacing', dict(space_x=0.5, space_y=0.6), 'dicom')]
        for cls, args, needs in cfgs:
            out.append({'cls': cls, 'args': dict(args, interpolation=order), 'needs': needs, 'shape': shape, 'seed': R.pick_seed(rng)})
    return out


def run(seed=0, tier='quick', hints=None, broken=False):
    rng = random.Random(seed * 7919 + 1)
    n = 5 if tier == 'quick' else 120
    if broken:
        n *= 4
    viol, evals, seen = [], 0, set()
    for _ in range(n):
        shape = S.random_shape(rng)
        case = {'shape': list(shape), 'seed': R.pick_seed(rng), 'channels': rng.choice([None, None, 1, 3])}
        cfgs = S.lattice_configs(rng, shape) + S.dropout_configs(rng, shape)
        for c in cfgs:
            check(c['cls'], [c], case, viol)
            evals += 1
            seen.add((c['cls'], shape, case['channels']))
        # the same pipeline run through a replay record: every target, the additional ones included, follows the image
        c = rng.choice(cfgs)
        check(c['cls'] + '-replayed', [c], dict(case, via_replay=True), viol)
        evals += 1
        # the same transform inside containers (one or two levels deep, always firing): the additional image / mask
        # targets must reach it there as well
        for c in rng.sample(cfgs, 3):
            node = c
            kinds = [rng.choice(['Sequential', 'OneOf', 'SomeOf', 'Compose']) for _ in range(rng.randint(1, 2))]
            for kind in kinds:
                node = {'op': kind, 'children': [node], 'args': dict({'p': 1.0}, **({'n': 1} if kind == 'SomeOf' else {}))}
            check(c['cls'] + '-in-' + '-'.join(reversed(kinds)), [node], case, viol)
            evals += 1
            seen.add((c['cls'], 'nested', tuple(kinds)))
        second = [S.L('HorizontalFlip'), S.L('Transpose'), S.L('RandomRotate90', axes=rng.choice(S.PLANES)),
                  S.L('SliceFlip')]
        for c in rng.sample(cfgs, 4):
            d = rng.choice(second)
            check(c['cls'] + '+' + d['cls'], [c, d], case, viol)
            evals += 1
        for c in S.resample_configs(rng, shape, interpolation=0):
            check(c['cls'], [c], dict(case, channels=None), viol, lattice=False)
            evals += 1
            seen.add((c['cls'], shape))
    # CropAndPad: every axis pattern once, without and with the resize back to the input frame (nearest order, so the
    # mask must show the voxel the image shows)
    for rep in range(1 if tier == 'quick' else 10):
        for c in S.crop_and_pad_sweep(rng):
            shape = tuple(rng.sample([5, 6, 7, 8, 9, 10], 3))
            case = {'shape': list(shape), 'seed': R.pick_seed(rng), 'channels': rng.choice([None, None, 3])}
            check('CropAndPad', [c], case, viol)
            k = dict(c, args=dict(c['args'], keep_size=True, interpolation=0))
            check('CropAndPad-keep_size', [k], dict(case, channels=None), viol, lattice=False)
            evals += 2
            seen.add(('CropAndPad-sweep', repr(c['args'].get('px', c['args'].get('percent')))))
    # free rotations with nearest order on the image too: class x plane x crop_to_border; the mask must then show the
    # very voxel the image shows (same plane, same angle, same shift / scale, same output frame)
    for rep in range(1 if tier == 'quick' else 10):
        for cls in ('Rotate', 'ShiftScaleRotate'):
            for plane in S.PLANES:
                for ctb in (False, True):
                    shape = tuple(rng.sample([7, 9, 11, 13], 3))
                    kw = dict(axes=plane, crop_to_border=ctb, interpolation=0, border_mode='constant', value=0, mask_value=0)
                    kw.update(dict(limit=(20, 70)) if cls == 'Rotate' else dict(rotate_limit=(20, 70)))
                    case = {'shape': list(shape), 'seed': R.pick_seed(rng), 'channels': None}
                    check('%s-%s%s' % (cls, plane, '-crop_to_border' if ctb else ''), [S.L(cls, **kw)], case, viol, lattice=False)
                    evals += 1
                    seen.add((cls, plane, ctb))
    for rep in range(1 if tier == 'quick' else 10):
        for case in blend_cases(rng):
            check_blend(case, viol)
            evals += 1
            seen.add(('blend', case['cls'], case['args']['interpolation']))
    return {'violations': viol, 'info': {'evaluations': evals, 'distinct': len(seen),
                                         'what': 'mask / masks / additional targets vs image path on labelled volumes'}}


def replay(v):
    viol = []
    if v.get('kind') == 'blend':
        check_blend(v['case'], viol)
        return bool(viol)
    check(v['name'], v['pipeline'], v['case'], viol, lattice=v.get('lattice', True))
    return bool(viol)
