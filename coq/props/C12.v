(* C12 -- Pixel-level transforms touch only the image.
   (1) the target table of every image-only class, regenerated from the source, is {image}
       (RescaleSlopeIntercept: {image, dicom}, governed by C16); every spatial class has the six
       standard targets;
   (2) on the dispatch model (hand-written, _get_target_function / apply_with_params) a transform
       whose table is {image} returns every other keyword unchanged and returns exactly the keys
       it was given. *)
From Coq Require Import List String Bool.
Import ListNotations.
From DV.gen Require Import Gen_classtab.
From DV.model Require Import Dispatch.
From DV.proofs Require Import ClassFacts CF_C12.
Open Scope string_scope.

Theorem C12_target_tables : forallb (fun c => image_only_targets_ok c && dual_targets_ok c) class_table = true.
Proof. exact targets_ok. Qed.
Print Assumptions C12_target_tables.

Theorem C12_image_only_passthrough : forall (value : Type) (f : value -> value) additional kwargs,
  (forall k t, lookup k additional = Some t -> t <> "image") ->
  forall k v, In (k, Some v) kwargs -> k <> "image" ->
  In (k, Some v) (apply_with_params value [("image", f)] additional kwargs).
Proof. exact image_only_passthrough. Qed.
Print Assumptions C12_image_only_passthrough.

Theorem C12_returns_the_keys_it_was_given : forall (value : Type) targets additional kwargs,
  map fst (apply_with_params value targets additional kwargs) = map fst kwargs.
Proof. exact same_keys. Qed.
Print Assumptions C12_returns_the_keys_it_was_given.

(* Dropout transforms (generated code): the image keeps its shape, keypoints are removed only inside holes
   (half-open), and every surviving keypoint comes back unchanged and in its input order *)
From Coq Require Import ZArith QArith.
From DV.lib Require Import PyNum PyRt.
From DV.model Require Import Arrays NpRt.
From DV.gen Require Import Gen_dropout_functional Gen_cls_coarse Gen_cls_grid.
From DV.proofs Require Import Dropout.
Theorem C12_dropout_preserves_shape_and_annotation_geometry :
  (forall v holes fv mfv c r s, Forall (hole_in (vshape v)) holes ->
     vshape (CoarseDropout_apply v holes fv mfv c r s) = vshape v) /\
  (forall sfv smf v holes fv mfv c r s, Forall (hole_in (vshape v)) holes ->
     vshape (GridDropout_apply sfv smf v holes fv mfv c r s) = vshape v) /\
  (forall kps holes, exists f, CoarseDropoutK_apply_to_keypoints kps holes = filter f kps) /\
  (forall kps holes kp, In kp (CoarseDropoutK_apply_to_keypoints kps holes) <->
     In kp kps /\ forall h, In h holes -> ~ kp_inside kp h).
Proof.
  split; [|split; [|split]].
  - intros. unfold CoarseDropout_apply. apply cutout_exact. assumption.
  - intros. unfold GridDropout_apply. apply cutout_exact. assumption.
  - intros. apply keypoints_order.
  - intros. apply keypoints_removed_iff.
Qed.
Print Assumptions C12_dropout_preserves_shape_and_annotation_geometry.
