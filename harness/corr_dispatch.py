#!/usr/bin/env python3
"""Correspondence for coq/model/Dispatch.v: BasicTransform.apply_with_params / _get_target_function of a
user-defined transform with a random target table and random additional targets, on keyword dicts with
known, additional, unknown and None-valued keys, vs the model."""
import os
import random
import re
import subprocess
import sys

sys.path.insert(0, os.path.dirname(os.path.abspath(__file__)))
import implrun as R
import numpy as np

A = R.A
VERIF = os.path.abspath(os.path.join(os.path.dirname(__file__), '..'))
NAMES = ['image', 'mask', 'bboxes', 'keypoints', 'dicom', 'masks']


class Tag(A.BasicTransform):
    """target function of name i adds 1000 * (i + 1) to the value"""

    def __init__(self, names):
        super().__init__(always_apply=True, p=1.0)
        self._names = list(names)

    @property
    def targets(self):
        return {n: (lambda v, _c=(NAMES.index(n) + 1) * 1000, **p: v + _c) for n in self._names}


def run(seed, n):
    rng = random.Random(seed * 613651349 % (2 ** 31) + 12)
    cases, kinds = [], {}
    for i in range(n):
        names = rng.sample(NAMES, rng.randint(1, 5))
        t = Tag(names)
        additional = {}
        for j in range(rng.randint(0, 3)):
            additional['extra%d' % j] = rng.choice(NAMES)
        t.add_targets(additional)
        keys = ['image'] + rng.sample([k for k in NAMES if k != 'image'] + list(additional) + ['labels', 'ids', 'other'], rng.randint(0, 6))
        rng.shuffle(keys)
        kwargs = {}
        for k in keys:
            kwargs[k] = None if (k != 'image' and rng.random() < 0.2) else np.full((1, 1, 1), rng.randint(0, 99), np.int64)
        try:
            res = t.apply_with_params({}, **kwargs)
            out = [(k, None if v is None else int(np.asarray(v).ravel()[0])) for k, v in res.items()]
            err = None
        except Exception as e:  # noqa
            out, err = None, type(e).__name__
        kinds[err or 'ok'] = kinds.get(err or 'ok', 0) + 1
        table = '[' + '; '.join('("%s"%%string, (fun v => v + %d)%%Z)' % (nm, (NAMES.index(nm) + 1) * 1000) for nm in names) + ']'
        addl = '[' + '; '.join('("%s"%%string, "%s"%%string)' % kv for kv in additional.items()) + ']'
        kw = '[' + '; '.join('("%s"%%string, %s)' % (k, 'None' if v is None else '(Some (%d)%%Z)' % int(v.ravel()[0])) for k, v in kwargs.items()) + ']'
        if err is not None:
            coq = 'false'
        else:
            exp = '[' + '; '.join('("%s"%%string, %s)' % (k, 'None' if v is None else '(Some (%d)%%Z)' % v) for k, v in out) + ']'
            coq = 'kw_eqb (apply_with_params Z %s %s %s) %s' % (table, addl, kw, exp)
        cases.append({'targets': names, 'additional': additional, 'keys': list(kwargs), 'observed': out if err is None else err, 'coq': coq})
    cdir = os.path.join(VERIF, 'coq', 'cases')
    os.makedirs(cdir, exist_ok=True)
    path = os.path.join(cdir, 'dp_%d.v' % seed)
    with open(path, 'w') as f:
        f.write('From Coq Require Import ZArith List Bool String.\nImport ListNotations.\nFrom DV.model Require Import Dispatch FrameworkCheck.\n'
                'Definition ov_eqb (a b : option Z) : bool := match a, b with Some x, Some y => Z.eqb x y | None, None => true | _, _ => false end.\n'
                'Fixpoint kw_eqb (a b : list (string * option Z)) : bool := match a, b with [], [] => true '
                '| (k, v) :: a\', (k\', v\') :: b\' => String.eqb k k\' && ov_eqb v v\' && kw_eqb a\' b\' | _, _ => false end.\n')
        f.write('Definition cases : list bool := [\n' + ';\n'.join(' ' + c['coq'] for c in cases) + '].\n')
        f.write('Eval vm_compute in (bad_idx 0 cases).\n')
    p = subprocess.run(['timeout', '600', 'coqc', '-Q', 'lib', 'DV.lib', '-Q', 'model', 'DV.model', path],
                       cwd=os.path.join(VERIF, 'coq'), stdout=subprocess.PIPE, stderr=subprocess.STDOUT, text=True)
    m_ = re.search(r'=\s*\[(.*?)\]', p.stdout, re.S)
    errors, bad = [], []
    if p.returncode != 0 or m_ is None:
        errors.append(p.stdout[-1500:])
    else:
        bad = [int(x) for x in re.findall(r'\d+', m_.group(1))]
    for ext in ('.vo', '.vok', '.vos', '.glob'):
        try:
            os.remove(path[:-2] + ext)
        except OSError:
            pass
    js = lambda c: {k_: v for k_, v in c.items() if k_ != 'coq'}
    return {'cases': len(cases), 'distinct_cases': len({c['coq'] for c in cases}), 'result_kinds': kinds,
            'n_disagreements': len(bad), 'disagreements': [js(cases[i]) for i in bad[:10]], 'coq_errors': errors,
            'missing_functions': [], 'samples': [js(c) for c in cases[:2]]}


if __name__ == '__main__':
    import json
    print(json.dumps(run(int(sys.argv[1]), int(sys.argv[2])), indent=1, default=str)[:3000])
