(* Dispatch.v -- hand-written model of BasicTransform._get_target_function / apply_with_params:
   a keyword is mapped through the additional-target table, looked up in the transform's target
   table, and handled by the identity when it is not there; None values pass through. *)
From Coq Require Import List String Bool.
Import ListNotations.
Open Scope string_scope.

Section Dispatch.
Variable value : Type.
(* the target functions of one transform: target name -> function (already closed over params) *)
Definition table : Type := list (string * (value -> value)).

Fixpoint lookup {A} (k : string) (l : list (string * A)) : option A :=
  match l with
  | [] => None
  | (k', v) :: tl => if String.eqb k k' then Some v else lookup k tl
  end.

Definition target_function (targets : table) (additional : list (string * string)) (key : string) : value -> value :=
  let tkey := match lookup key additional with Some t => t | None => key end in
  match lookup tkey targets with Some f => f | None => fun x => x end.

(* apply_with_params on a keyword dict (None values are kept as None) *)
Definition apply_with_params (targets : table) (additional : list (string * string))
  (kwargs : list (string * option value)) : list (string * option value) :=
  map (fun kv => (fst kv, match snd kv with
                          | Some v => Some (target_function targets additional (fst kv) v)
                          | None => None
                          end)) kwargs.

Lemma untouched_key targets additional key v :
  lookup key additional = None -> lookup key targets = None ->
  target_function targets additional key v = v.
Proof. intros A B. unfold target_function. rewrite A, B. reflexivity. Qed.

Lemma same_keys targets additional kwargs :
  map fst (apply_with_params targets additional kwargs) = map fst kwargs.
Proof. unfold apply_with_params. rewrite map_map. reflexivity. Qed.

(* an image-only transform (target table = [image]) returns every other keyword unchanged *)
Lemma image_only_passthrough (f : value -> value) additional kwargs :
  (forall k t, lookup k additional = Some t -> t <> "image") ->
  forall k v, In (k, Some v) kwargs -> k <> "image" ->
  In (k, Some v) (apply_with_params [("image", f)] additional kwargs).
Proof.
  intros Hadd k v Hin Hk. unfold apply_with_params. apply in_map_iff.
  exists (k, Some v). split; [|exact Hin]. cbn. f_equal. f_equal.
  unfold target_function. destruct (lookup k additional) as [t|] eqn:E.
  - cbn. destruct (String.eqb_spec t "image") as [->|N]; [exfalso; eapply Hadd; eauto|reflexivity].
  - cbn. destruct (String.eqb_spec k "image"); [contradiction|reflexivity].
Qed.

End Dispatch.
