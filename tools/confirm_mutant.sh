#!/bin/bash
# confirm one seeded change: applies on /repo HEAD, demo passes without / fails with, full test-suite unchanged
id=$1
src=/verif/seeded/$id
wt=/var/tmp/confirm_$id
out=/verif/work/confirm/$id.txt
mkdir -p /verif/work/confirm
rm -rf $wt; git -C /repo worktree prune
git -C /repo worktree add -q --detach $wt HEAD || { echo "worktree failed" > $out; exit 1; }
{
echo "mutant $id on $(git -C /repo rev-parse --short HEAD)"
cd $wt
PYTHONPATH=$wt /venv/bin/python $src/demo.py > /tmp/demo_$id.pre 2>&1; echo "demo without change: exit $?"
if git apply $src/patch.diff; then echo "patch applies"; else echo "PATCH DOES NOT APPLY"; fi
PYTHONPATH=$wt /venv/bin/python $src/demo.py > /tmp/demo_$id.post 2>&1; echo "demo with change: exit $?"
tail -3 /tmp/demo_$id.post
PYTHONPATH=$wt /venv/bin/python -m pytest -q -p no:cacheprovider --timeout=900 -x --co -q > /dev/null 2>&1
PYTHONPATH=$wt /venv/bin/python -m pytest -q -p no:cacheprovider --timeout=900 --junitxml=/tmp/confirm_$id.xml > /tmp/confirm_$id.log 2>&1
tail -1 /tmp/confirm_$id.log
/venv/bin/python - <<PY
import xml.etree.ElementTree as ET
t=ET.parse('/tmp/confirm_$id.xml')
failed=sorted(tc.get('classname')+'::'+tc.get('name') for tc in t.iter('testcase') if any(c.tag in('failure','error') for c in tc))
base=sorted(l.strip() for l in open('/tmp/mut/baseline_failed.txt') if l.strip())
print('failing set identical to baseline:', failed==base, 'new:', [f for f in failed if f not in base][:5], 'fixed:', [f for f in base if f not in failed][:5])
PY
} > $out 2>&1
cd /; git -C /repo worktree remove --force $wt; rm -f /tmp/confirm_$id.xml /tmp/confirm_$id.log /tmp/demo_$id.*
