(* class-table facts used by C06; proved by computation over the regenerated tables *)
From Coq Require Import List String Bool.
Import ListNotations.
From DV.gen Require Import Gen_classtab.
From DV.proofs Require Import ClassFacts.
Open Scope string_scope.

Lemma mask_interp_all : forallb mask_interp_ok class_table = true.
Proof. vm_compute. reflexivity. Qed.

Lemma fills_stay_on_their_side : forallb fill_row_ok fill_table = true.
Proof. vm_compute. reflexivity. Qed.
(* the table has the rows the statement is about *)
Lemma fill_table_covers :
  existsb (fun r => let '(c, m, k, _) := r in String.eqb c "CropAndPad" && String.eqb k "pad_value_mask") fill_table = true /\
  existsb (fun r => let '(c, m, k, _) := r in String.eqb c "PadIfNeeded" && String.eqb m "apply_to_mask") fill_table = true /\
  existsb (fun r => let '(c, m, k, _) := r in String.eqb c "Rotate" && String.eqb m "apply_to_mask") fill_table = true.
Proof. vm_compute. repeat split; reflexivity. Qed.

Lemma mask_paths_do_not_borrow_the_image_fill : forallb (mask_path_row_ok fill_table) fill_table = true.
Proof. vm_compute. reflexivity. Qed.
