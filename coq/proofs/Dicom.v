(* Dicom.v -- header helpers and per-transform header hooks (all generated from the source). *)
From Coq Require Import ZArith QArith Qround List Bool String Lia Lqa.
Import ListNotations.
From DV.lib Require Import PyNum PyRt.
From DV.model Require Import Arrays NpRt.
From DV.gen Require Import Gen_dicom_functional Gen_cls_resize Gen_cls_geom_dicom Gen_cls_dicom Gen_cls_iface
  Gen_cls_rotate Gen_cls_crops_dicom Gen_classtab.
From DV.proofs Require Import Tac ClassFacts.
Open Scope Q_scope.

(* everything but the in-plane spacing *)
Definition same_but_spacing (a b : header) : Prop :=
  h_slope a = h_slope b /\ h_intercept a = h_intercept b /\ h_rest a = h_rest b.

Lemma dicom_scale_spec d sx sy :
  h_spacing (dicom_scale d sx sy) = (fst (h_spacing d) * sy, snd (h_spacing d) * sx) /\
  same_but_spacing (dicom_scale d sx sy) d.
Proof. unfold dicom_scale, same_but_spacing. destruct d as [[r c] s i o]. cbn. auto. Qed.

Lemma transpose_dicom_spec d :
  h_spacing (transpose_dicom d) = (snd (h_spacing d), fst (h_spacing d)) /\ same_but_spacing (transpose_dicom d) d.
Proof. unfold transpose_dicom, same_but_spacing. destruct d as [[r c] s i o]. cbn. auto. Qed.

Lemma transpose_dicom_involutive d : transpose_dicom (transpose_dicom d) = d.
Proof. destruct d as [[r c] s i o]. reflexivity. Qed.

Lemma reset_spec d :
  h_slope (reset_dicom_slope_intercept d) = 1 /\ h_intercept (reset_dicom_slope_intercept d) = 0 /\
  h_spacing (reset_dicom_slope_intercept d) = h_spacing d /\ h_rest (reset_dicom_slope_intercept d) = h_rest d.
Proof. destruct d as [[r c] s i o]. cbn. auto. Qed.

(* ---- resampling classes: the header factor is the factor handed to the image path ---- *)
Lemma RandomScale_dicom d scale ip c r s :
  h_spacing (RandomScale_apply_to_dicom d scale ip c r s) = (fst (h_spacing d) * scale, snd (h_spacing d) * scale) /\
  same_but_spacing (RandomScale_apply_to_dicom d scale ip c r s) d.
Proof. apply dicom_scale_spec. Qed.

Lemma ShiftScaleRotate_dicom d a scale dx dy dz ax ip c r s :
  h_spacing (ShiftScaleRotate_apply_to_dicom d a scale dx dy dz ax ip c r s)
    = (fst (h_spacing d) * scale, snd (h_spacing d) * scale) /\
  same_but_spacing (ShiftScaleRotate_apply_to_dicom d a scale dx dy dz ax ip c r s) d.
Proof. apply dicom_scale_spec. Qed.

Lemma inject_pos z : (0 < z)%Z -> ~ inject_Z z == 0.
Proof. intros H E. assert (0 < inject_Z z) by (change 0 with (inject_Z 0); rewrite <- Zlt_Qlt; exact H). lra. Qed.

Lemma LongestMaxSize_dicom d m ip c r s : (0 < r)%Z -> (0 < c)%Z -> (0 < s)%Z ->
  exists d', LongestMaxSize_apply_to_dicom d m ip c r s = Ok d' /\
    let f := inject_Z m / inject_Z (Z.max (Z.max r c) s) in
    h_spacing d' = (fst (h_spacing d) * f, snd (h_spacing d) * f) /\ same_but_spacing d' d.
Proof.
  intros Hr Hc Hs. unfold LongestMaxSize_apply_to_dicom. cbn zeta.
  rewrite divq_ok by (apply inject_pos; lia). cbn.
  eexists. split; [reflexivity|]. apply dicom_scale_spec.
Qed.

Lemma SmallestMaxSize_dicom d m ip c r s : (0 < r)%Z -> (0 < c)%Z -> (0 < s)%Z ->
  exists d', SmallestMaxSize_apply_to_dicom d m ip c r s = Ok d' /\
    let f := inject_Z m / inject_Z (Z.min (Z.min r c) s) in
    h_spacing d' = (fst (h_spacing d) * f, snd (h_spacing d) * f) /\ same_but_spacing d' d.
Proof.
  intros Hr Hc Hs. unfold SmallestMaxSize_apply_to_dicom. cbn zeta.
  rewrite divq_ok by (apply inject_pos; lia). cbn.
  eexists. split; [reflexivity|]. apply dicom_scale_spec.
Qed.

Lemma Resize_dicom sd sh sw d ip c r s : (0 < r)%Z -> (0 < c)%Z ->
  exists d', Resize_apply_to_dicom sd sh sw d ip c r s = Ok d' /\
    h_spacing d' = (fst (h_spacing d) * (inject_Z sh / inject_Z r), snd (h_spacing d) * (inject_Z sw / inject_Z c)) /\
    same_but_spacing d' d.
Proof.
  intros Hr Hc. unfold Resize_apply_to_dicom. cbn zeta.
  rewrite !divq_ok by (apply inject_pos; lia). cbn.
  eexists. split; [reflexivity|]. apply dicom_scale_spec.
Qed.

Lemma Transpose_dicom d c r s :
  h_spacing (Transpose_apply_to_dicom d c r s) = (snd (h_spacing d), fst (h_spacing d)) /\
  same_but_spacing (Transpose_apply_to_dicom d c r s) d.
Proof. apply transpose_dicom_spec. Qed.

(* quarter turns: rows and columns are swapped exactly by the odd turns in the xy plane *)
Lemma RandomRotate90_dicom d n c r s : In n [0; 1; 2; 3]%Z ->
  RandomRotate90_apply_to_dicom d n "xy" c r s = (if Z.odd n then transpose_dicom d else d) /\
  (forall ax, In ax ["yz"; "xz"]%string -> RandomRotate90_apply_to_dicom d n ax c r s = d).
Proof.
  intros Hn. split.
  - cbn in Hn. destruct Hn as [<-|[<-|[<-|[<-|[]]]]]; reflexivity.
  - intros ax Hax. cbn in Hax. destruct Hax as [<-|[<-|[]]]; reflexivity.
Qed.

(* crop-then-resize classes: the header factor is target extent / crop extent *)
Lemma RandomSizedCrop_dicom sh sw d hs ws ch cw cd ip c r s : (0 < ch)%Z -> (0 < cw)%Z ->
  exists d', RandomSizedCrop_apply_to_dicom sh sw d hs ws ch cw cd ip c r s = Ok d' /\
    h_spacing d' = (fst (h_spacing d) * (inject_Z sh / inject_Z ch), snd (h_spacing d) * (inject_Z sw / inject_Z cw)) /\
    same_but_spacing d' d.
Proof.
  intros Hh Hw. unfold RandomSizedCrop_apply_to_dicom.
  rewrite !divq_ok by (apply inject_pos; lia). cbn.
  eexists. split; [reflexivity|]. apply dicom_scale_spec.
Qed.

Lemma RandomSizedBBoxSafeCrop_dicom sh sw d hs ws ds ch cw cd ip c r s : (0 < ch)%Z -> (0 < cw)%Z ->
  exists d', RandomSizedBBoxSafeCrop_apply_to_dicom sh sw d hs ws ds ch cw cd ip c r s = Ok d' /\
    h_spacing d' = (fst (h_spacing d) * (inject_Z sh / inject_Z ch), snd (h_spacing d) * (inject_Z sw / inject_Z cw)) /\
    same_but_spacing d' d.
Proof.
  intros Hh Hw. unfold RandomSizedBBoxSafeCrop_apply_to_dicom.
  rewrite !divq_ok by (apply inject_pos; lia). cbn.
  eexists. split; [reflexivity|]. apply dicom_scale_spec.
Qed.

Lemma CropAndPad_dicom keep pm d cp pp pv pvm rr rc rs ip c r s : (0 < rr)%Z -> (0 < rc)%Z ->
  exists d', CropAndPad_apply_to_dicom keep pm d cp pp pv pvm rr rc rs ip c r s = Ok d' /\
    if keep then
      h_spacing d' = (fst (h_spacing d) * (inject_Z r / inject_Z rr), snd (h_spacing d) * (inject_Z c / inject_Z rc)) /\
      same_but_spacing d' d
    else d' = d.
Proof.
  intros Hh Hw. unfold CropAndPad_apply_to_dicom. destruct keep; cbn.
  - rewrite !divq_ok by (apply inject_pos; lia). cbn. eexists. split; [reflexivity|]. apply dicom_scale_spec.
  - eexists. split; reflexivity.
Qed.

(* SetPixelSpacing reaches the requested spacing (library convention: spacing * scale) *)
Lemma SetPixelSpacing_reaches_target sx sy d ip c r s :
  0 < fst (h_spacing d) -> 0 < snd (h_spacing d) ->
  exists fx fy, SetPixelSpacingS_get_params_dependent_on_targets sx sy d = Ok (fx, fy) /\
    let d' := SetPixelSpacing_apply_to_dicom d fx fy ip c r s in
    fst (h_spacing d') == sy /\ snd (h_spacing d') == sx /\ same_but_spacing d' d.
Proof.
  intros Hr Hc. unfold SetPixelSpacingS_get_params_dependent_on_targets.
  destruct d as [[pr pc] sl ic o]. cbn in *.
  rewrite !divq_ok by lra. cbn.
  eexists _, _. split; [reflexivity|]. cbn. repeat split; field; lra.
Qed.

(* default hook: identity *)
Lemma default_dicom d c r s : DualTransform_apply_to_dicom d c r s = d.
Proof. reflexivity. Qed.

(* ---- RescaleSlopeIntercept ---- *)
Lemma py_round_inject z : py_round (inject_Z z) = z.
Proof.
  unfold py_round. rewrite Qfloor_Z.
  assert (E : inject_Z z - inject_Z z == 0) by ring.
  assert (Qlt_bool (inject_Z z - inject_Z z) (1 # 2) = true) as ->; [|reflexivity].
  destruct (Qlt_bool_spec (inject_Z z - inject_Z z) (1 # 2)); [reflexivity|lra].
Qed.

Lemma py_round_comp a b : a == b -> py_round a = py_round b.
Proof.
  intros E. unfold py_round. rewrite (Qfloor_comp _ _ E).
  assert (E2 : a - inject_Z (Qfloor b) == b - inject_Z (Qfloor b)) by (rewrite E; reflexivity).
  assert (Qlt_bool (a - inject_Z (Qfloor b)) (1 # 2) = Qlt_bool (b - inject_Z (Qfloor b)) (1 # 2)) as -> by (rewrite E2; reflexivity).
  assert (Qlt_bool (1 # 2) (a - inject_Z (Qfloor b)) = Qlt_bool (1 # 2) (b - inject_Z (Qfloor b))) as -> by (rewrite E2; reflexivity).
  reflexivity.
Qed.

Lemma wrap_int16_id z : (-32768 <= z <= 32767)%Z -> wrap_int16 z = z.
Proof. intros H. unfold wrap_int16. rewrite Z.mod_small by lia. lia. Qed.

(* the voxel function: exact whenever raw*slope+intercept is an integer inside the int16 range
   (integer- or float-valued slope / intercept alike: the model computes over Q) *)
Lemma rescale_exact raw slope intercept z :
  inject_Z raw * slope + intercept == inject_Z z -> (-32768 <= z <= 32767)%Z ->
  rescale_slope_intercept (inject_Z raw) slope intercept = z.
Proof.
  intros E R. unfold rescale_slope_intercept. cbn zeta.
  rewrite (py_round_comp _ _ E), py_round_inject. apply wrap_int16_id, R.
Qed.

(* (voxels, header) denotes the same Hounsfield value before and after; a second application is a no-op *)
Definition hounsfield (voxel : Z) (d : header) : Q := inject_Z voxel * h_slope d + h_intercept d.

Lemma rescale_preserves_meaning raw d z cc rr ss :
  hounsfield raw d == inject_Z z -> (-32768 <= z <= 32767)%Z ->
  let '(sl, ic) := RescaleSlopeInterceptS_get_params_dependent_on_targets d in
  let v' := rescale_slope_intercept (inject_Z raw) sl ic in
  let d' := RescaleSlopeIntercept_apply_to_dicom d sl ic cc rr ss in
  v' = z /\ hounsfield v' d' == hounsfield raw d /\
  h_spacing d' = h_spacing d /\ h_rest d' = h_rest d /\
  (* second application *)
  let '(sl2, ic2) := RescaleSlopeInterceptS_get_params_dependent_on_targets d' in
  rescale_slope_intercept (inject_Z v') sl2 ic2 = v' /\ RescaleSlopeIntercept_apply_to_dicom d' sl2 ic2 cc rr ss = d'.
Proof.
  intros E R. unfold RescaleSlopeInterceptS_get_params_dependent_on_targets. cbn zeta.
  unfold hounsfield in E.
  rewrite (rescale_exact raw (h_slope d) (h_intercept d) z E R).
  unfold RescaleSlopeIntercept_apply_to_dicom. destruct (reset_spec d) as (S1 & S2 & S3 & S4).
  split; [reflexivity|]. split.
  - unfold hounsfield. rewrite S1, S2, E. ring.
  - split; [exact S3|]. split; [exact S4|]. rewrite S1, S2. split.
    + apply rescale_exact; [ring|exact R].
    + destruct d as [[pr pc] sl ic o]. reflexivity.
Qed.

(* ---- which classes have a header hook of their own (all others inherit the identity) ---- *)
Definition dicom_hook_classes : list string :=
  ["CropAndPad"; "LongestMaxSize"; "RandomRotate90"; "RandomScale"; "RandomSizedBBoxSafeCrop"; "RandomSizedCrop";
   "RescaleSlopeIntercept"; "Resize"; "SetPixelSpacing"; "ShiftScaleRotate"; "SmallestMaxSize"; "Transpose"]%string.
Definition dicom_hook_ok (c : cls) : bool :=
  Bool.eqb (mem "apply_to_dicom" (c_own c)) (mem (c_name c) dicom_hook_classes).
Lemma dicom_hooks_table : forallb dicom_hook_ok class_table = true.
Proof. vm_compute. reflexivity. Qed.
