(* PyRt.v -- run-time helpers referenced by generated code: checked division
   (Python raises ZeroDivisionError; Coq's total division would hide it) and a
   monadic fold for translated for-loops. *)
From DV.lib Require Import PyNum.
Open Scope Q_scope.

Definition divq (a b : Q) : res Q :=
  if Qeq_bool b 0 then Raise ZeroDivisionError else Ok (a / b).
Definition divz (a b : Z) : res Z :=
  if Z.eqb b 0 then Raise ZeroDivisionError else Ok (Z.div a b).
Definition modz (a b : Z) : res Z :=
  if Z.eqb b 0 then Raise ZeroDivisionError else Ok (Z.modulo a b).
(* float modulo; the translated code only uses positive moduli (2*pi) *)
Definition modq (a b : Q) : res Q :=
  if Qeq_bool b 0 then Raise ZeroDivisionError
  else Ok (a - b * inject_Z (Qfloor (a / b))).

Fixpoint fold_res {S A : Type} (f : S -> A -> res S) (l : list A) (s : S) : res S :=
  match l with
  | [] => Ok s
  | x :: tl => match f s x with Ok s' => fold_res f tl s' | Raise e => Raise e end
  end.

Fixpoint map_res {A B : Type} (f : A -> res B) (l : list A) : res (list B) :=
  match l with
  | [] => Ok []
  | x :: tl =>
      match f x with
      | Raise e => Raise e
      | Ok y => match map_res f tl with Ok ys => Ok (y :: ys) | Raise e => Raise e end
      end
  end.

Lemma divq_ok a b : ~ b == 0 -> divq a b = Ok (a / b).
Proof. intros H. unfold divq. destruct (Qeq_bool_spec b 0); [tauto|reflexivity]. Qed.
Lemma divz_ok a b : b <> 0%Z -> divz a b = Ok (Z.div a b).
Proof. intros H. unfold divz. destruct (Z.eqb_spec b 0); [tauto|reflexivity]. Qed.
Lemma modz_ok a b : b <> 0%Z -> modz a b = Ok (Z.modulo a b).
Proof. intros H. unfold modz. destruct (Z.eqb_spec b 0); [tauto|reflexivity]. Qed.
Lemma modq_pos a b : 0 < b -> modq a b = Ok (Qmodpos a b).
Proof.
  intros H. unfold modq. destruct (Qeq_bool_spec b 0) as [E|E].
  - rewrite E in H. discriminate.
  - reflexivity.
Qed.
