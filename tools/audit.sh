#!/bin/bash
# Audit of the Coq development: no axiom-introducing or check-disabling construct anywhere; every property
# theorem reports "Closed under the global context"; optional independent re-check with coqchk.
# usage: audit.sh [--coqchk]
cd /verif/coq || exit 1
bad=0
pat='Admitted|admit\b|Axiom|Parameter|Conjecture|Hypothesis|Variable |Unset Guard|bypass_check|Admit Obligations|type-in-type|impredicative-set|Unset Universe|Unset Positivity'
# Section-local Variable / Hypothesis are allowed (they are discharged at End); list them for the reader
hits=$(grep -nE "$pat" lib/*.v model/*.v proofs/*.v props/*.v gen/*.v 2>/dev/null | grep -vE '^\S+:\s*[0-9]+:\s*\(\*' )
outside=$(echo "$hits" | grep -vE 'Variable |Hypothesis ' )
if [ -n "$outside" ]; then echo "FORBIDDEN CONSTRUCT:"; echo "$outside"; bad=1; fi
echo "section-local variables / hypotheses (discharged at End Section):"
echo "$hits" | grep -E 'Variable |Hypothesis ' | sed 's/^/  /'
for f in props/C*.v; do
  n=$(grep -c '^Print Assumptions' $f)
  c=$(coqc -Q lib DV.lib -Q gen DV.gen -Q model DV.model -Q proofs DV.proofs -Q props DV.props $f 2>&1 | grep -c 'Closed under the global context')
  echo "$(basename $f): Print Assumptions=$n closed=$c"
  [ "$n" = "$c" ] || bad=1
done
if [ "$1" = "--coqchk" ]; then
  mods=$(ls props/C*.v | sed 's#props/\(.*\)\.v#DV.props.\1#')
  /usr/bin/time -f "coqchk wall %es maxrss %MkB" coqchk -silent -o -Q lib DV.lib -Q gen DV.gen -Q model DV.model -Q proofs DV.proofs -Q props DV.props $mods 2>&1 | tail -25
fi
exit $bad
