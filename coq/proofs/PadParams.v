(* PadParams.v -- PadIfNeeded.update_params (generated, with its position helper):
   the padded size is max(size, minimum) or the next multiple of the divisor, all pad amounts
   are non-negative, and the position only redistributes each axis' total. *)
From Coq Require Import ZArith QArith List Bool Lia Lqa String.
From DV.lib Require Import PyNum PyRt.
From DV.model Require Import Arrays NpRt.
From DV.gen Require Import Gen_cls_geom.
From DV.proofs Require Import Tac.
Open Scope Z_scope.

Lemma draw_int_ok a b k v : draw_int a b k = Ok v -> v = k /\ a <= k <= b.
Proof.
  unfold draw_int. destruct (Z.ltb_spec b a) as [?|Hab]; [discriminate|].
  destruct (Z.leb_spec a k) as [Hak|?]; cbn; [|discriminate].
  destruct (Z.leb_spec k b) as [Hkb|?]; cbn; [|discriminate].
  intros E. inversion E. lia.
Qed.

(* int(n / 2.0) for a non-negative integer n is n div 2 *)
Lemma py_int_half (n : Z) : 0 <= n -> py_int (inject_Z n / 2) = n / 2.
Proof.
  intros Hn.
  assert (A : (0 <= inject_Z n / 2)%Q).
  { apply Qle_shift_div_l; [reflexivity|]. rewrite Qmult_0_l. change 0%Q with (inject_Z 0). rewrite <- Zle_Qle. exact Hn. }
  destruct (py_int_nonneg _ A) as [L U]. pose proof (py_int_nonneg_ge0 _ A) as G.
  set (k := py_int (inject_Z n / 2)) in *.
  assert (L2 : (inject_Z (2 * k) <= inject_Z n)%Q).
  { rewrite inject_Z_mult. assert (E : (inject_Z n == (inject_Z n / 2) * 2)%Q) by field. rewrite E.
    change (inject_Z 2) with 2%Q. lra. }
  assert (U2 : (inject_Z n < inject_Z (2 * k + 2))%Q).
  { rewrite inject_Z_plus, inject_Z_mult. assert (E : (inject_Z n == (inject_Z n / 2) * 2)%Q) by field. rewrite E.
    change (inject_Z 2) with 2%Q. lra. }
  rewrite <- Zle_Qle in L2. rewrite <- Zlt_Qlt in U2.
  apply Z.div_unique with (r := n - 2 * k); lia.
Qed.

Definition axis_ok (n : Z) (mn dv : option Z) (before after : Z) : Prop :=
  0 <= before /\ 0 <= after /\
  match mn with
  | Some m => n + before + after = Z.max n m
  | None => match dv with
            | Some d => 0 < d -> (n + before + after) mod d = 0 /\ before + after < d
            | None => False
            end
  end.

Section Position.
Variables (mnd mnh mnw dvd dvh dvw : option Z) (pos : string).

Lemma position_preserves ht hb wl wr df db d1 d2 d3 ht' hb' wl' wr' df' db' :
  0 <= ht -> 0 <= hb -> 0 <= wl -> 0 <= wr -> 0 <= df -> 0 <= db ->
  PadIfNeededS_update_position_params mnd mnh mnw dvd dvh dvw pos ht hb wl wr df db d1 d2 d3
    = Ok (ht', hb', wl', wr', df', db') ->
  ht' + hb' = ht + hb /\ wl' + wr' = wl + wr /\ df' + db' = df + db /\
  0 <= ht' /\ 0 <= hb' /\ 0 <= wl' /\ 0 <= wr' /\ 0 <= df' /\ 0 <= db'.
Proof.
  intros A1 A2 A3 A4 A5 A6 H. unfold PadIfNeededS_update_position_params in H.
  repeat match type of H with
  | context [streq pos ?s] => destruct (streq pos s); cbn in H
  end; res_inv;
  repeat match goal with
  | Hd : draw_int _ _ _ = Ok _ |- _ => apply draw_int_ok in Hd; destruct Hd as [-> ?]
  end; repeat split; lia.
Qed.
End Position.

Lemma py_int_comp q q' : (q == q')%Q -> py_int q = py_int q'.
Proof.
  intros E. unfold py_int. rewrite (Qfloor_comp _ _ E), (Qceiling_comp _ _ E).
  assert (Qle_bool 0 q = Qle_bool 0 q') as -> by (rewrite E; reflexivity). reflexivity.
Qed.

Lemma half_pad n m : n < m ->
  py_int ((inject_Z m - inject_Z n) / 2) = (m - n) / 2.
Proof.
  intros H. rewrite <- (py_int_half (m - n)) by lia. apply py_int_comp.
  rewrite inject_Z_sub. reflexivity.
Qed.

(* the amounts computed for one axis, before the position step *)
Lemma axis_min n m : let '(after, before) :=
    (if Z.ltb n m then (let before := py_int ((inject_Z m - inject_Z n) / 2) in ((m - n) - before, before)) else (0, 0)) in
  axis_ok n (Some m) None before after.
Proof.
  destruct (Z.ltb_spec n m) as [L|L]; unfold axis_ok.
  - rewrite (half_pad n m L). pose proof (Z.div_pos (m - n) 2). pose proof (Z.div_le_upper_bound (m - n) 2 (m - n)).
    assert (2 * ((m - n) / 2) <= m - n) by (apply Z.mul_div_le; lia). repeat split; lia.
  - repeat split; lia.
Qed.

Lemma axis_div n d : 0 < d ->
  let rem := n mod d in
  let pad := if Z.gtb rem 0 then d - rem else 0 in
  let before := pad / 2 in
  axis_ok n None (Some d) before (pad - before).
Proof.
  intros Hd rem pad before. unfold axis_ok.
  pose proof (Z.mod_pos_bound n d Hd) as B. fold rem in B.
  assert (P : 0 <= pad /\ pad < d /\ (n + pad) mod d = 0).
  { unfold pad. rewrite Z.gtb_ltb. destruct (Z.ltb_spec 0 rem) as [G|G].
    - repeat split; try lia. unfold rem.
      rewrite (Z.div_mod n d) at 1 by lia.
      replace (d * (n / d) + n mod d + (d - n mod d)) with ((n / d + 1) * d) by ring.
      apply Z.mod_mul. lia.
    - assert (rem = 0) by lia. repeat split; try lia. rewrite Z.add_0_r. unfold rem in H. exact H. }
  destruct P as (P0 & P1 & P2).
  assert (0 <= before) by (unfold before; apply Z.div_pos; lia).
  assert (2 * before <= pad) by (unfold before; apply Z.mul_div_le; lia).
  repeat split; try lia.
  replace (n + before + (pad - before)) with (n + pad) by ring. exact P2.
Qed.

(* constructor invariant of PadIfNeeded: exactly one of (minimum, divisor) per axis; divisors positive *)
Definition cfg_ok (mn dv : option Z) : Prop :=
  match mn, dv with
  | Some _, None => True
  | None, Some d => 0 < d
  | _, _ => False
  end.

Lemma axis_min_lt n m : n < m ->
  axis_ok n (Some m) None (py_int ((inject_Z m - inject_Z n) / 2)) (m - n - py_int ((inject_Z m - inject_Z n) / 2)).
Proof. intros L. pose proof (axis_min n m) as A. destruct (Z.ltb_spec n m); [exact A | lia]. Qed.
Lemma axis_min_ge n m : m <= n -> axis_ok n (Some m) None 0 0.
Proof. intros L. pose proof (axis_min n m) as A. destruct (Z.ltb_spec n m); [lia | exact A]. Qed.
Lemma axis_div_pos n d : 0 < d -> 0 < n mod d ->
  axis_ok n None (Some d) ((d - n mod d) / 2) ((d - n mod d) - (d - n mod d) / 2).
Proof. intros Hd G. pose proof (axis_div n d Hd) as A. cbn zeta in A. destruct (Z.gtb_spec (n mod d) 0); [exact A | lia]. Qed.
Lemma axis_div_zero n d : 0 < d -> n mod d <= 0 -> axis_ok n None (Some d) (0 / 2) (0 - 0 / 2).
Proof. intros Hd G. pose proof (axis_div n d Hd) as A. cbn zeta in A. destruct (Z.gtb_spec (n mod d) 0); [lia | exact A]. Qed.

(* one axis of the generated code: Hx is the hypothesis produced by inverting the bind *)
Ltac axis_case Hx n mn dv Cfg :=
  let m := fresh "m" in let d := fresh "d" in
  destruct mn as [m|]; destruct dv as [d|]; cbn in Cfg; try contradiction;
  [ destruct (Z.ltb_spec n m); cbn in Hx; inversion Hx; subst;
    first [apply axis_min_lt; assumption | apply axis_min_ge; assumption]
  | cbn in Hx; rewrite modz_ok in Hx by lia; cbn in Hx;
    destruct (Z.gtb_spec (n mod d) 0); cbn in Hx; inversion Hx; subst;
    first [apply axis_div_pos; assumption | apply axis_div_zero; assumption] ].

Theorem pad_params_ok mnd mnh mnw dvd dvh dvw pos rows cols slices d1 d2 d3 pt pb pl pr pf pk :
  cfg_ok mnh dvh -> cfg_ok mnw dvw -> cfg_ok mnd dvd ->
  PadIfNeededS_update_params mnd mnh mnw dvd dvh dvw pos rows cols slices d1 d2 d3 = Ok (pt, pb, pl, pr, pf, pk) ->
  axis_ok rows mnh dvh pt pb /\ axis_ok cols mnw dvw pl pr /\ axis_ok slices mnd dvd pf pk.
Proof.
  intros Ch Cw Cd H. unfold PadIfNeededS_update_params in H. cbn zeta in H.
  res_inv.
  match goal with
  | HP : PadIfNeededS_update_position_params _ _ _ _ _ _ _ _ _ _ _ _ _ _ _ _ = Ok _ |- _ => rename HP into HPos end.
  match goal with HH : context [rows] |- _ => rename HH into HRows end.
  match goal with HH : context [cols] |- _ => rename HH into HCols end.
  match goal with HH : context [slices] |- _ => rename HH into HSlices end.
  match type of HPos with
  | PadIfNeededS_update_position_params _ _ _ _ _ _ _ ?ht ?hb ?wl ?wr ?df ?db _ _ _ = Ok _ =>
      assert (AH : axis_ok rows mnh dvh ht hb) by (clear HPos HCols HSlices; axis_case HRows rows mnh dvh Ch);
      assert (AW : axis_ok cols mnw dvw wl wr) by (clear HPos HRows HSlices; axis_case HCols cols mnw dvw Cw);
      assert (AD : axis_ok slices mnd dvd df db) by (clear HPos HRows HCols; axis_case HSlices slices mnd dvd Cd)
  end.
  destruct AH as (H1 & H2 & H3); destruct AW as (W1 & W2 & W3); destruct AD as (D1 & D2 & D3).
  apply position_preserves in HPos; try assumption.
  destruct HPos as (S1 & S2 & S3 & P1 & P2 & P3 & P4 & P5 & P6).
  unfold axis_ok. repeat split; try assumption.
  - destruct mnh; [lia|]. destruct dvh; [|exact H3]. intros Hd. destruct (H3 Hd). rewrite <- Z.add_assoc, S1, Z.add_assoc. split; [assumption|lia].
  - destruct mnw; [lia|]. destruct dvw; [|exact W3]. intros Hd. destruct (W3 Hd). rewrite <- Z.add_assoc, S2, Z.add_assoc. split; [assumption|lia].
  - destruct mnd; [lia|]. destruct dvd; [|exact D3]. intros Hd. destruct (D3 Hd). rewrite <- Z.add_assoc, S3, Z.add_assoc. split; [assumption|lia].
Qed.
