"""C11 failing-input search: after any call (returning or raising) every caller-held object --
image, mask, masks, boxes, keypoints, label lists, header dict -- still holds its values; arrays
are also passed as non-contiguous views and as read-only arrays (any in-place write then raises)."""
import copy
import random

import numpy as np

import implrun as R
from ctor_args import CTOR, configurations, channel_configurations

A = R.A
DICOM = {'PixelSpacing': (0.7, 0.4), 'RescaleIntercept': -1024.0, 'RescaleSlope': 1.0, 'ConvolutionKernel': 'STANDARD',
         'XRayTubeCurrent': 160}


def detuple(v):
    if isinstance(v, list):
        return tuple(detuple(x) for x in v)
    if isinstance(v, dict):
        return {k: detuple(x) for k, x in v.items()}
    return v


def jsonable(v):
    if isinstance(v, (tuple, list)):
        return [jsonable(x) for x in v]
    if isinstance(v, dict):
        return {k: jsonable(x) for k, x in v.items()}
    return v


def layout(arr, kind):
    if kind == 'view':
        big = np.zeros(tuple(2 * s for s in arr.shape[:3]) + arr.shape[3:], arr.dtype)
        v = big[::2, ::2, ::2]
        v[...] = arr
        return v
    if kind == 'fortran':
        return np.asfortranarray(arr)
    if kind == 'readonly':
        a = arr.copy()
        a.setflags(write=False)
        return a
    return arr.copy()


def same(a, b):
    if isinstance(a, np.ndarray):
        return isinstance(b, np.ndarray) and a.dtype == b.dtype and a.shape == b.shape and np.array_equal(a, b, equal_nan=a.dtype.kind == 'f')
    if isinstance(a, dict):
        return isinstance(b, dict) and list(a.keys()) == list(b.keys()) and all(same(a[k], b[k]) for k in a)
    if isinstance(a, (list, tuple)):
        return type(a) is type(b) and len(a) == len(b) and all(same(x, y) for x, y in zip(a, b))
    return type(a) is type(b) and a == b


def check(case, viol):
    name = case['name']
    kw = {k: (detuple(v) if k != 'axes' else v) for k, v in case['kw'].items()}
    spec = CTOR[name]
    shape = tuple(case['shape'])
    H, W, D = shape
    rs = np.random.RandomState(case['seed'] % 100000)
    kind = case['image']
    full = shape + ((case['channels'],) if case.get('channels') else ())
    if kind == 'float':
        img = rs.rand(*full).astype(np.float32)
    elif kind in ('int16', 'int32', 'uint16'):
        img = rs.randint(0, 1500, full).astype(kind)
    elif kind == 'float64':
        img = rs.rand(*full)
    else:
        img = rs.randint(0, 255, full).astype(np.uint8)
    mask = rs.randint(0, 5, shape).astype(np.int32)
    lay = case['layout']
    data = dict(image=layout(img, lay), mask=layout(mask, lay), masks=[layout(mask, lay), layout(mask + 1, lay)],
                dicom=copy.deepcopy(DICOM))
    if case.get('float_header'):
        data['dicom']['RescaleSlope'] = 1.0
    # the header's sequence-valued field in the container types a caller may hold it in (a mutable one can be written to)
    sk = case.get('spacing', 'tuple')
    if sk == 'list':
        data['dicom']['PixelSpacing'] = list(DICOM['PixelSpacing'])
    elif sk == 'ndarray':
        data['dicom']['PixelSpacing'] = np.array(DICOM['PixelSpacing'], dtype=np.float64)
    if case['boxes']:
        mk = list if case['boxes'] == 'list' else tuple
        data['bboxes'] = [mk([1.0, 1.0, 1.0, W - 2.0, H - 2.0, D - 2.0]), mk([2.0, 1.5, 0.5, 5.0, 4.5, 3.5])]
        data['cls'] = ['a', 'b']
    if case['kps']:
        mk = list if case['kps'] == 'list' else tuple
        data['keypoints'] = [mk([float(rs.randint(0, W)), float(rs.randint(0, H)), float(rs.randint(0, D)), 0.3, 1.5]) for _ in range(6)]
        data['ids'] = list(range(6))
    if 'cropping_bbox' in spec.get('needs', []):
        data[kw.get('cropping_box_key', 'cropping_bbox')] = [2, 2, 1, W - 2, H - 2, D - 1]
    ckw = {}
    if case['boxes']:
        ckw['bbox_params'] = A.BboxParams('pascal_voc_3d', label_fields=['cls'])
    if case['kps']:
        ckw['keypoint_params'] = A.KeypointParams('xyzas', label_fields=['ids'], angle_in_degrees=False)
    ref = copy.deepcopy(data)
    outcome = 'returned'
    try:
        pipe = A.Compose([getattr(A, name)(p=1.0, **kw)] + [getattr(A, t)(p=1.0) for t in case.get('then', [])], **ckw)
        R.seed(case['seed'])
        np.random.seed(3)
        pipe(**data)
    except Exception as e:  # noqa
        outcome = '%s: %s' % (type(e).__name__, str(e)[:120])
        if 'read-only' in str(e) or 'readonly' in str(e) or 'WRITEABLE' in str(e):
            viol.append({'site': 'C11:%s:readonly-write' % name, 'case': jsonable(case), 'observed': outcome,
                         'expected': 'no write into the (read-only) input array'})
            return outcome
    for k in ref:
        if not same(ref[k], data[k]):
            viol.append({'site': 'C11:%s:%s' % (name, k), 'case': jsonable(case), 'outcome': outcome,
                         'observed': '%s changed by the call: %s' % (k, str(data[k])[:160]),
                         'expected': 'unchanged: %s' % str(ref[k])[:160]})
            return outcome
    return outcome


def make_cases(rng, tier):
    cases = []
    for name in sorted(CTOR):
        spec = CTOR[name]
        cfgs = configurations(name)
        for kw in cfgs:
            for lay in (['c', 'readonly'] if tier == 'quick' else ['c', 'view', 'fortran', 'readonly']):
                # image dtypes in rotation, so that every class meets every dtype (float64 too: the dtype Compose itself
                # recommends for values outside [0, 1]) at least once
                kinds = ['uint8', 'float', 'int16', 'float64', 'uint16']
                img = spec.get('image', kinds[(len(cases) + (0 if lay == 'c' else 2)) % 5])
                supports_boxes = name not in ('CoarseDropout', 'GridDropout')
                supports_kps = name not in ('BBoxSafeRandomCrop', 'RandomSizedBBoxSafeCrop', 'GridDropout')
                cases.append({'name': name, 'kw': jsonable(kw), 'shape': [12, 10, 8], 'seed': R.pick_seed(rng),
                              'image': img, 'layout': lay, 'channels': 2 if 'apply_to_channel_idx' in kw else rng.choice([None, None, 3]),
                              'boxes': rng.choice(['list', 'tuple']) if supports_boxes else None,
                              'kps': rng.choice(['list', 'tuple']) if supports_kps else None,
                              'then': rng.choice([[], [], ['HorizontalFlip']]),
                              'spacing': ['tuple', 'ndarray', 'list'][len(cases) % 3]})
        # configurations that address the channels (per-channel bit depths): on an image with that many channels
        for ch, kw in channel_configurations(name):
            for lay in (['c', 'readonly'] if tier == 'quick' else ['c', 'view', 'fortran', 'readonly']):
                cases.append({'name': name, 'kw': jsonable(kw), 'shape': [12, 10, 8], 'seed': R.pick_seed(rng),
                              'image': spec.get('image', 'uint8'), 'layout': lay, 'channels': ch, 'boxes': None, 'kps': None,
                              'then': [], 'spacing': 'tuple'})
    return cases


def run(seed=0, tier='quick', hints=None, broken=False):
    rng = random.Random(seed * 32452843 + 11)
    cases = make_cases(rng, 'thorough' if broken else tier)
    viol, outcomes = [], {}
    for c in cases:
        o = check(c, viol)
        o = 'returned' if o == 'returned' else o.split(':')[0]
        outcomes[o] = outcomes.get(o, 0) + 1
    return {'violations': viol, 'info': {'evaluations': len(cases), 'distinct': len(cases), 'outcomes': outcomes,
                                         'what': 'deep comparison of every caller-held object before / after the call'}}


def replay(v):
    out = []
    check(v['case'], out)
    return out
