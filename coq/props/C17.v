(* C17 -- Lattice transforms obey their group laws on every target.
   Statements only; proofs live in DV.proofs.  The functions mentioned here are
   the Gallina definitions regenerated from /repo's source on every run. *)
From DV.lib Require Import PyNum PyRt Angle.
From DV.gen Require Import Gen_bbox_utils Gen_keypoints_utils Gen_geom_functional.
From DV.proofs Require Import C17_box C17_kp.
Open Scope Q_scope.

(* ---- boxes (normalised coordinates; the frame arguments are ignored by the maps) ---- *)
Theorem C17_box_flip_twice : forall r c s r' c' s' b,
  box_eq (bbox_vflip (bbox_vflip b r c s) r' c' s') b /\
  box_eq (bbox_hflip (bbox_hflip b r c s) r' c' s') b /\
  box_eq (bbox_zflip (bbox_zflip b r c s) r' c' s') b.
Proof. intros. repeat split; [apply bbox_vflip_invol | apply bbox_hflip_invol | apply bbox_zflip_invol]. Qed.
Print Assumptions C17_box_flip_twice.

Theorem C17_box_flipcode_twice : forall r c s r' c' s' b d, In d flipcodes ->
  res_box_eq (do b1 <- bbox_flip b d r c s; bbox_flip b1 d r' c' s') (Ok b).
Proof. exact bbox_flip_invol. Qed.
Print Assumptions C17_box_flipcode_twice.

Theorem C17_box_flips_commute : forall r c s b,
  box_eq (bbox_vflip (bbox_hflip b r c s) r c s) (bbox_hflip (bbox_vflip b r c s) r c s) /\
  box_eq (bbox_vflip (bbox_zflip b r c s) r c s) (bbox_zflip (bbox_vflip b r c s) r c s) /\
  box_eq (bbox_hflip (bbox_zflip b r c s) r c s) (bbox_zflip (bbox_hflip b r c s) r c s).
Proof. exact bbox_flips_commute. Qed.
Print Assumptions C17_box_flips_commute.

Theorem C17_box_flip_all_is_three_flips : forall r c s b,
  res_box_eq (bbox_flip b (-1) r c s) (Ok (bbox_zflip (bbox_vflip (bbox_hflip b r c s) r c s) r c s)).
Proof. exact bbox_flip_all. Qed.
Print Assumptions C17_box_flip_all_is_three_flips.

Theorem C17_box_transpose_twice : forall r c s r' c' s' b,
  res_box_eq (do b1 <- bbox_transpose b 0 r c s; bbox_transpose b1 0 r' c' s') (Ok b).
Proof. exact bbox_transpose_invol. Qed.
Print Assumptions C17_box_transpose_twice.

Theorem C17_box_rot90_k_then_4_minus_k : forall r c s r' c' s' b k ax, In k factors -> In ax planes ->
  res_box_eq (do b1 <- bbox_rot90 b k ax r c s; bbox_rot90 b1 ((4 - k) mod 4) ax r' c' s') (Ok b).
Proof. exact bbox_rot90_inverse. Qed.
Print Assumptions C17_box_rot90_k_then_4_minus_k.

Theorem C17_box_rot90_four_turns : forall r c s b ax, In ax planes ->
  res_box_eq (do b1 <- bbox_rot90 b 1 ax r c s; do b2 <- bbox_rot90 b1 1 ax r c s;
              do b3 <- bbox_rot90 b2 1 ax r c s; bbox_rot90 b3 1 ax r c s) (Ok b).
Proof. exact bbox_rot90_four. Qed.
Print Assumptions C17_box_rot90_four_turns.

(* ---- keypoints: position, angle (in [0, 2pi)) and scale ---- *)
Theorem C17_kp_flip_twice : forall r c s k, angle_ok k ->
  kp_eq (keypoint_vflip (keypoint_vflip k r c s) r c s) k /\
  kp_eq (keypoint_hflip (keypoint_hflip k r c s) r c s) k /\
  kp_eq (keypoint_zflip (keypoint_zflip k r c s) r c s) k.
Proof. intros. repeat split; [apply kp_vflip_invol | apply kp_hflip_invol | apply kp_zflip_invol]; assumption. Qed.
Print Assumptions C17_kp_flip_twice.

Theorem C17_kp_flipcode_twice : forall r c s k d, In d flipcodes -> angle_ok k ->
  res_kp_eq (do k1 <- keypoint_flip k d r c s; keypoint_flip k1 d r c s) (Ok k).
Proof. exact kp_flip_invol. Qed.
Print Assumptions C17_kp_flipcode_twice.

Theorem C17_kp_flips_commute : forall r c s k,
  kp_eq (keypoint_vflip (keypoint_hflip k r c s) r c s) (keypoint_hflip (keypoint_vflip k r c s) r c s) /\
  kp_eq (keypoint_vflip (keypoint_zflip k r c s) r c s) (keypoint_zflip (keypoint_vflip k r c s) r c s) /\
  kp_eq (keypoint_hflip (keypoint_zflip k r c s) r c s) (keypoint_zflip (keypoint_hflip k r c s) r c s).
Proof. exact kp_flips_commute. Qed.
Print Assumptions C17_kp_flips_commute.

Theorem C17_kp_flip_all_is_three_flips : forall r c s k,
  res_kp_eq (keypoint_flip k (-1) r c s)
            (Ok (keypoint_zflip (keypoint_vflip (keypoint_hflip k r c s) r c s) r c s)).
Proof. exact kp_flip_all. Qed.
Print Assumptions C17_kp_flip_all_is_three_flips.

Theorem C17_kp_transpose_twice : forall k, angle_ok k -> kp_eq (keypoint_transpose (keypoint_transpose k)) k.
Proof. exact kp_transpose_invol. Qed.
Print Assumptions C17_kp_transpose_twice.

(* the second turn sees the frame the first one produced (rows/cols/slices permuted) *)
Theorem C17_kp_rot90_k_then_4_minus_k : forall f k n ax, In n factors -> In ax planes -> angle_ok k ->
  res_kp_eq (do k1 <- kp_rot90_in f k n ax; kp_rot90_in (rot_frame ax n f) k1 ((4 - n) mod 4) ax) (Ok k).
Proof. exact kp_rot90_inverse. Qed.
Print Assumptions C17_kp_rot90_k_then_4_minus_k.

Theorem C17_kp_rot90_four_turns : forall f k ax, In ax planes -> angle_ok k ->
  res_kp_eq (do k1 <- kp_rot90_in f k 1 ax;
             do k2 <- kp_rot90_in (rot_frame ax 1 f) k1 1 ax;
             do k3 <- kp_rot90_in f k2 1 ax;
             kp_rot90_in (rot_frame ax 1 f) k3 1 ax) (Ok k).
Proof. exact kp_rot90_four. Qed.
Print Assumptions C17_kp_rot90_four_turns.

(* ---- relations BETWEEN the lattice maps: the laws above hold for ANY consistently renumbered set of turns (swap
   what factors 1 and 3 mean and k-then-(4-k) still returns the input); the relations below pin every quarter turn
   of the xy plane to the transpose and the flips, for boxes and for keypoints incl. angle and scale ---- *)
Theorem C17_box_rot90_factor_is_k_single_turns : forall r c s b ax, In ax planes ->
  res_box_eq (do b1 <- bbox_rot90 b 1 ax r c s; bbox_rot90 b1 1 ax r c s) (bbox_rot90 b 2 ax r c s) /\
  res_box_eq (do b1 <- bbox_rot90 b 2 ax r c s; bbox_rot90 b1 1 ax r c s) (bbox_rot90 b 3 ax r c s).
Proof. intros. split; [apply bbox_rot90_two | apply bbox_rot90_three]; assumption. Qed.
Print Assumptions C17_box_rot90_factor_is_k_single_turns.

Theorem C17_box_dihedral_relations : forall r c s r' c' s' b,
  res_box_eq (bbox_rot90 b 1 "xy" r c s) (do b1 <- bbox_transpose b 0 r c s; Ok (bbox_vflip b1 r' c' s')) /\
  res_box_eq (bbox_rot90 b 3 "xy" r c s) (do b1 <- bbox_transpose b 0 r c s; Ok (bbox_hflip b1 r' c' s')) /\
  res_box_eq (bbox_transpose b 1 r c s) (do b1 <- bbox_transpose b 0 r c s; bbox_rot90 b1 2 "xy" r' c' s') /\
  (res_box_eq (bbox_rot90 b 2 "xy" r c s) (Ok (bbox_vflip (bbox_hflip b r c s) r' c' s')) /\
   res_box_eq (bbox_rot90 b 2 "yz" r c s) (Ok (bbox_zflip (bbox_vflip b r c s) r' c' s')) /\
   res_box_eq (bbox_rot90 b 2 "xz" r c s) (Ok (bbox_zflip (bbox_hflip b r c s) r' c' s'))).
Proof.
  intros. repeat apply conj;
  [apply bbox_rot90_is_transpose_vflip | apply bbox_rot270_is_transpose_hflip
  | apply bbox_antitranspose_is_transpose_rot180 | apply bbox_rot180_is_two_flips ..].
Qed.
Print Assumptions C17_box_dihedral_relations.

Theorem C17_box_flip_conjugates_and_commutes_with_turns : forall r c s r' c' s' b k, In k factors ->
  (res_box_eq (do b1 <- bbox_rot90 (bbox_vflip b r c s) k "xy" r c s; Ok (bbox_vflip b1 r' c' s'))
              (bbox_rot90 b ((4 - k) mod 4) "xy" r c s) /\
   res_box_eq (do b1 <- bbox_rot90 (bbox_hflip b r c s) k "xy" r c s; Ok (bbox_hflip b1 r' c' s'))
              (bbox_rot90 b ((4 - k) mod 4) "xy" r c s)) /\
  res_box_eq (do b1 <- bbox_rot90 b k "xy" r c s; Ok (bbox_zflip b1 r' c' s')) (bbox_rot90 (bbox_zflip b r c s) k "xy" r c s) /\
  res_box_eq (do b1 <- bbox_rot90 b k "yz" r c s; Ok (bbox_hflip b1 r' c' s')) (bbox_rot90 (bbox_hflip b r c s) k "yz" r c s) /\
  res_box_eq (do b1 <- bbox_rot90 b k "xz" r c s; Ok (bbox_vflip b1 r' c' s')) (bbox_rot90 (bbox_vflip b r c s) k "xz" r c s).
Proof.
  intros r c s r' c' s' b k Hk. repeat apply conj;
  [apply bbox_flip_conjugates_rot90 | apply bbox_flip_conjugates_rot90 | apply bbox_zflip_commutes_rot90_xy
  | apply bbox_hflip_commutes_rot90_yz | apply bbox_vflip_commutes_rot90_xz]; exact Hk.
Qed.
Print Assumptions C17_box_flip_conjugates_and_commutes_with_turns.

Theorem C17_kp_rot90_factor_is_k_single_turns : forall f k ax, In ax planes ->
  res_kp_eq (do k1 <- kp_rot90_in f k 1 ax; kp_rot90_in (rot_frame ax 1 f) k1 1 ax) (kp_rot90_in f k 2 ax) /\
  res_kp_eq (do k1 <- kp_rot90_in f k 2 ax; kp_rot90_in f k1 1 ax) (kp_rot90_in f k 3 ax).
Proof. intros. split; [apply kp_rot90_two | apply kp_rot90_three]; assumption. Qed.
Print Assumptions C17_kp_rot90_factor_is_k_single_turns.

(* the flips after the transpose act in the transposed frame: rows = c, columns = r *)
Theorem C17_kp_dihedral_relations : forall r c s k, angle_ok k ->
  res_kp_eq (keypoint_rot90 k 1 "xy" r c s) (Ok (keypoint_vflip (keypoint_transpose k) c r s)) /\
  res_kp_eq (keypoint_rot90 k 3 "xy" r c s) (Ok (keypoint_hflip (keypoint_transpose k) c r s)) /\
  res_kp_eq (keypoint_rot90 k 2 "xy" r c s) (Ok (keypoint_vflip (keypoint_hflip k r c s) r c s)).
Proof.
  intros r c s k H. repeat apply conj;
  [apply kp_rot90_is_transpose_vflip; exact H | apply kp_rot270_is_transpose_hflip; exact H | apply kp_rot180_is_two_flips].
Qed.
Print Assumptions C17_kp_dihedral_relations.

Theorem C17_kp_flip_conjugates_and_commutes_with_turns : forall r c s k n, In n factors ->
  res_kp_eq (do k1 <- keypoint_rot90 (keypoint_vflip k r c s) n "xy" r c s;
             Ok (let '(r1, c1, s1) := rot_frame "xy" n (r, c, s) in keypoint_vflip k1 r1 c1 s1))
            (keypoint_rot90 k ((4 - n) mod 4) "xy" r c s) /\
  res_kp_eq (do k1 <- keypoint_rot90 k n "xy" r c s; Ok (keypoint_zflip k1 r c s))
            (keypoint_rot90 (keypoint_zflip k r c s) n "xy" r c s).
Proof.
  intros r c s k n Hn. split; [apply kp_vflip_conjugates_rot90 | apply kp_zflip_commutes_rot90_xy]; exact Hn.
Qed.
Print Assumptions C17_kp_flip_conjugates_and_commutes_with_turns.

(* a pad followed by the inverse crop (generated PadIfNeeded and Crop methods): boxes, keypoints (incl. angle and
   scale) and voxels return to their original values, for every frame and all six pad amounts *)
From Coq Require Import ZArith String.
From DV.model Require Import Arrays NpRt.
From DV.gen Require Import Gen_crops_functional Gen_geom_arrays Gen_cls_geom Gen_cls_crops.
From DV.proofs Require Import PadCropInv Cls_lattice2.
Theorem C17_pad_then_inverse_crop :
  (forall bm mv v b pt pb pl pr pf pk r c s,
     (0 < r)%Z -> (0 < c)%Z -> (0 < s)%Z -> (0 <= pt)%Z -> (0 <= pb)%Z -> (0 <= pl)%Z -> (0 <= pr)%Z -> (0 <= pf)%Z -> (0 <= pk)%Z ->
     exists b1 b2,
       PadIfNeeded_apply_to_bbox bm mv v b pt pb pl pr pf pk c r s = Ok b1 /\
       Crop_apply_to_bbox (pl + c) pl (pt + r) pt (pf + s) pf b1 (c + pl + pr) (r + pt + pb) (s + pf + pk) = Ok b2 /\
       box_eq b2 b) /\
  (forall bm mv v k pt pb pl pr pf pk r c s r' c' s',
     kp_eq (Crop_apply_to_keypoint (pl + c) pl (pt + r) pt (pf + s) pf
              (PadIfNeeded_apply_to_keypoint bm mv v k pt pb pl pr pf pk c r s) c' r' s') k) /\
  (forall v r c s pt pb pl pr pf pk val,
     vshape v = (r, c, s) -> (0 < r)%Z -> (0 < c)%Z -> (0 < s)%Z -> pad_ok pt pb pl pr pf pk ->
     exists v1 v2, pad_with_params v pt pb pl pr pf pk "constant" val = Ok v1 /\
                   crop v1 pl pt pf (pl + c) (pt + r) (pf + s) = Ok v2 /\
                   vshape v2 = vshape v /\ forall o, in_range (vshape v) o = true -> vat v2 o = vat v o).
Proof.
  repeat split.
  - exact pad_then_inverse_crop_box.
  - exact pad_then_inverse_crop_keypoint.
  - exact pad_then_inverse_crop_voxels.
Qed.
Print Assumptions C17_pad_then_inverse_crop.
