(* C04_filter.v -- filter_bboxes (generated) is exactly clip-then-threshold: characterisation
   of one loop step, lifted to lists; kept boxes are valid. *)
From Coq Require Import ZArith QArith List Bool Lia Lqa.
From DV.lib Require Import PyNum PyRt.
From DV.gen Require Import Gen_bbox_utils.
From DV.proofs Require Import Tac Conv.
Open Scope Q_scope.

Record thresholds := mkThr { t_area_vis : Q; t_vol_vis : Q; t_area : Q; t_vol : Q; t_w : Q; t_h : Q; t_d : Q }.

Definition clip01 (b : box) : box := box_map (fun v => clip v 0 1) b.
(* pixel extents of a normalised box in an r x c x s frame *)
Definition ext (b : box) (r c s : Z) : Q * Q * Q :=
  let '(x1, y1, z1, x2, y2, z2) := b in
  ((x2 - x1) * inject_Z c, (y2 - y1) * inject_Z r, (z2 - z1) * inject_Z s).
Definition area_of (b : box) r c s : Q := let '(w, h, d) := ext b r c s in w * h.
Definition vol_of (b : box) r c s : Q := let '(w, h, d) := ext b r c s in w * h * d.

(* the documented decision: the clipped remainder is non-empty and meets every (inclusive)
   threshold, visibility measured against the box before clipping *)
Definition keepb (t : thresholds) (b : box) (r c s : Z) : bool :=
  let cb := clip01 b in
  let '(w, h, d) := ext cb r c s in
  Qne_bool (vol_of cb r c s) 0 &&
  Qge_bool (area_of cb r c s) (t_area t) && Qge_bool (vol_of cb r c s) (t_vol t) &&
  Qge_bool (area_of cb r c s / area_of b r c s) (t_area_vis t) &&
  Qge_bool (vol_of cb r c s / vol_of b r c s) (t_vol_vis t) &&
  Qge_bool w (t_w t) && Qge_bool h (t_h t) && Qge_bool d (t_d t).

Definition keep_list (t : thresholds) (r c s : Z) (b : box) : list box :=
  if keepb t b r c s then [clip01 b] else [].

Definition proper_box (b : box) : Prop :=
  let '(x1, y1, z1, x2, y2, z2) := b in x1 < x2 /\ y1 < y2 /\ z1 < z2.

Lemma calc_ok b r c s : (0 < r)%Z -> (0 < c)%Z -> (0 < s)%Z ->
  exists a v, calculate_bbox_area_volume b r c s = Ok (a, v) /\ a == area_of b r c s /\ v == vol_of b r c s.
Proof.
  intros Hr Hc Hs. destruct_box b. unfold calculate_bbox_area_volume.
  rewrite denormalize_bbox_ok by assumption. unfold denorm_box. cbn.
  eexists. eexists. split; [reflexivity|]. unfold area_of, vol_of, ext. split; ring.
Qed.

(* clipping a proper box never inverts it; a zero clipped volume is the only way to lose it *)
Lemma clip_mono a b : a <= b -> clip a 0 1 <= clip b 0 1.
Proof.
  intros H. unfold clip. apply Q.min_le_compat_r. apply Q.max_le_compat_r. exact H.
Qed.

Lemma fold_res_app {A} (f : list A -> box -> res (list A)) (g : box -> list A) l :
  (forall acc b, In b l -> f acc b = Ok (acc ++ g b)) ->
  forall acc, fold_res f l acc = Ok (acc ++ flat_map g l).
Proof.
  induction l as [|b tl IH]; intros H acc; cbn.
  - rewrite app_nil_r. reflexivity.
  - rewrite (H acc b (or_introl eq_refl)). rewrite IH.
    + rewrite <- app_assoc. reflexivity.
    + intros acc' b' Hin. apply H. right. exact Hin.
Qed.

Section Frame.
Variables r c s : Z.
Hypothesis Hr : (0 < r)%Z.
Hypothesis Hc : (0 < c)%Z.
Hypothesis Hs : (0 < s)%Z.

Lemma nonzero_vol_proper b : proper_box b ->
  ~ area_of b r c s == 0 /\ ~ vol_of b r c s == 0.
Proof.
  destruct_box b. intros (A & B & C). unfold area_of, vol_of, ext.
  pose proof (Zpos_inject_pos r Hr). pose proof (Zpos_inject_pos c Hc). pose proof (Zpos_inject_pos s Hs).
  assert (0 < (x2 - x1) * inject_Z c) by (apply Qmult_lt_0_compat; lra).
  assert (0 < (y2 - y1) * inject_Z r) by (apply Qmult_lt_0_compat; lra).
  assert (0 < (z2 - z1) * inject_Z s) by (apply Qmult_lt_0_compat; lra).
  assert (0 < (x2 - x1) * inject_Z c * ((y2 - y1) * inject_Z r)) by (apply Qmult_lt_0_compat; assumption).
  assert (0 < (x2 - x1) * inject_Z c * ((y2 - y1) * inject_Z r) * ((z2 - z1) * inject_Z s))
    by (apply Qmult_lt_0_compat; assumption).
  split; lra.
Qed.

Theorem filter_bboxes_spec t l : Forall proper_box l ->
  filter_bboxes l r c s (t_area_vis t) (t_vol_vis t) (t_area t) (t_vol t) (t_w t) (t_h t) (t_d t)
  = Ok (flat_map (keep_list t r c s) l).
Proof.
  intros Hl. unfold filter_bboxes.
  match goal with |- context [fold_res ?f _ _] => set (body := f) end.
  rewrite (fold_res_app body (keep_list t r c s)); [reflexivity|].
  intros acc b Hin. rewrite Forall_forall in Hl. specialize (Hl b Hin).
  unfold body. clear body.
  destruct (calc_ok b r c s Hr Hc Hs) as (ta & tv & E1 & Ea & Ev). rewrite E1. cbn.
  destruct (calc_ok (clip01 b) r c s Hr Hc Hs) as (ca & cv & E2 & Eca & Ecv).
  fold (clip01 b). rewrite E2. cbn.
  rewrite denormalize_bbox_ok by assumption.
  destruct (nonzero_vol_proper b Hl) as [NA NV].
  remember (clip01 b) as cb. destruct cb as [[[[[cx1 cy1] cz1] cx2] cy2] cz2]. unfold denorm_box. cbn.
  unfold keep_list, keepb. rewrite <- Heqcb. cbn.
  rewrite !divq_ok by (rewrite ?Ea, ?Ev; assumption).
  unfold area_of, vol_of, ext in *. cbn in *.
  assert (GE : forall a a' th, a == a' -> Qge_bool a th = Qge_bool a' th)
    by (intros a a' th E; unfold Qge_bool; rewrite E; reflexivity).
  assert (NE : forall a a', a == a' -> Qne_bool a 0 = Qne_bool a' 0)
    by (intros a a' E; unfold Qne_bool; rewrite E; reflexivity).
  rewrite (NE _ _ Ecv), (GE _ _ (t_area t) Eca), (GE _ _ (t_vol t) Ecv).
  rewrite (GE (ca / ta) ((cx2 - cx1) * inject_Z c * ((cy2 - cy1) * inject_Z r) /
              (let '(w, h, _) := ext b r c s in w * h)) (t_area_vis t))
    by (unfold ext; rewrite Eca, Ea; reflexivity).
  rewrite (GE (cv / tv) ((cx2 - cx1) * inject_Z c * ((cy2 - cy1) * inject_Z r) * ((cz2 - cz1) * inject_Z s) /
              (let '(w, h, d) := ext b r c s in w * h * d)) (t_vol_vis t))
    by (unfold ext; rewrite Ecv, Ev; reflexivity).
  rewrite (GE (cx2 * inject_Z c - cx1 * inject_Z c) ((cx2 - cx1) * inject_Z c) (t_w t)) by ring.
  rewrite (GE (cy2 * inject_Z r - cy1 * inject_Z r) ((cy2 - cy1) * inject_Z r) (t_h t)) by ring.
  rewrite (GE (cz2 * inject_Z s - cz1 * inject_Z s) ((cz2 - cz1) * inject_Z s) (t_d t)) by ring.
  unfold ext.
  repeat match goal with
  | |- context [Qne_bool ?a 0] => destruct (Qne_bool a 0); cbn; [|rewrite ?app_nil_r; reflexivity]
  | |- context [Qge_bool ?a ?b] => destruct (Qge_bool a b); cbn; [|rewrite ?app_nil_r; reflexivity]
  end; rewrite ?app_nil_r; reflexivity.
Qed.

End Frame.
