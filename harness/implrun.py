"""Helpers to drive the real library from JSON-able pipeline specs (so that every
case the searches run can be written into a replay file and rebuilt)."""
import math
import os
import random
import sys
import warnings

warnings.filterwarnings('ignore')
REPO = os.environ.get('VERIF_REPO', '/repo')
if REPO not in sys.path:
    sys.path.insert(0, REPO)
import numpy as np  # noqa: E402

np.seterr(all='ignore')
import dicaugment as A  # noqa: E402


def make_leaf(spec):
    """spec = {'cls': name, 'args': {...}, 'pin': {...} or None}"""
    cls = getattr(A, spec['cls'])
    t = cls(**spec.get('args', {}))
    pin = spec.get('pin')
    if pin is not None:
        pin = dict(pin)
        if getattr(t, 'targets_as_params', None):
            t.get_params = lambda: {}
            t.get_params_dependent_on_targets = lambda params, _p=pin: dict(_p)
        else:
            t.get_params = lambda _p=pin: dict(_p)
    return t


def make_node(spec):
    if 'children' in spec:
        cls = getattr(A, spec['op'])
        kids = [make_node(c) for c in spec['children']]
        return cls(kids, **spec.get('args', {}))
    return make_leaf(spec)


def build(specs, bbox_format=None, kp_format=None, bbox_kw=None, kp_kw=None, compose_kw=None, cls='Compose'):
    kw = dict(compose_kw or {})
    if bbox_format:
        kw['bbox_params'] = A.BboxParams(format=bbox_format, **(bbox_kw or {}))
    if kp_format:
        kw['keypoint_params'] = A.KeypointParams(format=kp_format, **(kp_kw or {}))
    return getattr(A, cls)([make_node(s) for s in specs], **kw)


def labelled(shape, dtype='int32'):
    """volume whose voxel values are their own linear index + 1 (0 is left for fill)"""
    n = int(np.prod(shape))
    return (np.arange(n, dtype=np.int64) + 1).reshape(shape).astype(dtype)


def close(a, b, tol=1e-9):
    return abs(a - b) <= tol * max(1.0, abs(a), abs(b))


def seq_close(a, b, tol=1e-9):
    return len(a) == len(b) and all(close(float(x), float(y), tol) for x, y in zip(a, b))


def ang_close_deg(a, b, tol=1e-7):
    d = (a - b) % 360.0
    return min(d, 360.0 - d) <= tol


def ang_close_rad(a, b, tol=1e-9):
    d = (a - b) % (2 * math.pi)
    return min(d, 2 * math.pi - d) <= tol
