"""C20 failing-input search: dropout transforms under ReplayCompose: the output equals the input
outside the recorded holes / drop mask and the fill value inside; hole counts, sizes and positions
respect the configuration; mask holes coincide with the image holes (or the mask is untouched);
keypoints are removed iff inside a hole, half-open on all three axes (positions on hole faces
included)."""
import random

import numpy as np

import implrun as R

A = R.A
DTYPES = ['uint8', 'int16', 'int32', 'float32', 'uint16']


def jsonable(v):
    if isinstance(v, (tuple, list)):
        return [jsonable(x) for x in v]
    if isinstance(v, dict):
        return {k: jsonable(x) for k, x in v.items()}
    if isinstance(v, (np.integer,)):
        return int(v)
    if isinstance(v, (np.floating,)):
        return float(v)
    return v


def image_of(shape, dtype, rs, channels):
    full = tuple(shape) + ((channels,) if channels else ())
    if dtype == 'float32':
        return (rs.rand(*full) * 0.5 + 0.25).astype(np.float32)
    return rs.randint(10, 100, full).astype(dtype)


def region(shape, holes):
    m = np.zeros(shape, bool)
    for x1, y1, z1, x2, y2, z2 in holes:
        m[y1:y2, x1:x2, z1:z2] = True
    return m


def check_coarse(case):
    shape = tuple(case['shape'])
    H, W, D = shape
    kw = dict(case['kw'])
    rs = np.random.RandomState(case['seed'] % 99991)
    img = image_of(shape, case['dtype'], rs, case.get('channels'))
    mask = rs.randint(1, 5, shape).astype(np.uint8)
    fill, mfill = kw.get('fill_value', 0), kw.get('mask_fill_value')
    kps = []
    rng = random.Random(case['seed'])
    for i in range(40):
        kps.append((rng.choice([rng.uniform(0, W - 0.01), float(rng.randint(0, W - 1)), rng.randint(0, W - 1) + 0.5]),
                    rng.choice([rng.uniform(0, H - 0.01), float(rng.randint(0, H - 1)), rng.randint(0, H - 1) + 0.5]),
                    rng.choice([rng.uniform(0, D - 0.01), float(rng.randint(0, D - 1)), rng.randint(0, D - 1) + 0.5]), i))
    R.seed(case['seed'])
    try:
        pipe = A.ReplayCompose([A.CoarseDropout(p=1.0, **kw)], keypoint_params=A.KeypointParams('xyz'))
        res = pipe(image=img, mask=mask, keypoints=kps)
    except Exception as e:  # noqa
        return ('raises', '%s: %s' % (type(e).__name__, str(e)[:120]), 'runs (documented configuration)')
    holes = [tuple(int(x) for x in h) for h in res['replay']['transforms'][0]['params']['holes']]
    nmin = kw.get('min_holes', kw['max_holes'])
    if not nmin <= len(holes) <= kw['max_holes']:
        return ('hole-count', len(holes), 'between %s and %s' % (nmin, kw['max_holes']))
    for (x1, y1, z1, x2, y2, z2) in holes:
        if not (0 <= x1 <= x2 <= W and 0 <= y1 <= y2 <= H and 0 <= z1 <= z2 <= D):
            return ('hole-outside-frame', (x1, y1, z1, x2, y2, z2), 'inside %s' % (shape,))
        for ext, full, lo, hi, nm in ((y2 - y1, H, kw.get('min_height', kw['max_height']), kw['max_height'], 'height'),
                                      (x2 - x1, W, kw.get('min_width', kw['max_width']), kw['max_width'], 'width'),
                                      (z2 - z1, D, kw.get('min_depth', kw['max_depth']), kw['max_depth'], 'depth')):
            if isinstance(hi, int):
                ok = lo <= ext <= hi
            else:
                ok = int(full * lo) - 1 <= ext <= full * hi + 1e-9
            if not ok:
                return ('hole-size', 'hole %s extent %d' % (nm, ext), 'within the configured limits (%s, %s) of extent %d' % (lo, hi, full))
    reg = region(shape, holes)
    regc = reg[..., None] if img.ndim == 4 else reg
    exp = np.where(regc, np.array(fill).astype(img.dtype), img)
    if res['image'].dtype != img.dtype or not np.array_equal(res['image'], exp):
        return ('image-region', '%d voxels differ from "fill inside the recorded holes, input elsewhere"' % int(np.sum(res['image'] != exp)), 'exact')
    if mfill is None:
        if not np.array_equal(res['mask'], mask):
            return ('mask-touched', 'mask changed', 'mask untouched when no mask fill value is given')
    elif not np.array_equal(res['mask'], np.where(reg, mfill, mask)):
        return ('mask-region', 'mask holes differ from the image holes', 'same holes, mask fill value')
    inside = lambda k: any(x1 <= k[0] < x2 and y1 <= k[1] < y2 and z1 <= k[2] < z2 for (x1, y1, z1, x2, y2, z2) in holes)
    expk = [tuple(k) for k in kps if not inside(k)]
    gotk = [tuple(k) for k in res['keypoints']]
    if gotk != expk:
        return ('keypoints', 'kept ids %s' % [k[3] for k in gotk], 'kept ids %s (removed iff inside a hole, half-open)' % [k[3] for k in expk])
    return None


def check_grid(case):
    shape = tuple(case['shape'])
    H, W, D = shape
    kw = dict(case['kw'])
    rs = np.random.RandomState(case['seed'] % 99991)
    img = image_of(shape, case['dtype'], rs, case.get('channels'))
    mask = rs.randint(1, 5, shape).astype(np.uint8)
    R.seed(case['seed'])
    try:
        pipe = A.ReplayCompose([A.GridDropout(p=1.0, **kw)])
        res = pipe(image=img, mask=mask)
    except ValueError:
        return None         # documented rejections (limits vs. image size)
    except Exception as e:  # noqa
        return ('raises', '%s: %s' % (type(e).__name__, str(e)[:120]), 'runs or ValueError')
    holes = [tuple(int(x) for x in h) for h in res['replay']['transforms'][0]['params']['holes']]
    for (x1, y1, z1, x2, y2, z2) in holes:
        if not (0 <= x1 <= x2 <= W and 0 <= y1 <= y2 <= H and 0 <= z1 <= z2 <= D):
            return ('hole-outside-frame', (x1, y1, z1, x2, y2, z2), 'inside %s' % (shape,))
    if kw.get('unit_size_min') and kw.get('unit_size_max'):
        xs = sorted({h[0] for h in holes if h[0] < W})
        steps = {b - a for a, b in zip(xs, xs[1:])}
        if any(not kw['unit_size_min'] <= s <= kw['unit_size_max'] for s in steps):
            return ('unit-size', 'grid unit %s' % sorted(steps), 'within [%d, %d]' % (kw['unit_size_min'], kw['unit_size_max']))
    # the grid is regular and repeats over the WHOLE frame: along each axis the starts of the non-empty holes form
    # an arithmetic progression  shift, shift + unit, ...  that stops only where the next start would leave the frame,
    # every combination of the three progressions is present, and a configured holes_number is reached
    live = [h for h in holes if h[0] < h[3] and h[1] < h[4] and h[2] < h[5]]
    starts = []
    for a, n, nm in ((0, W, 'x'), (1, H, 'y'), (2, D, 'z')):
        st = sorted({h[a] for h in live})
        unit = None
        if not (kw.get('unit_size_min') and kw.get('unit_size_max')):
            hn = kw.get('holes_number_' + nm)
            if hn is not None:
                unit = n // hn
            elif nm == 'x':
                unit = max(2, W // 10)
            else:
                ux = (W // kw['holes_number_x']) if kw.get('holes_number_x') is not None else max(2, W // 10)
                unit = max(min(ux, n), 2)
        elif len(st) >= 2:
            unit = st[1] - st[0]
        if unit is not None and st:
            want = list(range(st[0], n, unit))
            if st != want or st[0] >= unit:
                return ('grid-coverage', '%s starts %s' % (nm, st), 'every %d voxels from a shift below the unit up to the end of the %d-voxel axis: %s' % (unit, n, want))
            hn = kw.get('holes_number_' + nm)
            if hn is not None and not (kw.get('unit_size_min') and kw.get('unit_size_max')) and len(st) < hn:
                return ('grid-count', '%d hole layers along %s' % (len(st), nm), 'at least holes_number_%s = %d' % (nm, hn))
            # "ratio of the mask holes to the unit size (same for all spatial dimensions)": along each axis a hole is
            # int(unit * ratio) voxels long, at least 1 and at most unit - 1, cut only by the end of the frame
            size = min(max(int(unit * kw.get('ratio', 0.5)), 1), unit - 1)
            for h in live:
                if h[a + 3] - h[a] != min(size, n - h[a]):
                    return ('hole-size', 'hole %s is %d voxels long along %s' % (h, h[a + 3] - h[a], nm),
                            '%d voxels (unit %d, ratio %s), cut only by the frame end %d' % (size, unit, kw.get('ratio', 0.5), n))
        starts.append(st)
    if len(live) != len(set(live)) or len(set(live)) != len(starts[0]) * len(starts[1]) * len(starts[2]):
        return ('grid-product', '%d non-empty holes' % len(set(live)), 'all %d x %d x %d combinations' % tuple(len(q) for q in starts))
    reg = region(shape, holes)
    regc = reg[..., None] if img.ndim == 4 else reg
    exp = np.where(regc, np.array(kw.get('fill_value', 0)).astype(img.dtype), img)
    if not np.array_equal(res['image'], exp):
        return ('image-region', '%d voxels differ' % int(np.sum(res['image'] != exp)), 'fill inside the recorded holes, input elsewhere')
    mf = kw.get('mask_fill_value')
    if mf is None and not np.array_equal(res['mask'], mask):
        return ('mask-touched', 'mask changed', 'untouched')
    if mf is not None and not np.array_equal(res['mask'], np.where(reg, mf, mask)):
        return ('mask-region', 'mask holes differ', 'same holes')
    return None


def check_pixel(case):
    shape = tuple(case['shape'])
    kw = dict(case['kw'])
    rs = np.random.RandomState(case['seed'] % 99991)
    img = image_of(shape, case['dtype'], rs, case.get('channels'))
    mask = rs.randint(1, 5, shape).astype(np.uint8)
    R.seed(case['seed'])
    try:
        pipe = A.ReplayCompose([A.PixelDropout(p=1.0, **kw)])
        res = pipe(image=img, mask=mask)
    except Exception as e:  # noqa
        return ('raises', '%s: %s' % (type(e).__name__, str(e)[:120]), 'runs')
    prm = res['replay']['transforms'][0]['params']
    dm = np.asarray(prm['drop_mask'])
    dv = prm['drop_value']
    exp = np.where(dm if dm.ndim == img.ndim else dm.reshape(dm.shape[:3] + (1,) * (img.ndim - 3)), np.asarray(dv).astype(img.dtype), img)
    if res['image'].dtype != img.dtype or not np.array_equal(res['image'], exp):
        return ('image-region', '%d voxels differ' % int(np.sum(res['image'] != exp)), 'drop value where the recorded mask is set, input elsewhere')
    frac = float(dm.mean())
    if dm.size >= 400 and abs(frac - kw.get('dropout_prob', 0.01)) > 0.2:
        return ('drop-probability', 'dropped fraction %.3f' % frac, 'about %s' % kw.get('dropout_prob', 0.01))
    mdv = kw.get('mask_drop_value')
    if mdv is None:
        if not np.array_equal(res['mask'], mask):
            return ('mask-touched', 'mask changed', 'untouched')
    else:
        m3 = dm if dm.ndim == 3 else dm[..., 0]
        if not np.array_equal(res['mask'], np.where(m3, mdv, mask)):
            return ('mask-region', 'mask drop differs from the image drop mask', 'same voxels')
    return None


def gen_case(rng, kind):
    shape = rng.sample([4, 5, 6, 7, 8, 9, 10, 12], 3)
    H, W, D = shape
    case = {'kind': kind, 'shape': shape, 'seed': R.pick_seed(rng), 'dtype': rng.choice(DTYPES),
            'channels': rng.choice([None, None, 2])}
    if kind == 'coarse':
        if rng.random() < 0.5:
            kw = dict(max_holes=rng.randint(1, 4), max_height=rng.randint(1, H), max_width=rng.randint(1, W), max_depth=rng.randint(1, D))
            if rng.random() < 0.6:
                kw.update(min_holes=rng.randint(1, kw['max_holes']), min_height=rng.randint(1, kw['max_height']),
                          min_width=rng.randint(1, kw['max_width']), min_depth=rng.randint(1, kw['max_depth']))
        else:
            mx = [rng.choice([0.2, 0.35, 0.5, 0.75, 0.99]) for _ in range(3)]
            kw = dict(max_holes=rng.randint(1, 4), max_height=mx[0], max_width=mx[1], max_depth=mx[2],
                      min_height=round(mx[0] * rng.choice([0.3, 0.5, 1.0]), 4), min_width=round(mx[1] * rng.choice([0.3, 1.0]), 4),
                      min_depth=round(mx[2] * rng.choice([0.2, 0.6, 1.0]), 4), min_holes=1)
        kw['fill_value'] = rng.choice([0, 0, 3])
        kw['mask_fill_value'] = rng.choice([None, 0, 9])
    elif kind == 'grid':
        kw = dict(ratio=rng.choice([0.3, 0.5, 0.8, 1.0]), random_offset=rng.random() < 0.4, fill_value=rng.choice([0, 2]),
                  mask_fill_value=rng.choice([None, 7]))
        if rng.random() < 0.4:
            a = rng.randint(2, max(2, min(H, W) - 1))
            kw.update(unit_size_min=a, unit_size_max=rng.randint(a, max(a, min(H, W))))
        else:
            kw.update(holes_number_x=rng.choice([None, rng.randint(1, max(1, W // 2))]),
                      holes_number_y=rng.choice([None, rng.randint(1, max(1, H // 2))]),
                      holes_number_z=rng.choice([None, rng.randint(1, max(1, D // 2))]),
                      shift_x=rng.randint(0, 3), shift_y=rng.randint(0, 3), shift_z=rng.randint(0, 3))
    else:
        kw = dict(dropout_prob=rng.choice([0.1, 0.3, 0.6, 1.0]), drop_value=rng.choice([0, 5, 5, None]),
                  mask_drop_value=rng.choice([None, 0, 6]))
        if rng.random() < 0.3 and kw['mask_drop_value'] is None:
            kw['per_channel'] = True
    case['kw'] = kw
    return case


CHECK = {'coarse': check_coarse, 'grid': check_grid, 'pixel': check_pixel}


def run(seed=0, tier='quick', hints=None, broken=False):
    rng = random.Random(seed * 67867967 + 20)
    n = 60 if tier == 'quick' else 1500
    if broken:
        n *= 3
    viol, evals, seen = [], 0, set()
    for i in range(n):
        for kind in ('coarse', 'grid', 'pixel'):
            case = gen_case(rng, kind)
            bad = CHECK[kind](case)
            evals += 1
            seen.add((kind, tuple(case['shape']), case['dtype']))
            if bad:
                viol.append({'site': 'C20:%s:%s' % (kind, bad[0]), 'case': jsonable(case), 'observed': str(bad[1])[:300],
                             'expected': str(bad[2])[:300]})
    # thin volumes, systematically: every set of one or two extent-1 axes x channel layout x mask drop / fill value
    # (an axis of extent 1 is where squeezing, broadcasting and (H, W, D, 1) drop masks go wrong)
    for thin in ((0,), (1,), (2,), (0, 1), (1, 2), (0, 2)):
        for ch in (None, 2, 3):
            for mval in (None, 6):
                for kind in ('pixel', 'coarse'):
                    case = gen_case(rng, kind)
                    for a in thin:
                        case['shape'][a] = 1
                    case['channels'] = ch
                    if kind == 'pixel':
                        case['kw'].pop('per_channel', None)
                        case['kw']['mask_drop_value'] = mval
                        case['kw']['dropout_prob'] = rng.choice([0.3, 0.6])
                    else:
                        H, W, D = case['shape']
                        case['kw'] = dict(max_holes=rng.randint(1, 3), max_height=rng.randint(1, H), max_width=rng.randint(1, W),
                                          max_depth=rng.randint(1, D), fill_value=3, mask_fill_value=mval)
                    bad = CHECK[kind](case)
                    evals += 1
                    seen.add((kind, 'thin', thin, ch, mval))
                    if bad:
                        viol.append({'site': 'C20:%s:%s' % (kind, bad[0]), 'case': jsonable(case), 'observed': str(bad[1])[:300],
                                     'expected': str(bad[2])[:300]})
    return {'violations': viol, 'info': {'evaluations': evals, 'distinct': len(seen),
                                         'what': 'outputs vs recorded holes / drop masks; limits; keypoints on hole faces; thin volumes (every one / two extent-1 axes x channels x mask value)'}}


def replay(v):
    bad = CHECK[v['case']['kind']](v['case'])
    return [{'site': 'C20:%s:%s' % (v['case']['kind'], bad[0]), 'case': v['case'], 'observed': str(bad[1]), 'expected': str(bad[2])}] if bad else []
