"""Geometry oracle shared by the C01/C02/C03/C07 searches: derive, from an index-labelled
volume that went through a pipeline, the lattice map the voxels underwent (signed axis
permutation + offsets), and the induced maps on boxes, keypoints and angles."""
import math

import numpy as np


def decode(label, shape):
    """linear label (index + 1) -> (i, j, k)"""
    l = int(label) - 1
    h, w, d = shape
    return (l // (w * d), (l // d) % w, l % d)


def derive_lattice(out, in_shape):
    """out: 3-D int array of labels (0 = fill). Returns dict(perm, sign, off) with
    src[perm[a]] = sign[a] * o[a] + off[a], or None when the image is not a lattice image
    of the input (or carries no information)."""
    out = np.asarray(out)
    if out.ndim != 3:
        return None
    nz = np.argwhere(out > 0)
    if len(nz) == 0:
        return None
    o0 = tuple(int(x) for x in nz[0])
    s0 = decode(out[o0], in_shape)
    perm, sign = [None] * 3, [1] * 3
    used = set()
    for a in range(3):
        found = False
        for o in nz:
            o = tuple(int(x) for x in o)
            o2 = list(o)
            o2[a] += 1
            if o2[a] < out.shape[a] and out[tuple(o2)] > 0:
                d = np.array(decode(out[tuple(o2)], in_shape)) - np.array(decode(out[o], in_shape))
                nzd = np.nonzero(d)[0]
                if len(nzd) != 1 or abs(int(d[nzd[0]])) != 1:
                    return None
                perm[a], sign[a] = int(nzd[0]), int(d[nzd[0]])
                found = True
                break
        if found:
            used.add(perm[a])
    free = [b for b in range(3) if b not in used]
    ambiguous = []
    for a in range(3):
        if perm[a] is None:      # output extent 1 (or isolated voxels) along a: direction unobservable
            perm[a] = free.pop(0)
            sign[a] = 1
            ambiguous.append(a)
    if sorted(perm) != [0, 1, 2] or len(ambiguous) >= 2:
        return None      # with two unobservable axes even the permutation is undetermined
    off = [s0[perm[a]] - sign[a] * o0[a] for a in range(3)]
    lat = {'perm': perm, 'sign': sign, 'off': off, 'ambiguous': ambiguous, 'o0': list(o0)}
    # verify on every labelled voxel
    for o in nz:
        src = [0, 0, 0]
        for a in range(3):
            src[perm[a]] = sign[a] * int(o[a]) + off[a]
        if tuple(src) != decode(out[tuple(o)], in_shape):
            return None
    return lat


def lat_box(lat, b):
    """b = (x1, y1, z1, x2, y2, z2) in input pixels -> box in output pixels"""
    lo = {1: b[0], 0: b[1], 2: b[2]}
    hi = {1: b[3], 0: b[4], 2: b[5]}
    olo, ohi = {}, {}
    for a in range(3):
        p, s, t = lat['perm'][a], lat['sign'][a], lat['off'][a]
        if s > 0:
            olo[a], ohi[a] = lo[p] - t, hi[p] - t
        else:
            olo[a], ohi[a] = t + 1 - hi[p], t + 1 - lo[p]
    return (olo[1], olo[0], olo[2], ohi[1], ohi[0], ohi[2])


def lat_point(lat, x, y, z):
    p_in = {1: x, 0: y, 2: z}
    out = {}
    for a in range(3):
        p, s, t = lat['perm'][a], lat['sign'][a], lat['off'][a]
        out[a] = (p_in[p] - t) if s > 0 else (t - p_in[p])
    return out[1], out[0], out[2]


def lat_angle(lat, a):
    """angle of (cos a, sin a) after the xy part of the lattice map; None when z mixes in"""
    px, py = lat['perm'][1], lat['perm'][0]
    sx, sy = lat['sign'][1], lat['sign'][0]
    dx, dy = math.cos(a), math.sin(a)
    vin = {1: dx, 0: dy}
    if {px, py} != {0, 1}:
        return None
    ndx, ndy = sx * vin[px], sy * vin[py]
    return math.atan2(ndy, ndx) % (2 * math.pi)


def clip_box(b, shape):
    h, w, d = shape
    return (min(max(b[0], 0), w), min(max(b[1], 0), h), min(max(b[2], 0), d),
            min(max(b[3], 0), w), min(max(b[4], 0), h), min(max(b[5], 0), d))


def box_volume(b):
    return max(b[3] - b[0], 0) * max(b[4] - b[1], 0) * max(b[5] - b[2], 0)


def variants(lat):
    """all lattice maps consistent with the labelled volume (axes whose direction cannot be
    observed -- extent 1 -- may be reversed)"""
    out = [lat]
    for a in lat.get('ambiguous', []):
        new = []
        for l in out:
            new.append(l)
            m = {'perm': list(l['perm']), 'sign': list(l['sign']), 'off': list(l['off']), 'ambiguous': []}
            m['sign'][a] = -l['sign'][a]
            # same voxel at o[a] = o0: off' - o0 = off + o0  ->  the labelled voxels all share one o[a]
            m['off'][a] = l['off'][a] + 2 * l.get('o0', [0, 0, 0])[a] * l['sign'][a]
            new.append(m)
        out = new
    return out
