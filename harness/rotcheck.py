"""Free rotation oracle shared by the C02 / C03 searches: Rotate and ShiftScaleRotate are applied (nearest
interpolation, constant border) to a volume with marked voxels; the affine map the voxels underwent is
fitted (affine_fit) and the returned keypoints / boxes are compared with the input annotations carried
through that map: keypoints within max(1, |scale - 1|) + 0.5 voxels (+ fit error), angle turned with the
xy part of the map, scale times the zoom; boxes = hull of the eight mapped corners (largest_box) or
between the mapped inscribed ellipsoid's hull and that hull (ellipse)."""
import math
import random

import numpy as np

import affine_fit as AF
import implrun as R

A = R.A


def gen_case(rng):
    shape = [rng.choice([18, 20, 24, 28]), rng.choice([22, 26, 30]), rng.choice([16, 21, 25])]
    H, W, D = shape
    cls = rng.choice(['Rotate', 'ShiftScaleRotate'])
    ang = rng.choice([rng.uniform(-45, 45), rng.uniform(-170, 170), 90.0, 30.0])
    case = {'cls': cls, 'plane': rng.choice(['xy', 'xy', 'yz', 'xz']), 'shape': shape, 'angle': ang, 'seed': rng.randint(0, 10 ** 6),
            'method': rng.choice(['largest_box', 'largest_box', 'ellipse']),
            'keypoints': [[rng.uniform(5, W - 6), rng.uniform(5, H - 6), rng.uniform(4, D - 5), rng.uniform(0, 6.2), rng.uniform(0.5, 3)] for _ in range(4)],
            'boxes': [[6.0, 7.0, 5.0, 6.0 + rng.uniform(3, 8), 7.0 + rng.uniform(3, 8), 5.0 + rng.uniform(2, 6)]]}
    case['crop_to_border'] = rng.random() < 0.4      # the enlarged output frame (off by default), both classes
    if cls == 'ShiftScaleRotate':
        case['scale_limit'] = rng.choice([(0.0, 0.0), (0.2, 0.4), (-0.3, -0.1)])
        case['shift_limit'] = rng.choice([0.0, 0.1])
    return case


def sweep(rng):
    """every class x plane x crop_to_border once, on frames whose three extents differ strongly (a rows / cols or a
    plane confusion is invisible on near-cubic frames)"""
    out = []
    for cls in ('Rotate', 'ShiftScaleRotate'):
        for plane in ('xy', 'yz', 'xz'):
            for crop, method in ((False, 'largest_box'), (True, 'largest_box'), (True, 'ellipse'), (False, 'ellipse')):
                if cls != 'Rotate' and method == 'ellipse' and not crop:
                    continue
                c = gen_case(rng)
                c['method'] = method
                # the two axes of the rotation plane get the most different extents (in either order)
                a, b = (18, 44) if rng.random() < 0.5 else (44, 18)
                dims = {'xy': [a, b, 26], 'yz': [a, 26, b], 'xz': [26, a, b]}[plane]
                H, W, D = dims
                c.update({'cls': cls, 'plane': plane, 'shape': dims, 'angle': rng.choice([30.0, -25.0, 20.0, rng.uniform(18, 32)]),      # moderate angles: the enlarged frame stays far from square
                          'keypoints': [[rng.uniform(5, W - 6), rng.uniform(5, H - 6), rng.uniform(4, D - 5), rng.uniform(0, 6.2), rng.uniform(0.5, 3)] for _ in range(4)],
                          'boxes': []})
                # boxes away from the centre of the frame (a stretch about the centre moves those most)
                for _ in range(2):
                    x1, y1, z1 = rng.choice([3.0, W - 11.0]), rng.choice([3.0, H - 11.0]), rng.choice([3.0, D - 10.0])
                    c['boxes'].append([x1, y1, z1, x1 + rng.uniform(3, 7), y1 + rng.uniform(3, 7), z1 + rng.uniform(2, 6)])
                c.pop('crop_to_border', None)
                c.pop('scale_limit', None)
                c.pop('shift_limit', None)
                c['crop_to_border'] = crop
                if cls != 'Rotate':
                    # with the enlarged frame: a clear zoom and a clear shift (the shift is a fraction of the OUTPUT frame)
                    c['scale_limit'] = rng.choice([(0.3, 0.5), (0.2, 0.4)]) if crop else rng.choice([(0.0, 0.0), (0.2, 0.4)])
                    c['shift_limit'] = rng.choice([(0.15, 0.25), (-0.25, -0.15)]) if crop else rng.choice([0.0, 0.1])
                out.append(c)
    return out


def run_case(case):
    """returns list of (kind, what, observed, expected) mismatches; kind in {'keypoint', 'angle', 'scale', 'box'}"""
    shape = tuple(case['shape'])
    rng = random.Random(case['seed'])
    vol, pts = AF.marked_volume(shape, rng, 70)
    ang = case['angle']
    if case['cls'] == 'Rotate':
        t = A.Rotate(limit=(ang, ang), axes=case['plane'], interpolation=0, border_mode='constant', rotate_method=case['method'],
                     crop_to_border=bool(case.get('crop_to_border', False)), p=1.0)
    else:
        sl = case['shift_limit']
        t = A.ShiftScaleRotate(rotate_limit=(ang, ang), scale_limit=tuple(case['scale_limit']), shift_limit=tuple(sl) if isinstance(sl, (list, tuple)) else sl,
                               axes=case['plane'], interpolation=0, border_mode='constant', rotate_method=case['method'],
                               crop_to_border=bool(case.get('crop_to_border', False)), p=1.0)
    pipe = A.ReplayCompose([t], keypoint_params=A.KeypointParams('xyzas', angle_in_degrees=False, remove_invisible=False),
                           bbox_params=A.BboxParams('pascal_voc_3d', min_volume=0.0))
    kps = [tuple(k) for k in case['keypoints']]
    bxs = [tuple(b) + ('b%d' % i,) for i, b in enumerate(case['boxes'])]
    random.seed(case['seed'])
    res = pipe(image=vol, keypoints=kps, bboxes=bxs)
    f = AF.fit(res['image'], pts, min_points=12)
    if f is None:
        return None
    Am, b, rms, nfit = f
    zoom = float(abs(np.linalg.det(Am)) ** (1.0 / 3.0))
    lin = float(np.max(np.abs(np.linalg.svd(Am, compute_uv=False))))
    tol = max(1.0, abs(lin - 1.0)) + 0.5 + 3 * rms + 0.25
    out = []
    prm = res['replay']['transforms'][0]['params'] or {}
    for kin, kout in zip(kps, res['keypoints']):
        exp = AF.apply(Am, b, (kin[0] + 0.5, kin[1] + 0.5, kin[2] + 0.5)) - 0.5
        err = float(np.max(np.abs(exp - np.array(kout[:3], float))))
        if err > tol:
            out.append(('keypoint', 'position', [round(float(v), 3) for v in kout[:3]], 'within %.2f of %s' % (tol, [round(float(v), 3) for v in exp])))
            break
        if case['plane'] == 'xy':
            d = Am[:2, :2] @ np.array([math.cos(kin[3]), math.sin(kin[3])])
            ea = math.atan2(d[1], d[0]) % (2 * math.pi)
            da = abs((float(kout[3]) - ea + math.pi) % (2 * math.pi) - math.pi)
            if not (0 <= kout[3] < 2 * math.pi + 1e-12) or da > 0.2:
                out.append(('angle', 'angle', round(float(kout[3]), 4), 'about %.4f (turned with the xy plane), in [0, 2pi)' % ea))
                break
        es = kin[4] * prm.get('scale', 1.0)
        if abs(float(kout[4]) - es) > 1e-6 * max(1.0, es):
            out.append(('scale', 'scale', float(kout[4]), es))
            break
    got = {q[6]: q for q in res['bboxes']}
    H, W, D = res['image'].shape[:3]
    for bi in bxs:
        if bi[6] not in got:
            continue
        g = np.array(got[bi[6]][:6], float)
        cs = np.array([AF.apply(Am, b, (x, y, z)) for x in (bi[0], bi[3]) for y in (bi[1], bi[4]) for z in (bi[2], bi[5])])
        lo, hi = cs.min(axis=0), cs.max(axis=0)
        lim = np.array([W, H, D], float)
        lo_c, hi_c = np.clip(lo, 0, lim), np.clip(hi, 0, lim)
        if case['method'] == 'largest_box':
            err = float(max(np.max(np.abs(g[:3] - lo_c)), np.max(np.abs(g[3:] - hi_c))))
            if err > tol:
                out.append(('box', 'largest_box', [round(float(v), 3) for v in g], 'hull of the eight mapped corners %s (+-%.2f)' % ([round(float(v), 3) for v in np.concatenate([lo_c, hi_c])], tol)))
        else:
            c = AF.apply(Am, b, ((bi[0] + bi[3]) / 2, (bi[1] + bi[4]) / 2, (bi[2] + bi[5]) / 2))
            semi = np.array([(bi[3] - bi[0]) / 2, (bi[4] - bi[1]) / 2, (bi[5] - bi[2]) / 2])
            half = np.sqrt(((Am * semi[None, :]) ** 2).sum(axis=1))
            elo, ehi = np.clip(c - half, 0, lim), np.clip(c + half, 0, lim)
            if np.any(g[:3] < lo_c - tol) or np.any(g[3:] > hi_c + tol) or np.any(g[:3] > elo + tol) or np.any(g[3:] < ehi - tol):
                out.append(('box', 'ellipse', [round(float(v), 3) for v in g], 'between the mapped ellipsoid hull %s and the corner hull %s (+-%.2f)'
                            % ([round(float(v), 3) for v in np.concatenate([elo, ehi])], [round(float(v), 3) for v in np.concatenate([lo_c, hi_c])], tol)))
    return out
