(* C05 -- Labels and extra fields stay attached to their own annotation.
   model/Labels.v is a hand-written model of DataProcessor.add/remove_label_fields, the
   tail-carrying apply_to_bboxes/apply_to_keypoints and the filters, polymorphic in the geometry
   and in the label type (any Python object). *)
From Coq Require Import List Arith.
Import ListNotations.
From DV.model Require Import Labels.
From DV.proofs Require Import C05_labels.

(* for every pipeline (any sequence of geometry maps and filters), any number k of label fields,
   any inline trailing fields and any label type: the returned annotations are the survivors
   with their own inline fields, the returned label lists are the survivors' own labels, and
   every label list is as long as the annotation list *)
Theorem C05_labels_follow : forall (G L : Type) (ss : list (step G)) (items : list (item G L)) (k : nat),
  Forall (fun it => length (snd it) = k) items ->
  let out := run_steps G L ss (map (attach G L) items) in
  let surv := run_steps_i G L ss items in
  map (strip G L k) out = map (fun it => (fst (fst it), snd (fst it))) surv /\
  map (labels_of G L k) out = map (fun it => snd it) surv /\
  length (map (labels_of G L k) out) = length out.
Proof. exact labels_follow. Qed.
Print Assumptions C05_labels_follow.

Theorem C05_relative_order_preserved : forall (G L : Type) (ss : list (step G)) (items : list (item G L)),
  subseq (map (fun it => (snd (fst it), snd it)) (run_steps_i G L ss items))
         (map (fun it => (snd (fst it), snd it)) items).
Proof. exact order_preserved. Qed.
Print Assumptions C05_relative_order_preserved.

Example C05_middle_drop :
  (* three boxes with ids 1 2 3 as geometry, labels a/b/c in one field; the middle one is dropped *)
  let items := [(1, [], [10]); (2, [], [20]); (3, [], [30])] in
  let out := run_steps nat nat [SFilter nat (fun g => negb (Nat.eqb g 2))] (map (attach nat nat) items) in
  map (labels_of nat nat 1) out = [[10]; [30]] /\ map (strip nat nat 1) out = [(1, []); (3, [])].
Proof. split; reflexivity. Qed.

(* a pipeline rebuilt from its serialised form or from a replay record joins the same label fields: the parameter
   classes persist every constructor argument, `label_fields` included, under its own name (regenerated table of the
   `_to_dict` methods, followed through super() calls only) *)
From Coq Require Import String.
From DV.gen Require Import Gen_classtab.
From DV.proofs Require Import ClassFacts CF_C14.
Theorem C05_label_fields_survive_serialisation : forallb todict_row_ok todict_table = true.
Proof. exact todict_ok. Qed.
Print Assumptions C05_label_fields_survive_serialisation.
