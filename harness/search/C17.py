"""C17 failing-input search: group laws of the lattice transforms, checked on the
implementation through Compose pipelines with pinned parameters."""
import random

import numpy as np

import implrun as R

PLANES = ['xy', 'yz', 'xz']
AX = {'xy': (0, 1), 'yz': (0, 2), 'xz': (1, 2)}


def L(cls, pin=None, **args):
    return {'cls': cls, 'args': dict(args, p=1.0), 'pin': pin}


def pipelines(shape, rng):
    """(name, pipeline A, pipeline B or None): A must equal identity (B None) or equal B"""
    H, W, D = shape
    out = []
    for c in ('VerticalFlip', 'HorizontalFlip', 'SliceFlip', 'Transpose'):
        out.append((c + '*2', [L(c), L(c)], None))
    for d in (-1, 0, 1, 2):
        out.append(('Flip(%d)*2' % d, [L('Flip', {'d': d}), L('Flip', {'d': d})], None))
    for ax in PLANES:
        for k in range(4):
            out.append(('Rot90(%s,%d)+(%d)' % (ax, k, (4 - k) % 4),
                        [L('RandomRotate90', {'factor': k, 'axes': ax}, axes=ax),
                         L('RandomRotate90', {'factor': (4 - k) % 4, 'axes': ax}, axes=ax)], None))
        for k in (1, 3):
            out.append(('Rot90(%s,%d)*4' % (ax, k),
                        [L('RandomRotate90', {'factor': k, 'axes': ax}, axes=ax)] * 4, None))
        out.append(('Rot90(%s):1+1=2' % ax,
                    [L('RandomRotate90', {'factor': 1, 'axes': ax}, axes=ax)] * 2,
                    [L('RandomRotate90', {'factor': 2, 'axes': ax}, axes=ax)]))
    pairs = [('VerticalFlip', 'HorizontalFlip'), ('VerticalFlip', 'SliceFlip'), ('HorizontalFlip', 'SliceFlip')]
    for a, b in pairs:
        out.append(('%s,%s commute' % (a, b), [L(a), L(b)], [L(b), L(a)]))
    out.append(('Flip(-1)=H,V,Z', [L('Flip', {'d': -1})], [L('HorizontalFlip'), L('VerticalFlip'), L('SliceFlip')]))
    # pad followed by the inverse crop
    positions = ['center', 'front_top_left', 'front_top_right', 'front_bottom_left', 'front_bottom_right',
                 'back_top_left', 'back_top_right', 'back_bottom_left', 'back_bottom_right']
    for pos in positions:
        if rng.random() < 0.5:
            args = dict(min_height=H + rng.randint(0, 5), min_width=W + rng.randint(0, 5),
                        min_depth=D + rng.randint(0, 5), position=pos)
        else:
            args = dict(min_height=None, min_width=None, min_depth=None,
                        pad_height_divisor=rng.randint(1, 5), pad_width_divisor=rng.randint(1, 5),
                        pad_depth_divisor=rng.randint(1, 5), position=pos)
        out.append(('Pad(%s)+Crop' % pos, [L('PadIfNeeded', **args), 'INVERSE_CROP'], None))
    return out


def materialise(specs, shape):
    """replace the INVERSE_CROP marker by the crop undoing the preceding PadIfNeeded"""
    res = []
    for s in specs:
        if s == 'INVERSE_CROP':
            pad = R.make_leaf(res[-1])
            p = pad.update_params({}, image=np.zeros(shape, np.uint8))
            H, W, D = shape
            res.append(L('Crop', x_min=int(p['pad_left']), y_min=int(p['pad_top']), z_min=int(p['pad_front']),
                         x_max=int(p['pad_left']) + W, y_max=int(p['pad_top']) + H, z_max=int(p['pad_front']) + D))
        else:
            res.append(s)
    return res


def input_image(case):
    img = R.labelled(tuple(case['shape']))
    if case.get('channels'):
        # distinct channels: reversing or permuting the channel axis must show
        img = np.stack([img + 100000 * c for c in range(case['channels'])], axis=-1)
    return img


def run_pipeline(specs, case):
    shape = tuple(case['shape'])
    img = input_image(case)
    mask = (R.labelled(shape) % 7).astype(np.uint8)
    pipe = R.build(specs, bbox_format='pascal_voc_3d', kp_format='xyzas',
                   kp_kw={'angle_in_degrees': False, 'remove_invisible': False})
    return pipe(image=img, mask=mask, bboxes=[tuple(b) for b in case['bboxes']],
                keypoints=[tuple(k) for k in case['keypoints']])


def compare(name, res, ref, viol, case, specs):
    def add(target, obs, exp):
        viol.append({'site': 'C17:%s:%s' % (name.split('(')[0] if False else name, target), 'pipeline': specs,
                     'case': case, 'observed': obs, 'expected': exp, 'name': name})
    for key in ('image', 'mask'):
        a, b = res[key], ref[key]
        if a.shape != b.shape or not np.array_equal(a, b):
            add(key, {'shape': list(a.shape)}, {'shape': list(b.shape)})
    if len(res['bboxes']) != len(ref['bboxes']) or any(
            not R.seq_close(x[:6], y[:6]) for x, y in zip(res['bboxes'], ref['bboxes'])):
        add('bboxes', [list(map(float, x[:6])) for x in res['bboxes']], [list(map(float, x[:6])) for x in ref['bboxes']])
    ok = len(res['keypoints']) == len(ref['keypoints'])
    if ok:
        for x, y in zip(res['keypoints'], ref['keypoints']):
            if not (R.seq_close(x[:3], y[:3]) and R.ang_close_rad(float(x[3]), float(y[3])) and R.close(float(x[4]), float(y[4]))):
                ok = False
    if not ok:
        add('keypoints', [list(map(float, x[:5])) for x in res['keypoints']],
            [list(map(float, x[:5])) for x in ref['keypoints']])


def gen_case(rng):
    dims = rng.sample([2, 3, 4, 5, 6, 7, 9], 3)
    if rng.random() < 0.15:
        dims[rng.randrange(3)] = 1
    H, W, D = dims
    boxes = []
    for _ in range(rng.randint(1, 3)):
        def seg(n):
            a = rng.uniform(0, n - 0.25) if n > 0.5 else 0.0
            b = rng.uniform(a + 0.125, n)
            return a, min(b, float(n))
        (x1, x2), (y1, y2), (z1, z2) = seg(W), seg(H), seg(D)
        boxes.append((x1, y1, z1, x2, y2, z2, 'lab%d' % len(boxes)))
    kps = []
    for _ in range(rng.randint(1, 3)):
        kps.append((rng.uniform(0, W - 1), rng.uniform(0, H - 1), rng.uniform(0, D - 1),
                    rng.uniform(0, 6.28), rng.uniform(0.1, 5), 'k%d' % len(kps)))
    if rng.random() < 0.5:
        kps.append((float(rng.randint(0, W - 1)), float(rng.randint(0, H - 1)), float(rng.randint(0, D - 1)),
                    rng.choice([0.0, 1.5707963267948966, 3.141592653589793]), 1.0, 'grid'))
    return {'shape': [H, W, D], 'bboxes': boxes, 'keypoints': kps}


def check_one(name, specs_a, specs_b, case, viol):
    shape = tuple(case['shape'])
    a = materialise(specs_a, shape)
    try:
        res = run_pipeline(a, case)
        if specs_b is None:
            ref = {'image': input_image(case), 'mask': (R.labelled(shape) % 7).astype(np.uint8),
                   'bboxes': case['bboxes'], 'keypoints': case['keypoints']}
        else:
            ref = run_pipeline(materialise(specs_b, shape), case)
    except Exception as e:  # noqa
        viol.append({'site': 'C17:%s:raises' % name, 'pipeline': a, 'case': case, 'name': name,
                     'observed': '%s: %s' % (type(e).__name__, e), 'expected': 'no exception', 'b': specs_b})
        return
    n0 = len(viol)
    compare(name, res, ref, viol, case, a)
    for v in viol[n0:]:
        v['b'] = specs_b


def run(seed=0, tier='quick', hints=None, broken=False):
    rng = random.Random(seed * 7919 + 17)
    n = 6 if tier == 'quick' else 120
    if broken:
        n *= 4
    viol = []
    evals = 0
    seen = set()
    for i in range(n):
        case = gen_case(rng)
        case['channels'] = [None, 3, None, 2][i % 4]
        for name, a, b in pipelines(tuple(case['shape']), rng):
            check_one(name, a, b, case, viol)
            evals += 1
            seen.add((name, tuple(case['shape'])))
    return {'violations': viol, 'info': {'evaluations': evals, 'distinct': len(seen),
                                         'what': 'two- to four-step pinned lattice pipelines through Compose on '
                                                 'index-labelled non-cubic volumes with boxes and keypoints'}}


def replay(v):
    viol = []
    check_one(v['name'], v['pipeline'], v.get('b'), v['case'], viol)
    return bool(viol)
