"""C12 failing-input search: an image-only transform returns mask, masks, boxes, keypoints,
labels and header identical to the inputs and an image of the same spatial shape and channel
count; dropout transforms preserve shape, header and annotation geometry, removing keypoints
only inside holes."""
import copy
import random

import numpy as np

import implrun as R
from ctor_args import CTOR, configurations

A = R.A
IMAGE_ONLY = ['Blur', 'Downscale', 'Equalize', 'FromFloat', 'GaussNoise', 'GaussianBlur', 'InvertImg', 'MedianBlur',
              'NPSNoise', 'Normalize', 'Posterize', 'RandomBrightnessContrast', 'RandomGamma', 'Sharpen', 'ToFloat',
              'UnsharpMask']
DICOM = {'PixelSpacing': (0.7, 0.4), 'RescaleIntercept': -1024.0, 'RescaleSlope': 1.0, 'ConvolutionKernel': 'STANDARD',
         'XRayTubeCurrent': 160}


def image_for(name, shape, channels, rs):
    kind = CTOR[name].get('image', 'uint8')
    full = shape + ((channels,) if channels else ())
    if kind == 'float':
        return rs.rand(*full).astype(np.float32)
    if kind == 'int16':
        return rs.randint(-500, 1500, full).astype(np.int16)
    return rs.randint(0, 255, full).astype(np.uint8)


def same(a, b):
    if isinstance(a, np.ndarray):
        return isinstance(b, np.ndarray) and a.dtype == b.dtype and a.shape == b.shape and np.array_equal(a, b)
    if isinstance(a, (list, tuple)) and a and isinstance(a[0], np.ndarray):
        return len(a) == len(b) and all(same(x, y) for x, y in zip(a, b))
    if isinstance(a, (list, tuple)):
        def eq(x, y):
            if isinstance(x, (tuple, list)):
                return len(x) == len(y) and all(eq(p, q) for p, q in zip(x, y))
            if isinstance(x, float) or isinstance(y, float):
                return R.close(float(x), float(y), 1e-9)      # annotation values: round-off granted (C10)
            return x == y
        return len(a) == len(b) and all(eq(x, y) for x, y in zip(a, b))
    return a == b


def run_image_only(name, kw, case, ch):
    rs = np.random.RandomState(case['seed'] % 1000)
    shape = tuple(case['shape'])
    img = image_for(name, shape, ch, rs)
    mask = rs.randint(0, 5, shape).astype(np.int32)
    H_, W_, D_ = shape
    data = dict(image=img, mask=mask, masks=[mask.copy(), mask.copy() + 1],
                bboxes=[(0.0 if W_ < 3 else 1.0, 0.0 if H_ < 3 else 1.5, 0.0, min(4.0, W_), min(5.5, H_), min(3.0, D_), 'a')],
                keypoints=[(min(2.5, W_ - 0.5), min(3.0, H_ - 0.5), min(1.0, D_ - 0.5), 30.0, 2.0, 'k')], labels=['x'],
                dicom=copy.deepcopy(DICOM), mask2=mask.copy())
    ref = copy.deepcopy(data)
    pipe = A.Compose([getattr(A, name)(p=1.0, **kw)], bbox_params=A.BboxParams('pascal_voc_3d'),
                     keypoint_params=A.KeypointParams('xyzas', label_fields=['labels']),
                     additional_targets={'mask2': 'mask'})
    R.seed(case['seed'])
    return pipe(**data), ref, img


def check_image_only(name, kw, case, viol):
    ch = case['channels'] if name not in ('NPSNoise',) else None
    try:
        res, ref, img = run_image_only(name, kw, case, ch)
    except Exception as e:  # noqa
        # whether a documented configuration runs at all is C08's question -- but one that runs on the H x W x D
        # volume and raises on the same volume with a channel axis does not "return the channel count of the input"
        if ch:
            try:
                run_image_only(name, kw, case, None)
            except Exception:  # noqa
                return
            viol.append({'site': 'C12:%s:raises-with-channels' % name, 'kind': 'image_only', 'name': name, 'kw': kw, 'case': case,
                         'observed': '%s: %s' % (type(e).__name__, str(e)[:160]),
                         'expected': 'an image with %d channel(s): the same configuration runs without the channel axis' % ch})
            return
        # ... and one that runs on a cubic volume and raises on a non-cubic one does not return "the same spatial shape"
        if len(set(case['shape'])) > 1:
            try:
                run_image_only(name, kw, dict(case, shape=[8, 8, 8]), None)
            except Exception:  # noqa
                return
            viol.append({'site': 'C12:%s:raises-on-non-cubic' % name, 'kind': 'image_only', 'name': name, 'kw': kw, 'case': case,
                         'observed': '%s: %s' % (type(e).__name__, str(e)[:160]),
                         'expected': 'an image of shape %s: the same configuration runs on an 8 x 8 x 8 volume' % (case['shape'],)})
        return
    for k in ('mask', 'masks', 'bboxes', 'keypoints', 'labels', 'dicom', 'mask2'):
        if not same(res[k], ref[k]):
            viol.append({'site': 'C12:%s:%s' % (name, k), 'kind': 'image_only', 'name': name, 'kw': kw, 'case': case,
                         'observed': str(res[k])[:200], 'expected': 'identical to the input'})
            return
    out = res['image']
    if out.shape != img.shape:
        viol.append({'site': 'C12:%s:image-shape' % name, 'kind': 'image_only', 'name': name, 'kw': kw, 'case': case,
                     'observed': list(out.shape), 'expected': list(img.shape)})


def run_dropout(name, kw, shape, ch, seed):
    rs = np.random.RandomState(seed % 1000)
    full = tuple(shape) + ((ch,) if ch else ())
    img = rs.randint(1, 200, full).astype(np.uint8)
    mask = rs.randint(1, 5, tuple(shape)).astype(np.uint8)
    data = dict(image=img, mask=mask, masks=[mask.copy(), mask.copy() + 1], dicom=copy.deepcopy(DICOM))
    pipe = A.Compose([getattr(A, name)(p=1.0, **kw)])
    R.seed(seed)
    return pipe(**copy.deepcopy(data)), data


def check_dropout_shapes(name, kw, case, viol):
    """dropout transforms: image, mask and every entry of masks keep their shape and dtype, the header is untouched --
    on every channel layout and also on single-column / single-slice volumes"""
    try:
        res, data = run_dropout(name, kw, case['shape'], case['channels'], case['seed'])
    except Exception as e:  # noqa
        if isinstance(e, ValueError) and name == 'GridDropout' and any(
                m in str(e) for m in ('Max unit size should be', 'Grid size limits must be', 'must be between 1 and image')):
            return          # grid limits that do not fit this volume: a documented rejection (the library's own messages)
        if isinstance(e, ValueError) and name == 'CoarseDropout':
            sizes = [kw.get(k, 8) for k in ('max_height', 'max_width', 'max_depth')]
            if all(isinstance(v, int) for v in sizes) and any(v > n for v, n in zip(sizes, case['shape'])):
                return      # a hole size in voxels larger than this volume: no position to draw (sizes given as
                            # fractions always fit, whatever the shape)
        try:
            run_dropout(name, kw, [8, 8, 8], None, case['seed'])
        except Exception:  # noqa -- the configuration does not run at all: C08's question
            return
        viol.append({'site': 'C12:%s:raises-on-this-layout' % name, 'kind': 'dropout_shape', 'name': name, 'kw': kw, 'case': case,
                     'observed': '%s: %s' % (type(e).__name__, str(e)[:160]),
                     'expected': 'image %s and mask %s returned (the same configuration runs on a plain 8 x 8 x 8 volume)'
                                 % (list(case['shape']) + ([case['channels']] if case['channels'] else []), list(case['shape']))})
        return
    for k in ('image', 'mask'):
        if res[k].shape != data[k].shape or res[k].dtype != data[k].dtype:
            viol.append({'site': 'C12:%s:%s-shape' % (name, k), 'kind': 'dropout_shape', 'name': name, 'kw': kw, 'case': case,
                         'observed': '%s %s' % (res[k].shape, res[k].dtype), 'expected': '%s %s' % (data[k].shape, data[k].dtype)})
            return
    if any(a.shape != b.shape for a, b in zip(res['masks'], data['masks'])) or res['dicom'] != data['dicom']:
        viol.append({'site': 'C12:%s:masks-or-header' % name, 'kind': 'dropout_shape', 'name': name, 'kw': kw, 'case': case,
                     'observed': 'masks %s, header %s' % ([m.shape for m in res['masks']], res['dicom']), 'expected': 'unchanged shapes, identical header'})


def check_coarse_dropout(case, viol):
    """holes recovered from the output image (fill value never occurs in the input)"""
    shape = tuple(case['shape'])
    H, W, D = shape
    rng = random.Random(case['seed'])
    img = np.full(shape, 9, np.uint8)
    mask = np.full(shape, 3, np.uint8)
    kps = []
    for i in range(60):
        kps.append((rng.choice([rng.uniform(0, W - 0.01), float(rng.randint(0, W - 1)), rng.randint(0, W - 1) + 0.6]),
                    rng.choice([rng.uniform(0, H - 0.01), float(rng.randint(0, H - 1)), rng.randint(0, H - 1) + 0.6]),
                    rng.choice([rng.uniform(0, D - 0.01), float(rng.randint(0, D - 1)), rng.randint(0, D - 1) + 0.6]), i))
    kw = dict(max_holes=3, max_height=max(1, H // 2), max_width=max(1, W // 2), max_depth=max(1, D // 2), min_holes=1,
              min_height=1, min_width=1, min_depth=1, fill_value=0, mask_fill_value=case.get('mask_fill'))
    try:
        pipe = A.Compose([A.CoarseDropout(p=1.0, **kw)], keypoint_params=A.KeypointParams('xyz'))
        R.seed(case['seed'])
        res = pipe(image=img, mask=mask, keypoints=kps, dicom=copy.deepcopy(DICOM))
    except Exception as e:  # noqa
        viol.append({'site': 'C12:CoarseDropout:raises', 'kind': 'coarse', 'case': case,
                     'observed': '%s: %s' % (type(e).__name__, e), 'expected': 'no exception'})
        return
    out = res['image']
    bad = None
    if out.shape != img.shape or res['mask'].shape != mask.shape:
        bad = ('shape', list(out.shape), list(img.shape))
    elif res['dicom'] != DICOM:
        bad = ('dicom', res['dicom'], DICOM)
    else:
        hole = out == 0
        exp = [k for k in kps if not hole[min(int(k[1]), H - 1), min(int(k[0]), W - 1), min(int(k[2]), D - 1)]]
        got = [tuple(k) for k in res['keypoints']]
        if got != [tuple(k) for k in exp]:
            gi, ei = [k[3] for k in got], [k[3] for k in exp]
            bad = ('keypoints', 'kept ids %s' % gi, 'kept ids %s (removed iff inside a hole, order and values unchanged)' % ei)
        if case.get('mask_fill') is None and not np.array_equal(res['mask'], mask):
            bad = ('mask', 'changed', 'untouched when no mask fill value is given')
        if case.get('mask_fill') is not None and not np.array_equal(res['mask'] == case['mask_fill'], hole):
            bad = ('mask', 'mask holes differ from image holes', 'same holes')
    if bad:
        viol.append({'site': 'C12:CoarseDropout:%s' % bad[0], 'kind': 'coarse', 'case': case, 'observed': str(bad[1])[:300],
                     'expected': str(bad[2])[:300]})


def run(seed=0, tier='quick', hints=None, broken=False):
    rng = random.Random(seed * 7919 + 12)
    viol, evals, seen = [], 0, set()
    per = 2 if tier == 'quick' else 40
    if broken:
        per = max(per, 6)
    for name in IMAGE_ONLY:
        cfgs = configurations(name)
        rng.shuffle(cfgs)
        combos = [(kw, chn, None) for kw in cfgs for chn in (None, 1, 3)] + \
                 [(kw, chn, ax) for i, kw in enumerate(cfgs) for chn, ax in ((None, 1 + i % 2), (3, 2 - i % 2))]
        for kw, chn, thin in combos * (1 if tier == 'quick' else 4):
            # every documented configuration x channel layouts HWD / HWD1 / HWD3; cubic volumes now and then (a
            # broadcast that goes wrong raises on a non-cubic volume but silently changes the shape of a cubic one);
            # and every configuration on a single-column and on a single-slice volume, without and with channels
            shape = list(rng.sample([6, 8, 9, 10, 12], 3)) if rng.random() < 0.7 else [rng.choice([6, 8])] * 3
            if thin is not None:
                shape[thin] = 1
            case = {'shape': shape, 'channels': chn, 'seed': R.pick_seed(rng)}
            check_image_only(name, kw, case, viol)
            evals += 1
            seen.add((name, repr(kw), case['channels']))
    for name in ('CoarseDropout', 'GridDropout', 'PixelDropout'):
        cfgs = configurations(name)
        for i, kw in enumerate(cfgs * (1 if tier == 'quick' else 4)):
            for chn, thin in ((None, None), (3, None), (None, 1 + i % 2), (3, 2 - i % 2), (2, 2)):
                shape = list(rng.sample([6, 8, 9, 10, 12], 3))
                if thin is not None:
                    shape[thin] = 1
                case = {'shape': shape, 'channels': chn, 'seed': R.pick_seed(rng)}
                check_dropout_shapes(name, kw, case, viol)
                evals += 1
    for _ in range(25 if tier == 'quick' else 800):
        case = {'shape': list(rng.sample([4, 5, 6, 8, 10], 3)), 'seed': R.pick_seed(rng),
                'mask_fill': rng.choice([None, 7])}
        check_coarse_dropout(case, viol)
        evals += 1
        seen.add(('CoarseDropout', tuple(case['shape']), case['mask_fill']))
    return {'violations': viol, 'info': {'evaluations': evals, 'distinct': len(seen),
                                         'what': 'image-only classes x documented configurations with every accompanying target; CoarseDropout keypoint removal vs holes recovered from the image'}}


def replay(v):
    viol = []
    if v.get('kind') == 'coarse':
        check_coarse_dropout(v['case'], viol)
    elif v.get('kind') == 'dropout_shape':
        check_dropout_shapes(v['name'], v['kw'], v['case'], viol)
    else:
        check_image_only(v['name'], v['kw'], v['case'], viol)
    return bool(viol)
