#!/bin/bash
# full pass on the unchanged tree: quick tier with several seeds, thorough tier, then the seeded-change matrix
cd /verif
tools/run_all.sh quick 1 2 3 4 5 6 > /dev/null 2>&1; cp work/run_all_quick.txt work/soak_quick.txt
tools/run_all.sh thorough 2 > /dev/null 2>&1; cp work/run_all_thorough.txt work/soak_thorough.txt
tools/mutant_matrix.sh > /dev/null 2>&1
echo "quick violations: $(grep -c VIOLATION work/soak_quick.txt)  thorough violations: $(grep -c VIOLATION work/soak_thorough.txt)"
cat work/mutant_matrix.txt
