(* GridHoles.v -- GridDropout.get_params_dependent_on_targets (generated): every hole of the grid lies
   inside the frame, for every configuration accepted by the code, every draw and every grid index. *)
From Coq Require Import ZArith QArith Qround List Bool String Lia Lqa.
Import ListNotations.
From DV.lib Require Import PyNum PyRt.
From DV.model Require Import Arrays NpRt.
From DV.gen Require Import Gen_cls_grid.
From DV.proofs Require Import Tac PadParams Dropout.
Open Scope Z_scope.

Lemma div_ge2 w n : 1 <= n -> n <= w / 2 -> 2 <= w / n.
Proof.
  intros Hn Hw. assert (2 * (w / 2) <= w) by (apply Z.mul_div_le; lia).
  apply Z.div_le_lower_bound; lia.
Qed.

Ltac grid_step :=
  match goal with
  | H : Raise _ = Ok _ |- _ => discriminate H
  | H : Ok _ = Ok _ |- _ => inversion H; subst; clear H
  | H : draw_int _ _ _ = Ok _ |- _ => apply draw_int_ok in H; destruct H as [-> ?]
  | H : divz _ ?b = Ok _ |- _ => unfold divz in H
  | H : bind _ _ = Ok _ |- _ => apply bind_ok in H; destruct H as (? & ? & H)
  | H : match ?x with Some _ => _ | None => _ end = Ok _ |- _ => destruct x
  | H : (let '(_, _) := ?p in _) = Ok _ |- _ => destruct p
  | H : (if ?c then _ else _) = Ok _ |- _ => destruct c eqn:?
  end.

(* all three grid units are at least 2 voxels in every accepted configuration *)
Ltac units_finish :=
  repeat match goal with
  | H : negb _ = false |- _ => apply negb_false_iff in H
  | H : _ && _ = true |- _ => apply andb_true_iff in H; destruct H
  | H : (_ <=? _) = true |- _ => apply Z.leb_le in H
  | H : (_ =? _) = false |- _ => apply Z.eqb_neq in H
  | H : (_ >? _) = false |- _ => rewrite Z.gtb_ltb in H; apply Z.ltb_ge in H
  end;
  repeat match goal with
  | |- context [?w / ?n] =>
      lazymatch goal with
      | _ : 2 <= w / n |- _ => fail
      | _ => assert (2 <= w / n) by (apply div_ge2; lia)
      end
  end;
  repeat split; lia.

Theorem grid_hole_in_frame hx hy hz ro ratio sx sy sz umax umin img i j k du dx dy dz Hh W D x1 y1 z1 x2 y2 z2 :
  vshape img = (Hh, W, D) -> 0 <= Hh -> 0 <= W -> 0 <= D -> 0 <= i -> 0 <= j -> 0 <= k ->
  GridDropoutS_get_params_dependent_on_targets_body hx hy hz ro ratio sx sy sz umax umin img i j k du dx dy dz
    = Ok (x1, y1, z1, x2, y2, z2) ->
  hole_in (Hh, W, D) (x1, y1, z1, x2, y2, z2).
Proof.
  intros S PH PW PD Pi Pj Pk E. unfold GridDropoutS_get_params_dependent_on_targets_body in E. cbn zeta in E.
  rewrite S in E. res_inv.
  match goal with
  | HU : _ = Ok (?ud, ?uh, ?uw), HS : _ = Ok (?s1, ?s2, ?s3) |- _ =>
      assert (U : 2 <= uw /\ 2 <= uh /\ 2 <= ud) by (clear HS; repeat grid_step; units_finish);
      clear HU; destruct U as (U1 & U2 & U3);
      generalize dependent (py_int (inject_Z uw * ratio)); intros pw;
      generalize dependent (py_int (inject_Z uh * ratio)); intros ph;
      generalize dependent (py_int (inject_Z ud * ratio)); intros pd; intros HS;
      assert (P : 0 <= s1 /\ 0 <= s2 /\ 0 <= s3)
        by (repeat grid_step; repeat match goal with |- context [match ?o with Some _ => _ | None => _ end] => destruct o end;
            repeat split; lia);
      clear HS; destruct P as (P1 & P2 & P3);
      assert (0 <= uw * i) by (apply Z.mul_nonneg_nonneg; lia);
      assert (0 <= uh * j) by (apply Z.mul_nonneg_nonneg; lia);
      assert (0 <= ud * k) by (apply Z.mul_nonneg_nonneg; lia)
  end.
  unfold hole_in. repeat split; lia.
Qed.

(* with unit-size limits configured, every hole is strictly smaller than the largest allowed grid unit *)
Theorem grid_hole_below_unit_max hx hy hz ro ratio sx sy sz a b img i j k du dx dy dz Hh W D x1 y1 z1 x2 y2 z2 :
  vshape img = (Hh, W, D) -> a <> 0 -> b <> 0 ->
  GridDropoutS_get_params_dependent_on_targets_body hx hy hz ro ratio sx sy sz (Some b) (Some a) img i j k du dx dy dz
    = Ok (x1, y1, z1, x2, y2, z2) ->
  x2 - x1 <= b - 1 /\ y2 - y1 <= b - 1 /\ z2 - z1 <= b - 1.
Proof.
  intros S Na Nb E. unfold GridDropoutS_get_params_dependent_on_targets_body in E. cbn zeta in E.
  rewrite S in E. res_inv.
  match goal with
  | HU : _ = Ok (?ud, ?uh, ?uw), HS : _ = Ok (?s1, ?s2, ?s3) |- _ =>
      assert (U : uw <= b /\ uh <= b /\ ud <= b)
        by (clear HS; apply Z.eqb_neq in Na; apply Z.eqb_neq in Nb; rewrite Na, Nb in HU; cbn in HU;
            repeat grid_step; repeat split; lia);
      clear HU HS; destruct U as (U1 & U2 & U3);
      generalize (py_int (inject_Z uw * ratio)) (py_int (inject_Z uh * ratio)) (py_int (inject_Z ud * ratio));
      intros pw ph pd
  end.
  repeat split; lia.
Qed.

(* the grid repeats over the whole frame: the loop bounds are extent // unit + 1 along EACH axis with that axis'
   own extent and unit (so no slab of the volume is left without holes), and a configured number of holes is reached *)
Theorem grid_count_holes_number hx hy hz ro ratio sx sy sz img du dx dy dz Hh W D nx ny nz :
  vshape img = (Hh, W, D) ->
  GridDropoutS_get_params_dependent_on_targets_count (Some hx) (Some hy) (Some hz) ro ratio sx sy sz None None img du dx dy dz
    = Ok (nx, ny, nz) ->
  nx = W / (W / hx) + 1 /\ ny = Hh / (Hh / hy) + 1 /\ nz = D / (D / hz) + 1 /\ hx < nx /\ hy < ny /\ hz < nz.
Proof.
  intros S E. unfold GridDropoutS_get_params_dependent_on_targets_count in E. cbn zeta in E.
  rewrite S in E. res_inv.
  repeat grid_step.
  all: repeat match goal with
  | H : negb _ = false |- _ => apply negb_false_iff in H
  | H : _ && _ = true |- _ => apply andb_true_iff in H; destruct H
  | H : (_ <=? _) = true |- _ => apply Z.leb_le in H
  | H : (_ =? _) = false |- _ => apply Z.eqb_neq in H
  | H : (_ =? _) = true |- _ => apply Z.eqb_eq in H
  end.
  all: try lia.
  all: assert (2 <= W / hx) by (apply div_ge2; lia); assert (2 <= Hh / hy) by (apply div_ge2; lia);
       assert (2 <= D / hz) by (apply div_ge2; lia).
  all: assert (hx <= W / (W / hx)) by (apply Z.div_le_lower_bound; [lia | rewrite Z.mul_comm; apply Z.mul_div_le; lia]).
  all: assert (hy <= Hh / (Hh / hy)) by (apply Z.div_le_lower_bound; [lia | rewrite Z.mul_comm; apply Z.mul_div_le; lia]).
  all: assert (hz <= D / (D / hz)) by (apply Z.div_le_lower_bound; [lia | rewrite Z.mul_comm; apply Z.mul_div_le; lia]).
  all: repeat split; lia.
Qed.

Theorem grid_count_unit_size hx hy hz ro ratio sx sy sz a b img du dx dy dz Hh W D nx ny nz :
  vshape img = (Hh, W, D) -> a <> 0 -> b <> 0 ->
  GridDropoutS_get_params_dependent_on_targets_count hx hy hz ro ratio sx sy sz (Some b) (Some a) img du dx dy dz
    = Ok (nx, ny, nz) ->
  a <= du <= b /\ nx = W / du + 1 /\ ny = Hh / du + 1 /\ nz = D / du + 1.
Proof.
  intros S Na Nb E. unfold GridDropoutS_get_params_dependent_on_targets_count in E. cbn zeta in E.
  rewrite S in E. apply Z.eqb_neq in Na. apply Z.eqb_neq in Nb. rewrite Na, Nb in E. cbn [negb] in E.
  res_inv. repeat grid_step. all: try lia. all: repeat split; lia.
Qed.
