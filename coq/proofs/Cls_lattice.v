(* Cls_lattice.v -- per transform class: the image path, the mask path, the box path and
   the keypoint path (generated from the class's methods with the parameter-dict binding
   made explicit) all follow ONE lattice descriptor. *)
From Coq Require Import ZArith QArith List Bool Lia Lqa String.
From DV.lib Require Import PyNum PyRt Angle.
From DV.model Require Import Arrays NpRt Lattice.
From DV.gen Require Import Gen_bbox_utils Gen_keypoints_utils Gen_geom_functional Gen_geom_arrays
  Gen_crops_functional Gen_cls_geom Gen_cls_rotate Gen_cls_crops.
From DV.proofs Require Import Tac KpTac Conv C17_box Lat_vox Lat_box Lat_kp.
Open Scope Q_scope.

Section Frame.
Variables r c s : Z.
Hypothesis Hr : (0 < r)%Z.
Hypothesis Hc : (0 < c)%Z.
Hypothesis Hs : (0 < s)%Z.
Let sh : shape3 := (r, c, s).

(* what "all four targets follow descriptor l" means for a shape-preserving class whose
   paths cannot raise *)
Definition follows4 (img mask : view -> view) (bb : box -> box) (kpf : kp -> kp) (l : lat) (osh : shape3) : Prop :=
  (forall v, vshape v = sh -> vshape (img v) = osh /\ same_map (img v) v l) /\
  (forall v, vshape v = sh -> vshape (mask v) = osh /\ same_map (mask v) v l) /\
  (forall b, let '(r', c', s') := osh in box_eq (denorm_box (bb (norm_box b r c s)) r' c' s') (lat_box l b)) /\
  (forall k, kp_follows (kpf k) k l).

Lemma VerticalFlip_follows :
  follows4 (fun v => VerticalFlip_apply v c r s) (fun v => VerticalFlip_apply_to_mask v c r s)
           (fun b => VerticalFlip_apply_to_bbox b c r s) (fun k => VerticalFlip_apply_to_keypoint k c r s)
           (lat_flip 0 sh) sh.
Proof.
  unfold follows4, VerticalFlip_apply_to_mask, VerticalFlip_apply, VerticalFlip_apply_to_bbox,
    VerticalFlip_apply_to_keypoint. repeat split; intros.
  - rewrite <- H. apply vflip_lat.
  - rewrite <- H. apply vflip_lat.
  - rewrite <- H. apply vflip_lat.
  - rewrite <- H. apply vflip_lat.
  - apply bbox_vflip_lat; assumption.
  - apply kp_vflip_lat.
Qed.

Lemma HorizontalFlip_follows :
  follows4 (fun v => HorizontalFlip_apply v c r s) (fun v => HorizontalFlip_apply_to_mask v c r s)
           (fun b => HorizontalFlip_apply_to_bbox b c r s) (fun k => HorizontalFlip_apply_to_keypoint k c r s)
           (lat_flip 1 sh) sh.
Proof.
  unfold follows4, HorizontalFlip_apply_to_mask, HorizontalFlip_apply, HorizontalFlip_apply_to_bbox,
    HorizontalFlip_apply_to_keypoint. repeat split; intros.
  - rewrite <- H. apply hflip_lat.
  - rewrite <- H. apply hflip_lat.
  - rewrite <- H. apply hflip_lat.
  - rewrite <- H. apply hflip_lat.
  - apply bbox_hflip_lat; assumption.
  - apply kp_hflip_lat.
Qed.

Lemma SliceFlip_follows :
  follows4 (fun v => SliceFlip_apply v c r s) (fun v => SliceFlip_apply_to_mask v c r s)
           (fun b => SliceFlip_apply_to_bbox b c r s) (fun k => SliceFlip_apply_to_keypoint k c r s)
           (lat_flip 2 sh) sh.
Proof.
  unfold follows4, SliceFlip_apply_to_mask, SliceFlip_apply, SliceFlip_apply_to_bbox,
    SliceFlip_apply_to_keypoint. repeat split; intros.
  - rewrite <- H. apply zflip_lat.
  - rewrite <- H. apply zflip_lat.
  - rewrite <- H. apply zflip_lat.
  - rewrite <- H. apply zflip_lat.
  - apply bbox_zflip_lat; assumption.
  - apply kp_zflip_lat.
Qed.

(* Flip(d): every path may raise for an invalid code; for the documented codes none does *)
Lemma Flip_follows d : In d flipcodes ->
  (forall v, vshape v = sh -> exists v', Flip_apply v d c r s = Ok v' /\ vshape v' = sh /\
                                          same_map v' v (Lat_vox.lat_flipcode d sh)) /\
  (forall v, vshape v = sh -> exists v', Flip_apply_to_mask v d c r s = Ok v' /\ vshape v' = sh /\
                                          same_map v' v (Lat_vox.lat_flipcode d sh)) /\
  (forall b, exists nb, Flip_apply_to_bbox (norm_box b r c s) d c r s = Ok nb /\
                        box_eq (denorm_box nb r c s) (lat_box (Lat_vox.lat_flipcode d sh) b)) /\
  (forall k, exists k', Flip_apply_to_keypoint k d c r s = Ok k' /\ kp_follows k' k (Lat_vox.lat_flipcode d sh)).
Proof.
  intros Hd. unfold Flip_apply_to_mask, Flip_apply, Flip_apply_to_bbox, Flip_apply_to_keypoint.
  repeat split; intros.
  - destruct (random_flip_lat v d) as (v' & E & S & Mp); [unfold flipcodes in Hd; exact Hd|].
    exists v'. rewrite <- H. auto.
  - destruct (random_flip_lat v d) as (v' & E & S & Mp); [unfold flipcodes in Hd; exact Hd|].
    exists v'. rewrite <- H. auto.
  - apply bbox_flip_lat; assumption.
  - apply kp_flip_lat; assumption.
Qed.

(* Transpose: the output frame is (c, r, s) *)
Lemma Transpose_follows :
  (forall v, vshape v = sh -> vshape (Transpose_apply v c r s) = (c, r, s) /\
                              same_map (Transpose_apply v c r s) v lat_transpose) /\
  (forall v, vshape v = sh -> vshape (Transpose_apply_to_mask v c r s) = (c, r, s) /\
                              same_map (Transpose_apply_to_mask v c r s) v lat_transpose) /\
  (forall b, exists nb, Transpose_apply_to_bbox (norm_box b r c s) c r s = Ok nb /\
                        box_eq (denorm_box nb c r s) (lat_box lat_transpose b)) /\
  (forall k, (let '(_, _, _, a, _) := k in 0 <= a /\ a < M) ->
             kp_follows (Transpose_apply_to_keypoint k c r s) k lat_transpose).
Proof.
  unfold Transpose_apply_to_mask, Transpose_apply, Transpose_apply_to_bbox, Transpose_apply_to_keypoint.
  repeat split; intros.
  - destruct (transpose_lat v) as [S _]. rewrite S, H. reflexivity.
  - apply transpose_lat.
  - destruct (transpose_lat v) as [S _]. rewrite S, H. reflexivity.
  - apply transpose_lat.
  - apply bbox_transpose_lat; assumption.
  - apply kp_transpose_lat; assumption.
Qed.

End Frame.
