#!/bin/bash
# usage: try_mutant.sh <seeded id> <property id>... : applies the seeded change to /repo, runs the checks, restores
id=$1; shift
cd /repo || exit 1
if [ -n "$(git status --porcelain)" ]; then echo "repo not clean"; exit 2; fi
git apply /verif/seeded/$id/patch.diff || { echo "patch does not apply"; exit 2; }
for p in "$@"; do
  /verif/check $p ${TIER:-quick} 2>&1 | grep -v conda | grep -E "VIOLATION|KNOWN|tier=" | cut -c1-400
  echo "exit=$?"
done
git checkout -- .
cd /verif && tools/build.sh > /dev/null 2>&1
