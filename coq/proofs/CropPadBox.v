(* CropPadBox.v -- crop_and_pad_bbox (regenerated): the box is moved by BOTH shifts of the image path -- minus the crop
   origin (when something is cropped) and plus the near-side pad amounts (when something is padded) -- and expressed
   in the result frame. *)
From Coq Require Import ZArith QArith List Bool String Lia.
Import ListNotations.
From DV.lib Require Import PyNum PyRt.
From DV.gen Require Import Gen_bbox_utils Gen_crops_functional.
From DV.proofs Require Import Tac Conv.
Open Scope Q_scope.

Definition crop_origin (cp : option (Z * Z * Z * Z * Z * Z)) : Z * Z * Z :=
  match cp with Some (x, y, z, _, _, _) => (x, y, z) | None => (0, 0, 0)%Z end.
Definition pad_near (pp : option (Z * Z * Z * Z * Z * Z)) : Z * Z * Z :=
  match pp with Some (pt, _, pl, _, pc, _) => (pl, pt, pc) | None => (0, 0, 0)%Z end.

(* one coordinate: minus the crop origin when something is cropped, plus the near pad when something is padded *)
Definition mv (cp pp : option (Z * Z * Z * Z * Z * Z)) (v : Q) (cv pv : Z) : Q :=
  let v1 := match cp with Some _ => v - inject_Z cv | None => v end in
  match pp with Some _ => v1 + inject_Z pv | None => v1 end.

Lemma mv_value cp pp v cv pv :
  mv cp pp v cv pv == v - (match cp with Some _ => inject_Z cv | None => 0 end) + (match pp with Some _ => inject_Z pv | None => 0 end).
Proof. unfold mv. destruct cp, pp; ring. Qed.

Definition moved_box (b : Q * Q * Q * Q * Q * Q) (cp pp : option (Z * Z * Z * Z * Z * Z)) (r c s rr rc rs : Z) :=
  let '(cx, cy, cz) := crop_origin cp in
  let '(px, py, pz) := pad_near pp in
  let '(x1, y1, z1, x2, y2, z2) := denorm_box b r c s in
  norm_box (mv cp pp x1 cx px, mv cp pp y1 cy py, mv cp pp z1 cz pz, mv cp pp x2 cx px, mv cp pp y2 cy py, mv cp pp z2 cz pz) rr rc rs.

Theorem crop_and_pad_bbox_spec b cp pp r c s rr rc rs :
  (0 < r)%Z -> (0 < c)%Z -> (0 < s)%Z -> (0 < rr)%Z -> (0 < rc)%Z -> (0 < rs)%Z ->
  crop_and_pad_bbox b cp pp r c s rr rc rs = Ok (moved_box b cp pp r c s rr rc rs).
Proof.
  intros Hr Hc Hs Hrr Hrc Hrs. unfold crop_and_pad_bbox, moved_box.
  rewrite (denormalize_bbox_ok b r c s Hr Hc Hs).
  destruct (denorm_box b r c s) as [[[[[x1 y1] z1] x2] y2] z2]. cbn [bind].
  destruct cp as [[[[[[cx cy] cz] cx2] cy2] cz2]|], pp as [[[[[[pt pb] pl] pr] pc] pf]|];
    cbn [crop_origin pad_near mv]; rewrite normalize_bbox_ok by assumption; reflexivity.
Qed.

(* a crop of one face and a pad of a near face in the same call: both shifts reach the box
   (x: 0.1 * 10 cols + 3 padded on the left, over 13 result cols; y: 0.2 * 12 rows - 2 cropped, over 10 result rows) *)
Example both_shifts_apply :
  match crop_and_pad_bbox (1 # 10, 1 # 5, 1 # 4, 1 # 2, 3 # 5, 3 # 4) (Some (0, 2, 0, 10, 12, 8)%Z) (Some (0, 0, 3, 0, 1, 0)%Z) 12 10 8 10 13 9 with
  | Ok (x1, y1, z1, _, _, _) => Qeq_bool x1 (4 # 13) && Qeq_bool y1 (2 # 50) && Qeq_bool z1 (3 # 9)
  | _ => false
  end = true.
Proof. vm_compute. reflexivity. Qed.
