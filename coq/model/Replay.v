(* Replay.v -- hand-written executable model of ReplayCompose record / replay
   (dicaugment/core/composition.py: ReplayCompose.__call__, fill_with_params, fill_applied,
   replay, _restore_for_replay; the replay_mode branches of OneOf / SomeOf / OneOrOther and of
   BasicTransform.__call__), tied to the code by harness/corr_replay.py.

   Record: parameters are captured per transform OBJECT (keyed by id()): a leaf is marked applied
   iff it fired at least once.  Operators are restored from their persisted arguments; a restored
   Compose has the default p = 1 (p is not in the record), Sequential ignores p, and OneOf / SomeOf /
   OneOrOther in replay mode call EVERY child once, in listed order; each leaf then applies iff it is
   marked applied.  Hence the replay applies the leaves of the tree, in tree order, filtered by the
   applied mark.  (A restored nested Compose still reads one random.random() and compares it with its
   default p = 1.0, which always succeeds: the result does not depend on it; the correspondence run checks
   that nothing else is read.) *)
From Coq Require Import List QArith Bool Arith.
Import ListNotations.
From DV.model Require Import Framework.

Fixpoint leaves (t : node) : list nat :=
  match t with
  | Leaf id _ _ => [id]
  | Comp _ kids | OneOfN _ kids | SomeOfN _ _ _ kids | OneOrOtherN _ kids | SeqN _ kids =>
      (fix go (l : list node) : list nat :=
         match l with [] => [] | k :: tl => leaves k ++ go tl end) kids
  end.

Definition memb (id : nat) (l : list nat) : bool := existsb (Nat.eqb id) l.

Definition replay_trace (t : node) (fired : list nat) : list nat :=
  filter (fun id => memb id fired) (leaves t).

Section Data.
Variable data : Type.
Variable sem : nat -> data -> data.
Definition apply_all (ids : list nat) (d : data) : data := fold_left (fun d id => sem id d) ids d.
Definition replay_data (t : node) (fired : list nat) (d : data) : data := apply_all (replay_trace t fired) d.
End Data.

(* the record: applied flags, mirrored on the tree *)
Inductive rec := RL (id : nat) (applied : bool) | RN (applied : bool) (kids : list rec).
Definition rec_applied (r : rec) : bool := match r with RL _ a => a | RN a _ => a end.
Fixpoint record (t : node) (fired : list nat) : rec :=
  match t with
  | Leaf id _ _ => RL id (memb id fired)
  | Comp _ kids | OneOfN _ kids | SomeOfN _ _ _ kids | OneOrOtherN _ kids | SeqN _ kids =>
      let rs := (fix go (l : list node) : list rec :=
                   match l with [] => [] | k :: tl => record k fired :: go tl end) kids in
      RN (existsb rec_applied rs) rs
  end.

(* flattened (pre-order) list of applied flags, for the correspondence check *)
Fixpoint rec_flags (r : rec) : list bool :=
  match r with
  | RL _ a => [a]
  | RN a kids => a :: (fix go (l : list rec) : list bool :=
                         match l with [] => [] | k :: tl => rec_flags k ++ go tl end) kids
  end.

Fixpoint someof_free (t : node) : bool :=
  match t with
  | Leaf _ _ _ => true
  | SomeOfN _ _ _ _ => false
  | Comp _ kids | OneOfN _ kids | OneOrOtherN _ kids | SeqN _ kids =>
      (fix go (l : list node) : bool :=
         match l with [] => true | k :: tl => someof_free k && go tl end) kids
  end.

(* executable comparison used by the generated correspondence cases *)
Definition check_replay (t : node) (fired replayed : list nat) (flags : list bool) : bool :=
  (if list_eq_dec Nat.eq_dec (replay_trace t fired) replayed then true else false) &&
  (if list_eq_dec Bool.bool_dec (rec_flags (record t fired)) flags then true else false).
