(* Framework.v -- hand-written executable model of the scheduling layer
   (dicaugment/core/composition.py, BasicTransform.__call__), tied to the code by the
   correspondence run harness/corr_framework.py (recorded draws, recording transforms).

   A pipeline is a tree of operators over leaves.  Randomness is explicit: the run
   consumes a list of draws in the order the implementation reads its entropy:
     DU u   -- one call of random.random()            (0 <= u < 1)
     DC l   -- one call of random_utils.choice(...)   (the selected indices)
   Leaf parameter sampling is abstracted into the leaf's semantics (an index-labelled
   recording transform draws nothing).  [run] returns the data after the call, the
   list of leaves that fired (in order) and the unread draws; None means the draw
   list did not match what the tree reads (exhausted, wrong kind, index out of range). *)
From Coq Require Import List QArith Bool Arith Lia.
Import ListNotations.
Open Scope Q_scope.

Inductive draw := DU (u : Q) | DC (l : list nat).

Inductive node :=
| Leaf (id : nat) (p : Q) (always : bool)
| Comp (p : Q) (kids : list node)
| OneOfN (p : Q) (kids : list node)
| SomeOfN (p : Q) (n : nat) (replace : bool) (kids : list node)
| OneOrOtherN (p : Q) (kids : list node)
| SeqN (p : Q) (kids : list node).

Definition node_p (t : node) : Q :=
  match t with
  | Leaf _ p _ | Comp p _ | OneOfN p _ | SomeOfN p _ _ _ | OneOrOtherN p _ | SeqN p _ => p
  end.

Definition Qltb (a b : Q) : bool := negb (Qle_bool b a).

(* get_always_apply: leaves with always_apply, searched through every nested operator *)
Fixpoint always_leaves (t : node) : list node :=
  match t with
  | Leaf id p a => if a then [Leaf id p a] else []
  | Comp _ kids | OneOfN _ kids | SomeOfN _ _ _ kids | OneOrOtherN _ kids | SeqN _ kids =>
      (fix go (l : list node) : list node :=
         match l with [] => [] | k :: tl => always_leaves k ++ go tl end) kids
  end.
Definition always_of_list (kids : list node) : list node := flat_map always_leaves kids.

Section Run.
Variable data : Type.
Variable sem : nat -> data -> data.        (* what leaf [id] does to the data when it fires *)

Definition state : Type := (data * list nat * list draw)%type.

Definition then_ (r : option state) (k : data -> list draw -> option state) : option state :=
  match r with
  | None => None
  | Some (d1, tr1, ds1) =>
      match k d1 ds1 with
      | None => None
      | Some (d2, tr2, ds2) => Some (d2, tr1 ++ tr2, ds2)
      end
  end.

(* the always_apply leaves of a skipped Compose: each is called (unforced); its
   __call__ reads random.random() and fires because always_apply is set *)
Fixpoint fire_always (ls : list node) (d : data) (ds : list draw) : option state :=
  match ls with
  | [] => Some (d, [], ds)
  | Leaf id _ _ :: r =>
      match ds with
      | DU _ :: ds' => then_ (Some (sem id d, [id], ds')) (fire_always r)
      | _ => None
      end
  | _ :: r => None
  end.

(* children in listed order, each called WITHOUT force *)
Definition seq_with (rk : node -> bool -> data -> list draw -> option state)
  : list node -> data -> list draw -> option state :=
  fix go (l : list node) (d : data) (ds : list draw) : option state :=
    match l with
    | [] => Some (d, [], ds)
    | k :: tl => then_ (rk k false d ds) (go tl)
    end.

(* child number i, called with force_apply=True *)
Definition pick_with (rk : node -> bool -> data -> list draw -> option state)
  : list node -> nat -> data -> list draw -> option state :=
  fix sel (l : list node) (i : nat) (d : data) (ds : list draw) : option state :=
    match l, i with
    | k :: _, O => rk k true d ds
    | _ :: tl, S j => sel tl j d ds
    | [], _ => None
    end.

(* the children numbered idx, in that order, each forced *)
Definition picks_with (rk : node -> bool -> data -> list draw -> option state) (kids : list node)
  : list nat -> data -> list draw -> option state :=
  fix go (idx : list nat) (d : data) (ds : list draw) : option state :=
    match idx with
    | [] => Some (d, [], ds)
    | i :: tl => then_ (pick_with rk kids i d ds) (go tl)
    end.

Fixpoint run (t : node) (force : bool) (d : data) (ds : list draw) {struct t} : option state :=
  let rk := fun k f d ds => run k f d ds in
  match t with
  | Leaf id p always =>
      (* random.random() is the left operand of `or`: it is always read *)
      match ds with
      | DU u :: ds' =>
          if Qltb u p || always || force then Some (sem id d, [id], ds') else Some (d, [], ds')
      | _ => None
      end
  | Comp p kids =>
      (* need_to_run = force_apply or random.random() < p  (no draw when forced);
         children are called WITHOUT force; a skipped Compose applies get_always_apply *)
      if force then seq_with rk kids d ds
      else match ds with
           | DU u :: ds' =>
               if Qltb u p then seq_with rk kids d ds' else fire_always (always_of_list kids) d ds'
           | _ => None
           end
  | OneOfN p kids =>
      match kids with
      | [] => Some (d, [], ds)          (* `self.transforms_ps and ...` short-circuits: nothing is read *)
      | _ =>
          if force then
            match ds with
            | DC [i] :: ds1 => pick_with rk kids i d ds1
            | _ => None
            end
          else match ds with
               | DU u :: ds' =>
                   if Qltb u p then
                     match ds' with
                     | DC [i] :: ds1 => pick_with rk kids i d ds1
                     | _ => None
                     end
                   else Some (d, [], ds')
               | _ => None
               end
      end
  | SomeOfN p n replace kids =>
      match kids with
      | [] => Some (d, [], ds)
      | _ =>
          if force then
            match ds with
            | DC idx :: ds1 => if Nat.eqb (length idx) n then picks_with rk kids idx d ds1 else None
            | _ => None
            end
          else match ds with
               | DU u :: ds' =>
                   if Qltb u p then
                     match ds' with
                     | DC idx :: ds1 => if Nat.eqb (length idx) n then picks_with rk kids idx d ds1 else None
                     | _ => None
                     end
                   else Some (d, [], ds')
               | _ => None
               end
      end
  | OneOrOtherN p kids =>
      (* ignores its own force_apply; first child if random.random() < p else the LAST child *)
      match ds with
      | DU u :: ds' =>
          if Qltb u p then pick_with rk kids 0%nat d ds' else pick_with rk kids (pred (length kids)) d ds'
      | _ => None
      end
  | SeqN _ kids =>
      (* Sequential.__call__ takes ( *args, **data ): a force_apply=True handed down by OneOf/SomeOf/
         OneOrOther stays inside the data dict and is forwarded to the FIRST child only (every
         callee strips it from the dict it returns); the operator's own p is never read *)
      match kids with
      | [] => Some (d, [], ds)
      | k :: tl => then_ (run k force d ds) (seq_with rk tl)
      end
  end.

(* ---- the top-level pipeline object (Compose.__call__ with annotation processors) ----
   `transforms = self.transforms if need_to_run else get_always_apply(self.transforms)`, then for EVERY item of that
   list -- a transform or a container alike -- `data = t( **data )` followed, when some processor has
   check_each_transform set, by `_check_data_post_transform`.  The check is recorded as the mark 0 in the trace
   (leaf identifiers start at 1). *)
Definition mark (chk : bool) : list nat := if chk then [O] else [].

Definition top_seq (chk : bool) (rk : node -> bool -> data -> list draw -> option state)
  : list node -> data -> list draw -> option state :=
  fix go (l : list node) (d : data) (ds : list draw) : option state :=
    match l with
    | [] => Some (d, [], ds)
    | k :: tl => then_ (then_ (rk k false d ds) (fun d1 ds1 => Some (d1, mark chk, ds1))) (go tl)
    end.

Fixpoint fire_always_top (chk : bool) (ls : list node) (d : data) (ds : list draw) : option state :=
  match ls with
  | [] => Some (d, [], ds)
  | Leaf id _ _ :: r =>
      match ds with
      | DU _ :: ds' => then_ (Some (sem id d, id :: mark chk, ds')) (fire_always_top chk r)
      | _ => None
      end
  | _ :: r => None
  end.

Definition run_top (chk : bool) (p : Q) (kids : list node) (force : bool) (d : data) (ds : list draw) : option state :=
  let rk := fun k f d ds => run k f d ds in
  if force then top_seq chk rk kids d ds
  else match ds with
       | DU u :: ds' =>
           if Qltb u p then top_seq chk rk kids d ds' else fire_always_top chk (always_of_list kids) d ds'
       | _ => None
       end.

End Run.
