(* class-table facts used by C01; proved by computation over the regenerated tables *)
From Coq Require Import List String Bool.
Import ListNotations.
From DV.gen Require Import Gen_classtab.
From DV.proofs Require Import ClassFacts.
Open Scope string_scope.

Lemma mask_paths_nearest : forallb mask_interp_ok class_table = true.
Proof. vm_compute. reflexivity. Qed.

Lemma target_path_parameters_are_supplied : forallb param_row_ok param_table = true.
Proof. vm_compute. reflexivity. Qed.
(* the table is not empty and covers the rotation classes *)
Lemma param_table_covers_rotations :
  existsb (fun r => String.eqb (fst (fst r)) "ShiftScaleRotate") param_table = true /\
  existsb (fun r => String.eqb (fst (fst r)) "Rotate") param_table = true /\
  existsb (fun r => String.eqb (fst (fst r)) "RandomRotate90") param_table = true.
Proof. vm_compute. repeat split; reflexivity. Qed.
