(* C13 -- Replay reproduces the recorded augmentation.
   Scheduling level (hand-written models Framework.v / Replay.v, validated on every run against
   ReplayCompose on random operator trees: applied flags, leaves applied by the replay, entropy read
   during replay): for every tree WITHOUT SomeOf whose leaves are distinct objects, every draw list
   and every leaf semantics, the replay applies exactly the leaves that fired, in the same order, and
   returns the recorded data -- and it does so without depending on any later draw (replay_data takes
   no draws).  For SomeOf the full statement is refuted by a witness (open known finding).
   Leaf level: the record determines the result iff parameters are drawn in get_params* only; the
   class table (regenerated from the source, helper functions followed transitively) proves that for
   every class but two known exceptions. *)
From Coq Require Import List QArith Bool String Arith.
Import ListNotations.
From DV.gen Require Import Gen_classtab.
From DV.model Require Import Framework Replay.
From DV.proofs Require Import ClassFacts CF_C13 C13_replay.
Open Scope list_scope.

(* full-strength statement (all trees); what is proved is the SomeOf-free fragment *)
Definition C13_replay_statement : Prop :=
  forall (data : Type) (sem : nat -> data -> data) t force d ds d' tr ds',
  NoDup (leaves t) -> run data sem t force d ds = Some (d', tr, ds') ->
  replay_trace t tr = tr /\ replay_data data sem t tr d = d'.

Theorem C13_replay_faithful_partial :
  forall (data : Type) (sem : nat -> data -> data) t force d ds d' tr ds',
  someof_free t = true -> NoDup (leaves t) ->
  run data sem t force d ds = Some (d', tr, ds') ->
  replay_trace t tr = tr /\ replay_data data sem t tr d = d'.
Proof. intros data sem. apply replay_faithful. Qed.
Print Assumptions C13_replay_faithful_partial.

Theorem C13_replay_statement_refuted : ~ C13_replay_statement.
Proof.
  intros S. destruct someof_replay_refuted as (ds & d' & tr & ds' & R & ND & Bad).
  destruct (S _ _ _ _ _ _ _ _ _ ND R) as [_ E]. exact (Bad E).
Qed.
Print Assumptions C13_replay_statement_refuted.

(* the data after any call is the fired leaves applied in firing order (all operators) *)
Theorem C13_result_is_determined_by_the_applied_leaves :
  forall (data : Type) (sem : nat -> data -> data) t force d ds d' tr ds',
  run data sem t force d ds = Some (d', tr, ds') -> d' = apply_all data sem tr d.
Proof. intros data sem t force. apply run_is_fold. Qed.
Print Assumptions C13_result_is_determined_by_the_applied_leaves.

Theorem C13_record_marks_a_leaf_applied_iff_it_fired :
  forall id p a fired, rec_applied (record (Leaf id p a) fired) = memb id fired.
Proof. exact record_leaf. Qed.
Print Assumptions C13_record_marks_a_leaf_applied_iff_it_fired.

(* parameters are drawn in get_params / get_params_dependent_on_targets only (two known exceptions) *)
Definition C13_draws_statement : Prop := forallb draws_inside_ok class_table = true.
Theorem C13_parameters_are_drawn_in_get_params_partial :
  forallb (fun c => draws_inside_ok c || mem (c_name c) c13_known) class_table = true.
Proof. exact draws_inside_partial. Qed.
Print Assumptions C13_parameters_are_drawn_in_get_params_partial.

(* the record: documented keys only (no probability), every key holds the attribute of its own name, the annotation
   parameters the replay is rebuilt from persist each constructor argument under its own name, and the record of a
   Compose carries every constructor argument of Compose except the children and the probability *)
Theorem C13_record_holds_each_setting_under_its_own_name :
  forallb record_row_ok record_table = true /\
  forallb todict_row_ok (filter is_params_row todict_table) = true /\
  Nat.eqb (List.length (filter is_params_row todict_table)) 3 = true /\ Nat.eqb (List.length record_table) 2 = true /\
  compose_record_complete = true.
Proof. exact record_ok. Qed.
Print Assumptions C13_record_holds_each_setting_under_its_own_name.

(* non-vacuity: a nested tree with OneOf / OneOrOther / Sequential satisfies the hypotheses and fires leaves *)
Example C13_concrete :
  let t := Comp 1 [OneOfN 1 [Leaf 1 1 false; SeqN 0 [Leaf 2 1 false; Leaf 3 0 true]]; OneOrOtherN (1#2) [Leaf 4 1 false; Leaf 5 1 false]] in
  someof_free t = true /\
  run (list nat) (fun id d => id :: d) t false [] [DU 0; DU 0; DC [1%nat]; DU 0; DU (1#2); DU (3#4); DU 0]
    = Some ([5; 3; 2]%nat, [2; 3; 5]%nat, []).
Proof. vm_compute. split; reflexivity. Qed.
