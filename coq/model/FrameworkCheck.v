(* FrameworkCheck.v -- evaluation helpers for the framework correspondence files *)
From Coq Require Import List QArith Bool Arith.
Import ListNotations.
From DV.model Require Import Framework.

Fixpoint nat_list_eqb (a b : list nat) : bool :=
  match a, b with
  | [], [] => true
  | x :: a', y :: b' => Nat.eqb x y && nat_list_eqb a' b'
  | _, _ => false
  end.

(* the model must fire exactly the recorded leaves, in order, and read all recorded draws *)
Definition check_run (t : node) (force : bool) (ds : list draw) (expected : list nat) : bool :=
  match run unit (fun _ d => d) t force tt ds with
  | Some (_, tr, []) => nat_list_eqb tr expected
  | _ => false
  end.

Fixpoint bad_idx (n : nat) (l : list bool) : list nat :=
  match l with
  | [] => []
  | b :: tl => if b then bad_idx (S n) tl else n :: bad_idx (S n) tl
  end.
